(* C16 — HTTP/2 requests and responses are decoded as RFC 7540/7541 define them.
   Property theorems only; proofs live in Proofs/{H2FramesProofs,H2MsgProofs,HuffmanProofs,
   HpackRoundtrip,H2FieldsProofs,C16Proofs}.v. *)
From Coq Require Import List NArith Bool.
From HN Require Import Base.Bytes Model.H2Frames Model.Hpack Model.H2Msg Spec.H2Wire Spec.H2Spec
     Proofs.HpackProofs Proofs.HuffmanProofs Proofs.HpackRoundtrip Proofs.H2MsgProofs Proofs.C16Proofs.
Import ListNotations.
Open Scope N_scope.

(* Framing.  For EVERY byte string `concat frags` (a header block or not) and every framing of it —
   control frames before it (anything not on the request stream that does not open another stream's
   block), PADDED with any pad length and any padding octets, PRIORITY fields, CONTINUATION splits at
   any byte (any number of fragments, empty ones included), undefined / END_STREAM flag bits, reserved
   bits, frames of other streams afterwards, every frame up to the 16 KiB cap — the analyser hands
   exactly that byte string to the HPACK decoder (fresh dynamic table), once, and reports from its
   result. *)
Theorem C16_framing :
  forall (ctl trail : list (bool * frame)) (sid : N) (fr : framing) (frags : list bytes),
    forallb (ctl_ok sid) ctl = true -> forallb (trail_ok sid) trail = true ->
    framing_ok fr frags = true -> 0 < sid /\ sid < 2 ^ 31 ->
    parse_request (connection_bytes true ctl sid fr frags trail)
    = finish_request (match hpack_decode dt_new (concat frags) with
                      | DOk hs _ => BOk (absorb stream_empty (to_http_headers hs 0))
                      | DErr => BErr | DPanic => BPanic | DFuel => BErr end).
Proof. exact framing_request. Qed.
Check C16_framing :
  forall (ctl trail : list (bool * frame)) (sid : N) (fr : framing) (frags : list bytes),
    forallb (ctl_ok sid) ctl = true -> forallb (trail_ok sid) trail = true ->
    framing_ok fr frags = true -> 0 < sid /\ sid < 2 ^ 31 ->
    parse_request (connection_bytes true ctl sid fr frags trail)
    = finish_request (match hpack_decode dt_new (concat frags) with
                      | DOk hs _ => BOk (absorb stream_empty (to_http_headers hs 0))
                      | DErr => BErr | DPanic => BPanic | DFuel => BErr end).
Print Assumptions C16_framing.

(* HPACK.  The decoder model inverts every RFC 7541 encoding of a header list: any mix of indexed
   fields, literals with incremental indexing / without indexing / never indexed, indexed or literal
   names, plain or Huffman strings, references into the dynamic table as the encoder's own table
   (insertion, eviction, size updates) defines them — unless static index 15 is referenced (known class k_static15). *)
Theorem C16_hpack_roundtrip :
  forall items : list item,
    items_ok items = true -> k_static15 items = false ->
    exists t, hpack_decode dt_new (hpack_encode items) = DOk (headers_of items) t.
Proof. exact hpack_roundtrip. Qed.
Check C16_hpack_roundtrip :
  forall items : list item,
    items_ok items = true -> k_static15 items = false ->
    exists t, hpack_decode dt_new (hpack_encode items) = DOk (headers_of items) t.
Print Assumptions C16_hpack_roundtrip.

(* Huffman.  The regenerated 257-entry code is a complete prefix code (every code reaches its own
   leaf of the decoding tree through internal nodes only; the tree has no empty branch), and decoding
   inverts encoding with EOS-prefix padding, for every octet string. *)
Theorem C16_huffman_roundtrip : forall s : bytes, huffman_decode (huff_encode s) = Some s.
Proof. exact huffman_roundtrip. Qed.
Check C16_huffman_roundtrip : forall s : bytes, huffman_decode (huff_encode s) = Some s.
Print Assumptions C16_huffman_roundtrip.
Theorem C16_huffman_code_is_complete_prefix_code :
  forallb code_reaches_leaf (seq 0 257) = true /\ complete huff_tree = true.
Proof. split; [exact all_codes_reach_their_leaf|exact huff_tree_complete]. Qed.
Print Assumptions C16_huffman_code_is_complete_prefix_code.

(* The property, requests.  For every connection start (client preface, control frames, the header
   block of a well-formed request header list in any HPACK encoding and any framing, frames of other
   streams) the report — method, path, authority, scheme, ordered header list with positions,
   cookies, referer, user agent, the Accept-Language value handed to the language chooser, p0f-style
   signature — is exactly the one the specification derives from the header list; outside the one
   known class k_static15 (the crate's static table entry 15).  The p0f header lists are applied
   case-insensitively (fix 229155b). *)
Theorem C16_request :
  forall (ctl trail : list (bool * frame)) (sid : N) (fr : framing) (frags : list bytes) (items : list item),
    forallb (ctl_ok sid) ctl = true -> forallb (trail_ok sid) trail = true ->
    framing_ok fr frags = true -> 0 < sid /\ sid < 2 ^ 31 ->
    concat frags = hpack_encode items -> items_ok items = true -> k_static15 items = false ->
    wf_request (headers_of items) = true ->
    exists v, spec_request (headers_of items) = Some v /\
              analyse_request (connection_bytes true ctl sid fr frags trail) = POk v.
Proof. exact request_statement. Qed.
Check C16_request :
  forall (ctl trail : list (bool * frame)) (sid : N) (fr : framing) (frags : list bytes) (items : list item),
    forallb (ctl_ok sid) ctl = true -> forallb (trail_ok sid) trail = true ->
    framing_ok fr frags = true -> 0 < sid /\ sid < 2 ^ 31 ->
    concat frags = hpack_encode items -> items_ok items = true -> k_static15 items = false ->
    wf_request (headers_of items) = true ->
    exists v, spec_request (headers_of items) = Some v /\
              analyse_request (connection_bytes true ctl sid fr frags trail) = POk v.
Print Assumptions C16_request.

Example C16_request_hyps_satisfiable :
  forallb (ctl_ok 3) ex_ctl = true /\ framing_ok ex_framing ex_frags = true /\
  concat ex_frags = hpack_encode ex_items /\ items_ok ex_items = true /\ k_static15 ex_items = false /\
  wf_request (headers_of ex_items) = true /\
  option_map v_signature (spec_request (headers_of ex_items))
  = Some (bs "2:x-custom=[1],x-custom=[1],accept-language=[de, en;q=0.5]:Host,User-Agent,Connection,Accept,Accept-Encoding,Accept-Charset,Keep-Alive:???").
Proof. vm_compute. repeat split; reflexivity. Qed.

(* The same for server responses (no preface; :status, header list, signature). *)
Theorem C16_response :
  forall (ctl trail : list (bool * frame)) (sid : N) (fr : framing) (frags : list bytes) (items : list item),
    forallb (ctl_ok sid) ctl = true -> forallb (trail_ok sid) trail = true ->
    framing_ok fr frags = true -> 0 < sid /\ sid < 2 ^ 31 ->
    concat frags = hpack_encode items -> items_ok items = true -> k_static15 items = false ->
    wf_response (headers_of items) = true ->
    exists w, spec_response (headers_of items) = Some w /\
              analyse_response (connection_bytes false ctl sid fr frags trail) = POk w.
Proof. exact response_statement. Qed.
Check C16_response :
  forall (ctl trail : list (bool * frame)) (sid : N) (fr : framing) (frags : list bytes) (items : list item),
    forallb (ctl_ok sid) ctl = true -> forallb (trail_ok sid) trail = true ->
    framing_ok fr frags = true -> 0 < sid /\ sid < 2 ^ 31 ->
    concat frags = hpack_encode items -> items_ok items = true -> k_static15 items = false ->
    wf_response (headers_of items) = true ->
    exists w, spec_response (headers_of items) = Some w /\
              analyse_response (connection_bytes false ctl sid fr frags trail) = POk w.
Print Assumptions C16_response.

(* The HPACK crate's panic!() and the model's out-of-fuel outcome are unreachable. *)
Theorem C16_decoder_total :
  forall block : bytes, hpack_decode dt_new block <> DPanic /\ hpack_decode dt_new block <> DFuel.
Proof. intros block. split; [apply hpack_decode_no_panic|apply hpack_decode_fuel]. Qed.
Print Assumptions C16_decoder_total.

(* Known defect class (open finding), inhabited by a valid request on which the report differs
   from the specification; and the crate's static table differs from RFC 7541 exactly at index 15. *)
Theorem C16_known_static15_refuted :
  exists items,
    items_ok items = true /\ wf_request (headers_of items) = true /\ k_static15 items = true /\
    exists v, spec_request (headers_of items) = Some v /\ analyse_request (one_frame_request items) <> POk v.
Proof. exact Known_static15_refuted. Qed.
Print Assumptions C16_known_static15_refuted.
Theorem C16_static_table_vs_rfc :
  forallb (fun i => Nat.eqb i 14 || match nth_error Gen.HpackStatic.crate_static_table i, nth_error rfc_static_table i with
                                    | Some a, Some b => header_eqb a b | _, _ => false end) (seq 0 61) = true
  /\ nth_error Gen.HpackStatic.crate_static_table 14 = Some (bs "accept-", [])
  /\ nth_error rfc_static_table 14 = Some (bs "accept-charset", []).
Proof. split; [exact static_tables_agree|exact static_tables_differ_at_15]. Qed.
Print Assumptions C16_static_table_vs_rfc.

(* ---------------------------------------------------------------------------------------------------------
   HTTP/2 inside the packet-level HTTP analyzer.  Model/HttpH2.v gives the two head parsers of
   HttpProcessors for HTTP/1.x and HTTP/2 (HTTP/1 adapter first, then the HTTP/2 adapter behind its can_parse
   gate = the analyse_request / analyse_response of the theorems above); the analyzer theorems of C07 / C01 / C10
   / C15 / C20 are parametric in the parsers, these are their instances for that pair (Proofs/HttpH2Instances.v);
   tied to the real per-packet API by correspondence kind G (Extract/EC16.v). *)
From HN Require Import Base.Cache Base.Keyed Model.HttpFlow Model.HttpAnalyzer Model.HttpH2 Proofs.HttpH2Instances.

Theorem C16_analyzer_isolation :
  forall (tr : list bytes) (st : http_state) (K : fkey),
    http12_within_capacityb st tr = true ->
    http12_within_capacityb st (Keyed.fk bytes fkey http_key fkey_eqb K tr) = true ->
    Keyed.proj fkey (@http_out bytes bytes) fkey_eqb K (http_results parse_req_12 parse_resp_12 st tr)
    = snd (http12_run st (Keyed.fk bytes fkey http_key fkey_eqb K tr)).
Proof. exact http12_isolation. Qed.
Check C16_analyzer_isolation :
  forall (tr : list bytes) (st : http_state) (K : fkey),
    http12_within_capacityb st tr = true ->
    http12_within_capacityb st (Keyed.fk bytes fkey http_key fkey_eqb K tr) = true ->
    Keyed.proj fkey (@http_out bytes bytes) fkey_eqb K (http_results parse_req_12 parse_resp_12 st tr)
    = snd (http12_run st (Keyed.fk bytes fkey http_key fkey_eqb K tr)).
Print Assumptions C16_analyzer_isolation.

(* one HTTP/2 connection start split over two TCP segments, interleaved with an HTTP/1.1 exchange: the
   hypotheses hold, the request is reported at the second segment, and alone = interleaved *)
Example C16_analyzer_example :
  http12_within_capacityb (cache_new 8) ex12_trace = true /\
  Keyed.fk bytes fkey http_key fkey_eqb ex12_ka ex12_trace = ex12_a_alone /\
  http12_within_capacityb (cache_new 8) ex12_a_alone = true /\
  map okind (snd (http12_run (cache_new 8) ex12_trace)) = [0; 0; 0; 0; 0; 0; 0; 1; 1; 2; 0; 0] /\
  Keyed.proj fkey (@http_out bytes bytes) fkey_eqb ex12_ka (http_results parse_req_12 parse_resp_12 (cache_new 8) ex12_trace)
  = snd (http12_run (cache_new 8) ex12_a_alone).
Proof.
  destruct http12_example as (W & Efk & Wa & Hk & _).
  exact (conj W (conj Efk (conj Wa (conj Hk http12_example_isolated)))).
Qed.
