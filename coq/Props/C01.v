(* C01 -- analysis is total: no input can crash, hang or poison an analyzer.
   Property theorems only.  Models: Model/Total*.v -- panic-explicit transcriptions in which every Rust slice
   index, range slice, unsaturated + - * / %, cast and loop is a checked operation yielding Panic where a
   debug-assertions/overflow-checks build panics and OutOfFuel where a loop would not finish within
   (input length + 1) iterations.  Proofs: Proofs/Total*Proofs.v.
   Every statement quantifies over ALL byte lists; the only length hypothesis, where a usize sum or a
   saturating offset occurs, is  len b <= isize_max = 2^63-1  (guaranteed by Rust for every slice).
   NOT covered by these theorems (tied by the whole-entry-point totality cases of harness/c01 only):
   code inside third-party crates (tls-parser, hpack, httparse/nom, pnet beyond the modelled accessors),
   the uptime tracker, HTTP/1 and HTTP/2 message parsing, the database loader, allocation, stack depth. *)
From Coq Require Import List NArith Bool.
From Coq Require Import Strings.Byte.
From HN Require Import Base.Bytes Base.Keyed Model.TotalBase Model.TotalTcpOpt Model.TotalMisc Model.TotalReader
  Model.TotalH2 Model.TotalRaw Model.TotalLink Model.TotalTlsFlow Model.TotalHttp1 Spec.TotalSpec
  Proofs.TotalTcpOptProofs Proofs.TotalH2Proofs Proofs.TotalLinkProofs Proofs.TotalTlsFlowProofs Proofs.TotalHttp1Proofs Proofs.TotalAllProofs Proofs.TotalRecoverProofs.
Import ListNotations.
Open Scope N_scope.

(* (a) TCP option walk of visit_tcp (tcp_process.rs): flag validation + `while let Some(opt) = TcpOptionPacket::new(buf)`, over pnet's TcpOptionPacket accessors; any flags byte, any option bytes *)
Theorem C01_nopanic_optwalk :
  forall (flags : N) (opts : bytes), visit_opts flags opts <> Panic.
Proof. exact visit_opts_nopanic. Qed.
Check C01_nopanic_optwalk :
  forall (flags : N) (opts : bytes), visit_opts flags opts <> Panic.
Print Assumptions C01_nopanic_optwalk.

(* fuel = number of option bytes + 1 is never exhausted: every iteration consumes >= 1 byte (packet_size >= 1) *)
Theorem C01_terminates_optwalk :
  forall (flags : N) (opts : bytes), visit_opts flags opts <> OutOfFuel.
Proof. exact visit_opts_terminates. Qed.
Check C01_terminates_optwalk :
  forall (flags : N) (opts : bytes), visit_opts flags opts <> OutOfFuel.
Print Assumptions C01_terminates_optwalk.

(* the walk itself never even fails: the error value is returned exactly for invalid flag combinations *)
Theorem C01_optwalk_err_only_on_flags :
  forall (flags : N) (opts : bytes),
    visit_opts flags opts = Err <-> is_valid flags (tcp_type_of flags) = false.
Proof. exact visit_opts_err_iff. Qed.
Check C01_optwalk_err_only_on_flags :
  forall (flags : N) (opts : bytes),
    visit_opts flags opts = Err <-> is_valid flags (tcp_type_of flags) = false.
Print Assumptions C01_optwalk_err_only_on_flags.

(* sensitivity witness: the code before fix d4cac2c (window-scale `data[0]`) panics in the model on option bytes 03 02; the code as it is returns normally on them *)
Theorem C01_prefix_wscale_refuted :
  visit_opts_gen false 2 [x03; x02] = Panic /\ visit_opts 2 [x03; x02] <> Panic.
Proof. split; [exact prefix_wscale_panics | rewrite fixed_wscale_returns; discriminate]. Qed.
Check C01_prefix_wscale_refuted :
  visit_opts_gen false 2 [x03; x02] = Panic /\ visit_opts 2 [x03; x02] <> Panic.
Print Assumptions C01_prefix_wscale_refuted.

(* (e) visit_tcp on an IPv4 segment: option walk, then mtu.rs and window_size.rs::detect_win_multiplicator on its results *)
Theorem C01_nopanic_visit_tcp_v4 :
  forall (flags window ihl doff : N) (opts : bytes), visit_tcp_v4 flags window ihl doff opts <> Panic.
Proof. intros. apply visit_tcp_v4_total. Qed.
Check C01_nopanic_visit_tcp_v4 :
  forall (flags window ihl doff : N) (opts : bytes), visit_tcp_v4 flags window ihl doff opts <> Panic.
Print Assumptions C01_nopanic_visit_tcp_v4.

Theorem C01_terminates_visit_tcp_v4 :
  forall (flags window ihl doff : N) (opts : bytes), visit_tcp_v4 flags window ihl doff opts <> OutOfFuel.
Proof. intros. apply visit_tcp_v4_total. Qed.
Check C01_terminates_visit_tcp_v4 :
  forall (flags window ihl doff : N) (opts : bytes), visit_tcp_v4 flags window ihl doff opts <> OutOfFuel.
Print Assumptions C01_terminates_visit_tcp_v4.

(* window_size.rs: every `%` and `/` is guarded by a non-zero divisor, for ALL argument values (not only u16) *)
Theorem C01_nopanic_detect_win :
  forall (window mss total_header : N) (has_ts v6 : bool), detect_win window mss total_header has_ts v6 <> Panic.
Proof. intros. apply detect_win_total. Qed.
Check C01_nopanic_detect_win :
  forall (window mss total_header : N) (has_ts v6 : bool), detect_win window mss total_header has_ts v6 <> Panic.
Print Assumptions C01_nopanic_detect_win.

(* ip_options.rs calculate_ipv6_length over an Ipv6Packet view (pnet only builds one over >= 40 bytes): `payload[1]` is guarded *)
Theorem C01_nopanic_ipv6_olen :
  forall p : bytes, 40 <= len p -> ipv6_olen p <> Panic.
Proof. intros. apply ipv6_olen_total; assumption. Qed.
Check C01_nopanic_ipv6_olen :
  forall p : bytes, 40 <= len p -> ipv6_olen p <> Panic.
Print Assumptions C01_nopanic_ipv6_olen.

(* (b) TlsClientHelloReader::add_bytes: any reader state (any buffered bytes), any chunk, any behaviour of the record parser behind it (parse is an arbitrary function: tls-parser is not modelled) *)
Theorem C01_nopanic_reader :
  forall (parse : bytes -> pres) (st : rstate) (data : bytes), add_bytes parse st data <> Panic.
Proof. intros. apply add_bytes_total. Qed.
Check C01_nopanic_reader :
  forall (parse : bytes -> pres) (st : rstate) (data : bytes), add_bytes parse st data <> Panic.
Print Assumptions C01_nopanic_reader.

Theorem C01_terminates_reader :
  forall (parse : bytes -> pres) (st : rstate) (data : bytes), add_bytes parse st data <> OutOfFuel.
Proof. intros. apply add_bytes_total. Qed.
Check C01_terminates_reader :
  forall (parse : bytes -> pres) (st : rstate) (data : bytes), add_bytes parse st data <> OutOfFuel.
Print Assumptions C01_terminates_reader.

(* any sequence of chunks on one reader *)
Theorem C01_nopanic_reader_stream :
  forall (st : rstate) (chunks : list (bytes * pres)), feed st chunks <> Panic.
Proof. intros. apply feed_total. Qed.
Check C01_nopanic_reader_stream :
  forall (st : rstate) (chunks : list (bytes * pres)), feed st chunks <> Panic.
Print Assumptions C01_nopanic_reader_stream.

(* (c) Http2Parser::parse_frames / parse_single_frame (http2_parser.rs) *)
Theorem C01_nopanic_frames :
  forall data : bytes, parse_frames data <> Panic.
Proof. intros. apply parse_frames_total. Qed.
Check C01_nopanic_frames :
  forall data : bytes, parse_frames data <> Panic.
Print Assumptions C01_nopanic_frames.

(* fuel = length + 1: every iteration consumes 9 + length >= 9 bytes *)
Theorem C01_terminates_frames :
  forall data : bytes, parse_frames data <> OutOfFuel.
Proof. intros. apply parse_frames_total. Qed.
Check C01_terminates_frames :
  forall data : bytes, parse_frames data <> OutOfFuel.
Print Assumptions C01_terminates_frames.

(* parse_frames_with_offset: the usize sum of total_size() cannot overflow because the frames account for at most len data bytes *)
Theorem C01_nopanic_frames_with_offset :
  forall data : bytes, len data <= isize_max -> parse_frames_with_offset data <> Panic.
Proof. intros. apply parse_frames_with_offset_total; assumption. Qed.
Check C01_nopanic_frames_with_offset :
  forall data : bytes, len data <= isize_max -> parse_frames_with_offset data <> Panic.
Print Assumptions C01_nopanic_frames_with_offset.

Theorem C01_terminates_frames_with_offset :
  forall data : bytes, len data <= isize_max -> parse_frames_with_offset data <> OutOfFuel.
Proof. intros. apply parse_frames_with_offset_total; assumption. Qed.
Check C01_terminates_frames_with_offset :
  forall data : bytes, len data <= isize_max -> parse_frames_with_offset data <> OutOfFuel.
Print Assumptions C01_terminates_frames_with_offset.

(* and the reported number of consumed bytes never exceeds the input *)
Theorem C01_frames_consumed_le_input :
  forall (data : bytes) (fs : list frame) (n : N),
    len data <= isize_max -> parse_frames_with_offset data = Ok (fs, n) -> n <= len data.
Proof. intros data fs n H E. destruct (parse_frames_with_offset_ok data H) as (fs' & n' & E' & Hn). rewrite E in E'. inversion E'. subst. exact Hn. Qed.
Check C01_frames_consumed_le_input :
  forall (data : bytes) (fs : list frame) (n : N),
    len data <= isize_max -> parse_frames_with_offset data = Ok (fs, n) -> n <= len data.
Print Assumptions C01_frames_consumed_le_input.

(* akamai_extractor.rs parse_settings_payload: `while offset.saturating_add(6) <= payload.len()` *)
Theorem C01_nopanic_settings :
  forall p : bytes, len p <= isize_max -> parse_settings_payload p <> Panic.
Proof. intros. apply parse_settings_payload_total; assumption. Qed.
Check C01_nopanic_settings :
  forall p : bytes, len p <= isize_max -> parse_settings_payload p <> Panic.
Print Assumptions C01_nopanic_settings.

(* fuel = length + 1: the offset advances by 6 per iteration (the saturating add cannot stick below the slice bound) *)
Theorem C01_terminates_settings :
  forall p : bytes, len p <= isize_max -> parse_settings_payload p <> OutOfFuel.
Proof. intros. apply parse_settings_payload_total; assumption. Qed.
Check C01_terminates_settings :
  forall p : bytes, len p <= isize_max -> parse_settings_payload p <> OutOfFuel.
Print Assumptions C01_terminates_settings.

Theorem C01_nopanic_window_update :
  forall p : bytes, parse_window_update_payload p <> Panic.
Proof. intros. apply parse_window_update_payload_total. Qed.
Check C01_nopanic_window_update :
  forall p : bytes, parse_window_update_payload p <> Panic.
Print Assumptions C01_nopanic_window_update.

Theorem C01_nopanic_priority :
  forall p : bytes, parse_priority_payload p <> Panic.
Proof. intros. apply parse_priority_payload_total. Qed.
Check C01_nopanic_priority :
  forall p : bytes, parse_priority_payload p <> Panic.
Print Assumptions C01_nopanic_priority.

(* Http2FingerprintExtractor::add_bytes (`&self.buffer[start_offset..]` + the splitter + SETTINGS parser): total from every state satisfying the invariant "offset is 0 until a fingerprint exists", which the step preserves and the initial state satisfies *)
Theorem C01_extractor_step :
  forall (st : xstate) (data : bytes), x_inv st -> len (x_buf st ++ data) <= isize_max ->
    (x_add_bytes st data <> Panic /\ x_add_bytes st data <> OutOfFuel) /\
    (forall st' b, x_add_bytes st data = Ok (st', b) -> x_inv st').
Proof. intros st data Hi Hl. exact (x_add_bytes_total st data Hi Hl). Qed.
Check C01_extractor_step :
  forall (st : xstate) (data : bytes), x_inv st -> len (x_buf st ++ data) <= isize_max ->
    (x_add_bytes st data <> Panic /\ x_add_bytes st data <> OutOfFuel) /\
    (forall st' b, x_add_bytes st data = Ok (st', b) -> x_inv st').
Print Assumptions C01_extractor_step.

Theorem C01_extractor_init :
  x_inv xstate0.
Proof. right; reflexivity. Qed.
Check C01_extractor_init :
  x_inv xstate0.
Print Assumptions C01_extractor_init.

(* (d) raw_filter.rs extract_quick_info (Ethernet / raw IP / NULL, IPv4 with IHL 0..15, IPv6): every packet[a], packet[a..] is guarded *)
Theorem C01_nopanic_rawfilter :
  forall frame : bytes, extract_quick_info frame <> Panic.
Proof. intros. apply extract_quick_info_total. Qed.
Check C01_nopanic_rawfilter :
  forall frame : bytes, extract_quick_info frame <> Panic.
Print Assumptions C01_nopanic_rawfilter.

(* packet_hash.rs of the TCP, TLS and HTTP crates *)
Theorem C01_nopanic_hash_tcp :
  forall frame : bytes, hash_source_ip frame <> Panic.
Proof. intros. apply hash_source_ip_total. Qed.
Check C01_nopanic_hash_tcp :
  forall frame : bytes, hash_source_ip frame <> Panic.
Print Assumptions C01_nopanic_hash_tcp.

Theorem C01_nopanic_hash_tls :
  forall frame : bytes, tls_hash_flow frame <> Panic.
Proof. intros. apply tls_hash_flow_total. Qed.
Check C01_nopanic_hash_tls :
  forall frame : bytes, tls_hash_flow frame <> Panic.
Print Assumptions C01_nopanic_hash_tls.

Theorem C01_nopanic_hash_http :
  forall frame : bytes, http_hash_flow frame <> Panic.
Proof. intros. apply http_hash_flow_total. Qed.
Check C01_nopanic_hash_http :
  forall frame : bytes, http_hash_flow frame <> Panic.
Print Assumptions C01_nopanic_hash_http.

(* packet_parser.rs parse_packet / detect_datalink_format (link-layer step of every per-packet path) *)
Theorem C01_nopanic_parse_packet :
  forall frame : bytes, parse_packet frame <> Panic.
Proof. intros. apply parse_packet_total. Qed.
Check C01_nopanic_parse_packet :
  forall frame : bytes, parse_packet frame <> Panic.
Print Assumptions C01_nopanic_parse_packet.

Theorem C01_nopanic_detect_datalink :
  forall frame : bytes, detect_datalink_format frame <> Panic.
Proof. intros. apply detect_datalink_format_total. Qed.
Check C01_nopanic_detect_datalink :
  forall frame : bytes, detect_datalink_format frame <> Panic.
Print Assumptions C01_nopanic_detect_datalink.

(* TLS analyzer flow table (process.rs process_tcp_packet + is_tls_traffic) around the reader: total for every table, flow and payload *)
Theorem C01_nopanic_tls_flow :
  forall (parse : bytes -> pres) (t : ftable) (f : N) (payload : bytes),
    tls_step parse t f payload <> Panic /\ tls_step parse t f payload <> OutOfFuel.
Proof. intros. apply tls_step_total. Qed.
Check C01_nopanic_tls_flow :
  forall (parse : bytes -> pres) (t : ftable) (f : N) (payload : bytes),
    tls_step parse t f payload <> Panic /\ tls_step parse t f payload <> OutOfFuel.
Print Assumptions C01_nopanic_tls_flow.

(* no poisoning of a 4-tuple: when the reader returned an error (or a signature) the flow is removed from the table ... *)
Theorem C01_tls_flow_error_forgets :
  forall (parse : bytes -> pres) (t : ftable) (f : N) (p : bytes) (t' : ftable) (rep : bool) (o : rout),
    tls_step parse t f p = Ok (t', rep, Some o) -> o <> RNone -> ffind t' f = None.
Proof. exact tls_step_forgets. Qed.
Check C01_tls_flow_error_forgets :
  forall (parse : bytes -> pres) (t : ftable) (f : N) (p : bytes) (t' : ftable) (rep : bool) (o : rout),
    tls_step parse t f p = Ok (t', rep, Some o) -> o <> RNone -> ffind t' f = None.
Print Assumptions C01_tls_flow_error_forgets.

(* ... so the next segment on that same 4-tuple is reported exactly as on a table that never saw the flow (the reader itself keeps the bad record on Err: C01_nopanic_reader's model; the removal is what recovers) *)
Theorem C01_tls_flow_recovers_same_flow :
  forall (parse : bytes -> pres) (t : ftable) (f : N) (bad : bytes) (t' : ftable) (rep : bool) (p : bytes),
    tls_step parse t f bad = Ok (t', rep, Some RErr) ->
    exists t1 t2 out ro, tls_step parse t' f p = Ok (t1, out, ro) /\ tls_step parse (fremove t f) f p = Ok (t2, out, ro).
Proof. exact tls_recovers_same_flow. Qed.
Check C01_tls_flow_recovers_same_flow :
  forall (parse : bytes -> pres) (t : ftable) (f : N) (bad : bytes) (t' : ftable) (rep : bool) (p : bytes),
    tls_step parse t f bad = Ok (t', rep, Some RErr) ->
    exists t1 t2 out ro, tls_step parse t' f p = Ok (t1, out, ro) /\ tls_step parse (fremove t f) f p = Ok (t2, out, ro).
Print Assumptions C01_tls_flow_recovers_same_flow.

(* and a segment never touches another flow *)
Theorem C01_tls_flow_others_untouched :
  forall (parse : bytes -> pres) (t : ftable) (f : N) (p : bytes) (t' : ftable) (rep : bool) (o : option rout) (g : N),
    tls_step parse t f p = Ok (t', rep, o) -> (g =? f) = false -> ffind t' g = ffind t g.
Proof. exact tls_step_other_flows. Qed.
Check C01_tls_flow_others_untouched :
  forall (parse : bytes -> pres) (t : ftable) (f : N) (p : bytes) (t' : ftable) (rep : bool) (o : option rout) (g : N),
    tls_step parse t f p = Ok (t', rep, o) -> (g =? f) = false -> ffind t' g = ffind t g.
Print Assumptions C01_tls_flow_others_untouched.

(* head layout of Http1Parser::parse_request / parse_response (head_of, blank-line test, split into lines, lines[0], &lines[1..header_end]): total for every byte string and whatever the start-line / header parsers decide on a non-empty first line; rests on the modelled fact that both start-line parsers reject the empty line *)
Theorem C01_nopanic_http1_head :
  forall (ok : bool) (data : bytes), parse_head ok data <> Panic /\ parse_head ok data <> OutOfFuel.
Proof. intros. apply parse_head_total. Qed.
Check C01_nopanic_http1_head :
  forall (ok : bool) (data : bytes), parse_head ok data <> Panic /\ parse_head ok data <> OutOfFuel.
Print Assumptions C01_nopanic_http1_head.

(* a head that starts with an empty line (leading CRLF / LF) and contains a blank line is answered with the error value *)
Theorem C01_http1_empty_first_line_is_err :
  forall (ok : bool) (data : bytes) (ls : list bytes),
    has_blank_line (head_of data) = true -> lines_of (head_of data) = [] :: ls -> parse_head ok data = Ok HErr.
Proof. exact parse_head_empty_first_line. Qed.
Check C01_http1_empty_first_line_is_err :
  forall (ok : bool) (data : bytes) (ls : list bytes),
    has_blank_line (head_of data) = true -> lines_of (head_of data) = [] :: ls -> parse_head ok data = Ok HErr.
Print Assumptions C01_http1_empty_first_line_is_err.

(* sensitivity witness: taking the slice before the start line is parsed panics in the model on CR LF CR LF; the code as it is returns Err *)
Theorem C01_http1_slice_first_refuted :
  parse_head_slice_first true [x0d; x0a; x0d; x0a] = Panic /\ parse_head true [x0d; x0a; x0d; x0a] = Ok HErr.
Proof. split; [exact slice_first_panics | exact (proj1 as_is_returns_err)]. Qed.
Check C01_http1_slice_first_refuted :
  parse_head_slice_first true [x0d; x0a; x0d; x0a] = Panic /\ parse_head true [x0d; x0a; x0d; x0a] = Ok HErr.
Print Assumptions C01_http1_slice_first_refuted.

(* recovery, generic over every keyed analyzer (state confined to the slot of the connection identity;
   identity = None for frames from which none can be read): after ANY history whose inputs never carry the
   probe's identity, the probe is reported exactly as on the initial state.  Same lemma as C07_no_disable
   (Proofs/KeyedProofs.v no_disable), instantiated with identities  option K.
   That the real analyzers ARE keyed machines is NOT proved from source: it is tied by the
   history-then-probe correspondence cases (H lines) of harness/c01 and by C07's isolation runs. *)
Theorem C01_recovers :
  forall (P K S O : Type) (ident : P -> option K) (keqb : K -> K -> bool),
    (forall a b, keqb a b = true <-> a = b) ->
    forall (lstep : option S -> P -> option S * list O) (h probe : list P) (s : option K -> option S) (k : K),
    (forall p, In p h -> ident p <> Some k) ->
    proj (option K) O (okeqb keqb) (Some k) (snd (run P (option K) S O ident (okeqb keqb) lstep s (h ++ probe)))
    = proj (option K) O (okeqb keqb) (Some k) (snd (run P (option K) S O ident (okeqb keqb) lstep s probe)).
Proof. exact recovers. Qed.
Check C01_recovers :
  forall (P K S O : Type) (ident : P -> option K) (keqb : K -> K -> bool),
    (forall a b, keqb a b = true <-> a = b) ->
    forall (lstep : option S -> P -> option S * list O) (h probe : list P) (s : option K -> option S) (k : K),
    (forall p, In p h -> ident p <> Some k) ->
    proj (option K) O (okeqb keqb) (Some k) (snd (run P (option K) S O ident (okeqb keqb) lstep s (h ++ probe)))
    = proj (option K) O (okeqb keqb) (Some k) (snd (run P (option K) S O ident (okeqb keqb) lstep s probe)).
Print Assumptions C01_recovers.

(* ====================================================================================================
   Recovery for the CONCRETE packet-level analyzers (Model/TlsAnalyzer.v, Model/TcpAnalyzer.v), which are proved
   to be keyed machines (Props/C07.v C07_tls_is_keyed / C07_tcp_is_keyed): after ANY history h of arbitrary
   frames -- junk, truncated frames, other connections; the only conditions: no frame of h carries the probe's
   key, and the table never evicts (TTL expiry is outside the models) -- the probe connection is analysed
   exactly as by a fresh analyzer: the results attributed to it in the long run are, in order, the results of
   the probe alone on an empty table.  Key: TLS = directed 4-tuple, TCP = (connection, role).
   Proofs: Proofs/DischargeInstances.v (from the isolation theorems behind C07_*_no_disable). *)
From Coq Require Import ZArith.
From HN Require Import Model.TlsAnalyzer Proofs.KeyedExamples Proofs.DischargeInstances Proofs.DischargeExamples.
From HN Require Model.TcpAnalyzer Model.Uptime.

Theorem C01_recovers_tls : forall (cap : N) (h probe : list bytes) (k : N),
  (forall f, In f h -> tls_key f <> k) -> (forall f, In f probe -> tls_key f = k) ->
  tls_within_capacityb cap [] (h ++ probe) = true -> tls_within_capacityb cap [] probe = true ->
  proj N tls_out N.eqb k (tls_results cap [] (h ++ probe)) = snd (tls_run cap [] probe).
Proof. exact recovers_tls. Qed.
Check C01_recovers_tls : forall (cap : N) (h probe : list bytes) (k : N),
  (forall f, In f h -> tls_key f <> k) -> (forall f, In f probe -> tls_key f = k) ->
  tls_within_capacityb cap [] (h ++ probe) = true -> tls_within_capacityb cap [] probe = true ->
  proj N tls_out N.eqb k (tls_results cap [] (h ++ probe)) = snd (tls_run cap [] probe).
Print Assumptions C01_recovers_tls.

Theorem C01_recovers_tcp :
  forall (db : list (bytes * list N)) (cap : N) (h probe : list TcpAnalyzer.tcp_event) (k : Uptime.connection_key),
  (forall e, In e h -> TcpAnalyzer.tcp_key db e <> k) -> (forall e, In e probe -> TcpAnalyzer.tcp_key db e = k) ->
  TcpAnalyzer.tcp_within_capacityb db cap [] (h ++ probe) = true -> TcpAnalyzer.tcp_within_capacityb db cap [] probe = true ->
  proj Uptime.connection_key TcpAnalyzer.tcp_result Uptime.key_eqb k (TcpAnalyzer.tcp_results db cap [] (h ++ probe))
  = snd (TcpAnalyzer.tcp_run db cap [] probe).
Proof. exact recovers_tcp. Qed.
Check C01_recovers_tcp :
  forall (db : list (bytes * list N)) (cap : N) (h probe : list TcpAnalyzer.tcp_event) (k : Uptime.connection_key),
  (forall e, In e h -> TcpAnalyzer.tcp_key db e <> k) -> (forall e, In e probe -> TcpAnalyzer.tcp_key db e = k) ->
  TcpAnalyzer.tcp_within_capacityb db cap [] (h ++ probe) = true -> TcpAnalyzer.tcp_within_capacityb db cap [] probe = true ->
  proj Uptime.connection_key TcpAnalyzer.tcp_result Uptime.key_eqb k (TcpAnalyzer.tcp_results db cap [] (h ++ probe))
  = snd (TcpAnalyzer.tcp_run db cap [] probe).
Print Assumptions C01_recovers_tcp.

(* satisfiable: histories of junk (14 zero bytes, 60 x ff), a truncated frame, complete and repeated foreign
   connections; the probe is reported (TLS: on its second segment; TCP: 1000 Hz on its ACK) *)
Example C01_recovers_tls_example :
  (forall f, In f c01_history -> tls_key f <> tls_kA) /\ (forall f, In f [tlsA1; tlsA2] -> tls_key f = tls_kA) /\
  tls_within_capacityb 8 [] (c01_history ++ [tlsA1; tlsA2]) = true /\ tls_within_capacityb 8 [] [tlsA1; tlsA2] = true /\
  map is_report (snd (tls_run 8 [] [tlsA1; tlsA2])) = [false; true].
Proof. exact c01_tls_example. Qed.
Example C01_recovers_tcp_example :
  (forall e, In e c01_tcp_history -> TcpAnalyzer.tcp_key [] e <> tcp_kA) /\
  (forall e, In e [tcpA1; tcpA2] -> TcpAnalyzer.tcp_key [] e = tcp_kA) /\
  TcpAnalyzer.tcp_within_capacityb [] 8 [] (c01_tcp_history ++ [tcpA1; tcpA2]) = true /\
  TcpAnalyzer.tcp_within_capacityb [] 8 [] [tcpA1; tcpA2] = true /\
  map up_freq (snd (TcpAnalyzer.tcp_run [] 8 [] [tcpA1; tcpA2])) = [None; Some 1000%Z].
Proof. exact c01_tcp_example. Qed.

(* ---------------------------------------------------------------- HTTP analyzer model: key = the connection *)
From HN Require Import Base.Cache Model.HttpFlow Model.HttpAnalyzer Proofs.HttpKeyed Proofs.HttpExamples.
From HN Require Model.HttpRecog.

Theorem C01_recovers_http : forall (Req Resp : Type) (parse_req : bytes -> option Req) (parse_resp : bytes -> option Resp)
    (h probe : list bytes) (st : http_state) (K : fkey),
  (forall f, In f h -> http_key f <> K) -> (forall f, In f probe -> http_key f = K) ->
  http_within_capacityb parse_req parse_resp st (h ++ probe) = true -> http_within_capacityb parse_req parse_resp st probe = true ->
  proj fkey (@http_out Req Resp) fkey_eqb K (http_results parse_req parse_resp st (h ++ probe))
  = snd (HttpAnalyzer.http_run parse_req parse_resp st probe).
Proof. exact @http_recovers. Qed.
Check C01_recovers_http : forall (Req Resp : Type) (parse_req : bytes -> option Req) (parse_resp : bytes -> option Resp)
    (h probe : list bytes) (st : http_state) (K : fkey),
  (forall f, In f h -> http_key f <> K) -> (forall f, In f probe -> http_key f = K) ->
  http_within_capacityb parse_req parse_resp st (h ++ probe) = true -> http_within_capacityb parse_req parse_resp st probe = true ->
  proj fkey (@http_out Req Resp) fkey_eqb K (http_results parse_req parse_resp st (h ++ probe))
  = snd (HttpAnalyzer.http_run parse_req parse_resp st probe).
Print Assumptions C01_recovers_http.

Example C01_recovers_http_example :
  (forall f, In f http_history -> http_key f <> http_kA) /\
  (forall f, In f [hA_syn; hA_r1; hA_r2; hA_resp] -> http_key f = http_kA) /\
  http_within_capacityb HttpRecog.recog_req HttpRecog.recog_resp (cache_new 8) (http_history ++ [hA_syn; hA_r1; hA_r2; hA_resp]) = true /\
  http_within_capacityb HttpRecog.recog_req HttpRecog.recog_resp (cache_new 8) [hA_syn; hA_r1; hA_r2; hA_resp] = true.
Proof. exact http_recovers_example. Qed.
