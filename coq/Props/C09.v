(* C09 -- HTTP stream reassembly is invariant to segmentation, sequence origin and order.
   Property theorems only; proofs live in Proofs/StreamProofs.v, StreamReorder.v, StreamOoo.v,
   StreamSpecProps.v, StreamRefute.v, RecogProofs.v.

   FULL STATEMENT (property text): for every trace of a SYN-opened connection whose client bytes
   start with a request head and whose server bytes start with a response head,
       outs (map wire tr) = spec_outs tr
   for EVERY partition, EVERY ISN (incl. wrapping ones) and EVERY arrival order.
   Three of the original defects are repaired in /repo (exact retransmission, client half-close,
   wrapping sequence space: see the *_former_witness_agrees theorems); what is left are the classes
   of Spec/StreamSpec.v `known`, each with a *_refuted witness.  What is proved is the statement
   on the complement of those classes:

   C09_reordered  known tr = false -> model = SPEC, for all head parsers that are prefix-stable
                 (a head stays the same head when bytes follow it) and accept nothing shorter than
                 4 bytes; all partitions, ALL ARRIVAL ORDERS, EVERY ISN including those whose
                 sequence space wraps inside the head, any number of interleaved connections up to
                 the cache capacity, any interleaving of the two directions, anything at all after
                 a head was reported.  `known tr = false` says, for each direction until its head
                 is reported: every data segment starts less than 2^31 - 1 bytes beyond the ISN
                 (far: the limit of 32-bit serial arithmetic), carries no byte already received
                 unless it is an exact retransmission (dup), and after its arrival EITHER no hole
                 is open OR the bytes concatenated across the hole are not accepted by the head
                 parser OR the gap-free prefix is accepted too (gap); and no client data segment
                 carries RST, or FIN while the request is unreported, before both heads are
                 reported (fin).  Decidable on the trace and the parser.
   C09_reordered_http1  the same for the HTTP/1 recogniser of Model/HttpRecog.v with NO hypothesis
                 on the parser left: prefix stability is proved for it (RecogProofs.v
                 recog_req_stable / recog_resp_stable).
   C09_inorder   the parser-agnostic theorem: under the STRICT classes (known_strict: every arrival
                 that is not the next in-order segment, or whose raw sequence number is not above
                 the ISN, is flagged) model = SPEC for ALL parsers with the 4-byte minimum only.
   C09_once / C09_once_reordered   at most once per connection and only on a packet of the sending
                 direction (of the SPEC for every trace: C09_spec_once, C09_spec_direction).
   C09_rebuild_order_invariant / C09_rebuild_any_order   what the model rebuilds does not depend
                 on arrival order when the stored sequence numbers are distinct and lie within 2^31
                 of one reference point (then every choice of sort base orders them alike).
   STILL PARTIAL: gap (no contiguity check; needs the server ISN, which the code does not record),
   dup (re-segmented retransmissions) and fin (RST / early FIN) are genuine defects and stay
   excluded; far is the representational limit of 32-bit sequence numbers; for parsers other than
   the HTTP/1 recogniser prefix stability is a hypothesis (for the real HTTP/1 parser it is the
   content of C05, for HTTP/2 it is not established and HTTP/2 traffic is not generated). *)
From Coq Require Import List NArith Bool.
From Coq Require Import Strings.Byte.
From HN Require Import Base.Bytes Base.Cache Base.Tcp Model.HttpFlow Model.HttpRecog Spec.StreamSpec
  Proofs.StreamProofs Proofs.StreamRefute Proofs.RecogProofs Proofs.StreamOoo Proofs.StreamSpecProps
  Proofs.StreamReorder.
From Coq Require Import Permutation.
Import ListNotations.
Open Scope N_scope.

Theorem C09_inorder :
  forall (Req Resp : Type) (parse_req : bytes -> option Req) (parse_resp : bytes -> option Resp),
    (forall d r, parse_req d = Some r -> 4 <= len_N d) ->
    (forall d r, parse_resp d = Some r -> 4 <= len_N d) ->
    forall (cap : N) (tr : list event),
      (forall e, In e tr -> e_seq e < two32) ->
      spec_wf parse_req parse_resp tr = true ->
      known_strict parse_req parse_resp tr = false ->
      spec_conn_count parse_req parse_resp tr <= cap ->
      outs parse_req parse_resp cap (map wire tr) = spec_outs parse_req parse_resp tr.
Proof. intros Req Resp pq pr Hq Hr cap tr. exact (inorder_model_spec pq pr Hq Hr cap tr). Qed.
Check C09_inorder :
  forall (Req Resp : Type) (parse_req : bytes -> option Req) (parse_resp : bytes -> option Resp),
    (forall d r, parse_req d = Some r -> 4 <= len_N d) ->
    (forall d r, parse_resp d = Some r -> 4 <= len_N d) ->
    forall (cap : N) (tr : list event),
      (forall e, In e tr -> e_seq e < two32) ->
      spec_wf parse_req parse_resp tr = true ->
      known_strict parse_req parse_resp tr = false ->
      spec_conn_count parse_req parse_resp tr <= cap ->
      outs parse_req parse_resp cap (map wire tr) = spec_outs parse_req parse_resp tr.
Print Assumptions C09_inorder.

(* the instance the correspondence run executes (MODEL and SPEC columns of Extract/EC09.v) *)
Theorem C09_inorder_http1 :
  forall (cap : N) (tr : list event),
    (forall e, In e tr -> e_seq e < two32) ->
    spec_wf recog_req recog_resp tr = true ->
    known_strict recog_req recog_resp tr = false ->
    spec_conn_count recog_req recog_resp tr <= cap ->
    outs recog_req recog_resp cap (map wire tr) = spec_outs recog_req recog_resp tr.
Proof. exact (inorder_model_spec recog_req recog_resp recog_req_min recog_resp_min). Qed.
Check C09_inorder_http1 :
  forall (cap : N) (tr : list event),
    (forall e, In e tr -> e_seq e < two32) ->
    spec_wf recog_req recog_resp tr = true ->
    known_strict recog_req recog_resp tr = false ->
    spec_conn_count recog_req recog_resp tr <= cap ->
    outs recog_req recog_resp cap (map wire tr) = spec_outs recog_req recog_resp tr.
Print Assumptions C09_inorder_http1.

(* ---- benign reordering: model = SPEC on the complement of the known-defect classes ---- *)
Theorem C09_reordered :
  forall (Req Resp : Type) (parse_req : bytes -> option Req) (parse_resp : bytes -> option Resp),
    (forall d r, parse_req d = Some r -> 4 <= len_N d) ->
    (forall d r, parse_resp d = Some r -> 4 <= len_N d) ->
    (forall d e r, parse_req d = Some r -> parse_req (d ++ e) = Some r) ->
    (forall d e r, parse_resp d = Some r -> parse_resp (d ++ e) = Some r) ->
    forall (cap : N) (tr : list event),
      (forall e, In e tr -> e_seq e < two32) ->
      spec_wf parse_req parse_resp tr = true ->
      known parse_req parse_resp tr = false ->
      spec_conn_count parse_req parse_resp tr <= cap ->
      outs parse_req parse_resp cap (map wire tr) = spec_outs parse_req parse_resp tr.
Proof. intros Req Resp pq pr Hq Hr Sq Sr cap tr. exact (reordered_model_spec pq pr Hq Hr Sq Sr cap tr). Qed.
Check C09_reordered :
  forall (Req Resp : Type) (parse_req : bytes -> option Req) (parse_resp : bytes -> option Resp),
    (forall d r, parse_req d = Some r -> 4 <= len_N d) ->
    (forall d r, parse_resp d = Some r -> 4 <= len_N d) ->
    (forall d e r, parse_req d = Some r -> parse_req (d ++ e) = Some r) ->
    (forall d e r, parse_resp d = Some r -> parse_resp (d ++ e) = Some r) ->
    forall (cap : N) (tr : list event),
      (forall e, In e tr -> e_seq e < two32) ->
      spec_wf parse_req parse_resp tr = true ->
      known parse_req parse_resp tr = false ->
      spec_conn_count parse_req parse_resp tr <= cap ->
      outs parse_req parse_resp cap (map wire tr) = spec_outs parse_req parse_resp tr.
Print Assumptions C09_reordered.

(* the instance the correspondence run executes: no hypothesis on the parser is left *)
Theorem C09_reordered_http1 :
  forall (cap : N) (tr : list event),
    (forall e, In e tr -> e_seq e < two32) ->
    spec_wf recog_req recog_resp tr = true ->
    known recog_req recog_resp tr = false ->
    spec_conn_count recog_req recog_resp tr <= cap ->
    outs recog_req recog_resp cap (map wire tr) = spec_outs recog_req recog_resp tr.
Proof.
  exact (reordered_model_spec recog_req recog_resp recog_req_min recog_resp_min recog_req_stable recog_resp_stable).
Qed.
Check C09_reordered_http1 :
  forall (cap : N) (tr : list event),
    (forall e, In e tr -> e_seq e < two32) ->
    spec_wf recog_req recog_resp tr = true ->
    known recog_req recog_resp tr = false ->
    spec_conn_count recog_req recog_resp tr <= cap ->
    outs recog_req recog_resp cap (map wire tr) = spec_outs recog_req recog_resp tr.
Print Assumptions C09_reordered_http1.

(* prefix stability of the HTTP/1 recogniser, the only thing C09_reordered asks of a parser *)
Theorem C09_http1_prefix_stable :
  (forall d e r, recog_req d = Some r -> recog_req (d ++ e) = Some r) /\
  (forall d e r, recog_resp d = Some r -> recog_resp (d ++ e) = Some r).
Proof. split; [exact recog_req_stable | exact recog_resp_stable]. Qed.
Check C09_http1_prefix_stable :
  (forall d e r, recog_req d = Some r -> recog_req (d ++ e) = Some r) /\
  (forall d e r, recog_resp d = Some r -> recog_resp (d ++ e) = Some r).
Print Assumptions C09_http1_prefix_stable.

Theorem C09_once_reordered :
  forall (cap : N) (tr : list event) (id : N),
    (forall e, In e tr -> e_seq e < two32) ->
    spec_wf recog_req recog_resp tr = true ->
    known recog_req recog_resp tr = false ->
    spec_conn_count recog_req recog_resp tr <= cap ->
    (count_of is_req id tr (outs recog_req recog_resp cap (map wire tr)) <= 1)%nat /\
    (count_of is_resp id tr (outs recog_req recog_resp cap (map wire tr)) <= 1)%nat /\
    Forall2 dir_ok tr (outs recog_req recog_resp cap (map wire tr)).
Proof.
  intros cap tr id H1 H2 H3 H4.
  rewrite (reordered_model_spec recog_req recog_resp recog_req_min recog_resp_min recog_req_stable recog_resp_stable cap tr H1 H2 H3 H4).
  destruct (spec_at_most_once recog_req recog_resp tr id) as [A B]. repeat split; auto.
  exact (spec_direction recog_req recog_resp tr []).
Qed.
Check C09_once_reordered :
  forall (cap : N) (tr : list event) (id : N),
    (forall e, In e tr -> e_seq e < two32) ->
    spec_wf recog_req recog_resp tr = true ->
    known recog_req recog_resp tr = false ->
    spec_conn_count recog_req recog_resp tr <= cap ->
    (count_of is_req id tr (outs recog_req recog_resp cap (map wire tr)) <= 1)%nat /\
    (count_of is_resp id tr (outs recog_req recog_resp cap (map wire tr)) <= 1)%nat /\
    Forall2 dir_ok tr (outs recog_req recog_resp cap (map wire tr)).
Print Assumptions C09_once_reordered.

(* the hypotheses of C09_reordered are satisfiable on a genuinely reordered input whose sequence
   space wraps inside the head (client ISN = 2^32 - 10): the request's
   three segments arrive in the order 3, 2, 1 (a hole is open after the first and second arrival, the
   squeezed bytes do not parse), the response's two segments in the order 2, 1; the strict classes
   flag this trace, the known-defect classes do not, and both heads are reported *)
Definition reorder_trace : list event :=
  [ ev 1 true true false 4294967286 [];
    ev 1 false true false 5000 [];
    ev 1 true false false 18 (bs "Accept: b" ++ crlfcrlf);
    ev 1 false false false 5018 (bs "Server: x" ++ crlfcrlf);
    ev 1 true false false 7 (bs "Host: a" ++ crlf ++ bs "X:");
    ev 1 true false false 4294967287 (bs "GET / HTTP/1.1" ++ crlf);
    ev 1 false false false 5001 (bs "HTTP/1.1 200 OK" ++ crlf) ].
Example C09_reordered_nonvacuous :
  (forall e, In e reorder_trace -> e_seq e < two32) /\
  spec_wf recog_req recog_resp reorder_trace = true /\
  known recog_req recog_resp reorder_trace = false /\
  known_strict recog_req recog_resp reorder_trace = true /\
  spec_conn_count recog_req recog_resp reorder_trace <= 1 /\
  map (fun o => match o with ONone => 0 | OReq _ => 1 | OResp _ => 2 end)
      (outs recog_req recog_resp 1 (map wire reorder_trace)) = [0; 0; 0; 0; 0; 1; 2].
Proof.
  split; [|split; [vm_compute; reflexivity | split; [vm_compute; reflexivity | split; [vm_compute; reflexivity | split; [vm_compute; discriminate | vm_compute; reflexivity]]]]].
  intros e H. cbn in H. repeat (destruct H as [<-|H]; [vm_compute; reflexivity|]). destruct H.
Qed.

(* at most once, and attributed to the sending direction: of the SPEC for every trace ... *)
Theorem C09_spec_once :
  forall (Req Resp : Type) (parse_req : bytes -> option Req) (parse_resp : bytes -> option Resp)
         (tr : list event) (id : N),
    (count_of is_req id tr (spec_outs parse_req parse_resp tr) <= 1)%nat /\
    (count_of is_resp id tr (spec_outs parse_req parse_resp tr) <= 1)%nat.
Proof. intros Req Resp pq pr. exact (spec_at_most_once pq pr). Qed.
Check C09_spec_once :
  forall (Req Resp : Type) (parse_req : bytes -> option Req) (parse_resp : bytes -> option Resp)
         (tr : list event) (id : N),
    (count_of is_req id tr (spec_outs parse_req parse_resp tr) <= 1)%nat /\
    (count_of is_resp id tr (spec_outs parse_req parse_resp tr) <= 1)%nat.
Print Assumptions C09_spec_once.

Theorem C09_spec_direction :
  forall (Req Resp : Type) (parse_req : bytes -> option Req) (parse_resp : bytes -> option Resp) (tr : list event),
    Forall2 dir_ok tr (spec_outs parse_req parse_resp tr).
Proof. intros Req Resp pq pr tr. exact (spec_direction pq pr tr []). Qed.
Check C09_spec_direction :
  forall (Req Resp : Type) (parse_req : bytes -> option Req) (parse_resp : bytes -> option Resp) (tr : list event),
    Forall2 dir_ok tr (spec_outs parse_req parse_resp tr).
Print Assumptions C09_spec_direction.

(* ... hence of the model on the domain of C09_inorder *)
Theorem C09_once :
  forall (Req Resp : Type) (parse_req : bytes -> option Req) (parse_resp : bytes -> option Resp),
    (forall d r, parse_req d = Some r -> 4 <= len_N d) ->
    (forall d r, parse_resp d = Some r -> 4 <= len_N d) ->
    forall (cap : N) (tr : list event) (id : N),
      (forall e, In e tr -> e_seq e < two32) ->
      spec_wf parse_req parse_resp tr = true ->
      known_strict parse_req parse_resp tr = false ->
      spec_conn_count parse_req parse_resp tr <= cap ->
      (count_of is_req id tr (outs parse_req parse_resp cap (map wire tr)) <= 1)%nat /\
      (count_of is_resp id tr (outs parse_req parse_resp cap (map wire tr)) <= 1)%nat /\
      Forall2 dir_ok tr (outs parse_req parse_resp cap (map wire tr)).
Proof.
  intros Req Resp pq pr Hq Hr cap tr id H1 H2 H3 H4.
  rewrite (inorder_model_spec pq pr Hq Hr cap tr H1 H2 H3 H4).
  destruct (spec_at_most_once pq pr tr id) as [A B]. repeat split; auto.
  exact (spec_direction pq pr tr []).
Qed.
Check C09_once :
  forall (Req Resp : Type) (parse_req : bytes -> option Req) (parse_resp : bytes -> option Resp),
    (forall d r, parse_req d = Some r -> 4 <= len_N d) ->
    (forall d r, parse_resp d = Some r -> 4 <= len_N d) ->
    forall (cap : N) (tr : list event) (id : N),
      (forall e, In e tr -> e_seq e < two32) ->
      spec_wf parse_req parse_resp tr = true ->
      known_strict parse_req parse_resp tr = false ->
      spec_conn_count parse_req parse_resp tr <= cap ->
      (count_of is_req id tr (outs parse_req parse_resp cap (map wire tr)) <= 1)%nat /\
      (count_of is_resp id tr (outs parse_req parse_resp cap (map wire tr)) <= 1)%nat /\
      Forall2 dir_ok tr (outs parse_req parse_resp cap (map wire tr)).
Print Assumptions C09_once.

(* ---- out-of-order arrival: the rebuilt stream does not depend on the arrival order ---- *)
Theorem C09_rebuild_order_invariant :
  forall (r : N) (l l' : list tcpdata),
    Permutation l l' -> r < two32 -> win r l -> NoDup (map td_seq l) -> full_data l = full_data l'.
Proof. exact rebuild_order_invariant. Qed.
Check C09_rebuild_order_invariant :
  forall (r : N) (l l' : list tcpdata),
    Permutation l l' -> r < two32 -> win r l -> NoDup (map td_seq l) -> full_data l = full_data l'.
Print Assumptions C09_rebuild_order_invariant.

(* all segments of a gap-free stream stored, in any arrival order (data0 = the SYN's own empty
   segment for the client direction, nothing for the server direction); `near`: the stream does not
   wrap and stays within 2^31 of the ISN (StreamReorder.v handles wrapping sequence numbers) *)
Theorem C09_rebuild_any_order :
  forall (isn : N) (data0 : list tcpdata) (ps : list bytes) (stored : list tcpdata),
    data0_ok isn data0 -> Forall (fun p => p <> []) ps ->
    isn < two32 -> near isn (data0 ++ chain_tds (isn + 1) ps) ->
    Permutation stored (data0 ++ chain_tds (isn + 1) ps) ->
    full_data stored = concat ps.
Proof. exact rebuild_any_order. Qed.
Check C09_rebuild_any_order :
  forall (isn : N) (data0 : list tcpdata) (ps : list bytes) (stored : list tcpdata),
    data0_ok isn data0 -> Forall (fun p => p <> []) ps ->
    isn < two32 -> near isn (data0 ++ chain_tds (isn + 1) ps) ->
    Permutation stored (data0 ++ chain_tds (isn + 1) ps) ->
    full_data stored = concat ps.
Print Assumptions C09_rebuild_any_order.
Example C09_rebuild_any_order_nonvacuous :
  full_data [mkTd 1008 (bs "/1.1"); mkTd 1000 []; mkTd 1005 (bs "TTP"); mkTd 1001 (bs "GET "); mkTd 1004 (bs "H")]
  = bs "GET HTTP/1.1".
Proof. vm_compute. reflexivity. Qed.

(* the hypotheses are satisfiable on a non-trivial input: two interleaved connections, request in
   two segments, ISN 4294967000 (close to, but not across, the wrap), both heads reported *)
Definition ex_trace : list event :=
  [ ev 1 true true false 4294967000 [];
    ev 2 true true false 7 [];
    ev 1 false true false 5000 [];
    ev 1 true false false 4294967001 (bs "GET / HTTP/1.1" ++ crlf ++ bs "Ho");
    ev 2 false true false 99 [];
    ev 2 true false false 8 (bs "POST /x HTTP/1.0" ++ crlfcrlf ++ bs "body");
    ev 1 true false false 4294967019 (bs "st: a" ++ crlfcrlf);
    ev 1 false false true 5001 resp_head;
    ev 2 false false false 100 resp_head ].
Example C09_inorder_nonvacuous :
  (forall e, In e ex_trace -> e_seq e < two32) /\
  spec_wf recog_req recog_resp ex_trace = true /\
  known_strict recog_req recog_resp ex_trace = false /\
  spec_conn_count recog_req recog_resp ex_trace <= 2 /\
  map (fun o => match o with ONone => 0 | OReq _ => 1 | OResp _ => 2 end)
      (outs recog_req recog_resp 2 (map wire ex_trace)) = [0; 0; 0; 0; 0; 1; 1; 2; 2].
Proof.
  split; [|split; [vm_compute; reflexivity | split; [vm_compute; reflexivity | split; [vm_compute; discriminate | vm_compute; reflexivity]]]].
  intros e H. cbn in H. repeat (destruct H as [<-|H]; [vm_compute; reflexivity|]). destruct H.
Qed.

(* ---- the known-defect classes: each is inhabited by a trace inside the specification's domain on
   which the model (= the implementation, checked on every run) contradicts the specification ---- *)
Theorem C09_far_refuted :
  spec_wf recog_req recog_resp far_trace = true /\
  known_classes recog_req recog_resp far_trace = (true, false, false, false) /\
  outs recog_req recog_resp 10 (map wire far_trace) <> spec_outs recog_req recog_resp far_trace.
Proof. exact far_refuted. Qed.
Check C09_far_refuted :
  spec_wf recog_req recog_resp far_trace = true /\
  known_classes recog_req recog_resp far_trace = (true, false, false, false) /\
  outs recog_req recog_resp 10 (map wire far_trace) <> spec_outs recog_req recog_resp far_trace.
Print Assumptions C09_far_refuted.

(* ISN = 2^32 - 10 with the head wrapping past 2^32 was the witness of the wrap class before fix
   C09-seq-wrap; it is now outside every class and model = SPEC on it *)
Theorem C09_wrap_former_witness_agrees :
  spec_wf recog_req recog_resp wrap_trace = true /\
  known_classes recog_req recog_resp wrap_trace = (false, false, false, false) /\
  outs recog_req recog_resp 10 (map wire wrap_trace) = spec_outs recog_req recog_resp wrap_trace.
Proof. exact wrap_former_witness_agrees. Qed.
Check C09_wrap_former_witness_agrees :
  spec_wf recog_req recog_resp wrap_trace = true /\
  known_classes recog_req recog_resp wrap_trace = (false, false, false, false) /\
  outs recog_req recog_resp 10 (map wire wrap_trace) = spec_outs recog_req recog_resp wrap_trace.
Print Assumptions C09_wrap_former_witness_agrees.

Theorem C09_gap_refuted :
  spec_wf recog_req recog_resp gap_trace = true /\
  known_classes recog_req recog_resp gap_trace = (false, true, false, false) /\
  outs recog_req recog_resp 10 (map wire gap_trace) <> spec_outs recog_req recog_resp gap_trace.
Proof. exact gap_refuted. Qed.
Check C09_gap_refuted :
  spec_wf recog_req recog_resp gap_trace = true /\
  known_classes recog_req recog_resp gap_trace = (false, true, false, false) /\
  outs recog_req recog_resp 10 (map wire gap_trace) <> spec_outs recog_req recog_resp gap_trace.
Print Assumptions C09_gap_refuted.

Theorem C09_dup_refuted :
  spec_wf recog_req recog_resp overlap_trace = true /\
  known_classes recog_req recog_resp overlap_trace = (false, false, true, false) /\
  outs recog_req recog_resp 10 (map wire overlap_trace) <> spec_outs recog_req recog_resp overlap_trace.
Proof. exact dup_refuted. Qed.
Check C09_dup_refuted :
  spec_wf recog_req recog_resp overlap_trace = true /\
  known_classes recog_req recog_resp overlap_trace = (false, false, true, false) /\
  outs recog_req recog_resp 10 (map wire overlap_trace) <> spec_outs recog_req recog_resp overlap_trace.
Print Assumptions C09_dup_refuted.

(* the exact retransmission was the witness of the dup class before fix C09-dup; it is now outside
   every class and model = SPEC on it *)
Theorem C09_dup_former_witness_agrees :
  spec_wf recog_req recog_resp dup_trace = true /\
  known_classes recog_req recog_resp dup_trace = (false, false, false, false) /\
  outs recog_req recog_resp 10 (map wire dup_trace) = spec_outs recog_req recog_resp dup_trace.
Proof. exact dup_former_witness_agrees. Qed.
Check C09_dup_former_witness_agrees :
  spec_wf recog_req recog_resp dup_trace = true /\
  known_classes recog_req recog_resp dup_trace = (false, false, false, false) /\
  outs recog_req recog_resp 10 (map wire dup_trace) = spec_outs recog_req recog_resp dup_trace.
Print Assumptions C09_dup_former_witness_agrees.

Theorem C09_fin_refuted :
  spec_wf recog_req recog_resp fin_early_trace = true /\
  known_classes recog_req recog_resp fin_early_trace = (false, false, false, true) /\
  outs recog_req recog_resp 10 (map wire fin_early_trace) <> spec_outs recog_req recog_resp fin_early_trace.
Proof. exact fin_refuted. Qed.
Check C09_fin_refuted :
  spec_wf recog_req recog_resp fin_early_trace = true /\
  known_classes recog_req recog_resp fin_early_trace = (false, false, false, true) /\
  outs recog_req recog_resp 10 (map wire fin_early_trace) <> spec_outs recog_req recog_resp fin_early_trace.
Print Assumptions C09_fin_refuted.

(* the client half-close (FIN on the segment that completes the request) was the witness of the fin
   class before fix C09-fin; it is now outside every class and model = SPEC on it *)
Theorem C09_fin_former_witness_agrees :
  spec_wf recog_req recog_resp fin_trace = true /\
  known_classes recog_req recog_resp fin_trace = (false, false, false, false) /\
  outs recog_req recog_resp 10 (map wire fin_trace) = spec_outs recog_req recog_resp fin_trace.
Proof. exact fin_former_witness_agrees. Qed.
Check C09_fin_former_witness_agrees :
  spec_wf recog_req recog_resp fin_trace = true /\
  known_classes recog_req recog_resp fin_trace = (false, false, false, false) /\
  outs recog_req recog_resp 10 (map wire fin_trace) = spec_outs recog_req recog_resp fin_trace.
Print Assumptions C09_fin_former_witness_agrees.
