(* C14 — packet filters decide exactly the documented boolean function.
   Property theorems only; proofs live in Proofs/FilterProofs.v. *)
From Coq Require Import List NArith Bool Permutation.
From HN Require Import Base.Bytes Model.Filter Spec.FilterSpec Proofs.FilterProofs Proofs.FilterLaws.
Import ListNotations.
Open Scope N_scope.

Theorem C14_filter_decides_documented_rule :
  forall (c : cfg_src) (src dst : ip) (sport dport : N),
    cfg_wf c = true -> ip_wf src = true -> ip_wf dst = true ->
    model_filter c src dst sport dport = spec_filter c src dst sport dport.
Proof. exact filter_model_spec. Qed.
Check C14_filter_decides_documented_rule :
  forall (c : cfg_src) (src dst : ip) (sport dport : N),
    cfg_wf c = true -> ip_wf src = true -> ip_wf dst = true ->
    model_filter c src dst sport dport = spec_filter c src dst sport dport.
Print Assumptions C14_filter_decides_documented_rule.

(* Laws of the transcription of filter.rs itself (no reference to the spec in the statements). *)

Theorem C14_no_subfilter_admits_all :
  forall c src dst sp dp, has_subfilter c = false -> model_filter c src dst sp dp = true.
Proof. exact no_subfilter_admits_all. Qed.
Check C14_no_subfilter_admits_all :
  forall c src dst sp dp, has_subfilter c = false -> model_filter c src dst sp dp = true.
Print Assumptions C14_no_subfilter_admits_all.

Theorem C14_deny_is_complement_of_allow :
  forall c src dst sp dp, has_subfilter c = true ->
    model_filter (with_mode c true) src dst sp dp = negb (model_filter (with_mode c false) src dst sp dp).
Proof. exact deny_is_complement. Qed.
Check C14_deny_is_complement_of_allow :
  forall c src dst sp dp, has_subfilter c = true ->
    model_filter (with_mode c true) src dst sp dp = negb (model_filter (with_mode c false) src dst sp dp).
Print Assumptions C14_deny_is_complement_of_allow.

Theorem C14_allow_is_conjunction :
  forall c src dst sp dp, c_deny c = false ->
    model_filter c src dst sp dp =
      opt_test (c_port c) (fun ops => pf_matches (build_port ops) sp dp)
      && opt_test (c_ip c) (fun ops => if_matches (build_ip ops) src dst)
      && opt_test (c_sub c) (fun ops => sf_matches (build_sub ops) src dst).
Proof. exact allow_is_conjunction. Qed.
Print Assumptions C14_allow_is_conjunction.

Theorem C14_port_builder_order_irrelevant :
  forall ops ops' sp dp, Permutation ops ops' ->
    pf_matches (build_port ops) sp dp = pf_matches (build_port ops') sp dp.
Proof. exact port_order_irrelevant. Qed.
Check C14_port_builder_order_irrelevant :
  forall ops ops' sp dp, Permutation ops ops' ->
    pf_matches (build_port ops) sp dp = pf_matches (build_port ops') sp dp.
Print Assumptions C14_port_builder_order_irrelevant.

Theorem C14_range_is_half_open :
  forall a b p, pf_matches (build_port [PDstRange a b]) 0 p = (a <=? p) && (p <? b).
Proof. exact range_boundaries. Qed.
Print Assumptions C14_range_is_half_open.

Theorem C14_prefix_zero_contains_all :
  forall w n x, x < 2 ^ w -> n < 2 ^ w -> net_contains w (n, 0) x = true.
Proof. exact prefix_zero_contains_all. Qed.
Print Assumptions C14_prefix_zero_contains_all.

Theorem C14_prefix_full_is_equality :
  forall w n x, x < 2 ^ w -> n < 2 ^ w -> net_contains w (n, w) x = (x =? n).
Proof. exact prefix_full_is_equality. Qed.
Print Assumptions C14_prefix_full_is_equality.

Theorem C14_source_only_ignores_destination :
  forall ops src dst dst',
    if_matches (build_ip (ops ++ [ISrcOnly])) src dst = if_matches (build_ip (ops ++ [ISrcOnly])) src dst'.
Proof. exact source_only_ignores_destination. Qed.
Print Assumptions C14_source_only_ignores_destination.

Theorem C14_cidr_nesting :
  forall w n p q x, p <= q -> q <= w -> x < 2 ^ w -> n < 2 ^ w ->
    net_contains w (n, q) x = true -> net_contains w (n, p) x = true.
Proof. exact cidr_nesting. Qed.
Check C14_cidr_nesting :
  forall w n p q x, p <= q -> q <= w -> x < 2 ^ w -> n < 2 ^ w ->
    net_contains w (n, q) x = true -> net_contains w (n, p) x = true.
Print Assumptions C14_cidr_nesting.

Theorem C14_address_list_monotone :
  forall ops a src dst,
    if_matches (build_ip ops) src dst = true -> if_matches (build_ip (ops ++ [IAllow a])) src dst = true.
Proof. exact ip_filter_monotone. Qed.
Print Assumptions C14_address_list_monotone.
