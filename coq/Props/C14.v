(* C14 — packet filters decide exactly the documented boolean function.
   Property theorems only; proofs live in Proofs/FilterProofs.v. *)
From Coq Require Import NArith.
From HN Require Import Base.Bytes Model.Filter Spec.FilterSpec Proofs.FilterProofs.

Theorem C14_filter_decides_documented_rule :
  forall (c : cfg_src) (src dst : ip) (sport dport : N),
    cfg_wf c = true -> ip_wf src = true -> ip_wf dst = true ->
    model_filter c src dst sport dport = spec_filter c src dst sport dport.
Proof. exact filter_model_spec. Qed.
Check C14_filter_decides_documented_rule :
  forall (c : cfg_src) (src dst : ip) (sport dport : N),
    cfg_wf c = true -> ip_wf src = true -> ip_wf dst = true ->
    model_filter c src dst sport dport = spec_filter c src dst sport dport.
Print Assumptions C14_filter_decides_documented_rule.
