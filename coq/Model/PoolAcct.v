(* MODEL of the bookkeeping of the three worker pools (C18-T2):
     huginn-net-tcp/src/parallel.rs, huginn-net-http/src/parallel.rs, huginn-net-tls/src/parallel.rs
     WorkerPool::dispatch, worker_loop, stats; before shutdown() (the shutdown flag reads false).
   One pool = per-worker FIFO queues (crossbeam bounded channels), three kinds of relaxed atomic
   counters (dispatched_count, dropped_count, worker_dropped[w]), any number of dispatcher threads
   and one worker thread per queue.  Every access to shared memory is one transition: each
   `fetch_add` is an atomic read-modify-write, `try_send` and the worker's receive are atomic
   channel operations; atomics are taken to be sequentially consistent.  Dispatcher thread t runs
   the straight-line code of `dispatch` one shared access per `Tick t`; local computation (the flow
   hash, building the return value) is merged into the next shared access.

   dispatch, in source order, per pool:
     TCP   w = hash % n;  try_send -> Ok:   dispatched++ ; return Queued
                                      Full: dropped++ ; worker_dropped[w]++ ; return Dropped
     HTTP  w = hash_flow; dispatched++ ; try_send -> Ok: return Queued
                                      Err:  dropped++ ; worker_dropped[w]++ ; return Dropped
     TLS   hash_flow = None: dropped++ ; return Dropped
           Some w: as HTTP
   worker_loop: receive one packet, analyse it; no counter is touched, whatever the analysis
   returns (since fix 93cdf08 also in the HTTP pool: worker_dropped[w] is written by dispatch only).
   The answer of the channel to try_send is an input of the transition (`full`), so the accounting
   theorem holds whatever the channel answers (capacity 0 rendezvous, Disconnected, ...); the
   executable schedule runner below supplies the answer of a bounded FIFO of capacity `cap`.
   Batching (`batch_size`) and `recv_timeout` only choose when `Work` happens.  Definitions only. *)
From Coq Require Import List NArith Bool Arith.
From HN Require Import Base.Bytes.
Import ListNotations.
Open Scope N_scope.

Inductive pool_kind := PTcp | PHttp | PTls.

Section Pool.
  Variable P : Type.                       (* packets *)
  Variable St : Type.                      (* private analyzer state of a worker *)
  Variable shard : P -> option nat.        (* the flow hash: Some worker | None (TLS only: discard) *)
  Variable analyse : St -> P -> St * bool. (* worker analysis; true = process_packet returned Err *)
  Variable kind : pool_kind.

  (* where a dispatcher thread stands inside `dispatch` *)
  Inductive dpc :=
  | Idle
  | Called (p : P)                (* dispatch(p) entered, shutdown flag read false *)
  | Counted (p : P) (w : nat)     (* HTTP/TLS: dispatched++ done, next try_send *)
  | SentOk (p : P) (w : nat)      (* TCP: enqueued, next dispatched++ then return Queued *)
  | Full (p : P) (w : nat)        (* try_send failed, next dropped++ *)
  | Full1 (p : P) (w : nat).      (* dropped++ done, next worker_dropped[w]++ then return Dropped *)

  (* what a dispatch call returned: packet, worker it was routed to, Queued? *)
  Record ret := { r_pkt : P; r_worker : option nat; r_queued : bool }.

  Record pstate := {
    queues : list (list P);            (* one FIFO per worker *)
    wstates : list St;
    pcs : list dpc;                    (* one entry per dispatcher thread *)
    c_dispatched : N;                  (* dispatched_count *)
    c_dropped : N;                     (* dropped_count *)
    c_wdropped : list N;               (* worker_dropped[w] *)
    (* ghost history, never read by the transitions *)
    calls : N;                         (* dispatch calls entered *)
    rets : list ret;                   (* dispatch calls returned, with their result *)
    analysed : list (nat * P * bool)   (* (worker, packet, returned Err), in analysis order *)
  }.

  Fixpoint upd {A} (l : list A) (i : nat) (v : A) : list A :=
    match l, i with
    | [], _ => []
    | _ :: r, O => v :: r
    | x :: r, S j => x :: upd r j v
    end.

  Definition worker_of (p : P) : nat := match shard p with Some w => w | None => O end.

  Definition set_pc (x : pstate) (t : nat) (pc : dpc) : pstate :=
    {| queues := queues x; wstates := wstates x; pcs := upd (pcs x) t pc;
       c_dispatched := c_dispatched x; c_dropped := c_dropped x; c_wdropped := c_wdropped x;
       calls := calls x; rets := rets x; analysed := analysed x |}.
  Definition add_dispatched (x : pstate) : pstate :=
    {| queues := queues x; wstates := wstates x; pcs := pcs x;
       c_dispatched := c_dispatched x + 1; c_dropped := c_dropped x; c_wdropped := c_wdropped x;
       calls := calls x; rets := rets x; analysed := analysed x |}.
  Definition add_dropped (x : pstate) : pstate :=
    {| queues := queues x; wstates := wstates x; pcs := pcs x;
       c_dispatched := c_dispatched x; c_dropped := c_dropped x + 1; c_wdropped := c_wdropped x;
       calls := calls x; rets := rets x; analysed := analysed x |}.
  Definition add_wdropped (x : pstate) (w : nat) : pstate :=
    {| queues := queues x; wstates := wstates x; pcs := pcs x;
       c_dispatched := c_dispatched x; c_dropped := c_dropped x;
       c_wdropped := upd (c_wdropped x) w (nth w (c_wdropped x) 0 + 1);
       calls := calls x; rets := rets x; analysed := analysed x |}.
  Definition enqueue (x : pstate) (w : nat) (p : P) : pstate :=
    {| queues := upd (queues x) w (nth w (queues x) [] ++ [p]); wstates := wstates x; pcs := pcs x;
       c_dispatched := c_dispatched x; c_dropped := c_dropped x; c_wdropped := c_wdropped x;
       calls := calls x; rets := rets x; analysed := analysed x |}.
  (* dispatch returns on thread t *)
  Definition finish (x : pstate) (t : nat) (r : ret) : pstate :=
    {| queues := queues x; wstates := wstates x; pcs := upd (pcs x) t Idle;
       c_dispatched := c_dispatched x; c_dropped := c_dropped x; c_wdropped := c_wdropped x;
       calls := calls x; rets := rets x ++ [r]; analysed := analysed x |}.

  Inductive ev :=
  | Call (t : nat) (p : P)           (* thread t enters dispatch(p) *)
  | Tick (t : nat) (full : bool)     (* thread t performs its next shared access; `full` = the
                                        channel refuses the packet, consulted only by try_send *)
  | Work (w : nat).                  (* worker w receives and analyses one packet *)

  Definition try_send (x : pstate) (t : nat) (p : P) (w : nat) (full : bool) : pstate :=
    if full then set_pc x t (Full p w)
    else match kind with
         | PTcp => set_pc (enqueue x w p) t (SentOk p w)
         | _ => finish (enqueue x w p) t {| r_pkt := p; r_worker := Some w; r_queued := true |}
         end.

  Definition tick (x : pstate) (t : nat) (full : bool) : pstate :=
    match nth t (pcs x) Idle with
    | Idle => x
    | Called p =>
        match kind with
        | PTcp => try_send x t p (worker_of p) full
        | PHttp => set_pc (add_dispatched x) t (Counted p (worker_of p))
        | PTls => match shard p with
                  | None => finish (add_dropped x) t {| r_pkt := p; r_worker := None; r_queued := false |}
                  | Some w => set_pc (add_dispatched x) t (Counted p w)
                  end
        end
    | Counted p w => try_send x t p w full
    | SentOk p w => finish (add_dispatched x) t {| r_pkt := p; r_worker := Some w; r_queued := true |}
    | Full p w => set_pc (add_dropped x) t (Full1 p w)
    | Full1 p w => finish (add_wdropped x w) t {| r_pkt := p; r_worker := Some w; r_queued := false |}
    end.

  Definition work (x : pstate) (w : nat) : pstate :=
    match nth w (queues x) [] with
    | [] => x
    | p :: rest =>
        match nth_error (wstates x) w with
        | None => x
        | Some s =>
            let '(s', err) := analyse s p in
            {| queues := upd (queues x) w rest; wstates := upd (wstates x) w s'; pcs := pcs x;
               c_dispatched := c_dispatched x; c_dropped := c_dropped x; c_wdropped := c_wdropped x;
               calls := calls x; rets := rets x; analysed := analysed x ++ [(w, p, err)] |}
        end
    end.

  Definition pstep (x : pstate) (e : ev) : pstate :=
    match e with
    | Call t p => match nth_error (pcs x) t with
                  | Some Idle =>
                      {| queues := queues x; wstates := wstates x; pcs := upd (pcs x) t (Called p);
                         c_dispatched := c_dispatched x; c_dropped := c_dropped x; c_wdropped := c_wdropped x;
                         calls := calls x + 1; rets := rets x; analysed := analysed x |}
                  | _ => x
                  end
    | Tick t full => tick x t full
    | Work w => work x w
    end.

  Definition init (nworkers nthreads : nat) (s0 : St) : pstate :=
    {| queues := repeat [] nworkers; wstates := repeat s0 nworkers; pcs := repeat Idle nthreads;
       c_dispatched := 0; c_dropped := 0; c_wdropped := repeat 0 nworkers;
       calls := 0; rets := []; analysed := [] |}.

  Definition run_events (x : pstate) (es : list ev) : pstate := fold_left pstep es x.

  Definition is_idle (pc : dpc) : bool := match pc with Idle => true | _ => false end.
  Definition is_nil {A} (l : list A) : bool := match l with [] => true | _ => false end.
  (* every dispatch call has returned and every queue has been consumed *)
  Definition quiescent (x : pstate) : bool := forallb is_idle (pcs x) && forallb is_nil (queues x).

  (* ---- what the dispatch calls returned ---- *)
  Definition n_queued (x : pstate) : N := N.of_nat (length (filter r_queued (rets x))).
  Definition n_dropped (x : pstate) : N := N.of_nat (length (filter (fun r => negb (r_queued r)) (rets x))).
  Definition dropped_at (x : pstate) (w : nat) : N :=
    N.of_nat (length (filter (fun r => negb (r_queued r) &&
                                match r_worker r with Some v => Nat.eqb v w | None => false end) (rets x))).
  Definition n_discarded (x : pstate) : N :=
    N.of_nat (length (filter (fun r => match r_worker r with None => true | Some _ => false end) (rets x))).
  Definition queued_packets (x : pstate) : list P := map r_pkt (filter r_queued (rets x)).
  Definition analysed_packets (x : pstate) : list P := map (fun a => snd (fst a)) (analysed x).
  (* the counters of `stats()` agree with the outcomes the dispatch calls returned *)
  Definition stats_agree_b (nworkers : nat) (x : pstate) : bool :=
    (c_dropped x =? n_dropped x) &&
    forallb (fun w => nth w (c_wdropped x) 0 =? dropped_at x w) (seq 0 nworkers).

  (* the law each pool's total_dispatched obeys *)
  Definition dispatched_law_b (x : pstate) : bool :=
    match kind with
    | PTcp => c_dispatched x =? n_queued x
    | PHttp => c_dispatched x =? calls x
    | PTls => c_dispatched x + n_discarded x =? calls x
    end.

  (* ---- an executable scheduler for the case interpreter: one dispatcher, bounded FIFO ---- *)
  (* runs dispatch(p) to completion on thread 0, the channel answering as a bounded queue of
     capacity cap (cap = 0: rendezvous channel with no receiver waiting, always full) *)
  Definition dispatch_now (cap : nat) (x : pstate) (p : P) : pstate :=
    let full := (cap <=? length (nth (worker_of p) (queues x) []))%nat in
    let x1 := pstep x (Call 0 p) in
    fold_left (fun y _ => pstep y (Tick 0 full)) (seq 0 4) x1.
  Fixpoint drain (fuel : nat) (x : pstate) (w : nat) : pstate :=
    match fuel with
    | O => x
    | S f => match nth w (queues x) [] with [] => x | _ => drain f (work x w) w end
    end.
  Definition drain_all (nworkers : nat) (x : pstate) : pstate :=
    fold_left (fun y w => drain (length (nth w (queues y) [])) y w) (seq 0 nworkers) x.
End Pool.

Arguments Idle {P}.
Arguments Called {P}.
Arguments Counted {P}.
Arguments SentOk {P}.
Arguments Full {P}.
Arguments Full1 {P}.
Arguments Call {P}.
Arguments Tick {P}.
Arguments Work {P}.
