(* Executable transcription of the matcher of huginn-net-db (C02, C12, C13).
   Definitions only.  Each definition cites the Rust item it transcribes.
     tcp.rs                               Ttl::distance_ttl, WindowSize::distance_window_size,
                                          IpVersion::distance_ip_version, PayloadSize::distance_payload_size,
                                          TcpMatchQuality::{as_score, distance_to_score}
     http.rs                              HttpMatchQuality::{as_score, distance_to_score}
     observable_tcp_signals_matching.rs   distance_olen/mss/wscale/olayout/quirks, calculate_distance,
                                          generate_index_key, generate_index_keys_for_db_entry
     observable_http_signals_matching.rs  distance_ip_version, distance_header, distance_expsw,
                                          calculate_http_distance, generate_http_index_keys
     observable_signals.rs                generate_index_key (HTTP)
     display.rs                           impl Display for TcpOption   (only what the index key needs)
     db.rs                                FingerprintCollection::new, find_best_match
   u8/u16/u32 are N; `saturating_add` on u8 is N.min 255 (a+b), on u32 N.min (2^32-1) (a+b).
   In every distance function the FIRST argument is the observation (`self` in Rust), the second the
   database signature (`other`). *)
From Coq Require Import List NArith Bool.
From Coq Require Import Strings.Byte.
From HN Require Import Base.Bytes Model.SigAst.
Import ListNotations.
Open Scope N_scope.

Definition u32_max : N := 4294967295.
Definition sat_add32 (a b : N) : N := N.min u32_max (a + b).
Definition sat_add8 (a b : N) : N := N.min 255 (a + b).

(* the `?` operator on Option *)
Definition obind {A B} (o : option A) (f : A -> option B) : option B :=
  match o with Some x => f x | None => None end.
Notation "'do' x <- a ; b" := (obind a (fun x => b)) (at level 200, x name, a at level 100, b at level 200).

(* ---------------- tcp.rs ---------------- *)
(* TcpMatchQuality::as_score *)
Definition tq_high : N := 0.
Definition tq_medium : N := 1.
Definition tq_low : N := 2.
(* HttpMatchQuality::as_score *)
Definition hq_high : N := 0.
Definition hq_medium : N := 1.
Definition hq_low : N := 2.
Definition hq_bad : N := 3.

(* `if c { Some(High) } else { Some(Low) }` *)
Definition high_or (pen : N) (c : bool) : option N := Some (if c then tq_high else pen).

(* IpVersion::distance_ip_version *)
Definition distance_ip_version (obs sig : ip_version) : option N :=
  if ip_version_eqb sig IpAny then Some tq_high
  else match obs, sig with
       | IpV4, IpV4 | IpV6, IpV6 => Some tq_high
       | _, _ => None
       end.

(* Ttl::distance_ttl *)
Definition distance_ttl (obs sig : ttl) : option N :=
  match obs, sig with
  | TtlValue a, TtlValue b => high_or tq_low (a =? b)
  | TtlDistance a1 a2, TtlDistance b1 b2 => high_or tq_low (sat_add8 a1 a2 =? sat_add8 b1 b2)
  | TtlDistance a1 a2, TtlValue b1 => high_or tq_low (sat_add8 a1 a2 =? b1)
  | TtlDistance a1 a2, TtlGuess b1 => high_or tq_low (sat_add8 a1 a2 =? b1)
  (* `ttl-` signature: any observed TTL that does not exceed it, the rest is rejected (p0f's bad_ttl rule) *)
  | TtlDistance a1 _, TtlBad b | TtlValue a1, TtlBad b => if a1 <=? b then Some tq_high else None
  | TtlGuess a, TtlGuess b => high_or tq_low (a =? b)
  | TtlBad a, TtlBad b => high_or tq_low (a =? b)
  | TtlGuess a, TtlValue b => high_or tq_low (a =? b)
  | TtlValue a, TtlDistance b1 b2 => high_or tq_low (a =? sat_add8 b1 b2)
  | TtlValue a, TtlGuess b => high_or tq_low (a =? b)
  | _, _ => None
  end.

(* u16::checked_div, u16::checked_rem *)
Definition checked_div (a b : N) : option N := if b =? 0 then None else Some (a / b).
Definition checked_rem (a b : N) : option N := if b =? 0 then None else Some (a mod b).

(* WindowSize::distance_window_size(&self, other, mss)  — mss is the OBSERVED mss *)
Definition distance_window_size (obs sig : window_size) (mss : option N) : option N :=
  match obs, sig with
  | WMss a, WMss b => high_or tq_low (a =? b)
  | WMtu a, WMtu b => high_or tq_low (a =? b)
  | WValue a, WMss b =>
      match mss with
      | Some mss_value =>
          match checked_div a mss_value with
          | Some ratio_other =>     (* `*b as u16 == ratio_other && a.checked_rem(mss_value) == Some(0)` (fix a8d31d2) *)
              high_or tq_low ((b =? ratio_other) && option_eqb N.eqb (checked_rem a mss_value) (Some 0))
          | None => Some tq_low
          end
      | None => Some tq_low
      end
  | WValue a, WMod b => high_or tq_low (option_eqb N.eqb (checked_rem a b) (Some 0))      (* fix 91576de *)
  | WMod a, WMod b => high_or tq_low (a =? b)
  | WValue a, WValue b => high_or tq_low (a =? b)
  | _, WAny => Some tq_high
  | _, _ => None
  end.

(* PayloadSize::distance_payload_size *)
Definition distance_payload_size (obs sig : payload_size) : option N :=
  if payload_size_eqb sig PAnySize || payload_size_eqb obs sig then Some tq_high else None.

(* ---------------- observable_tcp_signals_matching.rs ---------------- *)
Definition distance_olen (obs sig : tcp_sig) : option N := high_or tq_low (t_olen obs =? t_olen sig).
Definition is_none {A} (o : option A) : bool := match o with None => true | Some _ => false end.
Definition distance_mss (obs sig : tcp_sig) : option N :=
  high_or tq_low (is_none (t_mss sig) || option_eqb N.eqb (t_mss obs) (t_mss sig)).
Definition distance_wscale (obs sig : tcp_sig) : option N :=
  high_or tq_medium (is_none (t_wscale sig) || option_eqb N.eqb (t_wscale obs) (t_wscale sig)).
Definition distance_olayout (obs sig : tcp_sig) : option N :=
  if list_eqb tcp_option_eqb (t_olayout obs) (t_olayout sig) then Some tq_high else None.
(* closure `applies` of distance_quirks (fix c12quirksv6): which of the SIGNATURE's quirks take part in the
   comparison for an observation of IP version v *)
Definition quirk_compared (v : ip_version) (q : quirk) : bool :=
  match v with
  | IpV6 => match q with QDf | QNonZeroID | QZeroID | QMustBeZero => false | _ => true end
  | IpV4 => match q with QFlowID => false | _ => true end
  | IpAny => true
  end.
(* `self.quirks.iter().eq(other.quirks.iter().filter(applies))`: the observed list against the filtered signature list *)
Definition distance_quirks (obs sig : tcp_sig) : option N :=
  if list_eqb quirk_eqb (t_quirks obs) (filter (quirk_compared (t_version obs)) (t_quirks sig))
  then Some tq_high else None.

(* <tcp::Signature as DatabaseSignature<TcpObservation>>::calculate_distance: the `?`s are evaluated in
   this order, the saturating additions associate to the left *)
Definition tcp_distance (sig obs : tcp_sig) : option N :=
  do d0 <- distance_ip_version (t_version obs) (t_version sig);
  do d1 <- distance_ttl (t_ittl obs) (t_ittl sig);
  do d2 <- distance_olen obs sig;
  do d3 <- distance_mss obs sig;
  do d4 <- distance_window_size (t_wsize obs) (t_wsize sig) (t_mss obs);
  do d5 <- distance_wscale obs sig;
  do d6 <- distance_olayout obs sig;
  do d7 <- distance_quirks obs sig;
  do d8 <- distance_payload_size (t_pclass obs) (t_pclass sig);
  Some (sat_add32 (sat_add32 (sat_add32 (sat_add32 (sat_add32 (sat_add32 (sat_add32 (sat_add32 d0 d1) d2) d3) d4) d5) d6) d7) d8).

(* TcpMatchQuality::distance_to_score, in hundredths (1.0 -> 100, 0.95 -> 95, ... 0.05 -> 5); MAX_DISTANCE = 18 *)
Definition tcp_score (d : N) : N :=
  if d =? 0 then 100 else if d =? 1 then 95 else if d =? 2 then 90
  else if d <=? 4 then 80 else if d <=? 6 then 70 else if d <=? 9 then 60
  else if d <=? 12 then 40 else if d <=? 15 then 20 else if d <=? 18 then 10 else 5.

(* ---------------- http.rs / observable_http_signals_matching.rs ---------------- *)
(* HttpMatchQuality::distance_to_score, in hundredths; MAX_DISTANCE = 12 *)
Definition http_score (d : N) : N :=
  if d =? 0 then 100 else if d =? 1 then 95 else if d =? 2 then 90 else if d =? 3 then 80
  else if d <=? 5 then 70 else if d <=? 7 then 60 else if d <=? 9 then 40
  else if d <=? 11 then 20 else if d <=? 12 then 10 else 5.

(* HttpDistance::distance_ip_version *)
Definition distance_http_version (obs sig : http_version) : option N :=
  if http_version_eqb sig HVAny || http_version_eqb obs sig then Some hq_high else None.

(* Header fields compared by the loop: `name == name`, `value == value` (String / Option<String>) *)
Definition hname_eqb (a b : header) : bool := bytes_eqb (h_name a) (h_name b).
Definition hvalue_eqb (a b : header) : bool := option_eqb bytes_eqb (h_value a) (h_value b).
Definition bump (errors : N) : N := sat_add32 errors 1.       (* errors.saturating_add(1) *)

(* second loop of distance_header: `while obs_idx < observed.len() { errors += 1; obs_idx += 1 }` *)
Fixpoint hdr_rest_obs (errors : N) (obs : list header) : N :=
  match obs with
  | [] => errors
  | _ :: r => hdr_rest_obs (bump errors) r
  end.

(* The three loops of distance_header.  Every iteration of the first loop advances sig_idx, so the whole
   function is one structural recursion on the signature list: `obs`/`sig` are the suffixes
   observed[obs_idx..] / signature[sig_idx..].  When the signature is exhausted the second loop counts the
   remaining observed headers; when the observed list is exhausted first, the recursion continues as the
   third loop (required signature headers left over). *)
Fixpoint hdr_loop (errors : N) (obs sig : list header) : N :=
  match sig with
  | [] => hdr_rest_obs errors obs
  | sh :: sig' =>
      match obs with
      | [] => hdr_loop (if negb (h_optional sh) then bump errors else errors) [] sig'
      | oh :: obs' =>
          if hname_eqb oh sh && hvalue_eqb oh sh then hdr_loop errors obs' sig'
          else if hname_eqb oh sh then hdr_loop (if negb (h_optional sh) then bump errors else errors) obs' sig'
          else if h_optional sh then hdr_loop errors obs sig'
          else hdr_loop (bump errors) obs sig'
      end
  end.

(* final `match errors { 0..=2 => High, 3..=5 => Medium, 6..=8 => Low, 9..=11 => Bad, _ => None }` *)
Definition hdr_band (errors : N) : option N :=
  if errors <=? 2 then Some hq_high else if errors <=? 5 then Some hq_medium
  else if errors <=? 8 then Some hq_low else if errors <=? 11 then Some hq_bad else None.

Definition distance_header (obs sig : list header) : option N := hdr_band (hdr_loop 0 obs sig).

(* str::contains(&self, pat: &str) on byte strings: some suffix of `hay` starts with `needle`
   (for valid UTF-8 operands byte-level and char-level substring search coincide) *)
Fixpoint contains (hay needle : bytes) : bool :=
  starts_with needle hay || match hay with [] => false | _ :: r => contains r needle end.

(* HttpDistance::distance_expsw:  `other.expsw.as_str().contains(self.get_expsw())`
   — the SIGNATURE's string is searched for the OBSERVED one *)
Definition distance_expsw (obs sig : http_sig) : option N :=
  if contains (hs_expsw sig) (hs_expsw obs) then Some hq_high else Some hq_bad.

(* HttpSignatureHelper::calculate_http_distance *)
Definition http_distance (sig obs : http_sig) : option N :=
  do d0 <- distance_http_version (hs_version obs) (hs_version sig);
  do d1 <- distance_header (hs_horder obs) (hs_horder sig);
  do d2 <- distance_header (hs_habsent obs) (hs_habsent sig);
  do d3 <- distance_expsw obs sig;
  Some (sat_add32 (sat_add32 (sat_add32 d0 d1) d2) d3).

(* ---------------- index keys ---------------- *)
(* display.rs: impl Display for TcpOption *)
Definition show_tcp_option (o : tcp_option) : bytes :=
  match o with
  | OEol n => bs "eol+" ++ show_N n
  | ONop => bs "nop" | OMss => bs "mss" | OWs => bs "ws" | OSok => bs "sok" | OSack => bs "sack" | OTS => bs "ts"
  | OUnknown n => bs "?" ++ show_N n
  end.

(* db.rs TcpIndexKey { ip_version_key, olayout_key: String, pclass_key }, derived PartialEq/Eq/Hash *)
Definition tcp_key := (ip_version * bytes * payload_size)%type.
Definition tcp_key_eqb (a b : tcp_key) : bool :=
  let '(v1, l1, p1) := a in let '(v2, l2, p2) := b in
  ip_version_eqb v1 v2 && bytes_eqb l1 l2 && payload_size_eqb p1 p2.

Definition olayout_key (l : list tcp_option) : bytes := join (bs ",") (map show_tcp_option l).

(* <TcpObservation as ObservedFingerprint>::generate_index_key *)
Definition tcp_obs_key (o : tcp_sig) : tcp_key := (t_version o, olayout_key (t_olayout o), t_pclass o).

(* <tcp::Signature as DatabaseSignature>::generate_index_keys_for_db_entry *)
Definition tcp_sig_keys (s : tcp_sig) : list tcp_key :=
  let olayout_key_str := olayout_key (t_olayout s) in
  let versions_for_keys := if ip_version_eqb (t_version s) IpAny then [IpV4; IpV6] else [t_version s] in
  let pclasses_for_keys := if payload_size_eqb (t_pclass s) PAnySize then [PZero; PNonZero] else [t_pclass s] in
  flat_map (fun v => map (fun pc => (v, olayout_key_str, pc)) pclasses_for_keys) versions_for_keys.

(* HttpIndexKey { http_version_key } *)
Definition http_obs_key (o : http_sig) : http_version := hs_version o.
(* generate_http_index_keys (after fix b52ad67: Any => V10, V11, V20, V30) *)
Definition http_sig_keys (s : http_sig) : list http_version :=
  if http_version_eqb (hs_version s) HVAny then [HV10; HV11; HV20; HV30] else [hs_version s].

(* ---------------- db.rs: FingerprintCollection ---------------- *)
(* result of find_best_match: (label idx, sig idx) stand for the two references returned, `d` is the
   final min_distance, `q` = sig.get_quality_score(min_distance) in hundredths.
   FPanic: `self.entries[label_idx]` / `sig_vec[sig_idx]` out of range. *)
Inductive fres := FNone | FPanic | FSome (li si d q : N).

Section Collection.
  Context {L S O K : Type}.
  Variable keys_of_sig : S -> list K.          (* generate_index_keys_for_db_entry *)
  Variable key_of_obs : O -> K.                (* generate_index_key *)
  Variable key_eqb : K -> K -> bool.           (* Eq + Hash of the key: HashMap is only used through entry/get *)
  Variable distance : S -> O -> option N.      (* calculate_distance *)
  Variable score : N -> N.                     (* get_quality_score *)

  (* HashMap<K, Vec<(usize, usize)>> as an association list; each key's Vec keeps push order, which is all
     that `get` can observe *)
  Definition index := list (K * list (N * N)).

  (* index_map.entry(key).or_insert_with(Vec::new).push(v) *)
  Fixpoint idx_push (k : K) (v : N * N) (idx : index) : index :=
    match idx with
    | [] => [(k, [v])]
    | (k', l) :: r => if key_eqb k' k then (k', l ++ [v]) :: r else (k', l) :: idx_push k v r
    end.
  (* self.index.get(&key) *)
  Fixpoint idx_get (k : K) (idx : index) : option (list (N * N)) :=
    match idx with
    | [] => None
    | (k', l) :: r => if key_eqb k' k then Some l else idx_get k r
    end.

  (* FingerprintCollection::new: for (label_idx, (_, sig_vec)) .. for (sig_idx, db_sig) .. for key .. push *)
  Fixpoint build_sigs (label_idx sig_idx : N) (sig_vec : list S) (idx : index) : index :=
    match sig_vec with
    | [] => idx
    | db_sig :: r =>
        build_sigs label_idx (sig_idx + 1) r
          (fold_left (fun ix key => idx_push key (label_idx, sig_idx) ix) (keys_of_sig db_sig) idx)
    end.
  Fixpoint build_entries (label_idx : N) (entries : list (L * list S)) (idx : index) : index :=
    match entries with
    | [] => idx
    | (_, sig_vec) :: r => build_entries (label_idx + 1) r (build_sigs label_idx 0 sig_vec idx)
    end.
  Definition build_index (entries : list (L * list S)) : index := build_entries 0 entries [].

  (* the candidate loop of find_best_match; None = index out of range (panic) *)
  Fixpoint fbm_loop (entries : list (L * list S)) (observed : O) (cands : list (N * N))
           (best : option (N * N)) (min_distance : N) : option (option (N * N) * N) :=
    match cands with
    | [] => Some (best, min_distance)
    | (label_idx, sig_idx) :: r =>
        match nth_error entries (N.to_nat label_idx) with
        | None => None
        | Some (_, sig_vec) =>
            match nth_error sig_vec (N.to_nat sig_idx) with
            | None => None
            | Some db_sig =>
                match distance db_sig observed with
                | Some d => if d <? min_distance then fbm_loop entries observed r (Some (label_idx, sig_idx)) d
                            else fbm_loop entries observed r best min_distance
                | None => fbm_loop entries observed r best min_distance
                end
            end
        end
    end.

  (* <FingerprintCollection as FingerprintDb>::find_best_match on FingerprintCollection::new(entries) *)
  Definition find_best_match (entries : list (L * list S)) (observed : O) : fres :=
    match idx_get (key_of_obs observed) (build_index entries) with
    | None => FNone
    | Some [] => FNone
    | Some cands =>
        match fbm_loop entries observed cands None u32_max with
        | None => FPanic
        | Some (Some (li, si), min_distance) => FSome li si min_distance (score min_distance)
        | Some (None, _) => FNone
        end
    end.
End Collection.

(* Database.tcp_request / tcp_response and SignatureMatcher::matching_by_tcp_{request,response} *)
Definition tcp_find_best_match {L} (entries : list (L * list tcp_sig)) (o : tcp_sig) : fres :=
  find_best_match tcp_sig_keys tcp_obs_key tcp_key_eqb tcp_distance tcp_score entries o.
(* Database.http_request / http_response and SignatureMatcher::matching_by_http_{request,response} *)
Definition http_find_best_match {L} (entries : list (L * list http_sig)) (o : http_sig) : fres :=
  find_best_match http_sig_keys http_obs_key http_version_eqb http_distance http_score entries o.

(* ---------------- printing shared by the case interpreters ---------------- *)
(* quality in hundredths as "<int>.<2 digits>": 100 -> 1.00, 95 -> 0.95, 5 -> 0.05 *)
Definition show_quality (h : N) : bytes :=
  show_N (h / 100) ++ bs "." ++ show_N ((h mod 100) / 10) ++ show_N (h mod 10).
