(* MODEL of the HTTP/2 message layer of huginn-net-http:
   src/http2_parser.rs  `parse_request`, `parse_response`, `find_primary_stream`, `build_stream`,
                        `headers_fragment`, `parse_headers_payload`, `parse_cookies_from_headers`
                        (as they are after fixes c544740, 15d41c9 and 229155b),
   src/http2_process.rs `convert_http2_request_to_observable`, `convert_http2_response_to_observable`,
                        `convert_http2_headers_to_http_format`, `build_absent_headers_from_http2`,
                        `extract_traffic_classification`,
   huginn-net-db/src/display.rs  Display of Http{Request,Response}Observation / Header / Version.
   The language choice (`http_languages::get_highest_quality_language`) is left to the real
   function: the model reports the Accept-Language value that is handed to it.
   Definitions only. *)
From Coq Require Import List NArith Bool.
From Coq Require Import Strings.Byte.
From HN Require Import Base.Bytes Model.H2Text Model.H2Frames Model.Hpack Gen.H2Lists.
Import ListNotations.
Open Scope N_scope.

(* Ok(Some v) | Ok(None) | Err(_) | panic *)
Inductive pres (A : Type) := POk (a : A) | PNone | PErr | PPanic.
Arguments POk {A} a.
Arguments PNone {A}.
Arguments PErr {A}.
Arguments PPanic {A}.

(* http_common::HttpHeader (source omitted: always Http2Header here) *)
Record hhdr := { h_name : bytes; h_value : option bytes; h_pos : N }.
Record cookie := { c_name : bytes; c_value : option bytes; c_pos : N }.

(* ---------------- find_primary_stream ---------------- *)
Fixpoint find_primary_stream (frames : list frame) : option N :=
  match frames with
  | [] => None
  | f :: r => if (0 <? f_stream f) && (f_type f =? T_HEADERS) then Some (f_stream f)
              else find_primary_stream r
  end.

(* ---------------- headers_fragment ---------------- *)
(* payload without pad length, priority fields and padding; None = Err(InvalidFrameLength) *)
Definition headers_fragment (f : frame) : option bytes :=
  let p := f_payload f in
  let after_pad :=
    if has_flag (f_flags f) FLAG_PADDED
    then match p with first :: rest => Some (b2n first, rest) | [] => None end
    else Some (0, p) in
  match after_pad with
  | None => None
  | Some (pad_len, fragment) =>
      let after_prio :=
        if has_flag (f_flags f) FLAG_PRIORITY
        then (if blen fragment <? 5 then None else Some (skipn 5 fragment))      (* fragment.get(5..) *)
        else Some fragment in
      match after_prio with
      | None => None
      | Some fragment =>
          if blen fragment <? pad_len then None                                  (* checked_sub *)
          else Some (firstn (N.to_nat (blen fragment - pad_len)) fragment)
      end
  end.

(* ---------------- parse_headers_payload: HPACK list -> HttpHeader list ---------------- *)
Fixpoint to_http_headers (hs : list header) (pos : N) : list hhdr :=
  match hs with
  | [] => []
  | (n, v) :: r =>
      let value_str := lossy v in
      {| h_name := lossy n;
         h_value := match value_str with [] => None | _ => Some value_str end;
         h_pos := pos |} :: to_http_headers r (pos + 1)
  end.

(* ---------------- u16::from_str ---------------- *)
Definition parse_u16 (s : bytes) : option N :=
  let digits := match s with b :: r => if b2n b =? 43 (* '+' *) then r else s | [] => s end in
  match digits with
  | [] => None
  | _ => if all_digits digits
         then (let n := read_N_digits digits in if n <=? 65535 then Some n else None)
         else None
  end.
(* leading zeros cannot overflow the check: read_N_digits is exact on N *)

(* ---------------- build_stream ---------------- *)
Record stream := { s_headers : list hhdr;      (* in push order *)
                   s_method : option bytes; s_path : option bytes; s_authority : option bytes;
                   s_scheme : option bytes; s_status : option N }.
Definition stream_empty : stream :=
  {| s_headers := []; s_method := None; s_path := None; s_authority := None; s_scheme := None; s_status := None |}.

Definition unwrap_or_default (v : option bytes) : bytes := match v with Some x => x | None => [] end.

Definition absorb1 (s : stream) (h : hhdr) : stream :=
  let n := h_name h in
  if bytes_eqb n (bs ":method") then
    {| s_headers := s_headers s; s_method := Some (unwrap_or_default (h_value h)); s_path := s_path s;
       s_authority := s_authority s; s_scheme := s_scheme s; s_status := s_status s |}
  else if bytes_eqb n (bs ":path") then
    {| s_headers := s_headers s; s_method := s_method s; s_path := Some (unwrap_or_default (h_value h));
       s_authority := s_authority s; s_scheme := s_scheme s; s_status := s_status s |}
  else if bytes_eqb n (bs ":authority") then
    {| s_headers := s_headers s; s_method := s_method s; s_path := s_path s;
       s_authority := Some (unwrap_or_default (h_value h)); s_scheme := s_scheme s; s_status := s_status s |}
  else if bytes_eqb n (bs ":scheme") then
    {| s_headers := s_headers s; s_method := s_method s; s_path := s_path s;
       s_authority := s_authority s; s_scheme := Some (unwrap_or_default (h_value h)); s_status := s_status s |}
  else if bytes_eqb n (bs ":status") then
    {| s_headers := s_headers s; s_method := s_method s; s_path := s_path s;
       s_authority := s_authority s; s_scheme := s_scheme s;
       s_status := match h_value h with Some v => parse_u16 v | None => None end |}
  else
    {| s_headers := s_headers s ++ [h]; s_method := s_method s; s_path := s_path s;
       s_authority := s_authority s; s_scheme := s_scheme s; s_status := s_status s |}.
Definition absorb (s : stream) (hs : list hhdr) : stream := fold_left absorb1 hs s.

Inductive bres := BOk (s : stream) | BErr | BPanic.

(* the `for (index, frame) in stream_frames.iter().enumerate()` loop; `t` is the decoder state
   (reset to a fresh Decoder at the start of build_stream), `block` the pending header block *)
Fixpoint build_loop (frames : list frame) (block : bytes) (t : dtable) (s : stream) : bres :=
  match frames with
  | [] => BOk s
  | f :: r =>
      if (f_type f =? T_HEADERS) || (f_type f =? T_CONTINUATION) then
        match (if f_type f =? T_HEADERS then headers_fragment f else Some (f_payload f)) with
        | None => BErr
        | Some fragment =>
            let block := block ++ fragment in
            let end_headers := has_flag (f_flags f) FLAG_END_HEADERS in
            let more_fragments := match r with next :: _ => f_type next =? T_CONTINUATION | [] => false end in
            let is_last := match r with [] => true | _ => false end in
            if negb end_headers && more_fragments && negb is_last then build_loop r block t s
            else
              match hpack_decode t block with
              | DOk hs t' => build_loop r [] t' (absorb s (to_http_headers hs 0))
              | DErr => BErr
              | DPanic => BPanic
              | DFuel => BErr           (* unreachable: HpackProofs.hpack_decode_fuel *)
              end
        end
      else build_loop r block t s
  end.
Definition build_stream (sid : N) (frames : list frame) : bres :=
  build_loop (filter (fun f => f_stream f =? sid) frames) [] dt_new stream_empty.

(* ---------------- parse_cookies_from_headers ---------------- *)
Definition semicolon : byte := ";"%byte.
Definition equals : byte := "="%byte.
(* the cookies of one header value, numbering from `pos` *)
Fixpoint cookies_of_pieces (pieces : list bytes) (pos : N) : list cookie * N :=
  match pieces with
  | [] => ([], pos)
  | piece :: r =>
      let cs := trim piece in
      match cs with
      | [] => cookies_of_pieces r pos
      | _ =>
          let c := match find_byte equals cs with
                   | Some (before, after) => {| c_name := trim before; c_value := Some (trim after); c_pos := pos |}
                   | None => {| c_name := cs; c_value := None; c_pos := pos |}
                   end in
          let '(rest, p') := cookies_of_pieces r (pos + 1) in (c :: rest, p')
      end
  end.
Fixpoint parse_cookies (cookie_headers : list hhdr) (pos : N) : list cookie :=
  match cookie_headers with
  | [] => []
  | h :: r =>
      match h_value h with
      | Some v => let '(cs, p') := cookies_of_pieces (split_on semicolon v) pos in cs ++ parse_cookies r p'
      | None => parse_cookies r pos
      end
  end.

(* ---------------- parse_request ---------------- *)
Record h2_request := { q_method : bytes; q_path : bytes; q_authority : option bytes; q_scheme : option bytes;
                       q_headers : list hhdr; q_cookies : list cookie; q_referer : option bytes }.

(* the `for header in &stream.headers` loop: (headers, cookie_headers, referer) *)
Fixpoint split_headers (hs : list hhdr) (referer : option bytes) : list hhdr * list hhdr * option bytes :=
  match hs with
  | [] => ([], [], referer)
  | h :: r =>
      let lower := lower_cmp (h_name h) in
      if bytes_eqb lower (bs "cookie") then
        let '(hd, ck, rf) := split_headers r referer in (hd, h :: ck, rf)
      else if bytes_eqb lower (bs "referer") then
        split_headers r (match h_value h with Some v => Some v | None => referer end)
      else
        let '(hd, ck, rf) := split_headers r referer in (h :: hd, ck, rf)
  end.

(* the part of parse_request after build_stream *)
Definition finish_request (b : bres) : pres h2_request :=
  match b with
  | BErr => PErr
  | BPanic => PPanic
  | BOk s =>
      match s_method s, s_path s with
      | Some m, Some p =>
          let '(hd, ck, rf) := split_headers (s_headers s) None in
          POk {| q_method := m; q_path := p; q_authority := s_authority s; q_scheme := s_scheme s;
                 q_headers := hd; q_cookies := parse_cookies ck 0; q_referer := rf |}
      | _, _ => PErr                              (* MissingRequiredHeaders *)
      end
  end.

Definition parse_request (data : bytes) : pres h2_request :=
  match strip_prefix preface data with
  | None => PErr                                              (* InvalidPreface *)
  | Some frame_data =>
      let frames := parse_frames frame_data in
      match frames with
      | [] => PNone
      | _ =>
          match find_primary_stream frames with
          | None => PNone
          | Some sid => finish_request (build_stream sid frames)
          end
      end
  end.

(* ---------------- parse_response ---------------- *)
Record h2_response := { r_status : N; r_headers : list hhdr }.

(* the part of parse_response after build_stream *)
Definition finish_response (b : bres) : pres h2_response :=
  match b with
  | BErr => PErr
  | BPanic => PPanic
  | BOk s => match s_status s with
             | Some st => POk {| r_status := st; r_headers := s_headers s |}
             | None => PErr                                   (* MissingRequiredHeaders *)
             end
  end.

Definition parse_response (data : bytes) : pres h2_response :=
  let frames := parse_frames data in
  match frames with
  | [] => PNone
  | _ =>
      match find_primary_stream frames with
      | None => PNone
      | Some sid => finish_response (build_stream sid frames)
      end
  end.

(* ---------------- http2_process.rs: observation ---------------- *)
(* HashMap built by inserting (lowercased name -> value) for every header with a value, then get(key):
   the last such header wins *)
Definition map_get (key : bytes) (hs : list hhdr) : option bytes :=
  fold_left (fun acc h => match h_value h with
                          | Some v => if bytes_eqb (lower_cmp (h_name h)) key then Some v else acc
                          | None => acc end) hs None.

(* db::http::Header *)
Record sig_header := { sh_optional : bool; sh_name : bytes; sh_value : option bytes }.

Definition list_contains (l : list bytes) (x : bytes) : bool := existsb (fun y => bytes_eqb y x) l.

(* str::eq_ignore_ascii_case: same length and bytes equal after to_ascii_lowercase *)
Definition eq_ignore_ascii_case (a b : bytes) : bool := bytes_eqb (ascii_lower a) (ascii_lower b).
Definition list_any_ci (l : list bytes) (x : bytes) : bool := existsb (fun name => eq_ignore_ascii_case name x) l.

(* convert_http2_headers_to_http_format (after fix 229155b): the lowercased name is compared with
   the entries of the lists of huginn-net-db/src/http.rs by eq_ignore_ascii_case *)
Definition headers_in_order (is_request : bool) (hs : list hhdr) : list sig_header :=
  let optional_list := if is_request then request_optional_headers else response_optional_headers in
  let skip_value_list := if is_request then request_skip_value_headers else response_skip_value_headers in
  map (fun h =>
         let lower := lower_cmp (h_name h) in
         if list_any_ci optional_list lower then {| sh_optional := true; sh_name := h_name h; sh_value := None |}
         else if list_any_ci skip_value_list lower then {| sh_optional := false; sh_name := h_name h; sh_value := None |}
         else {| sh_optional := false; sh_name := h_name h; sh_value := h_value h |}) hs.

(* build_absent_headers_from_http2: both sides lowercased *)
Definition headers_absent (is_request : bool) (hs : list hhdr) : list sig_header :=
  let common_list := if is_request then request_common_headers else response_common_headers in
  let current := map (fun h => lower_cmp (h_name h)) hs in
  map (fun c => {| sh_optional := false; sh_name := c; sh_value := None |})
      (filter (fun c => negb (list_contains current (lower_cmp c))) common_list).

(* Display for Header, and format_http_display with Version::V20 => "2" *)
Definition show_sig_header (h : sig_header) : bytes :=
  (if sh_optional h then bs "?" else []) ++ sh_name h
  ++ match sh_value h with Some v => bs "=[" ++ v ++ bs "]" | None => [] end.
Definition show_signature (horder habsent : list sig_header) (expsw : bytes) : bytes :=
  bs "2:" ++ join (bs ",") (map show_sig_header horder) ++ bs ":"
  ++ join (bs ",") (map show_sig_header habsent) ++ bs ":" ++ expsw.
Definition traffic_classification (v : option bytes) : bytes := match v with Some x => x | None => bs "???" end.

(* what the harness prints of Http2Request + ObservableHttpRequest *)
Record req_view := { v_method : bytes; v_path : bytes; v_authority : option bytes; v_scheme : option bytes;
                     v_headers : list hhdr; v_cookies : list cookie; v_referer : option bytes;
                     v_user_agent : option bytes; v_accept_language : option bytes; v_signature : bytes }.
Definition observe_request (q : h2_request) : req_view :=
  let ua := map_get (bs "user-agent") (q_headers q) in
  {| v_method := q_method q; v_path := q_path q; v_authority := q_authority q; v_scheme := q_scheme q;
     v_headers := q_headers q; v_cookies := q_cookies q; v_referer := q_referer q;
     v_user_agent := ua; v_accept_language := map_get (bs "accept-language") (q_headers q);
     v_signature := show_signature (headers_in_order true (q_headers q)) (headers_absent true (q_headers q))
                                   (traffic_classification ua) |}.

Record resp_view := { w_status : N; w_headers : list hhdr; w_signature : bytes }.
Definition observe_response (r : h2_response) : resp_view :=
  let server := map_get (bs "server") (r_headers r) in
  {| w_status := r_status r; w_headers := r_headers r;
     w_signature := show_signature (headers_in_order false (r_headers r)) (headers_absent false (r_headers r))
                                   (traffic_classification server) |}.

Definition pres_map {A B} (f : A -> B) (r : pres A) : pres B :=
  match r with POk a => POk (f a) | PNone => PNone | PErr => PErr | PPanic => PPanic end.

(* parse_http2_request / Http2Processor::process_response *)
Definition analyse_request (data : bytes) : pres req_view := pres_map observe_request (parse_request data).
Definition analyse_response (data : bytes) : pres resp_view := pres_map observe_response (parse_response data).
