(* Model of the HTTP/1.x analysis path of huginn-net-http (C05).  Definitions only.

   http1_process.rs   Http1Processor::can_process_request / can_process_response   (h1_can_request/response)
   http2_process.rs   Http2Processor::can_process_request / can_process_response,
                      looks_like_http2_response; http2_parser.rs is_http2_traffic    (h2_* : gates only)
   http1_parser.rs    head_of, parse_request, parse_response, parse_request_line, parse_status_line,
                      parse_headers, parse_cookies, is_valid_method (Http1Config::default():
                      max_headers 100, max_request_line_length 8192, max_header_length 8192,
                      parse_cookies true, strict_parsing false)
   http_process.rs    HttpProcessors::parse_request / parse_response (first the HTTP/1 adapter, then
                      the HTTP/2 adapter; each only if its can_parse = can_process_request ||
                      can_process_response accepts the data)            (analyse_request/response in Http1Obs.v)

   Not modelled: the HTTP/2 parser.  When the HTTP/1 adapter yields nothing and the HTTP/2 gate
   accepts the data the model answers Unspec (property C16 covers that path).
   ParsingMetadata (timing, duplicate/case statistics), content_length, transfer_encoding,
   connection, host, reason_phrase, content_type, raw lines are not part of the observable
   report (ObservableHttpRequest/Response) and are left out. *)
From Coq Require Import List NArith Bool.
From Coq Require Import Strings.Byte.
From HN Require Import Base.Bytes Base.Http1Text Model.SigAst.
Import ListNotations.
Open Scope N_scope.

(* ---------- gates ---------- *)
Definition h2_preface : bytes :=
  bs "PRI * HTTP/2.0" ++ crlf2 ++ bs "SM" ++ crlf2.
Definition is_http2_traffic (d : bytes) : bool := starts_with h2_preface d.

(* http2_process::looks_like_http2_response *)
Definition looks_like_http2_response (d : bytes) : bool :=
  if N.of_nat (length d) <? 9 then false else
  match d with
  | b0 :: b1 :: b2 :: b3 :: _ =>
      if 16384 <? be_N [b0; b1; b2] then false else b2n b3 <=? 10
  | _ => false
  end.

(* the methods the gate lists (18 since the fix "MKCALENDAR and REPORT requests pass the HTTP/1 gate") *)
Definition gate_methods : list bytes :=
  [bs "GET"; bs "POST"; bs "PUT"; bs "DELETE"; bs "HEAD"; bs "OPTIONS"; bs "PATCH"; bs "TRACE";
   bs "CONNECT"; bs "PROPFIND"; bs "PROPPATCH"; bs "MKCOL"; bs "COPY"; bs "MOVE"; bs "LOCK"; bs "UNLOCK";
   bs "MKCALENDAR"; bs "REPORT"].
(* the methods the parser accepts (18): is_valid_method *)
Definition parser_methods : list bytes :=
  [bs "GET"; bs "POST"; bs "PUT"; bs "DELETE"; bs "HEAD"; bs "OPTIONS"; bs "PATCH"; bs "TRACE";
   bs "CONNECT"; bs "PROPFIND"; bs "PROPPATCH"; bs "MKCOL"; bs "COPY"; bs "MOVE"; bs "LOCK"; bs "UNLOCK";
   bs "MKCALENDAR"; bs "REPORT"].

Definition is_http1x (v : bytes) : bool := bytes_eqb v (bs "HTTP/1.0") || bytes_eqb v (bs "HTTP/1.1").

(* Http1Processor::can_process_request.  from_utf8_lossy does not change ASCII bytes, line ends or
   white space (see Base/Http1Text.v), so the tests are made on the raw bytes. *)
Definition h1_can_request (d : bytes) : bool :=
  if N.of_nat (length d) <? 16 then false
  else if is_http2_traffic d then false
  else match split_whitespace (first_line d) with
       | [m; u; v] => mem_bytes m gate_methods && is_http1x v && negb (bytes_eqb u [])
       | _ => false
       end.

(* Http1Processor::can_process_response *)
Definition h1_can_response (d : bytes) : bool :=
  if N.of_nat (length d) <? 12 then false
  else if (9 <=? N.of_nat (length d)) && looks_like_http2_response d then false
  else match splitn3_sp (first_line d) with
       | v :: c :: _ => is_http1x v && (N.of_nat (length c) =? 3) && all_ascii_digits c
       | _ => false
       end.

Definition h1_can_parse (d : bytes) : bool := h1_can_request d || h1_can_response d.

(* Http2Processor gates (only to know when the HTTP/2 adapter would be tried) *)
Definition h2_can_request (d : bytes) : bool :=
  if N.of_nat (length d) <? 24 then false else is_http2_traffic d.
Definition h2_can_response (d : bytes) : bool :=
  if N.of_nat (length d) <? 9 then false
  else if starts_with (bs "HTTP/1.") d then false   (* lossy text of the first 20 bytes starts with "HTTP/1." *)
  else looks_like_http2_response d.
Definition h2_can_parse (d : bytes) : bool := h2_can_request d || h2_can_response d.

(* ---------- parser ---------- *)
Inductive presult (A : Type) := POk (a : A) | PNone | PErr.   (* Ok(Some a) | Ok(None) | Err(_) *)
Arguments POk {A} a. Arguments PNone {A}. Arguments PErr {A}.

(* http1_parser::head_of *)
Definition head_of (d : bytes) : bytes :=
  let c := option_map (fun p => (p + 4)%nat) (find_sub crlf2 d) in
  let l := option_map (fun p => (p + 2)%nat) (find_sub lf2 d) in
  let e := match c, l with
           | Some a, Some b => Nat.min a b
           | Some a, None | None, Some a => a
           | None, None => length d
           end in
  firstn e d.

(* HttpHeader { name, value, position } (source is always Http1Line here) *)
Record hdr := { hd_name : bytes; hd_value : option bytes; hd_pos : nat }.
(* HttpCookie *)
Record cookie := { ck_name : bytes; ck_value : option bytes; ck_pos : nat }.

Definition max_headers : N := 100.
Definition max_line : N := 8192.

(* http::Version::parse restricted by `matches!(version, V10 | V11)` *)
Definition parse_version1 (v : bytes) : option http_version :=
  if bytes_eqb v (bs "HTTP/1.0") then Some HV10
  else if bytes_eqb v (bs "HTTP/1.1") then Some HV11
  else None.   (* unknown text -> InvalidVersion; HTTP/2, HTTP/3 -> InvalidVersion as well *)

(* parse_request_line *)
Definition parse_request_line (line : bytes) : option (bytes * bytes * http_version) :=
  if max_line <? N.of_nat (length line) then None else
  match split_whitespace line with
  | [m; u; v] =>
      match parse_version1 v with
      | Some ver => if mem_bytes m parser_methods then Some (m, u, ver) else None
      | None => None
      end
  | _ => None
  end.

(* u16::from_str: optional '+', at least one digit, value <= 65535 *)
Definition parse_u16 (s : bytes) : option N :=
  let d := match s with b :: r => if beqb b "+"%byte then r else s | [] => s end in
  match read_N d with
  | Some n => if n <=? 65535 then Some n else None
  | None => None
  end.

(* parse_status_line *)
Definition parse_status_line (line : bytes) : option (http_version * N) :=
  match splitn3_sp line with
  | v :: c :: _ =>
      match parse_version1 v with
      | Some ver => match parse_u16 c with Some n => Some (ver, n) | None => None end
      | None => None
      end
  | _ => None
  end.

(* parse_headers: the loop over the lines before the first empty one.
   None = Err(HeaderTooLong).  A line without ':' or with an empty name is skipped but counts
   for `position`. *)
Fixpoint parse_header_lines (lines : list bytes) (pos : nat) : option (list hdr) :=
  match lines with
  | [] => Some []
  | line :: rest =>
      if bytes_eqb line [] then Some []            (* `break` — cannot happen for lines[1..header_end] *)
      else if max_line <? N.of_nat (length line) then None
      else
        match find_byte ":"%byte line with
        | Some cp =>
            let name := trim (firstn cp line) in
            let value := trim (skipn (S cp) line) in
            if bytes_eqb name [] then parse_header_lines rest (S pos)
            else match parse_header_lines rest (S pos) with
                 | Some hs => Some ({| hd_name := name; hd_value := Some value; hd_pos := pos |} :: hs)
                 | None => None
                 end
        | None => parse_header_lines rest (S pos)
        end
  end.
Definition parse_headers (lines : list bytes) : option (list hdr) :=
  if max_headers <? N.of_nat (length lines) then None else parse_header_lines lines O.

(* parse_cookies *)
Fixpoint parse_cookie_pieces (ps : list bytes) (pos : nat) : list cookie :=
  match ps with
  | [] => []
  | p :: r =>
      let c := trim p in
      if bytes_eqb c [] then parse_cookie_pieces r pos else
      match find_byte "="%byte c with
      | Some ep => {| ck_name := trim (firstn ep c); ck_value := Some (trim (skipn (S ep) c)); ck_pos := pos |}
                   :: parse_cookie_pieces r (S pos)
      | None => {| ck_name := c; ck_value := None; ck_pos := pos |} :: parse_cookie_pieces r (S pos)
      end
  end.
Definition parse_cookies (v : bytes) : list cookie := parse_cookie_pieces (split_byte ";"%byte v) O.

(* the text handed to the line splitter, or why there is none *)
Definition head_lines (d : bytes) : presult (list bytes) :=
  let h := head_of d in
  if negb (utf8_valid h) then PErr
  else if negb (contains crlf2 h) && negb (contains lf2 h) then PNone
  else POk (if contains crlf h then split_crlf h else split_byte lf h).

(* lines[1..header_end], header_end = position of the first empty line (or the number of lines) *)
Fixpoint until_empty (ls : list bytes) : list bytes :=
  match ls with [] => [] | l :: r => if bytes_eqb l [] then [] else l :: until_empty r end.

(* last Some value among the headers called `lit` (referer: a later header overwrites) *)
Definition last_value (lit : bytes) (hs : list hdr) : option bytes :=
  fold_left (fun acc h => if eq_lower (hd_name h) lit then
                            match hd_value h with Some v => Some v | None => acc end else acc) hs None.
(* headers_map.entry(lower).or_insert(value) then get(lit): first header called `lit` with a value *)
Fixpoint first_value (lit : bytes) (hs : list hdr) : option bytes :=
  match hs with
  | [] => None
  | h :: r => if eq_lower (hd_name h) lit then
                match hd_value h with Some v => Some v | None => first_value lit r end
              else first_value lit r
  end.

(* cookie_header_value: the values of all headers called `lit`, joined by "; " in wire order
   (Some(match prev.take() { Some(p) => format!("{p}; {value}"), None => value.clone() })) *)
Definition joined_value (lit : bytes) (hs : list hdr) : option bytes :=
  fold_left (fun acc h => if eq_lower (hd_name h) lit then
                            match hd_value h with
                            | Some v => Some (match acc with Some prev => prev ++ bs "; " ++ v | None => v end)
                            | None => acc end else acc) hs None.

Record h1_request := {
  r_method : bytes; r_uri : bytes; r_version : http_version;
  r_headers : list hdr; r_cookies : list cookie; r_referer : option bytes;
  r_user_agent : option bytes; r_accept_language : option bytes }.

Definition is_cookie_or_referer (h : hdr) : bool :=
  eq_lower (hd_name h) (bs "cookie") || eq_lower (hd_name h) (bs "referer").

(* Http1Parser::parse_request *)
Definition parse_request (d : bytes) : presult h1_request :=
  match head_lines d with
  | PErr => PErr
  | PNone => PNone
  | POk lines =>
      match parse_request_line (hd [] lines) with
      | None => PErr
      | Some (m, u, ver) =>
          match parse_headers (until_empty (tl lines)) with
          | None => PErr
          | Some all =>
              let headers := filter (fun h => negb (is_cookie_or_referer h)) all in
              POk {| r_method := m; r_uri := u; r_version := ver;
                     r_headers := headers;
                     r_cookies := match joined_value (bs "cookie") all with
                                  | Some v => parse_cookies v | None => [] end;
                     r_referer := last_value (bs "referer") all;
                     r_user_agent := first_value (bs "user-agent") headers;
                     r_accept_language := first_value (bs "accept-language") headers |}
          end
      end
  end.

Record h1_response := {
  s_version : http_version; s_status : N; s_headers : list hdr; s_server : option bytes }.

(* Http1Parser::parse_response *)
Definition parse_response (d : bytes) : presult h1_response :=
  match head_lines d with
  | PErr => PErr
  | PNone => PNone
  | POk lines =>
      match parse_status_line (hd [] lines) with
      | None => PErr
      | Some (ver, code) =>
          match parse_headers (until_empty (tl lines)) with
          | None => PErr
          | Some hs => POk {| s_version := ver; s_status := code; s_headers := hs;
                              s_server := first_value (bs "server") hs |}
          end
      end
  end.
