(* The HTTP analyzer's flow layer: huginn-net-http/src/http_process.rs
   (`TcpFlow`, `TcpFlow::init`, `TcpFlow::get_full_data`, `has_complete_http_data`,
   `process_tcp_packet`), transcribed as `step : state -> segment -> state * out`.

   The HTTP parsers (`HttpProcessors::parse_request / parse_response`) are Section variables:
   this file models only what the flow table does with the bytes.  An executable instance for
   HTTP/1.x is Model/HttpRecog.v.  Expiry of cache entries by wall-clock TTL (60 s) is outside the
   model (Base/Cache.v).  Definitions only. *)
From Coq Require Import List NArith Bool.
From Coq Require Import Strings.Byte.
From HN Require Import Base.Bytes Base.Cache Base.Tcp.
Import ListNotations.
Open Scope N_scope.

(* ---- what process_tcp_packet reads from a packet ---- *)
Record segment := mkSeg {
  g_src : N; g_dst : N;            (* IpAddr (an IPv4 address as u32, or any injective code) *)
  g_sport : N; g_dport : N;        (* u16 *)
  g_syn : bool; g_fin : bool; g_rst : bool;   (* tcp.get_flags() & SYN / FIN / RST != 0; other flags are never read *)
  g_seq : N;                       (* tcp.get_sequence(), u32 *)
  g_pay : bytes }.                 (* tcp.payload() *)

(* FlowKey = (IpAddr, IpAddr, u16, u16) *)
Definition fkey := (N * N * N * N)%type.
Definition fkey_eqb (a b : fkey) : bool :=
  let '(a1, a2, a3, a4) := a in let '(b1, b2, b3, b4) := b in
  (a1 =? b1) && (a2 =? b2) && (a3 =? b3) && (a4 =? b4).

(* struct TcpData { sequence: u32, data: Vec<u8> } *)
Record tcpdata := mkTd { td_seq : N; td_data : bytes }.

(* struct TcpFlow *)
Record tcpflow := mkFlow {
  f_cip : N; f_sip : N; f_cport : N; f_sport : N;
  f_cdata : list tcpdata; f_sdata : list tcpdata;     (* push order = arrival order *)
  f_cparsed : bool; f_sparsed : bool }.

(* TcpFlow::init: the SYN's own (sequence, payload) is the first client segment *)
Definition flow_init (p : segment) : tcpflow :=
  mkFlow (g_src p) (g_dst p) (g_sport p) (g_dport p) [mkTd (g_seq p) (g_pay p)] [] false false.

(* `sorted_data.sort_by_key(|d| d.sequence.wrapping_sub(base) as i32)` with base = the sequence number of
   the first stored segment (fix C09-seq-wrap): a stable sort by the signed 32-bit distance from the
   base (serial number arithmetic).  `skey32 base s` is an unsigned key with the same order as
   `(s.wrapping_sub(base)) as i32`: the distance shifted by 2^31.  Every stable sort gives the same
   list; this one is an insertion sort whose accumulator is kept in reverse (largest first), so that
   input which is already ascending costs one comparison per element. *)
Definition skey32 (base s : N) : N := ((s + two32 - base) mod two32 + two31) mod two32.
Definition sort_base (l : list tcpdata) : N := match l with [] => 0 | d :: _ => td_seq d end.
Fixpoint insert_rev (k : tcpdata -> N) (x : tcpdata) (acc : list tcpdata) : list tcpdata :=
  match acc with
  | [] => [x]
  | y :: r => if k x <? k y then y :: insert_rev k x r else x :: acc
  end.
Definition sort_key (l : list tcpdata) : tcpdata -> N := fun d => skey32 (sort_base l) (td_seq d).
Definition sort_td (l : list tcpdata) : list tcpdata :=
  frev (fold_left (fun acc x => insert_rev (sort_key l) x acc) l []).

(* TcpFlow::get_full_data: clone, sort by signed distance from the first stored segment, concatenate ALL stored segments *)
Definition full_data (l : list tcpdata) : bytes := concat (map td_data (sort_td l)).

(* is_retransmission (fix C09-dup): a stored segment with the same sequence number and the same bytes *)
Definition is_retrans (l : list tcpdata) (td : tcpdata) : bool :=
  existsb (fun d => (td_seq d =? td_seq td) && bytes_eqb (td_data d) (td_data td)) l.

Definition is_some {A} (o : option A) : bool := match o with Some _ => true | None => false end.

Section Flow.
  Context {Req Resp : Type}.
  Variable parse_req : bytes -> option Req.     (* HttpProcessors::parse_request *)
  Variable parse_resp : bytes -> option Resp.   (* HttpProcessors::parse_response *)

  (* ObservableHttpPackage: at most one of the two is ever set by one packet *)
  Definition out := hout Req Resp.

  Definition state := cache fkey tcpflow.

  (* has_complete_http_data *)
  Definition has_complete (d : bytes) : bool :=
    if shorter_than 4 d then false else is_some (parse_req d) || is_some (parse_resp d).

  Definition set_flow (st : state) (k : fkey) (f : tcpflow) : state := cache_update fkey_eqb st k f.

  (* the tail of the payload branch: early removal when both parsed, else clean-up on RST, or on FIN
     unless the request was reported and the response was not (client half-close; fix for C09-fin).
     `flow_key` is the key of THIS packet (src,dst,sport,dport): for a server-to-client packet the
     flow is stored under the reversed key and the remove misses. *)
  Definition finish (st : state) (pkt_key : fkey) (f : tcpflow) (p : segment) : state :=
    if f_cparsed f && f_sparsed f then cache_remove fkey_eqb st pkt_key
    else if g_rst p || (g_fin p && negb (f_cparsed f && negb (f_sparsed f)))   (* response_pending keeps the flow on FIN *)
    then cache_remove fkey_eqb st pkt_key
    else st.

  (* process_tcp_packet, the `if let Some(flow) = tcp_flow` branch: `k` is the key under which the
     flow was found (this packet's key, or the reversed one: is_client = false) *)
  Definition on_flow (st : state) (p : segment) (flow_key k : fkey) (f : tcpflow) (is_client : bool) : state * out :=
    match g_pay p with
    | [] => (st, ONone)
    | _ :: _ =>
        let td := mkTd (g_seq p) (g_pay p) in
        if is_client && (g_src p =? f_cip f) && (g_sport p =? f_cport f) then
          if negb (f_cparsed f) && negb (is_retrans (f_cdata f) td) then
            let cd := f_cdata f ++ [td] in
            let full := full_data cd in
            let f1 := mkFlow (f_cip f) (f_sip f) (f_cport f) (f_sport f) cd (f_sdata f) false (f_sparsed f) in
            match (if has_complete full then parse_req full else None) with
            | Some r =>
                let f2 := mkFlow (f_cip f) (f_sip f) (f_cport f) (f_sport f) cd (f_sdata f) true (f_sparsed f) in
                (finish (set_flow st k f2) flow_key f2 p, OReq r)
            | None => (finish (set_flow st k f1) flow_key f1 p, ONone)
            end
          else (finish st flow_key f p, ONone)
        else if (g_src p =? f_sip f) && (g_sport p =? f_sport f) then
          if negb (f_sparsed f) && negb (is_retrans (f_sdata f) td) then
            let sd := f_sdata f ++ [td] in
            (* get_full_data(is_client): is_client is false on this branch unless client and
               server endpoints coincide; transcribed as coded *)
            let full := full_data (if is_client then f_cdata f else sd) in
            let f1 := mkFlow (f_cip f) (f_sip f) (f_cport f) (f_sport f) (f_cdata f) sd (f_cparsed f) false in
            match (if has_complete full then parse_resp full else None) with
            | Some r =>
                let f2 := mkFlow (f_cip f) (f_sip f) (f_cport f) (f_sport f) (f_cdata f) sd (f_cparsed f) true in
                (finish (set_flow st k f2) flow_key f2 p, OResp r)
            | None => (finish (set_flow st k f1) flow_key f1 p, ONone)
            end
          else (finish st flow_key f p, ONone)
        else (finish st flow_key f p, ONone)
    end.

  (* process_tcp_packet *)
  Definition step (st : state) (p : segment) : state * out :=
    let flow_key : fkey := (g_src p, g_dst p, g_sport p, g_dport p) in
    let rev_key : fkey := (g_dst p, g_src p, g_dport p, g_sport p) in
    match cache_get fkey_eqb st flow_key with
    | Some f => on_flow st p flow_key flow_key f true
    | None =>
        match cache_get fkey_eqb st rev_key with
        | Some f => on_flow st p flow_key rev_key f false
        | None =>
            if g_syn p then (cache_insert fkey_eqb st flow_key (flow_init p), ONone)
            else (st, ONone)
        end
    end.

  Fixpoint run (st : state) (tr : list segment) : state * list out :=
    match tr with
    | [] => (st, [])
    | p :: r => let '(st1, o) := step st p in
                let '(st2, os) := run st1 r in (st2, o :: os)
    end.
  Definition outs (cap : N) (tr : list segment) : list out := snd (run (cache_new cap) tr).
End Flow.


(* How an abstract event appears on the wire (the harness builds exactly these packets):
     connection n < 100          10.0.1.n:40000+n -> 10.0.2.1:80            (IPv4, distinct addresses)
     connection 100 <= n < 150   10.0.2.1:40000+n -> 10.0.2.1:80            (IPv4, a host connecting to its own
                                                                              address: the endpoints differ by port only)
     connection 150 <= n < 200   [::1]:40000+n -> [::1]:80                   (IPv6 loopback, same address)
   An address is just a code compared for equality.  Client ports are unique per connection, so every
   flow key of a trace is distinct whatever the addresses; within a connection the code keeps exactly
   the one fact the analyzer uses, namely whether client and server address coincide (the IPv6
   loopback address is therefore given the same code as 10.0.2.1). *)
Definition wire_sip : N := 167772673.                                       (* 10.0.2.1 / ::1 *)
Definition wire_cip (n : N) : N := if n <? 100 then 167772416 + n else wire_sip.   (* 10.0.1.n, or the server's own address *)
Definition wire (e : event) : segment :=
  let cip := wire_cip (e_conn e) in
  let sip := wire_sip in
  let cport := 40000 + e_conn e in
  if e_client e
  then mkSeg cip sip cport 80 (e_syn e) (e_fin e) (e_rst e) (e_seq e) (e_pay e)
  else mkSeg sip cip 80 cport (e_syn e) (e_fin e) (e_rst e) (e_seq e) (e_pay e).
