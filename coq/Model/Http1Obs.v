(* Model of http1_process.rs: convert_headers_to_http_format, build_absent_headers_from_new_parser,
   convert_http1_request/response_to_observable, extract_traffic_classification, and of the entry
   points HttpProcessors::parse_request / parse_response (http_process.rs).  Definitions only.
   Header lists: Gen/HeaderLists.v (regenerated from huginn-net-db/src/http.rs on every run).
   print_obs: huginn-net-db/src/display.rs (Display of Http{Request,Response}Observation). *)
From Coq Require Import List NArith Bool.
From Coq Require Import Strings.Byte.
From HN Require Import Base.Bytes Base.Http1Text Model.SigAst Model.Http1 Model.Lang Gen.HeaderLists.
Import ListNotations.
Open Scope N_scope.

(* convert_headers_to_http_format: list membership is exact (case-sensitive) for HTTP/1 *)
Definition convert_header (is_request : bool) (h : hdr) : header :=
  let optional_list := if is_request then request_optional_headers else response_optional_headers in
  let skip_value_list := if is_request then request_skip_value_headers else response_skip_value_headers in
  if mem_bytes (hd_name h) optional_list then {| h_optional := true; h_name := hd_name h; h_value := None |}
  else if mem_bytes (hd_name h) skip_value_list then {| h_optional := false; h_name := hd_name h; h_value := None |}
  else {| h_optional := false; h_name := hd_name h; h_value := hd_value h |}.
Definition convert_headers_to_http_format (hs : list hdr) (is_request : bool) : list header :=
  map (convert_header is_request) hs.

(* build_absent_headers_from_new_parser: common header absent when no reported header has that
   name, compared in lower case.  (The common names are ASCII; lower_ascii_lit lowers them.) *)
Definition lower_ascii_lit (l : bytes) : bytes := map lower_byte l.
Definition build_absent_headers (hs : list hdr) (is_request : bool) : list header :=
  let common := if is_request then request_common_headers else response_common_headers in
  map (fun c => {| h_optional := false; h_name := c; h_value := None |})
      (filter (fun c => negb (existsb (fun h => eq_lower (hd_name h) (lower_ascii_lit c)) hs)) common).

(* extract_traffic_classification *)
Definition expsw_of (v : option bytes) : bytes := match v with Some s => s | None => bs "???" end.

Record req_report := {
  q_method : bytes; q_uri : bytes; q_headers : list hdr; q_cookies : list cookie;
  q_referer : option bytes; q_user_agent : option bytes; q_lang : lang_res; q_sig : http_sig }.
Record resp_report := { p_status : N; p_headers : list hdr; p_sig : http_sig }.

(* convert_http1_request_to_observable *)
Definition observe_request (r : h1_request) : req_report :=
  {| q_method := r_method r; q_uri := r_uri r; q_headers := r_headers r; q_cookies := r_cookies r;
     q_referer := r_referer r; q_user_agent := r_user_agent r;
     q_lang := match r_accept_language r with
               | Some al => get_highest_quality_language al
               | None => LNone end;
     q_sig := {| hs_version := r_version r;
                 hs_horder := convert_headers_to_http_format (r_headers r) true;
                 hs_habsent := build_absent_headers (r_headers r) true;
                 hs_expsw := expsw_of (r_user_agent r) |} |}.

(* convert_http1_response_to_observable *)
Definition observe_response (s : h1_response) : resp_report :=
  {| p_status := s_status s; p_headers := s_headers s;
     p_sig := {| hs_version := s_version s;
                 hs_horder := convert_headers_to_http_format (s_headers s) false;
                 hs_habsent := build_absent_headers (s_headers s) false;
                 hs_expsw := expsw_of (s_server s) |} |}.

(* outcome of HttpProcessors::parse_* : Some report | None | (HTTP/2 adapter would be tried) *)
Inductive result (A : Type) := Ok (a : A) | NoResult | Unspec.
Arguments Ok {A} a. Arguments NoResult {A}. Arguments Unspec {A}.

(* HttpProcessors::parse_request *)
Definition analyse_request (d : bytes) : result req_report :=
  match (if h1_can_parse d then parse_request d else PNone) with
  | POk r => Ok (observe_request r)
  | _ => if h2_can_parse d then Unspec else NoResult
  end.

(* HttpProcessors::parse_response *)
Definition analyse_response (d : bytes) : result resp_report :=
  match (if h1_can_parse d then parse_response d else PNone) with
  | POk s => Ok (observe_response s)
  | _ => if h2_can_parse d then Unspec else NoResult
  end.

(* ---------- Display (huginn-net-db/src/display.rs) ---------- *)
Definition print_version (v : http_version) : bytes :=
  match v with HV10 => bs "0" | HV11 => bs "1" | HV20 => bs "2" | HV30 => bs "3" | HVAny => bs "*" end.
Definition print_header (h : header) : bytes :=
  (if h_optional h then bs "?" else []) ++ h_name h ++
  match h_value h with Some v => bs "=[" ++ v ++ bs "]" | None => [] end.
Definition print_obs (s : http_sig) : bytes :=
  print_version (hs_version s) ++ bs ":" ++ join (bs ",") (map print_header (hs_horder s)) ++ bs ":"
  ++ join (bs ",") (map print_header (hs_habsent s)) ++ bs ":" ++ hs_expsw s.

(* ---------- canonical result line (Appendix D; the Rust harness prints the same) ---------- *)
Definition show_opt (o : option bytes) : bytes := match o with Some v => show_hex v | None => bs "-" end.
Definition show_list {A} (f : A -> bytes) (l : list A) : bytes :=
  match l with [] => bs "-" | _ => join (bs ",") (map f l) end.
Definition show_hdr (h : hdr) : bytes :=
  show_hex (hd_name h) ++ bs ":" ++ show_opt (hd_value h) ++ bs ":" ++ show_N (N.of_nat (hd_pos h)).
Definition show_cookie (c : cookie) : bytes :=
  show_hex (ck_name c) ++ bs ":" ++ show_opt (ck_value c) ++ bs ":" ++ show_N (N.of_nat (ck_pos c)).
Definition show_lang (l : lang_res) : bytes :=
  match l with LSome n => show_hex n | LNone => bs "-" | LUnspec => bs "UNSPEC" end.
Definition show_http1_version (v : http_version) : bytes :=
  match v with HV10 => bs "HTTP/1.0" | HV11 => bs "HTTP/1.1" | _ => bs "?" end.

Definition show_req (r : req_report) : bytes :=
  q_method r ++ bs " " ++ show_hex (q_uri r) ++ bs " " ++ show_http1_version (hs_version (q_sig r))
  ++ bs " hdr=" ++ show_list show_hdr (q_headers r)
  ++ bs " cookies=" ++ show_list show_cookie (q_cookies r)
  ++ bs " referer=" ++ show_opt (q_referer r)
  ++ bs " ua=" ++ show_opt (q_user_agent r)
  ++ bs " lang=" ++ show_lang (q_lang r)
  ++ bs " sig=" ++ show_hex (print_obs (q_sig r)).
Definition show_resp (r : resp_report) : bytes :=
  show_http1_version (hs_version (p_sig r)) ++ bs " " ++ show_N (p_status r)
  ++ bs " hdr=" ++ show_list show_hdr (p_headers r)
  ++ bs " sig=" ++ show_hex (print_obs (p_sig r)).
Definition show_result {A} (f : A -> bytes) (r : result A) : bytes :=
  match r with Ok a => f a | NoResult => bs "NONE" | Unspec => bs "UNSPEC" end.
