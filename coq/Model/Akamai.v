(* MODEL of huginn-net-http/src/akamai_extractor.rs (`extract_akamai_fingerprint`,
   `extract_akamai_fingerprint_from_bytes`, `extract_settings_parameters`, `parse_settings_payload`,
   `extract_window_update`, `parse_window_update_payload`, `extract_priority_frames`,
   `parse_priority_payload`, `extract_pseudo_header_order`, `decode_headers`) and of
   src/akamai.rs (`SettingId`, `PseudoHeader`, `AkamaiFingerprint::generate_fingerprint_string`).
   The hash (`hash_fingerprint`: first 32 hex digits of SHA-256 of the string) is checked on the
   harness side against the sha2 crate; the model produces the string.  Definitions only. *)
From Coq Require Import List NArith Bool.
From Coq Require Import Strings.Byte.
From HN Require Import Base.Bytes Model.H2Frames Model.Hpack Model.H2Text Model.H2Msg.
Import ListNotations.
Open Scope N_scope.

(* ---------------- akamai.rs: SettingId ---------------- *)
Inductive setting_id :=
  | HeaderTableSize | EnablePush | MaxConcurrentStreams | InitialWindowSize | MaxFrameSize
  | MaxHeaderListSize | NoRfc7540Priorities | UnknownSetting (id : N).
Definition setting_from (id : N) : setting_id :=
  if id =? 1 then HeaderTableSize else if id =? 2 then EnablePush
  else if id =? 3 then MaxConcurrentStreams else if id =? 4 then InitialWindowSize
  else if id =? 5 then MaxFrameSize else if id =? 6 then MaxHeaderListSize
  else if id =? 9 then NoRfc7540Priorities else UnknownSetting id.
Definition setting_as_u16 (s : setting_id) : N :=
  match s with
  | HeaderTableSize => 1 | EnablePush => 2 | MaxConcurrentStreams => 3 | InitialWindowSize => 4
  | MaxFrameSize => 5 | MaxHeaderListSize => 6 | NoRfc7540Priorities => 9 | UnknownSetting id => id
  end.

(* parse_settings_payload: `while offset + 6 <= payload.len()`, one (id, value) per 6 octets *)
Fixpoint parse_settings_payload (p : bytes) : list (setting_id * N) :=
  match p with
  | a :: b :: c :: d :: e :: f :: rest =>
      (setting_from (be_N [a; b]), be_N [c; d; e; f]) :: parse_settings_payload rest
  | _ => []
  end.

Definition is_settings0 (f : frame) : bool := (f_type f =? T_SETTINGS) && (f_stream f =? 0).
Definition extract_settings_parameters (frames : list frame) : list (setting_id * N) :=
  match find is_settings0 frames with
  | Some f => parse_settings_payload (f_payload f)
  | None => []
  end.

(* parse_window_update_payload *)
Definition parse_window_update_payload (p : bytes) : option N :=
  match p with
  | a :: b :: c :: d :: _ => Some (be_N [n2b (b2n a mod 128); b; c; d])     (* payload[0] & 0x7F *)
  | _ => None
  end.
Definition is_wu0 (f : frame) : bool := (f_type f =? T_WINDOW_UPDATE) && (f_stream f =? 0).
Definition extract_window_update (frames : list frame) : N :=
  match find is_wu0 frames with
  | Some f => match parse_window_update_payload (f_payload f) with Some n => n | None => 0 end
  | None => 0
  end.

(* parse_priority_payload: (stream, exclusive, depends_on, weight) *)
Record priority := { p_stream : N; p_excl : bool; p_dep : N; p_weight : N }.
Definition parse_priority_payload (stream : N) (p : bytes) : option priority :=
  match p with
  | a :: b :: c :: d :: w :: _ =>
      Some {| p_stream := stream; p_excl := 128 <=? b2n a;
              p_dep := be_N [n2b (b2n a mod 128); b; c; d]; p_weight := b2n w |}
  | _ => None
  end.
Fixpoint extract_priority_frames (frames : list frame) : list priority :=
  match frames with
  | [] => []
  | f :: r =>
      if f_type f =? T_PRIORITY then
        match parse_priority_payload (f_stream f) (f_payload f) with
        | Some p => p :: extract_priority_frames r
        | None => extract_priority_frames r
        end
      else extract_priority_frames r
  end.

(* ---------------- akamai.rs: PseudoHeader ---------------- *)
Inductive pseudo := PMethod | PPath | PAuthority | PScheme | PStatus | PUnknown (name : bytes).
Definition pseudo_from (name : bytes) : pseudo :=
  if bytes_eqb name (bs ":method") then PMethod
  else if bytes_eqb name (bs ":path") then PPath
  else if bytes_eqb name (bs ":authority") then PAuthority
  else if bytes_eqb name (bs ":scheme") then PScheme
  else if bytes_eqb name (bs ":status") then PStatus
  else PUnknown name.
Definition pseudo_show (p : pseudo) : bytes :=
  match p with
  | PMethod => bs "m" | PPath => bs "p" | PAuthority => bs "a" | PScheme => bs "s"
  | PStatus => bs "st" | PUnknown name => bs "?" ++ name
  end.

Definition colon : byte := ":"%byte.
Definition starts_with_colon (name : bytes) : bool :=
  match name with b :: _ => beqb b colon | [] => false end.

(* outcome of a computation that may hit the (unreachable) panic! of the HPACK crate *)
Inductive outcome (A : Type) := Val (a : A) | Panicked.
Arguments Val {A} a.
Arguments Panicked {A}.

(* decode_headers + the filter/map of extract_pseudo_header_order: a fresh Decoder on the header
   block; headers whose NAME is not UTF-8 are dropped (the value is converted lossily and never
   looked at: fix for C17-ps-nonutf8); a decoding error yields the empty order *)
Definition is_headers_pos (f : frame) : bool := (f_type f =? T_HEADERS) && (0 <? f_stream f).
Definition pseudo_order_of_payload (payload : bytes) : outcome (list pseudo) :=
  match hpack_decode dt_new payload with
  | DOk hs _ =>
      Val (map (fun h => pseudo_from (fst h))
               (filter (fun h => starts_with_colon (fst h))
                       (filter (fun h => utf8_valid (fst h)) hs)))
  | DErr => Val []
  | DPanic => Panicked
  | DFuel => Val []          (* unreachable, see HpackProofs.decode_loop_fuel *)
  end.

(* frames.iter().position(..) and the frames after that position *)
Fixpoint find_headers_pos (frames : list frame) : option (frame * list frame) :=
  match frames with
  | [] => None
  | f :: r => if is_headers_pos f then Some (f, r) else find_headers_pos r
  end.
(* the `for next in frames.iter().skip(position + 1)` loop (fix 89b3393): CONTINUATION payloads of the
   same stream are appended up to and including the one with END_HEADERS; the loop stops at the first
   frame that is not such a CONTINUATION, or when the frames run out *)
Fixpoint collect_continuations (sid : N) (frames : list frame) (block : bytes) : bytes :=
  match frames with
  | [] => block
  | next :: r =>
      if negb (f_type next =? T_CONTINUATION) || negb (f_stream next =? sid) then block
      else let block := block ++ f_payload next in
           if has_flag (f_flags next) FLAG_END_HEADERS then block else collect_continuations sid r block
  end.
(* extract_pseudo_header_order after fix 89b3393: Http2Parser::headers_fragment of the first HEADERS
   frame on a non-zero stream (an error gives the empty order), plus the continuation fragments;
   whatever has been collected is decoded, complete or not *)
Definition extract_pseudo_header_order (frames : list frame) : outcome (list pseudo) :=
  match find_headers_pos frames with
  | None => Val []
  | Some (frame, rest) =>
      match headers_fragment frame with
      | None => Val []
      | Some fragment =>
          pseudo_order_of_payload
            (if has_flag (f_flags frame) FLAG_END_HEADERS then fragment
             else collect_continuations (f_stream frame) rest fragment)
      end
  end.

(* ---------------- generate_fingerprint_string ---------------- *)
Definition show_setting (s : setting_id * N) : bytes :=
  show_N (setting_as_u16 (fst s)) ++ bs ":" ++ show_N (snd s).
Definition show_priority (p : priority) : bytes :=
  show_N (p_stream p) ++ bs ":" ++ (if p_excl p then bs "1" else bs "0") ++ bs ":"
  ++ show_N (p_dep p) ++ bs ":" ++ show_N (p_weight p + 1).

Definition fingerprint_string (settings : list (setting_id * N)) (wu : N)
           (prios : list priority) (ps : list pseudo) : bytes :=
  let settings_str := join (bs ";") (map show_setting settings) in
  let window_str := if wu =? 0 then bs "00" else show_N wu in
  let priority_str := match prios with [] => bs "0" | _ => join (bs ",") (map show_priority prios) end in
  let pseudo_str := join (bs ",") (map pseudo_show ps) in
  settings_str ++ bs "|" ++ window_str ++ bs "|" ++ priority_str ++ bs "|" ++ pseudo_str.

(* extract_akamai_fingerprint: all four parts are computed first, then "settings.is_empty() => None" *)
Definition extract_akamai_fingerprint (frames : list frame) : outcome (option bytes) :=
  let settings := extract_settings_parameters frames in
  let wu := extract_window_update frames in
  let prios := extract_priority_frames frames in
  match extract_pseudo_header_order frames with
  | Panicked => Panicked
  | Val ps =>
      match settings with
      | [] => Val None
      | _ => Val (Some (fingerprint_string settings wu prios ps))
      end
  end.

(* extract_akamai_fingerprint_from_bytes *)
Definition extract_akamai_fingerprint_from_bytes (data : bytes) : outcome (option bytes) :=
  extract_akamai_fingerprint (parse_frames_skip_preface data).
