(* C01 -- panic-explicit model of the head layout of Http1Parser::parse_request / parse_response
   (huginn-net-http/src/http1_parser.rs): head_of, the blank-line test, the split into lines, `lines[0]`,
   `header_end = position(is_empty)`, `&lines[1..header_end]`.  Definitions only.
   The start-line parser (parse_request_line / parse_status_line) and parse_headers are NOT modelled beyond
   the one fact this layout relies on: both start-line parsers reject the EMPTY line
   (split_whitespace() yields 0 != 3 parts; splitn(3,' ') yields 1 < 2 parts).  Whether they accept a
   non-empty head is a parameter ([ok]); UTF-8 validation is outside (the model is used on ASCII input). *)
From Coq Require Import List NArith Bool.
From Coq Require Import Strings.Byte.
From HN Require Import Base.Bytes Model.TotalBase.
Import ListNotations.
Open Scope N_scope.

Definition CR : byte := x0d.
Definition LF : byte := x0a.
(* index just past the first "\r\n\r\n" / "\n\n":  windows(k).position(..).map(|p| p + k) *)
Fixpoint end_crlf2 (l : bytes) : option N :=
  match l with
  | [] => None
  | b :: r => if starts_with [CR; LF; CR; LF] l then Some 4 else option_map N.succ (end_crlf2 r)
  end.
Fixpoint end_lf2 (l : bytes) : option N :=
  match l with
  | [] => None
  | b :: r => if starts_with [LF; LF] l then Some 2 else option_map N.succ (end_lf2 r)
  end.
Definition head_of (data : bytes) : bytes :=
  let e := match end_crlf2 data, end_lf2 data with
           | Some a, Some b => N.min a b | Some a, None => a | None, Some a => a | None, None => len data end in
  firstn (N.to_nat e) data.                                   (* data.get(..end).unwrap_or(data) *)
Definition has_blank_line (s : bytes) : bool :=
  match end_crlf2 s, end_lf2 s with None, None => false | _, _ => true end.     (* contains("\r\n\r\n") || contains("\n\n") *)
Fixpoint contains_crlf (l : bytes) : bool :=
  match l with [] => false | b :: r => starts_with [CR; LF] l || contains_crlf r end.
(* str::split("\r\n") *)
Fixpoint split_crlf (l cur : bytes) : list bytes :=
  match l with
  | [] => [rev' cur]
  | a :: r =>
      match r with
      | b :: r' => if beqb a CR && beqb b LF then rev' cur :: split_crlf r' [] else split_crlf r (a :: cur)
      | [] => [rev' (a :: cur)]
      end
  end.
Definition lines_of (s : bytes) : list bytes := if contains_crlf s then split_crlf s [] else fsplit_on LF s.

(* checked list operations: lines[i], &lines[a..b] *)
Definition llen {A} (l : list A) : N := N.of_nat (length l).
Definition lidx {A} (l : list A) (i : N) : R A := match nth_error l (N.to_nat i) with Some x => Ok x | None => Panic end.
Definition lslice {A} (l : list A) (a b : N) : R (list A) :=
  if (a <=? b) && (b <=? llen l) then Ok (firstn (N.to_nat (b - a)) (skipn (N.to_nat a) l)) else Panic.
Fixpoint first_empty (ls : list bytes) : option N :=
  match ls with [] => None | l :: r => match l with [] => Some 0 | _ => option_map N.succ (first_empty r) end end.
Definition header_end (ls : list bytes) : N := match first_empty ls with Some p => p | None => llen ls end.

Inductive h1res := HNone | HSome | HErr.        (* Ok(None) | Ok(Some(..)) | Err(..) *)
(* the start-line parsers reject the empty line; [ok] = they and parse_headers accept this (non-empty-first-line) head *)
Definition start_line_ok (line : bytes) (ok : bool) : bool := match line with [] => false | _ => ok end.

(* the code as it is: start line first, then the slice *)
Definition parse_head (ok : bool) (data : bytes) : R h1res :=
  let s := head_of data in
  if negb (has_blank_line s) then Ok HNone else
  let lines := lines_of s in
  match lines with [] => Ok HErr | _ =>                          (* lines.is_empty() -> IncompleteData *)
    l0 <- lidx lines 0 ;;
    if negb (start_line_ok l0 ok) then Ok HErr else              (* parse_*_line(lines[0])? *)
    hl <- lslice lines 1 (header_end lines) ;;                   (* &lines[1..header_end] *)
    Ok (if ok then HSome else HErr)                              (* parse_headers(header_lines)? ... *)
  end.
(* the seeded reordering (slice taken before the start line is parsed), kept to show that the model sees it *)
Definition parse_head_slice_first (ok : bool) (data : bytes) : R h1res :=
  let s := head_of data in
  if negb (has_blank_line s) then Ok HNone else
  let lines := lines_of s in
  match lines with [] => Ok HErr | _ =>
    l0 <- lidx lines 0 ;;
    hl <- lslice lines 1 (header_end lines) ;;
    if negb (start_line_ok l0 ok) then Ok HErr else Ok (if ok then HSome else HErr)
  end.

Definition show_h1res (r : h1res) : bytes := match r with HNone => bs "RET N" | HSome => bs "RET S" | HErr => bs "RET E" end.
