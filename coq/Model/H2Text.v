(* MODEL of the std string functions the HTTP/2 code relies on: `String::from_utf8` validity
   (Unicode table 3-7 well-formed byte sequences), ASCII `to_lowercase`, `str::trim` (Unicode
   White_Space on UTF-8 text), `str::split(char)`, `str::find(char)` for ASCII separators.
   Text is `bytes` holding UTF-8.  Definitions only.  (Own copy for C16/C17; modelled, not verified.) *)
From Coq Require Import List NArith Bool.
From Coq Require Import Strings.Byte.
From HN Require Import Base.Bytes.
Import ListNotations.
Open Scope N_scope.

(* usize length of a byte string *)
Definition blen (l : bytes) : N := N.of_nat (length l).

Definition in_rng (b : byte) (lo hi : N) : bool := (lo <=? b2n b) && (b2n b <=? hi).
Definition cont_b (b : byte) : bool := in_rng b 128 191.

(* fuel-free: structural on the list (each clause consumes 1..4 bytes) *)
Fixpoint utf8_valid (l : bytes) : bool :=
  match l with
  | [] => true
  | a :: r =>
      if b2n a <? 128 then utf8_valid r
      else match r with
      | b :: r2 =>
          if in_rng a 194 223 then cont_b b && utf8_valid r2
          else match r2 with
          | c :: r3 =>
              if in_rng a 224 224 then in_rng b 160 191 && cont_b c && utf8_valid r3
              else if in_rng a 225 236 || in_rng a 238 239 then cont_b b && cont_b c && utf8_valid r3
              else if in_rng a 237 237 then in_rng b 128 159 && cont_b c && utf8_valid r3
              else match r3 with
              | d :: r4 =>
                  if in_rng a 240 240 then in_rng b 144 191 && cont_b c && cont_b d && utf8_valid r4
                  else if in_rng a 241 243 then cont_b b && cont_b c && cont_b d && utf8_valid r4
                  else if in_rng a 244 244 then in_rng b 128 143 && cont_b c && cont_b d && utf8_valid r4
                  else false
              | [] => false
              end
          | [] => false
          end
      | [] => false
      end
  end.

Definition is_ascii (l : bytes) : bool := forallb (fun b => b2n b <? 128) l.

Definition lower_byte (b : byte) : byte := if in_rng b 65 90 then n2b (b2n b + 32) else b.
(* str::to_lowercase restricted to ASCII text (callers check is_ascii) *)
Definition ascii_lower (l : bytes) : bytes := map lower_byte l.

(* char::is_whitespace (White_Space): U+0009..000D, 0020, 0085, 00A0, 1680, 2000..200A, 2028, 2029,
   202F, 205F, 3000 -- as UTF-8 prefixes *)
Definition ws_prefix_len (l : bytes) : nat :=
  match l with
  | a :: r =>
      if in_rng a 9 13 || in_rng a 32 32 then 1%nat
      else match r with
      | b :: r2 =>
          if in_rng a 194 194 && (in_rng b 133 133 || in_rng b 160 160) then 2%nat
          else match r2 with
          | c :: _ =>
              if in_rng a 225 225 && in_rng b 154 154 && in_rng c 128 128 then 3%nat
              else if in_rng a 226 226 && in_rng b 128 128 && (in_rng c 128 138 || in_rng c 168 169 || in_rng c 175 175) then 3%nat
              else if in_rng a 226 226 && in_rng b 129 129 && in_rng c 159 159 then 3%nat
              else if in_rng a 227 227 && in_rng b 128 128 && in_rng c 128 128 then 3%nat
              else 0%nat
          | [] => 0%nat
          end
      | [] => 0%nat
      end
  | [] => 0%nat
  end.

Fixpoint trim_start_fuel (fuel : nat) (l : bytes) : bytes :=
  match fuel with
  | O => l
  | S f => match ws_prefix_len l with O => l | n => trim_start_fuel f (skipn n l) end
  end.
Definition trim_start (l : bytes) : bytes := trim_start_fuel (length l) l.

(* same whitespace set read backwards (the text is valid UTF-8) *)
Definition ws_suffix_len (rl : bytes) : nat :=   (* rl = reversed text *)
  match rl with
  | a :: r =>
      if in_rng a 9 13 || in_rng a 32 32 then 1%nat
      else match r with
      | b :: r2 =>
          if in_rng b 194 194 && (in_rng a 133 133 || in_rng a 160 160) then 2%nat
          else match r2 with
          | c :: _ =>
              if in_rng c 225 225 && in_rng b 154 154 && in_rng a 128 128 then 3%nat
              else if in_rng c 226 226 && in_rng b 128 128 && (in_rng a 128 138 || in_rng a 168 169 || in_rng a 175 175) then 3%nat
              else if in_rng c 226 226 && in_rng b 129 129 && in_rng a 159 159 then 3%nat
              else if in_rng c 227 227 && in_rng b 128 128 && in_rng a 128 128 then 3%nat
              else 0%nat
          | [] => 0%nat
          end
      | [] => 0%nat
      end
  | [] => 0%nat
  end.
Fixpoint trim_end_fuel (fuel : nat) (rl : bytes) : bytes :=
  match fuel with
  | O => rl
  | S f => match ws_suffix_len rl with O => rl | n => trim_end_fuel f (skipn n rl) end
  end.
Definition trim_end (l : bytes) : bytes := rev (trim_end_fuel (length l) (rev l)).
Definition trim (l : bytes) : bytes := trim_end (trim_start l).

(* position of the first occurrence of an ASCII byte: str::find(char) *)
Fixpoint find_byte (c : byte) (l : bytes) : option (bytes * bytes) :=   (* (before, after) *)
  match l with
  | [] => None
  | b :: r => if beqb b c then Some ([], r)
              else match find_byte c r with Some (x, y) => Some (b :: x, y) | None => None end
  end.

(* linear-time tokenizer for case lines (List.rev is quadratic; lines may carry 16 KiB frames) *)
Fixpoint split_lin_aux (sep : byte) (l cur : bytes) : list bytes :=
  match l with
  | [] => [rev' cur]
  | b :: r => if beqb b sep then rev' cur :: split_lin_aux sep r [] else split_lin_aux sep r (b :: cur)
  end.
Definition split_lin (sep : byte) (l : bytes) : list bytes := split_lin_aux sep l [].
Definition fields_lin (l : bytes) : list bytes :=
  filter (fun f => match f with [] => false | _ => true end) (split_lin sp l).

(* String::from_utf8_lossy: every maximal invalid sequence (std::str::Utf8Chunks) becomes U+FFFD *)
Definition fffd : bytes := [xef; xbf; xbd].
Definition second3_ok (a b : byte) : bool :=
  if in_rng a 224 224 then in_rng b 160 191
  else if in_rng a 237 237 then in_rng b 128 159 else cont_b b.
Definition second4_ok (a b : byte) : bool :=
  if in_rng a 240 240 then in_rng b 144 191
  else if in_rng a 244 244 then in_rng b 128 143 else cont_b b.
Fixpoint lossy (l : bytes) : bytes :=
  match l with
  | [] => []
  | a :: r =>
      if b2n a <? 128 then a :: lossy r
      else if in_rng a 194 223 then
        match r with
        | b :: r2 => if cont_b b then a :: b :: lossy r2 else fffd ++ lossy r
        | [] => fffd
        end
      else if in_rng a 224 239 then
        match r with
        | b :: r2 =>
            if second3_ok a b then
              match r2 with
              | c :: r3 => if cont_b c then a :: b :: c :: lossy r3 else fffd ++ lossy r2
              | [] => fffd
              end
            else fffd ++ lossy r
        | [] => fffd
        end
      else if in_rng a 240 244 then
        match r with
        | b :: r2 =>
            if second4_ok a b then
              match r2 with
              | c :: r3 =>
                  if cont_b c then
                    match r3 with
                    | d :: r4 => if cont_b d then a :: b :: c :: d :: lossy r4 else fffd ++ lossy r3
                    | [] => fffd
                    end
                  else fffd ++ lossy r2
              | [] => fffd
              end
            else fffd ++ lossy r
        | [] => fffd
        end
      else fffd ++ lossy r
  end.

(* str::to_lowercase as far as equality with ASCII words is concerned: ASCII letters are lowered and
   U+212A KELVIN SIGN (e2 84 aa) becomes 'k'; every other non-ASCII character keeps non-ASCII bytes
   (assumption on the Unicode tables: no other non-ASCII character lowercases to ASCII only) *)
Fixpoint lower_cmp (l : bytes) : bytes :=
  match l with
  | a :: ((b :: c :: r) as t) =>
      if in_rng a 226 226 && in_rng b 132 132 && in_rng c 170 170 then "k"%byte :: lower_cmp r
      else lower_byte a :: lower_cmp t
  | a :: t => lower_byte a :: lower_cmp t
  | [] => []
  end.
