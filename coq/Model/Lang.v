(* Model of huginn-net-http/src/http_languages.rs `get_highest_quality_language`.
   Definitions only.  Table: Gen/Languages.v (regenerated from the source on every run).

   f32 handling.  The code parses the text after "q=" with `str::parse::<f32>()` and compares with
   partial_cmp.  The model recognises the grammar `f32::from_str` accepts (core::num::dec2flt):
     [+-]? ( inf | infinity | nan  (any letter case)  |  D+ | D+ . D* | D* . D+ ) ( [eE] [+-]? D+ )?
   - text outside that grammar: the parse fails -> the code's default 1.0   (modelled exactly)
   - 1..3 integer digits, optionally `.` and 0..3 fraction digits: value in thousandths; on that
     domain decimal -> f32 rounding is strictly monotone (k/1000, k < 10^6, neighbours are 1e-3
     apart, f32 spacing below 1024 is <= 6.2e-5), so integer comparison of thousandths is the
     f32 comparison                                                  (modelled exactly)
   - any other text inside the grammar (sign, exponent, > 3 fraction digits, inf, nan): QUnspec;
     when such a weight belongs to an entry with a known language the result is LUnspec. *)
From Coq Require Import List NArith Bool.
From Coq Require Import Strings.Byte.
From HN Require Import Base.Bytes Base.Http1Text Gen.Languages.
Import ListNotations.
Open Scope N_scope.

(* HashMap built by successive insert: the last insert of a key wins *)
Definition lang_lookup (code : bytes) : option bytes :=
  fold_left (fun acc kv => if bytes_eqb (fst kv) code then Some (snd kv) else acc) languages None.

(* ---- f32::from_str grammar ---- *)
Fixpoint span_digits (l : bytes) : bytes * bytes :=
  match l with
  | b :: r => if is_digit b then let (d, t) := span_digits r in (b :: d, t) else ([], l)
  | [] => ([], [])
  end.
Definition is_sign (b : byte) : bool := beqb b "+"%byte || beqb b "-"%byte.
Definition drop_sign (l : bytes) : bytes :=
  match l with b :: r => if is_sign b then r else l | [] => l end.
Definition is_e (b : byte) : bool := beqb b "e"%byte || beqb b "E"%byte.
Definition exp_ok (l : bytes) : bool :=   (* "" or [eE][+-]?D+ up to the end *)
  match l with
  | [] => true
  | b :: r => is_e b && (let (d, t) := span_digits (drop_sign r) in
                         negb (bytes_eqb d []) && bytes_eqb t [])
  end.
Definition number_ok (l : bytes) : bool :=
  let (ip, t) := span_digits l in
  match t with
  | b :: r => if beqb b "."%byte
              then let (fp, t') := span_digits r in
                   negb (bytes_eqb ip [] && bytes_eqb fp []) && exp_ok t'
              else negb (bytes_eqb ip []) && exp_ok t
  | [] => negb (bytes_eqb ip [])
  end.
Definition lower_ascii (l : bytes) : bytes := map lower_byte l.
Definition f32_grammar (s : bytes) : bool :=
  let u := drop_sign s in
  let w := lower_ascii u in
  bytes_eqb w (bs "inf") || bytes_eqb w (bs "infinity") || bytes_eqb w (bs "nan") || number_ok u.

Definition pad3 (fp : bytes) : N :=   (* fraction digits (<= 3) as thousandths *)
  match fp with
  | [] => 0
  | [a] => digit_val a * 100
  | [a; b] => digit_val a * 100 + digit_val b * 10
  | a :: b :: c :: _ => digit_val a * 100 + digit_val b * 10 + digit_val c
  end.
(* D{1,3} [ "." D{0,3} ]  ->  thousandths *)
Definition simple_decimal (s : bytes) : option N :=
  let (ip, t) := span_digits s in
  if bytes_eqb ip [] || (3 <? N.of_nat (length ip)) then None else
  match t with
  | [] => Some (read_N_digits ip * 1000)
  | b :: r => if beqb b "."%byte
              then let (fp, t') := span_digits r in
                   if bytes_eqb t' [] && (N.of_nat (length fp) <=? 3)
                   then Some (read_N_digits ip * 1000 + pad3 fp) else None
              else None
  end.

Inductive qres := QThousandths (n : N) | QUnspec.
(* q.trim().trim_start_matches("q=").trim_start_matches("Q=").parse::<f32>().ok() ... unwrap_or(1.0)
   (trim: Unicode White_Space at both ends of the whole parameter; then the literal prefix "q=",
   repeatedly, then "Q=", repeatedly; so " q=0.5 " and "Q=0.5" are 0.5 while "q = 0.5" does not
   parse and gives 1.0) *)
Definition parse_quality (piece : option bytes) : qres :=
  match piece with
  | None => QThousandths 1000
  | Some q =>
      let t := trim_start_matches (bs "Q=") (trim_start_matches (bs "q=") (trim q)) in
      if f32_grammar t then
        match simple_decimal t with Some n => QThousandths n | None => QUnspec end
      else QThousandths 1000
  end.

(* one element of accept_language.split(','): Some (quality, language name) when it survives
   the filter_map *)
Definition lang_entry (part : bytes) : option (qres * bytes) :=
  let pieces := split_byte ";"%byte part in
  let full_language := trim (hd [] pieces) in
  if bytes_eqb full_language [] then None else
  (* full_language.split('-').next().unwrap_or("").to_ascii_lowercase() *)
  let language := lower_ascii (hd [] (split_byte "-"%byte full_language)) in
  let quality := parse_quality (nth_error pieces 1) in
  match lang_lookup language with
  | Some name => Some (quality, name)
  | None => None
  end.

Inductive lang_res := LSome (name : bytes) | LNone | LUnspec.

(* Iterator::max_by with (quality, then earlier index greater): the first entry whose quality is
   not exceeded by any other.  best = None while nothing has been seen. *)
Fixpoint lang_max (es : list (option (qres * bytes))) (best : option (N * bytes)) (unspec : bool) : lang_res :=
  match es with
  | [] => if unspec then LUnspec else match best with Some (_, n) => LSome n | None => LNone end
  | None :: r => lang_max r best unspec
  | Some (QUnspec, _) :: r => lang_max r best true
  | Some (QThousandths q, n) :: r =>
      match best with
      | None => lang_max r (Some (q, n)) unspec
      | Some (bq, _) => if bq <? q then lang_max r (Some (q, n)) unspec else lang_max r best unspec
      end
  end.

Definition get_highest_quality_language (accept_language : bytes) : lang_res :=
  lang_max (map lang_entry (split_byte ","%byte accept_language)) None false.
