(* The worker-pool transition system of Base/Keyed.v over a CONCRETE analyzer: every worker owns a private
   concrete state (its own TtlCache table) and runs the packet-level step of the sequential analyzer on the
   packets of its FIFO queue; the dispatcher sends a packet to the worker the real dispatch hash names.
     huginn-net-tls/src/parallel.rs  WorkerPool::dispatch: packet_hash::hash_flow(&packet, n) -> worker, None = discard;
                                     worker loop: one TtlCache::new(max_connections) per worker, process_packet
     huginn-net-tcp/src/parallel.rs  dispatch: hash_source_ip % n; one connection tracker per worker
   Events are Keyed.ev: Disp p (enqueue) and Work w (worker w dequeues one packet and steps); batch size and
   timeout only choose among Work events.  Definitions only. *)
From Coq Require Import List NArith ZArith Bool.
From HN Require Import Base.Bytes Base.Keyed Model.Hash Model.TlsAnalyzer.
From HN Require Model.TcpAnalyzer Model.Uptime.
Import ListNotations.

Section CPool.
  Variables (P K O C : Type).
  Variable key : P -> K.                        (* only used to tag results, as the sequential run does *)
  Variable cstep : C -> P -> C * list O.        (* the concrete analyzer step a worker runs *)
  Variable wk : P -> nat.                       (* the dispatch function *)

  Record cpst := { cq : nat -> list P; cws : nat -> C; couts : list (K * O) }.

  Definition cpstep (x : cpst) (e : ev P) : cpst :=
    match e with
    | Disp _ p => {| cq := updn (cq x) (wk p) (cq x (wk p) ++ [p]); cws := cws x; couts := couts x |}
    | Work _ w => match cq x w with
                  | [] => x
                  | p :: rest =>
                      let '(c', o) := cstep (cws x w) p in
                      {| cq := updn (cq x) w rest; cws := updn (cws x) w c';
                         couts := couts x ++ map (fun r => (key p, r)) o |}
                  end
    end.
  Definition cinit (c0 : C) : cpst := {| cq := fun _ => []; cws := fun _ => c0; couts := [] |}.
  Definition cprun (c0 : C) (es : list (ev P)) : cpst := fold_left cpstep es (cinit c0).

  (* every worker stays within ITS capacity: when worker w takes packet p, p fits w's table *)
  Variable fits : C -> P -> bool.
  Fixpoint cpwithinb (x : cpst) (es : list (ev P)) : bool :=
    match es with
    | [] => true
    | e :: r =>
        (match e with
         | Work _ w => match cq x w with p :: _ => fits (cws x w) p | [] => true end
         | Disp _ _ => true
         end) && cpwithinb (cpstep x e) r
    end.
End CPool.

(* ---- TLS pool: n workers, each with a flow table of capacity cap ---- *)
Section TlsPool.
  Variable SipH : ident -> N.
  Definition tls_wk (n : N) (f : bytes) : nat :=
    match tls_worker SipH n f with Some w => N.to_nat w | None => O end.   (* None = discarded: never dispatched *)
  Definition tls_pool_run (n cap : N) (es : list (ev bytes)) : cpst bytes N tls_out tls_state :=
    cprun bytes N tls_out tls_state tls_key (tls_packet_results cap) (tls_wk n) [] es.
  Definition tls_pool_withinb (n cap : N) (es : list (ev bytes)) : bool :=
    cpwithinb bytes N tls_out tls_state tls_key (tls_packet_results cap) (tls_wk n) (tls_fits cap)
              (cinit bytes N tls_out tls_state []) es.
End TlsPool.

(* ---- TCP pool: n workers, each with a connection tracker of capacity cap ---- *)
Section TcpPool.
  Import TcpAnalyzer.
  Variable SipH : ident -> N.
  Variable db : list (bytes * list N).
  Definition tcp_wk (n : N) (e : tcp_event) : nat :=
    match tcp_worker SipH n (fst e) with Some w => N.to_nat w | None => O end.
  (* the tracker key of EVERY IP frame, also of those process_frame rejects (their step leaves the tracker
     alone): (connection, role) read off the frame *)
  Definition tcp_pool_key (e : tcp_event) : Uptime.connection_key :=
    match frame_segment (fst e) with
    | Some q => (q_conn q, q_from_client q)
    | None => (no_conn, true)
    end.
  Definition tcp_pool_run (n cap : N) (es : list (ev tcp_event)) :=
    cprun tcp_event Uptime.connection_key tcp_result tcp_state tcp_pool_key (tcp_packet_results db cap) (tcp_wk n) [] es.
  Definition tcp_pool_withinb (n cap : N) (es : list (ev tcp_event)) : bool :=
    cpwithinb tcp_event Uptime.connection_key tcp_result tcp_state tcp_pool_key (tcp_packet_results db cap) (tcp_wk n)
              (tcp_fits db cap) (cinit tcp_event Uptime.connection_key tcp_result tcp_state []) es.
End TcpPool.
