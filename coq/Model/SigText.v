(* Executable model of the signature text layer of huginn-net-db:
     - the nom 8 parsers of  huginn-net-db/src/db_parse.rs  (parse_* functions, impl_from_str!)
     - the Display printers of  huginn-net-db/src/display.rs
   A parser is a function  bytes -> option (A * bytes)  (value, remaining input); `None` stands for
   nom's Err::Error (the only error kind these `complete` parsers produce).  `alt` is ordered choice with
   backtracking (`orelse`), `map_res(p, f)` fails when f fails, so a later alternative is tried.
   Text is a byte string (Rust &str is UTF-8; every character class used below is ASCII-only, so a
   predicate on chars stops at exactly the same byte offset as the predicate on bytes).
   Definitions only; proofs are in Proofs/SigTextProofs.v. *)
From Coq Require Import List NArith Bool.
From Coq Require Import Strings.Byte.
From HN Require Import Base.Bytes Model.SigAst.
Import ListNotations.
Open Scope N_scope.

Definition parser (A : Type) := bytes -> option (A * bytes).

(* list reversal in linear time (List.rev is quadratic); equal to List.rev by List.rev_alt *)
Definition revl (l : bytes) : bytes := rev_append l [].

(* nom::branch::alt on two results: first success wins *)
Definition orelse {A} (a b : option A) : option A := match a with Some x => Some x | None => b end.

(* ---------- character classes (nom::AsChar for char: ASCII only) ---------- *)
Definition is_upper (b : byte) : bool := (65 <=? b2n b) && (b2n b <=? 90).
Definition is_lower (b : byte) : bool := (97 <=? b2n b) && (b2n b <=? 122).
Definition is_alpha (b : byte) : bool := is_upper b || is_lower b.
Definition is_alnum (b : byte) : bool := is_alpha b || is_digit b.
Definition is_space (b : byte) : bool := beqb b " "%byte || beqb b x09.       (* nom is_space: ' ' | '\t' *)
(* parse_header_key_value: (c.is_ascii_alphanumeric() || c == '-') && c != ':' && c != '=' *)
Definition is_hname (b : byte) : bool :=
  (is_alnum b || beqb b "-"%byte) && negb (beqb b ":"%byte) && negb (beqb b "="%byte).

(* ---------- nom combinators ---------- *)
(* longest prefix satisfying p, and the rest (take_while / the scanning part of digit1, alpha1, ...) *)
Fixpoint span (p : byte -> bool) (l : bytes) : bytes * bytes :=
  match l with
  | [] => ([], [])
  | b :: r => if p b then (let (a, c) := span p r in (b :: a, c)) else ([], l)
  end.

(* take_while1-like: digit1 / alpha1 / alphanumeric1 fail on an empty match *)
Definition span1 (p : byte -> bool) : parser bytes :=
  fun i => match span p i with ([], _) => None | (d, r) => Some (d, r) end.
Definition digit1 : parser bytes := span1 is_digit.
Definition alpha1 : parser bytes := span1 is_alpha.
Definition alphanumeric1 : parser bytes := span1 is_alnum.
Definition space0 (i : bytes) : bytes := snd (span is_space i).                (* value unused by callers *)

(* tag(t) mapped to a constant *)
Definition tag {A} (t : bytes) (v : A) : parser A :=
  fun i => match strip_prefix t i with Some r => Some (v, r) | None => None end.

(* take_until(c) for a one-byte pattern: everything before the first c; fails when there is no c *)
Fixpoint take_until (c : byte) (l : bytes) : option (bytes * bytes) :=
  match l with
  | [] => None
  | b :: r => if beqb b c then Some ([], l)
              else match take_until c r with Some (a, s) => Some (b :: a, s) | None => None end
  end.

(* |s: &str| s.parse::<u8>() / ::<u16>() on a non-empty all-digit string: leading zeros accepted,
   value above the type's maximum rejected *)
Definition dec_max (max : N) (d : bytes) : option N :=
  let n := read_N_digits d in if n <=? max then Some n else None.
Definition U8 : N := 255.
Definition U16 : N := 65535.

(* map_res(digit1, parse::<uN>) *)
Definition num (max : N) : parser N :=
  fun i => match digit1 i with
           | Some (d, r) => match dec_max max d with Some n => Some (n, r) | None => None end
           | None => None end.

(* map_res(preceded(tag(t), digit1), parse::<uN>().map(f)) *)
Definition tag_num {A} (t : bytes) (max : N) (f : N -> A) : parser A :=
  fun i => match strip_prefix t i with
           | Some r => match num max r with Some (n, r') => Some (f n, r') | None => None end
           | None => None end.

(* the loop of nom::multi::separated_list0/1 after the first element.  When the separator matches but
   the element does not, the input *before* the separator is returned.  (nom's "infinite loop check"
   compares the input length after sep+element with the length before the separator; the separator is a
   non-empty tag here and parsers return suffixes of their input, so it cannot fire.)  Fuel: every
   iteration consumes at least the separator; `length input` iterations always suffice. *)
Fixpoint sep_loop {A} (fuel : nat) (sep : bytes) (p : parser A) (i : bytes) : list A * bytes :=
  match fuel with
  | O => ([], i)
  | S f => match strip_prefix sep i with
           | None => ([], i)
           | Some i1 => match p i1 with
                        | None => ([], i)
                        | Some (o, i2) => let (os, r) := sep_loop f sep p i2 in (o :: os, r)
                        end
           end
  end.
Definition separated_list0 {A} (sep : bytes) (p : parser A) : parser (list A) :=
  fun i => match p i with
           | None => Some ([], i)
           | Some (o, i1) => let (os, r) := sep_loop (length i1) sep p i1 in Some (o :: os, r)
           end.
Definition separated_list1 {A} (sep : bytes) (p : parser A) : parser (list A) :=
  fun i => match p i with
           | None => None
           | Some (o, i1) => let (os, r) := sep_loop (length i1) sep p i1 in Some (o :: os, r)
           end.

Definition colon : bytes := bs ":".
Definition comma : bytes := bs ",".

(* ================= TCP (db_parse.rs) ================= *)

(* parse_ip_version *)
Definition parse_ip_version : parser ip_version :=
  fun i => orelse (tag (bs "4") IpV4 i) (orelse (tag (bs "6") IpV6 i) (tag (bs "*") IpAny i)).

(* parse_ttl: alt(( N- , N+? , N+M , N )) *)
Definition ttl_bad : parser ttl :=        (* map_res(terminated(digit1, tag("-")), u8 -> Ttl::Bad) *)
  fun i => match digit1 i with
           | Some (d, r) => match strip_prefix (bs "-") r with
                            | Some r' => match dec_max U8 d with Some n => Some (TtlBad n, r') | None => None end
                            | None => None end
           | None => None end.
Definition ttl_guess : parser ttl :=      (* map_res(terminated(digit1, tag("+?")), u8 -> Ttl::Guess) *)
  fun i => match digit1 i with
           | Some (d, r) => match strip_prefix (bs "+?") r with
                            | Some r' => match dec_max U8 d with Some n => Some (TtlGuess n, r') | None => None end
                            | None => None end
           | None => None end.
Definition ttl_dist : parser ttl :=       (* map_res(separated_pair(digit1, tag("+"), digit1), both u8) *)
  fun i => match digit1 i with
           | Some (d, r) => match strip_prefix (bs "+") r with
                            | Some r1 => match digit1 r1 with
                                         | Some (e, r2) => match dec_max U8 d, dec_max U8 e with
                                                           | Some t, Some k => Some (TtlDistance t k, r2)
                                                           | _, _ => None end
                                         | None => None end
                            | None => None end
           | None => None end.
Definition ttl_value : parser ttl :=      (* map_res(digit1, u8 -> Ttl::Value) *)
  fun i => match num U8 i with Some (n, r) => Some (TtlValue n, r) | None => None end.
Definition parse_ttl : parser ttl :=
  fun i => orelse (ttl_bad i) (orelse (ttl_guess i) (orelse (ttl_dist i) (ttl_value i))).

(* parse_window_size: alt(( * , mss*N , mtu*N , %N , N )) *)
Definition parse_window_size : parser window_size :=
  fun i => orelse (tag (bs "*") WAny i)
          (orelse (tag_num (bs "mss*") U8 WMss i)
          (orelse (tag_num (bs "mtu*") U8 WMtu i)
          (orelse (tag_num (bs "%") U16 WMod i)
                  (tag_num [] U16 WValue i)))).

(* parse_tcp_option: alt(( eol+N, nop, mss, ws, sok, sack, ts, ?N )) *)
Definition parse_tcp_option : parser tcp_option :=
  fun i => orelse (tag_num (bs "eol+") U8 OEol i)
          (orelse (tag (bs "nop") ONop i)
          (orelse (tag (bs "mss") OMss i)
          (orelse (tag (bs "ws") OWs i)
          (orelse (tag (bs "sok") OSok i)
          (orelse (tag (bs "sack") OSack i)
          (orelse (tag (bs "ts") OTS i)
                  (tag_num (bs "?") U8 OUnknown i))))))).

(* parse_quirk: 17 tags in this order *)
Definition quirk_tags : list (bytes * quirk) :=
  [ (bs "df", QDf); (bs "id+", QNonZeroID); (bs "id-", QZeroID); (bs "ecn", QEcn); (bs "0+", QMustBeZero);
    (bs "flow", QFlowID); (bs "seq-", QSeqNumZero); (bs "ack+", QAckNumNonZero); (bs "ack-", QAckNumZero);
    (bs "uptr+", QNonZeroURG); (bs "urgf+", QUrg); (bs "pushf+", QPush); (bs "ts1-", QOwnTimestampZero);
    (bs "ts2+", QPeerTimestampNonZero); (bs "opt+", QTrailinigNonZero); (bs "exws", QExcessiveWindowScaling);
    (bs "bad", QOptBad) ].
Fixpoint alt_tags {A} (ts : list (bytes * A)) (i : bytes) : option (A * bytes) :=
  match ts with
  | [] => None
  | (t, v) :: r => orelse (tag t v i) (alt_tags r i)
  end.
Definition parse_quirk : parser quirk := alt_tags quirk_tags.

(* parse_payload_size *)
Definition parse_payload_size : parser payload_size :=
  fun i => orelse (tag (bs "0") PZero i) (orelse (tag (bs "+") PNonZero i) (tag (bs "*") PAnySize i)).

(* alt((tag("*") -> None, map_res(digit1, uN -> Some))) : mss and wscale fields *)
Definition star_or_num (max : N) : parser (option N) :=
  fun i => orelse (tag (bs "*") None i)
                  (match num max i with Some (n, r) => Some (Some n, r) | None => None end).

(* parse_tcp_signature:
   ver ":" ttl ":" olen ":" mss ":" wsize "," wscale ":" olayout ":" quirks ":" pclass *)
Definition parse_tcp_signature : parser tcp_sig :=
  fun i0 =>
  match parse_ip_version i0 with None => None | Some (version, i1) =>
  match strip_prefix colon i1 with None => None | Some i2 =>
  match parse_ttl i2 with None => None | Some (ittl, i3) =>
  match strip_prefix colon i3 with None => None | Some i4 =>
  match num U8 i4 with None => None | Some (olen, i5) =>
  match strip_prefix colon i5 with None => None | Some i6 =>
  match star_or_num U16 i6 with None => None | Some (mss, i7) =>
  match strip_prefix colon i7 with None => None | Some i8 =>
  match parse_window_size i8 with None => None | Some (wsize, i9) =>
  match strip_prefix comma i9 with None => None | Some i10 =>
  match star_or_num U8 i10 with None => None | Some (wscale, i11) =>
  match strip_prefix colon i11 with None => None | Some i12 =>
  match separated_list0 comma parse_tcp_option i12 with None => None | Some (olayout, i13) =>
  match strip_prefix colon i13 with None => None | Some i14 =>
  match separated_list0 comma parse_quirk i14 with None => None | Some (quirks, i15) =>
  match strip_prefix colon i15 with None => None | Some i16 =>
  match parse_payload_size i16 with None => None | Some (pclass, i17) =>
    Some ({| t_version := version; t_ittl := ittl; t_olen := olen; t_mss := mss; t_wsize := wsize;
             t_wscale := wscale; t_olayout := olayout; t_quirks := quirks; t_pclass := pclass |}, i17)
  end end end end end end end end end end end end end end end end end.

(* impl_from_str!: the parser must succeed and leave no input *)
Definition from_str {A} (p : parser A) (s : bytes) : option A :=
  match p s with Some (v, []) => Some v | _ => None end.

Definition tcp_sig_from_str : bytes -> option tcp_sig := from_str parse_tcp_signature.

(* ================= HTTP (db_parse.rs) ================= *)

(* parse_http_version: 0 | 1 | *   (V20 / V30 have no text form in the grammar) *)
Definition parse_http_version : parser http_version :=
  fun i => orelse (tag (bs "0") HV10 i) (orelse (tag (bs "1") HV11 i) (tag (bs "*") HVAny i)).

(* opt(preceded(tag("=["), terminated(take_until("]"), char(']')))) *)
Definition bracket_value (i : bytes) : option (bytes * bytes) :=
  match strip_prefix (bs "=[") i with
  | Some r => match take_until "]"%byte r with
              | Some (v, r') => match strip_prefix (bs "]") r' with Some r'' => Some (v, r'') | None => None end
              | None => None end
  | None => None end.

(* parse_header_key_value: pair(take_while(name char), opt(bracket value)) — never fails *)
Definition parse_header_key_value (i : bytes) : (bytes * option bytes) * bytes :=
  let (name, r) := span is_hname i in
  match bracket_value r with
  | Some (v, r') => ((name, Some v), r')
  | None => ((name, None), r) end.

(* parse_http_header: opt(char('?')) then key/value — never fails *)
Definition parse_http_header : parser header :=
  fun i =>
    let optional := match strip_prefix (bs "?") i with Some _ => true | None => false end in
    let i1 := match strip_prefix (bs "?") i with Some r => r | None => i end in
    let kv := parse_header_key_value i1 in
    Some ({| h_optional := optional; h_name := fst (fst kv); h_value := snd (fst kv) |}, snd kv).

Definition name_nonempty (h : header) : bool := match h_name h with [] => false | _ => true end.

(* parse_http_signature:
   ver ":" separated_list1(",", header) ":" opt(separated_list0(",", header)) ":" rest,
   then habsent keeps only headers with a non-empty name *)
Definition parse_http_signature : parser http_sig :=
  fun i0 =>
  match parse_http_version i0 with None => None | Some (version, i1) =>
  match strip_prefix colon i1 with None => None | Some i2 =>
  match separated_list1 comma parse_http_header i2 with None => None | Some (horder, i3) =>
  match strip_prefix colon i3 with None => None | Some i4 =>
  let ab := match separated_list0 comma parse_http_header i4 with
            | Some (l, r) => (l, r) | None => ([], i4) end in      (* opt(..).unwrap_or_default() *)
  match strip_prefix colon (snd ab) with None => None | Some i6 =>
    Some ({| hs_version := version; hs_horder := horder; hs_habsent := filter name_nonempty (fst ab);
             hs_expsw := i6 |}, [])                                  (* rest *)
  end end end end end.

Definition http_sig_from_str : bytes -> option http_sig := from_str parse_http_signature.

(* ================= labels (db_parse.rs parse_label / parse_type) ================= *)
Definition parse_type : parser label_type :=
  fun i => orelse (tag (bs "s") LSpecified i) (tag (bs "g") LGeneric i).

(* ty ":" ( "!" -> None | take_until(":") -> Some ) ":" take_until(":") opt(":" rest);
   flavor.filter(non-empty) *)
Definition parse_label : parser label :=
  fun i0 =>
  match parse_type i0 with None => None | Some (ty, i1) =>
  match strip_prefix colon i1 with None => None | Some i2 =>
  match orelse (tag (bs "!") None i2)
               (match take_until ":"%byte i2 with Some (c, r) => Some (Some c, r) | None => None end) with
  | None => None | Some (class, i3) =>
  match strip_prefix colon i3 with None => None | Some i4 =>
  match take_until ":"%byte i4 with None => None | Some (name, i5) =>
  let fl := match strip_prefix colon i5 with Some r => (Some r, []) | None => (None, i5) end in
    Some ({| l_ty := ty; l_class := class; l_name := name;
             l_flavor := match fst fl with Some [] => None | x => x end |}, snd fl)
  end end end end end.

Definition label_from_str : bytes -> option label := from_str parse_label.

(* ================= Display (display.rs) ================= *)
Definition print_ip_version (v : ip_version) : bytes :=
  match v with IpV4 => bs "4" | IpV6 => bs "6" | IpAny => bs "*" end.
Definition print_ttl (t : ttl) : bytes :=
  match t with
  | TtlValue n => show_N n
  | TtlDistance n d => show_N n ++ bs "+" ++ show_N d
  | TtlGuess n => show_N n ++ bs "+?"
  | TtlBad n => show_N n ++ bs "-" end.
Definition print_window_size (w : window_size) : bytes :=
  match w with
  | WMss n => bs "mss*" ++ show_N n
  | WMtu n => bs "mtu*" ++ show_N n
  | WValue n => show_N n
  | WMod n => bs "%" ++ show_N n
  | WAny => bs "*" end.
Definition print_tcp_option (o : tcp_option) : bytes :=
  match o with
  | OEol n => bs "eol+" ++ show_N n
  | ONop => bs "nop" | OMss => bs "mss" | OWs => bs "ws" | OSok => bs "sok" | OSack => bs "sack" | OTS => bs "ts"
  | OUnknown n => bs "?" ++ show_N n end.
Definition print_quirk (q : quirk) : bytes :=
  match q with
  | QDf => bs "df" | QNonZeroID => bs "id+" | QZeroID => bs "id-" | QEcn => bs "ecn" | QMustBeZero => bs "0+"
  | QFlowID => bs "flow" | QSeqNumZero => bs "seq-" | QAckNumNonZero => bs "ack+" | QAckNumZero => bs "ack-"
  | QNonZeroURG => bs "uptr+" | QUrg => bs "urgf+" | QPush => bs "pushf+" | QOwnTimestampZero => bs "ts1-"
  | QPeerTimestampNonZero => bs "ts2+" | QTrailinigNonZero => bs "opt+" | QExcessiveWindowScaling => bs "exws"
  | QOptBad => bs "bad" end.
Definition print_payload_size (p : payload_size) : bytes :=
  match p with PZero => bs "0" | PNonZero => bs "+" | PAnySize => bs "*" end.
Definition print_opt_num (o : option N) : bytes := match o with Some n => show_N n | None => bs "*" end.

(* format_tcp_display *)
Definition print_tcp_sig (s : tcp_sig) : bytes :=
  print_ip_version (t_version s) ++ colon ++ print_ttl (t_ittl s) ++ colon ++ show_N (t_olen s) ++ colon ++
  print_opt_num (t_mss s) ++ colon ++ print_window_size (t_wsize s) ++ comma ++ print_opt_num (t_wscale s) ++
  colon ++ join comma (map print_tcp_option (t_olayout s)) ++ colon ++
  join comma (map print_quirk (t_quirks s)) ++ colon ++ print_payload_size (t_pclass s).

Definition print_http_version (v : http_version) : bytes :=
  match v with HV10 => bs "0" | HV11 => bs "1" | HV20 => bs "2" | HV30 => bs "3" | HVAny => bs "*" end.
Definition print_header (h : header) : bytes :=
  (if h_optional h then bs "?" else []) ++ h_name h ++
  match h_value h with Some v => bs "=[" ++ v ++ bs "]" | None => [] end.
(* format_http_display *)
Definition print_http_sig (s : http_sig) : bytes :=
  print_http_version (hs_version s) ++ colon ++ join comma (map print_header (hs_horder s)) ++ colon ++
  join comma (map print_header (hs_habsent s)) ++ colon ++ hs_expsw s.

(* Display for Label: "{ty:?}:{class or empty}:{name}:{flavor or empty}"  (Type prints its Debug name; this
   is *not* the database text form, which is  s|g : class|! : name : flavor) *)
Definition print_type (t : label_type) : bytes :=
  match t with LSpecified => bs "Specified" | LGeneric => bs "Generic" end.
Definition print_label (l : label) : bytes :=
  print_type (l_ty l) ++ colon ++
  (match l_class l with Some c => c | None => [] end) ++ colon ++ l_name l ++ colon ++
  (match l_flavor l with Some f => f | None => [] end).
