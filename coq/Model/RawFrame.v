(* MODEL, byte level, of the two frame decoders that C15 and C18 compare:
   (1) huginn-net-{tcp,http,tls}/src/raw_filter.rs (three textually identical copies):
       extract_quick_info / try_ethernet / try_raw_ip / try_null_datalink /
       extract_ipv4_info / extract_ipv6_info, and `apply` (fail-open);
   (2) the analyzers' own decoding: packet_parser.rs `parse_packet` (three identical copies, the
       unified crate's copy returns the same slices) followed by the first lines of process.rs /
       *_process.rs of every analyzer: protocol must be TCP, `TcpPacket::new(ip.payload())`,
       addresses from the IP view, ports from the TCP view.
   pnet 0.35 views (pnet_packet/src/{ethernet,ipv4,ipv6,tcp}.rs, pnet_macros decorator.rs):
   `X::new(b)` is Some iff |b| >= minimum size (14 / 20 / 40 / 20);
   `payload()` is  if |b| <= start then [] else b[start .. min(start + length_fn, |b|)].
   Offsets and lengths are nat (frames are short), field values are N.  Definitions only. *)
From Coq Require Import List NArith Bool Arith.
From Coq Require Import Strings.Byte.
From HN Require Import Base.Bytes Model.Filter.
Import ListNotations.
Open Scope N_scope.

Definition byte_at (f : bytes) (i : nat) : N := b2n (nth i f x00).
Definition u16_at (f : bytes) (i : nat) : N := byte_at f i * 256 + byte_at f (S i).
(* f[start .. start+len] (only used where the bytes exist) *)
Definition slice (f : bytes) (start len : nat) : bytes := firstn len (skipn start f).
(* f[start .. stop] *)
Definition range (f : bytes) (start stop : nat) : bytes := firstn (stop - start) (skipn start f).

Record endpoints := { e_src : ip; e_dst : ip; e_sport : N; e_dport : N }.

Definition v4_at (p : bytes) (i : nat) : ip := V4 (be_N (slice p i 4)).
Definition v6_at (p : bytes) (i : nat) : ip := V6 (be_N (slice p i 16)).

(* IHL nibble, `packet[0] & 0x0F` *)
Definition ihl_of (p : bytes) : nat := N.to_nat (byte_at p 0 mod 16).
(* version nibble, `packet[0] >> 4` *)
Definition version_of (p : bytes) : N := byte_at p 0 / 16.

(* ------------------------------------------------------------------ *)
(* (1) raw_filter.rs                                                    *)

(* extract_ipv4_info: `ihl.max(5).saturating_mul(4)` *)
Definition quick_ipv4 (p : bytes) : option endpoints :=
  if (length p <? 20)%nat then None
  else if negb (byte_at p 9 =? 6) then None
  else let off := (4 * Nat.max (ihl_of p) 5)%nat in
       if (length p <? off + 4)%nat then None
       else Some {| e_src := v4_at p 12; e_dst := v4_at p 16;
                    e_sport := u16_at p off; e_dport := u16_at p (off + 2) |}.

(* extract_ipv6_info: fixed 40-byte header, next header must be TCP, no extension headers *)
Definition quick_ipv6 (p : bytes) : option endpoints :=
  if (length p <? 40)%nat then None
  else if negb (byte_at p 6 =? 6) then None
  else if (length p <? 44)%nat then None
  else Some {| e_src := v6_at p 8; e_dst := v6_at p 24;
               e_sport := u16_at p 40; e_dport := u16_at p 42 |}.

Definition ethertype (f : bytes) : N := u16_at f 12.
Definition ET_IPV4 : N := 2048.   (* 0x0800 *)
Definition ET_IPV6 : N := 34525.  (* 0x86DD *)

Definition quick_ethernet (f : bytes) : option endpoints :=
  if (length f <? 14)%nat then None
  else if ethertype f =? ET_IPV4 then quick_ipv4 (skipn 14 f)
  else if ethertype f =? ET_IPV6 then quick_ipv6 (skipn 14 f)
  else None.

(* try_raw_ip: the `packet.is_empty()` guard is subsumed (byte_at [] 0 = 0, version 0) *)
Definition quick_raw_ip (f : bytes) : option endpoints :=
  if version_of f =? 4 then quick_ipv4 f
  else if version_of f =? 6 then quick_ipv6 f else None.

(* `u32::from_ne_bytes` of the first four bytes; the harness runs on a little-endian host *)
Definition null_family (f : bytes) : N :=
  byte_at f 0 + 256 * byte_at f 1 + 65536 * byte_at f 2 + 16777216 * byte_at f 3.

(* try_null_datalink (after fix 3908c86): a frame carrying the signature the analyzer looks for
   (>= 24 bytes, 1e 00) is decoded by the version nibble of the inner header, whatever bytes 2..3
   say, and never falls through to the family word; every other frame by the family word *)
Definition quick_null (f : bytes) : option endpoints :=
  if (length f <? 4)%nat then None
  else if (24 <=? length f)%nat && (byte_at f 0 =? 30) && (byte_at f 1 =? 0) then
    let inner := skipn 4 f in
    if version_of inner =? 4 then quick_ipv4 inner
    else if version_of inner =? 6 then quick_ipv6 inner
    else None
  else if null_family f =? 2 then quick_ipv4 (skipn 4 f)
  else if (null_family f =? 30) || (null_family f =? 28) then quick_ipv6 (skipn 4 f)
  else None.

(* extract_quick_info *)
Definition quick_info (f : bytes) : option endpoints :=
  match quick_ethernet f with
  | Some e => Some e
  | None => match quick_raw_ip f with
            | Some e => Some e
            | None => quick_null f
            end
  end.

(* raw_filter::apply, over a built FilterConfig: fail-open when nothing is recognised *)
Definition raw_apply (c : filter_config) (f : bytes) : bool :=
  match quick_info f with
  | Some e => should_process c (e_src e) (e_dst e) (e_sport e) (e_dport e)
  | None => true
  end.

(* ------------------------------------------------------------------ *)
(* (2) packet_parser.rs + pnet views                                    *)

Inductive ipview := View4 (ip : bytes) | View6 (ip : bytes).
Inductive link := LEth | LRaw | LNull.

(* try_ethernet_format: VLAN and every other ethertype fall through (`_ => {}`) *)
Definition try_ethernet_format (f : bytes) : option ipview :=
  if (length f <? 14)%nat then None
  else let inner := skipn 14 f in
       if ethertype f =? ET_IPV4 then (if (20 <=? length inner)%nat then Some (View4 inner) else None)
       else if ethertype f =? ET_IPV6 then (if (40 <=? length inner)%nat then Some (View6 inner) else None)
       else None.

Definition try_raw_ip_format (f : bytes) : option ipview :=
  if (length f <? 20)%nat then None
  else if version_of f =? 4 then Some (View4 f)                 (* Ipv4Packet::new: |f| >= 20 *)
  else if version_of f =? 6 then (if (40 <=? length f)%nat then Some (View6 f) else None)
  else None.

(* try_null_datalink_format: only the signature 1e 00, bytes 2..3 are not looked at *)
Definition try_null_format (f : bytes) : option ipview :=
  if (length f <? 24)%nat || negb (byte_at f 0 =? 30) || negb (byte_at f 1 =? 0) then None
  else let inner := skipn 4 f in
       if version_of inner =? 4 then Some (View4 inner)
       else if version_of inner =? 6 then (if (40 <=? length inner)%nat then Some (View6 inner) else None)
       else None.

Definition parse_packet (f : bytes) : option (link * ipview) :=
  match try_ethernet_format f with
  | Some v => Some (LEth, v)
  | None => match try_raw_ip_format f with
            | Some v => Some (LRaw, v)
            | None => match try_null_format f with
                      | Some v => Some (LNull, v)
                      | None => None
                      end
            end
  end.

(* Ipv4Packet::payload(): start = 20 + ipv4_options_length = 20 + (4*ihl).saturating_sub(20),
   length_fn = total_length.saturating_sub(4*ihl) *)
Definition ipv4_payload (ip : bytes) : bytes :=
  let hl := (4 * ihl_of ip)%nat in
  let start := (20 + (hl - 20))%nat in
  let plen := (N.to_nat (u16_at ip 2) - hl)%nat in
  if (length ip <=? start)%nat then []
  else range ip start (Nat.min (start + plen) (length ip)).

(* Ipv6Packet::payload(): start = 40, #[length = "payload_length"] *)
Definition ipv6_payload (ip : bytes) : bytes :=
  if (length ip <=? 40)%nat then []
  else range ip 40 (Nat.min (40 + N.to_nat (u16_at ip 4)) (length ip)).

(* what every analyzer does first with the IP view: next protocol must be TCP (6), the TCP view
   must exist (>= 20 bytes of IP payload); addresses from the IP view, ports from the TCP view *)
Definition view_endpoints (v : ipview) : option endpoints :=
  match v with
  | View4 ip =>
      if negb (byte_at ip 9 =? 6) then None
      else let t := ipv4_payload ip in
           if (length t <? 20)%nat then None
           else Some {| e_src := v4_at ip 12; e_dst := v4_at ip 16;
                        e_sport := u16_at t 0; e_dport := u16_at t 2 |}
  | View6 ip =>
      if negb (byte_at ip 6 =? 6) then None
      else let t := ipv6_payload ip in
           if (length t <? 20)%nat then None
           else Some {| e_src := v6_at ip 8; e_dst := v6_at ip 24;
                        e_sport := u16_at t 0; e_dport := u16_at t 2 |}
  end.

(* source/destination "as the analyzer itself reports them" *)
Definition analyzer_endpoints (f : bytes) : option endpoints :=
  match parse_packet f with
  | Some (_, v) => view_endpoints v
  | None => None
  end.

Definition parse_path (f : bytes) : option link := option_map fst (parse_packet f).

Definition is_some {A} (o : option A) : bool := match o with Some _ => true | None => false end.
