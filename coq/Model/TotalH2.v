(* C01 (c) -- panic-explicit models of the HTTP/2 frame splitter and the Akamai payload parsers.
   Definitions only.
     huginn-net-http/src/http2_parser.rs       parse_frames, parse_single_frame, parse_frames_with_offset,
                                                Http2Frame::total_size
     huginn-net-http/src/akamai_extractor.rs    parse_settings_payload, parse_window_update_payload,
                                                parse_priority_payload, extract_settings_parameters
     huginn-net-http/src/http2_fingerprint_extractor.rs   add_bytes (buffer / offset arithmetic; the
                                                fingerprint itself is produced iff the first SETTINGS frame on
                                                stream 0 yields a parameter)
   64-bit target assumed: usize::try_from(u32) always succeeds. *)
From Coq Require Import List NArith Bool.
From Coq Require Import Strings.Byte.
From HN Require Import Base.Bytes Model.TotalBase.
Import ListNotations.
Open Scope N_scope.

Record frame := { f_type : N; f_flags : N; f_stream : N; f_payload : bytes; f_len : N }.
Definition max_frame_size : N := 16384.        (* Http2Config::default() *)
Definition be24 (a b c : byte) : N := (b2n a * 256 + b2n b) * 256 + b2n c.

Definition parse_single_frame (data : bytes) : R (bytes * frame) :=
  if len data <? 9 then Err else
  b0 <- idx data 0 ;; b1 <- idx data 1 ;; b2 <- idx data 2 ;;
  let length := be24 b0 b1 b2 in
  ty <- idx data 3 ;; fl <- idx data 4 ;;
  b5 <- idx data 5 ;; b6 <- idx data 6 ;; b7 <- idx data 7 ;; b8 <- idx data 8 ;;
  let stream := N.land (be32 b5 b6 b7 b8) 2147483647 in
  if max_frame_size <? length then Err else
  let total := sat_add u32_max 9 length in                 (* 9_u32.saturating_add(length) -> usize *)
  if len data <? total then Err else
  payload <- slice data 9 total ;;                         (* data[payload_start..payload_end] *)
  rest <- slice_from data total ;;                         (* &data[payload_end..] *)
  Ok (rest, {| f_type := b2n ty; f_flags := b2n fl; f_stream := stream; f_payload := payload; f_len := length |}).

(* while remaining.len() >= 9 { ... } *)
Fixpoint parse_frames_loop (fuel : nat) (remaining : bytes) (acc : list frame) : R (list frame) :=
  match fuel with
  | O => OutOfFuel
  | S f =>
      if 9 <=? len remaining then
        b0 <- idx remaining 0 ;; b1 <- idx remaining 1 ;; b2 <- idx remaining 2 ;;
        let total := sat_add u32_max 9 (be24 b0 b1 b2) in
        if len remaining <? total then Ok acc else         (* incomplete frame at the end: break *)
        match parse_single_frame remaining with
        | Ok (rest, fr) => parse_frames_loop f rest (acc ++ [fr])
        | Err => Ok acc                                     (* break *)
        | Panic => Panic
        | OutOfFuel => OutOfFuel
        end
      else Ok acc
  end.
Definition parse_frames (data : bytes) : R (list frame) := parse_frames_loop (S (length data)) data [].

Definition total_size (f : frame) : N := sat_add usize_max 9 (f_len f).
(* frames.iter().map(|f| f.total_size()).sum::<usize>() : `+` with overflow check *)
Fixpoint sum_sizes (fs : list frame) (acc : N) : R N :=
  match fs with
  | [] => Ok acc
  | f :: r => a <- add_chk usize_max acc (total_size f) ;; sum_sizes r a
  end.
Definition parse_frames_with_offset (data : bytes) : R (list frame * N) :=
  fs <- parse_frames data ;; n <- sum_sizes fs 0 ;; Ok (fs, n).

(* ---- akamai_extractor.rs ---- *)
Definition opt6 (p : bytes) (o : N) : option (N * N) :=
  match get p o, get p (sat_add usize_max o 1), get p (sat_add usize_max o 2),
        get p (sat_add usize_max o 3), get p (sat_add usize_max o 4), get p (sat_add usize_max o 5) with
  | Some a, Some b, Some c, Some d, Some e, Some f => Some (be16 a b, be32 c d e f)
  | _, _, _, _, _, _ => None
  end.
Fixpoint settings_loop (fuel : nat) (payload : bytes) (offset : N) (acc : list (N * N)) : R (list (N * N)) :=
  match fuel with
  | O => OutOfFuel
  | S f =>
      if sat_add usize_max offset 6 <=? len payload then
        let acc' := match opt6 payload offset with Some s => acc ++ [s] | None => acc end in
        settings_loop f payload (sat_add usize_max offset 6) acc'
      else Ok acc
  end.
Definition parse_settings_payload (payload : bytes) : R (list (N * N)) :=
  settings_loop (S (length payload)) payload 0 [].

Definition parse_window_update_payload (p : bytes) : R (option N) :=
  if len p <? 4 then Ok None else
  a <- idx p 0 ;; b <- idx p 1 ;; c <- idx p 2 ;; d <- idx p 3 ;;
  Ok (Some (((N.land (b2n a) 127 * 256 + b2n b) * 256 + b2n c) * 256 + b2n d)).

Definition parse_priority_payload (p : bytes) : R (option (bool * N * N)) :=
  if len p <? 5 then Ok None else
  a <- idx p 0 ;;
  let excl := negb (N.land (b2n a) 128 =? 0) in
  a' <- idx p 0 ;; b <- idx p 1 ;; c <- idx p 2 ;; d <- idx p 3 ;;
  w <- idx p 4 ;;
  Ok (Some (excl, ((N.land (b2n a') 127 * 256 + b2n b) * 256 + b2n c) * 256 + b2n d, b2n w)).

(* extract_settings_parameters: first SETTINGS frame on stream 0 *)
Fixpoint first_settings (fs : list frame) : option frame :=
  match fs with
  | [] => None
  | f :: r => if (f_type f =? 4) && (f_stream f =? 0) then Some f else first_settings r
  end.
Definition has_fingerprint (fs : list frame) : R bool :=
  match first_settings fs with
  | Some f => s <- parse_settings_payload (f_payload f) ;; Ok (match s with [] => false | _ => true end)
  | None => Ok false
  end.

(* ---- Http2FingerprintExtractor::add_bytes ---- *)
Definition preface : bytes := bs "PRI * HTTP/2.0" ++ [x0d; x0a; x0d; x0a] ++ bs "SM" ++ [x0d; x0a; x0d; x0a].
Record xstate := { x_buf : bytes; x_off : N; x_fp : bool }.
Definition xstate0 : xstate := {| x_buf := []; x_off := 0; x_fp := false |}.
Definition x_add_bytes (st : xstate) (data : bytes) : R (xstate * bool) :=
  if x_fp st then Ok (st, false) else
  let buf := x_buf st ++ data in
  let start := if (x_off st =? 0) && starts_with preface buf then len preface else x_off st in
  frame_data <- slice_from buf start ;;                     (* &self.buffer[start_offset..] *)
  let st1 := {| x_buf := buf; x_off := x_off st; x_fp := false |} in
  if 9 <=? len frame_data then
    r <- parse_frames_with_offset frame_data ;;
    match fst r with
    | [] => Ok (st1, false)
    | _ => fp <- has_fingerprint (fst r) ;;
           if fp then Ok ({| x_buf := buf; x_off := sat_add usize_max start (snd r); x_fp := true |}, true)
           else Ok (st1, false)
    end
  else Ok (st1, false).
Fixpoint x_feed (st : xstate) (chunks : list bytes) : R (list bool) :=
  match chunks with
  | [] => Ok []
  | c :: rest => r <- x_add_bytes st c ;; t <- x_feed (fst r) rest ;; Ok (snd r :: t)
  end.

(* ---- summaries ---- *)
Definition show_settings (s : list (N * N)) : bytes :=
  match s with [] => bs "-" | _ => join (bs "/") (map (fun x => show_N (fst x) ++ bs ":" ++ show_N (snd x)) s) end.
Definition show_wu (o : option N) : bytes := show_opt_N o.
Definition show_prio (o : option (bool * N * N)) : bytes :=
  match o with
  | Some (e, d, w) => show_bool e ++ bs ":" ++ show_N d ++ bs ":" ++ show_N w
  | None => bs "-" end.
Definition show_frame (f : frame) : R bytes :=
  extra <- (if f_type f =? 4 then s <- parse_settings_payload (f_payload f) ;; Ok (bs "=s" ++ show_settings s)
            else if f_type f =? 8 then w <- parse_window_update_payload (f_payload f) ;; Ok (bs "=w" ++ show_wu w)
            else if f_type f =? 2 then p <- parse_priority_payload (f_payload f) ;; Ok (bs "=p" ++ show_prio p)
            else Ok []) ;;
  Ok (show_N (f_type f) ++ bs "," ++ show_N (f_flags f) ++ bs "," ++ show_N (f_stream f) ++ bs ","
      ++ show_N (len (f_payload f)) ++ extra).
Fixpoint show_frames (fs : list frame) : R bytes :=
  match fs with
  | [] => Ok []
  | f :: r => a <- show_frame f ;; b <- show_frames r ;; Ok (sp :: a ++ b)
  end.
Definition run_frames (data : bytes) : R bytes :=
  r <- parse_frames_with_offset data ;;
  t <- show_frames (fst r) ;;
  Ok (bs "RET n=" ++ show_N (snd r) ++ t).
Definition run_payloads (p : bytes) : R bytes :=
  s <- parse_settings_payload p ;; w <- parse_window_update_payload p ;; q <- parse_priority_payload p ;;
  Ok (bs "RET s=" ++ show_settings s ++ bs " w=" ++ show_wu w ++ bs " p=" ++ show_prio q).
