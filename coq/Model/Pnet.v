(* MODEL of the pnet 0.35 packet views used by huginn-net-tcp (modelled, not verified):
   pnet_packet-0.35.0/src/{ethernet,ipv4,ipv6,tcp}.rs and the accessors that
   pnet_macros-0.35.0/src/decorator.rs generates from the #[packet] structs:

     XPacket::new(buf)        Some iff len buf >= minimum_packet_size  (Eth 14, IPv4 20, IPv6 40, TCP 20, TcpOption 1)
     payload()                if len <= start { [] } else { packet[start .. min(start + length_fn, len)] }
                              (no upper bound when the payload has no length_fn: TCP)
     get_<vec field>_raw()    packet[off .. min(off + length_fn, len)]

   and of huginn-net-tcp/src/packet_parser.rs (Ethernet -> raw IP -> NULL/loopback framing).
   Positions and lengths are N.  Definitions only. *)
From Coq Require Import List NArith Bool.
From Coq Require Import Strings.Byte.
From HN Require Import Base.Bytes.
Import ListNotations.
Open Scope N_scope.

Definition blen (l : bytes) : N := N.of_nat (length l).
(* l[i], 0 when out of range (every use below is guarded by a length check) *)
Definition byte_at (l : bytes) (i : N) : N := b2n (nth (N.to_nat i) l x00).
Definition be16_at (l : bytes) (i : N) : N := byte_at l i * 256 + byte_at l (i + 1).
Definition be32_at (l : bytes) (i : N) : N := be16_at l i * 65536 + be16_at l (i + 2).
(* Rust l[a..b] for a <= b <= len; total: [] when b <= a *)
Definition slice (l : bytes) (a b : N) : bytes := firstn (N.to_nat (b - a)) (skipn (N.to_nat a) l).
Definition drop (l : bytes) (a : N) : bytes := skipn (N.to_nat a) l.
Definition sat_sub (a b : N) : N := a - b.          (* N subtraction is truncated = saturating_sub *)

(* generated `payload()` with an upper bound (length_fn) *)
Definition payload_bounded (pkt : bytes) (start plen : N) : bytes :=
  if blen pkt <=? start then [] else slice pkt start (N.min (start + plen) (blen pkt)).
(* generated `payload()` of a last field without length_fn *)
Definition payload_rest (pkt : bytes) (start : N) : bytes :=
  if blen pkt <=? start then [] else drop pkt start.
(* generated `get_x_raw()` *)
Definition raw_field (pkt : bytes) (off flen : N) : bytes :=
  slice pkt off (N.min (off + flen) (blen pkt)).

(* ---------------- Ipv4Packet (ipv4.rs: struct Ipv4) ---------------- *)
Definition ipv4_min : N := 20.
Definition v4_version (p : bytes) : N := byte_at p 0 / 16.
Definition v4_header_length (p : bytes) : N := byte_at p 0 mod 16.          (* u4, 32-bit words *)
Definition v4_ecn (p : bytes) : N := byte_at p 1 mod 4.                     (* u2 *)
Definition v4_total_length (p : bytes) : N := be16_at p 2.
Definition v4_identification (p : bytes) : N := be16_at p 4.
Definition v4_flags (p : bytes) : N := byte_at p 6 / 32.                    (* u3: 4 reserved, 2 DF, 1 MF *)
Definition v4_fragment_offset (p : bytes) : N := (byte_at p 6 mod 32) * 256 + byte_at p 7.
Definition v4_ttl (p : bytes) : N := byte_at p 8.
Definition v4_protocol (p : bytes) : N := byte_at p 9.
(* fn ipv4_options_length: (ihl as usize * 4).saturating_sub(20) *)
Definition ipv4_options_length (p : bytes) : N := sat_sub (v4_header_length p * 4) 20.
(* fn ipv4_payload_length: (total_length as usize).saturating_sub(ihl as usize * 4) *)
Definition ipv4_payload_length (p : bytes) : N := sat_sub (v4_total_length p) (v4_header_length p * 4).
Definition v4_payload (p : bytes) : bytes :=
  payload_bounded p (20 + ipv4_options_length p) (ipv4_payload_length p).

(* ---------------- Ipv6Packet (ipv6.rs: struct Ipv6) ---------------- *)
Definition ipv6_min : N := 40.
Definition v6_version (p : bytes) : N := byte_at p 0 / 16.
Definition v6_traffic_class (p : bytes) : N := (byte_at p 0 mod 16) * 16 + byte_at p 1 / 16.   (* u8 *)
Definition v6_flow_label (p : bytes) : N := (byte_at p 1 mod 16) * 65536 + be16_at p 2.      (* u20 *)
Definition v6_payload_length (p : bytes) : N := be16_at p 4.
Definition v6_next_header (p : bytes) : N := byte_at p 6.
Definition v6_hop_limit (p : bytes) : N := byte_at p 7.
Definition v6_payload (p : bytes) : bytes := payload_bounded p 40 (v6_payload_length p).

(* ---------------- TcpPacket (tcp.rs: struct Tcp) ---------------- *)
Definition tcp_min : N := 20.
Definition tcp_sequence (t : bytes) : N := be32_at t 4.
Definition tcp_acknowledgement (t : bytes) : N := be32_at t 8.
Definition tcp_data_offset (t : bytes) : N := byte_at t 12 / 16.            (* u4 *)
Definition tcp_reserved (t : bytes) : N := byte_at t 12 mod 16.             (* u4; lowest bit = NS *)
Definition tcp_flags (t : bytes) : N := byte_at t 13.                       (* u8 CWR ECE URG ACK PSH RST SYN FIN *)
Definition tcp_window (t : bytes) : N := be16_at t 14.
Definition tcp_urgent_ptr (t : bytes) : N := be16_at t 18.
(* fn tcp_options_length: if data_offset > 5 { data_offset * 4 - 20 } else { 0 } *)
Definition tcp_options_length (t : bytes) : N :=
  if 5 <? tcp_data_offset t then tcp_data_offset t * 4 - 20 else 0.
Definition tcp_options_raw (t : bytes) : bytes := raw_field t 20 (tcp_options_length t).
Definition tcp_payload (t : bytes) : bytes := payload_rest t (20 + tcp_options_length t).

(* ---------------- TcpOptionPacket (tcp.rs: struct TcpOption), buffer non-empty ---------------- *)
Definition opt_number (o : bytes) : N := byte_at o 0.
(* fn tcp_option_length: 0 for EOL/NOP, else 1 (the optional length byte) *)
Definition tcp_option_length (o : bytes) : N := if (opt_number o =? 0) || (opt_number o =? 1) then 0 else 1.
Definition opt_length_raw (o : bytes) : bytes := raw_field o 1 (tcp_option_length o).
(* fn tcp_option_payload_length: match get_length_raw().first() { Some(len) if len >= 2 => len - 2, _ => 0 } *)
Definition tcp_option_payload_length (o : bytes) : N :=
  match opt_length_raw o with
  | l :: _ => if 2 <=? b2n l then b2n l - 2 else 0
  | [] => 0 end.
Definition opt_packet_size (o : bytes) : N := 1 + tcp_option_length o + tcp_option_payload_length o.
Definition opt_payload (o : bytes) : bytes :=
  payload_bounded o (1 + tcp_option_length o) (tcp_option_payload_length o).

(* ---------------- packet_parser.rs ---------------- *)
Inductive ip_packet := Ipv4 (p : bytes) | Ipv6 (p : bytes) | NoIp.

(* fn try_ethernet_format *)
Definition try_ethernet (f : bytes) : option ip_packet :=
  if blen f <? 14 then None else
  let ip_data := drop f 14 in
  let ethertype := be16_at f 12 in
  if ethertype =? 2048 (* 0x0800 *) then (if ipv4_min <=? blen ip_data then Some (Ipv4 ip_data) else None)
  else if ethertype =? 34525 (* 0x86DD *) then (if ipv6_min <=? blen ip_data then Some (Ipv6 ip_data) else None)
  else None.
(* fn try_raw_ip_format *)
Definition try_raw_ip (f : bytes) : option ip_packet :=
  if blen f <? 20 then None else
  let version := byte_at f 0 / 16 in
  if version =? 4 then (if ipv4_min <=? blen f then Some (Ipv4 f) else None)
  else if version =? 6 then (if ipv6_min <=? blen f then Some (Ipv6 f) else None)
  else None.
(* fn try_null_datalink_format *)
Definition try_null (f : bytes) : option ip_packet :=
  if (blen f <? 24) || negb (byte_at f 0 =? 30) || negb (byte_at f 1 =? 0) then None else
  let ip_data := drop f 4 in
  let version := byte_at ip_data 0 / 16 in
  if version =? 4 then (if ipv4_min <=? blen ip_data then Some (Ipv4 ip_data) else None)
  else if version =? 6 then (if ipv6_min <=? blen ip_data then Some (Ipv6 ip_data) else None)
  else None.
(* fn parse_packet *)
Definition parse_packet (f : bytes) : ip_packet :=
  match try_ethernet f with Some p => p | None =>
  match try_raw_ip f with Some p => p | None =>
  match try_null f with Some p => p | None => NoIp end end end.
