(* C01 (b) -- panic-explicit model of TlsClientHelloReader::add_bytes
   (huginn-net-tls/src/tls_client_hello_reader.rs).  Definitions only.
   `parse_tls_client_hello` (tls-parser behind it) is NOT modelled here: it is a parameter [parse]
   giving the outcome for the record handed to it (Some signature / None / Err); the theorems hold for
   every such function, the case interpreter takes the recorded outcome from the case line. *)
From Coq Require Import List NArith Bool.
From Coq Require Import Strings.Byte.
From HN Require Import Base.Bytes Model.TotalBase.
Import ListNotations.
Open Scope N_scope.

Inductive pres := PSome | PNone | PErr.            (* Ok(Some sig) | Ok(None) | Err(e) *)
Inductive rout := RNone | RSome | RErr.            (* what add_bytes returns *)
Record rstate := { r_buf : bytes; r_sig : bool }.  (* buffer, signature.is_some() *)
Definition rstate0 : rstate := {| r_buf := []; r_sig := false |}.
Definition r_reset : rstate := {| r_buf := []; r_sig := false |}.

Definition add_bytes (parse : bytes -> pres) (st : rstate) (data : bytes) : R (rstate * rout) :=
  if r_sig st then Ok (st, RNone) else
  let buf := r_buf st ++ data in                                   (* extend_from_slice *)
  if len buf <? 5 then Ok ({| r_buf := buf; r_sig := false |}, RNone) else
  ct <- idx buf 0 ;;                                                (* self.buffer[0] *)
  b3 <- idx buf 3 ;; b4 <- idx buf 4 ;;                             (* self.buffer[3], self.buffer[4] *)
  let record_len := be16 b3 b4 in
  let needed := sat_add usize_max record_len 5 in                   (* record_len.saturating_add(5) *)
  if negb (b2n ct =? 22) then Ok ({| r_buf := []; r_sig := false |}, RNone) else   (* buffer.clear() *)
  if len buf <? needed then Ok ({| r_buf := buf; r_sig := false |}, RNone) else
  if 65536 <? needed then Ok (r_reset, RErr) else                   (* needed > 64 * 1024 *)
  rec <- slice_to buf needed ;;                                     (* &self.buffer[..needed] *)
  match parse rec with
  | PSome => rest <- slice_from buf needed ;;                       (* self.buffer.drain(..needed) *)
             Ok ({| r_buf := rest; r_sig := true |}, RSome)
  | PNone => Ok (r_reset, RNone)
  | PErr => Ok ({| r_buf := buf; r_sig := false |}, RErr)           (* buffer kept; .get(0..200.min(needed)) is a safe accessor *)
  end.

(* a chunk sequence on one reader; each chunk comes with the parse outcome to use if parse is called *)
Fixpoint feed (st : rstate) (chunks : list (bytes * pres)) : R (list (rout * N)) :=
  match chunks with
  | [] => Ok []
  | (c, o) :: rest =>
      r <- add_bytes (fun _ => o) st c ;;
      t <- feed (fst r) rest ;;
      Ok ((snd r, len (r_buf (fst r))) :: t)
  end.

Definition show_rout (o : rout) : bytes := match o with RNone => bs "N" | RSome => bs "S" | RErr => bs "E" end.
Definition show_feed (l : list (rout * N)) : bytes :=
  bs "RET" ++ concat (map (fun x => sp :: show_rout (fst x) ++ bs ":" ++ show_N (snd x)) l).
