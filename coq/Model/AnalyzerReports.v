(* The packet-level analyzer models seen through the conventions of Model/FilterGlue.v (C15) and
   Model/Unified.v (C20): a per-packet step returns the new state and the list of REPORTED results --
   Err results and results that carry no observation (Ok(None), an all-None TcpAnalysisResult) are not
   outputs.  Also the STATELESS TLS path the unified analyzer uses
     huginn-net-tls/src/tls_process.rs  process_tls_ipv4 / process_tls_ipv6 / process_tls_tcp
   (this packet's TCP payload only: is_tls_traffic, then parse_tls_client_hello; every failure is
   Ok(tls_client: None), never Err), and the analyzers' results as the field groups of Model/Unified.v.
   Definitions only. *)
From Coq Require Import List NArith ZArith Bool.
From Coq Require Import Strings.Byte.
From HN Require Import Base.Bytes Model.Pnet Model.TlsHello Model.Ja4 Model.TlsReader Model.TlsAnalyzer Model.Unified.
From HN Require Model.TcpExtract Model.TcpAnalyzer Model.Uptime.
Import ListNotations.
Open Scope N_scope.

(* ---- reported results (C15 convention) ---- *)
Definition tls_reported (o : tls_out) : list tls_out :=
  match o with TOSig _ _ _ _ _ => [o] | _ => [] end.
Definition tls_report_step (cap : N) (fl : tls_state) (f : bytes) : tls_state * list tls_out :=
  let '(fl', o) := tls_packet_step cap fl f in (fl', tls_reported o).

Definition tcp_observes (r : TcpAnalyzer.tcp_result) : bool :=
  match r with
  | TcpAnalyzer.TRErr => false
  | TcpAnalyzer.TROk o cli srv =>
      match TcpExtract.o_syn o, TcpExtract.o_synack o, TcpExtract.o_mtu o, cli, srv with
      | None, None, None, None, None => false
      | _, _, _, _, _ => true
      end
  end.
Definition tcp_reported (r : TcpAnalyzer.tcp_result) : list TcpAnalyzer.tcp_result :=
  if tcp_observes r then [r] else [].
(* the clock reading of a packet is a function of the frame here (FilterGlue steps take the frame alone):
   `clock` is the reading taken while that frame is processed *)
Definition tcp_report_step (db : list (bytes * list N)) (cap : N) (clock : bytes -> Z)
                           (tr : TcpAnalyzer.tcp_state) (f : bytes)
  : TcpAnalyzer.tcp_state * list TcpAnalyzer.tcp_result :=
  let '(tr', r) := TcpAnalyzer.tcp_packet_step db cap tr (f, clock f) in (tr', tcp_reported r).

(* ---- the stateless TLS path of the unified analyzer ---- *)
Definition tls_stateless (f : bytes) : tls_out :=
  match tls_frame_class f with
  | CSeg g =>
      match g_payload g with
      | [] => TONone
      | _ => if is_tls_traffic (g_payload g) then tls_out_of g (match parse_tls_client_hello (g_payload g) with
                                                                | RSig s => RSig s | _ => RNone end)
             else TONone
      end
  | _ => TONone                      (* non-TCP protocol, no TCP view, no IP packet: tls_client None *)
  end.

(* ---- results as field groups of Model/Unified.v ---- *)
Definition mk_grp (sig on off : bytes) : option grp := Some {| g_sig := sig; g_on := on; g_off := off |}.
(* OS / browser matching is outside these models (C02, C12): the match parts of the signature groups are
   left empty; the MTU group carries the link the MTU table names *)
Definition tcp_pres (r : TcpAnalyzer.tcp_result) : pres :=
  match r with
  | TcpAnalyzer.TRErr => None
  | TcpAnalyzer.TROk o cli srv =>
      Some [ match TcpExtract.o_syn o with Some s => mk_grp (TcpExtract.show_sig s) [] [] | None => None end;
             match TcpExtract.o_synack o with Some s => mk_grp (TcpExtract.show_sig s) [] [] | None => None end;
             match TcpExtract.o_mtu o with
             | Some m => mk_grp (show_N m) (match TcpExtract.o_link o with Some l => bs "M+" ++ show_hex l | None => bs "X" end) (bs "D")
             | None => None end;
             match cli with Some u => mk_grp (TcpAnalyzer.show_uptime (bs "client") u) [] [] | None => None end;
             match srv with Some u => mk_grp (TcpAnalyzer.show_uptime (bs "server") u) [] [] | None => None end ]
  end.
Definition tcp_ustep (db : list (bytes * list N)) (cap : N) (tr : TcpAnalyzer.tcp_state) (e : TcpAnalyzer.tcp_event)
  : TcpAnalyzer.tcp_state * pres :=
  let '(tr', r) := TcpAnalyzer.tcp_packet_step db cap tr e in (tr', tcp_pres r).
Definition tls_ufn (e : TcpAnalyzer.tcp_event) : pres :=
  Some [ match tls_stateless (fst e) with
         | TOSig a b p q s => mk_grp (tls_out_line (TOSig a b p q s)) [] []
         | _ => None end ].
