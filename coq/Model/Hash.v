(* MODEL of the three packet_hash.rs files: which bytes / fields each feeds to
   std::collections::hash_map::DefaultHasher, and the fallback paths.
     huginn-net-tcp/src/packet_hash.rs   hash_source_ip  (+ `% num_workers` in WorkerPool::dispatch)
     huginn-net-tls/src/packet_hash.rs   hash_flow       (directed 4-tuple, None = discard)
     huginn-net-http/src/packet_hash.rs  hash_flow       (endpoints ordered before hashing)
   The hasher itself is never evaluated in Coq: the model yields an `ident` (what is written
   into the hasher, in order) and `SipH : ident -> N` is a Section variable; the harness
   (`post`) feeds the same values, with the same Rust types, to the real DefaultHasher.
   Definitions only. *)
From Coq Require Import List NArith Bool Arith.
From Coq Require Import Strings.Byte.
From HN Require Import Base.Bytes Model.Filter Model.RawFrame.
Import ListNotations.
Open Scope N_scope.

Inductive ident :=
| IdBytes (b : bytes)                       (* hash_bytes(b): `b.hash(&mut hasher)` on a &[u8] *)
| IdFlow (a b : bytes) (p q : N).           (* a.hash; b.hash; (p as u16).hash; (q as u16).hash *)

(* `(packet.len() >= 34 && packet[12..14] == 08 00) || (packet.len() >= 54 && packet[12..14] == 86 DD)`
   -> 14, else 0: Ethernet only when the frame can hold the IP header its ethertype announces, as
   try_ethernet_format requires (fix for the former class raw_as_ethernet) *)
Definition ip_start (f : bytes) : nat :=
  if ((34 <=? length f)%nat && (ethertype f =? ET_IPV4)) || ((54 <=? length f)%nat && (ethertype f =? ET_IPV6))
  then 14%nat else 0%nat.

(* ---------------- TCP: hash_source_ip ---------------- *)
Definition tcp_ident (f : bytes) : ident :=
  let s := ip_start f in
  if (length f <? s + 20)%nat then IdBytes f                       (* fallback_hash(packet) *)
  else let ip := skipn s f in
       if version_of ip =? 4 then
         (if (16 <=? length ip)%nat then IdBytes (slice ip 12 4) else IdBytes f)
       else if version_of ip =? 6 then
         (if (24 <=? length ip)%nat then IdBytes (slice ip 8 16) else IdBytes f)
       else IdBytes f.

(* ---------------- TLS: hash_flow (Option) ---------------- *)
Definition tls_ipv4_ident (ip : bytes) : option ident :=
  if (length ip <? 20)%nat then None
  else if negb (byte_at ip 9 =? 6) then None
  else let off := (4 * Nat.max (ihl_of ip) 5)%nat in
       if (length ip <? off + 4)%nat then None
       else Some (IdFlow (slice ip 12 4) (slice ip 16 4) (u16_at ip off) (u16_at ip (off + 2))).

Definition tls_ipv6_ident (ip : bytes) : option ident :=
  if (length ip <? 40)%nat then None
  else if negb (byte_at ip 6 =? 6) then None
  else if (length ip <? 44)%nat then None
  else Some (IdFlow (slice ip 8 16) (slice ip 24 16) (u16_at ip 40) (u16_at ip 42)).

Definition tls_ident (f : bytes) : option ident :=
  let s := ip_start f in
  if (length f <? s + 40)%nat then None
  else let ip := skipn s f in
       if version_of ip =? 4 then tls_ipv4_ident ip
       else if version_of ip =? 6 then tls_ipv6_ident ip
       else None.

(* ---------------- HTTP: hash_flow ---------------- *)
(* `(src_ip, src_port) <= (dst_ip, dst_port)` on (&[u8], u16): slices of equal length compare
   lexicographically = as big-endian numbers, then the ports *)
Definition endpoint_le (a : bytes) (p : N) (b : bytes) (q : N) : bool :=
  (be_N a <? be_N b) || ((be_N a =? be_N b) && (p <=? q)).
Definition ordered_flow (a : bytes) (p : N) (b : bytes) (q : N) : ident :=
  if endpoint_le a p b q then IdFlow a b p q else IdFlow b a q p.

Definition http_ipv4_ident (ip : bytes) : ident :=
  if (length ip <? 20)%nat then IdBytes ip                         (* fallback_hash(ip_packet) *)
  else if negb (byte_at ip 9 =? 6) then IdBytes (slice ip 12 4)     (* not TCP: source address *)
  else let off := (4 * Nat.max (ihl_of ip) 5)%nat in
       if (length ip <? off + 4)%nat then IdBytes (slice ip 12 4)
       else ordered_flow (slice ip 12 4) (u16_at ip off) (slice ip 16 4) (u16_at ip (off + 2)).

Definition http_ipv6_ident (ip : bytes) : ident :=
  if (length ip <? 40)%nat then IdBytes ip
  else if negb (byte_at ip 6 =? 6) then IdBytes (slice ip 8 16)
  else if (length ip <? 44)%nat then IdBytes (slice ip 8 16)
  else ordered_flow (slice ip 8 16) (u16_at ip 40) (slice ip 24 16) (u16_at ip 42).

Definition http_ident (f : bytes) : ident :=
  let s := ip_start f in
  if (length f <? s + 40)%nat then IdBytes f                       (* fallback_hash(packet) *)
  else let ip := skipn s f in
       if version_of ip =? 4 then http_ipv4_ident ip
       else if version_of ip =? 6 then http_ipv6_ident ip
       else IdBytes f.

(* ---------------- worker index ---------------- *)
Section Worker.
  Variable SipH : ident -> N.          (* DefaultHasher::finish() as usize *)
  (* `.checked_rem(num_workers).unwrap_or(0)` *)
  Definition rem_or_0 (h n : N) : N := if n =? 0 then 0 else h mod n.
  Definition tcp_worker (n : N) (f : bytes) : option N := Some (rem_or_0 (SipH (tcp_ident f)) n).
  Definition tls_worker (n : N) (f : bytes) : option N :=
    option_map (fun i => rem_or_0 (SipH i) n) (tls_ident f).
  Definition http_worker (n : N) (f : bytes) : option N := Some (rem_or_0 (SipH (http_ident f)) n).
End Worker.

(* ------------------------------------------------------------------ *)
(* Frames on which the hash functions' own framing decision differs from parse_packet's.
   c18_dom: the domain of the property's quantifier (Ethernet or raw framing, not BSD loopback)
   restricted to frames whose IP version nibble is the one their framing announces (under
   Ethernet the analyzer trusts the ethertype, the hash functions re-read the nibble).
   raw_as_ethernet: the FORMER known class (a raw IPv4 packet whose bytes 12..13 read 86 DD and
   that is shorter than 54 bytes: parse_packet falls back to raw IP, the hash functions used to
   skip 14 bytes regardless).  With the repaired ip_start it is empty
   (HashProofs.raw_as_ethernet_empty); the definition is kept only because
   Proofs/PoolInstances.v (C10) spells it in pool_dom. *)
Definition version_consistent (f : bytes) : bool :=
  match parse_packet f with
  | Some (_, View4 ip) => version_of ip =? 4
  | Some (_, View6 ip) => version_of ip =? 6
  | None => true
  end.
Definition c18_dom (f : bytes) : bool :=
  match parse_path f with Some LNull => false | _ => version_consistent f end.
Definition raw_as_ethernet (f : bytes) : bool :=
  match parse_path f with
  | Some LRaw => is_some (analyzer_endpoints f) && negb (ip_start f =? 0)%nat
  | _ => false
  end.
