(* C01 -- panic-explicit modelling kit.  Definitions only.
   Every Rust operation that can panic in a build with debug-assertions + overflow-checks
   (slice index `l[i]`, range slice `l[a..b]`, unsaturated `+ - *`, `%` and `/`) is written
   with a *checked* helper returning [Panic] exactly where Rust panics; every Rust loop is a
   recursion on explicit fuel returning [OutOfFuel] when the fuel runs out.  "Never panics,
   always terminates" is then a theorem about the model, not a by-product of Gallina's totality.
   Safe accessors of Rust (`get`, `first`, `saturating_*`, `checked_*`, `min`) are written
   with ordinary total functions. *)
From Coq Require Import List NArith Bool.
From Coq Require Import Strings.Byte.
From HN Require Import Base.Bytes.
Import ListNotations.
Open Scope N_scope.

Inductive R (A : Type) : Type :=
| Ok (a : A)      (* returned a value *)
| Err             (* returned an error value (Result::Err / None where the caller maps it to an error) *)
| Panic           (* Rust would panic here *)
| OutOfFuel.      (* the loop did not finish within the fuel *)
Arguments Ok {A} a.
Arguments Err {A}.
Arguments Panic {A}.
Arguments OutOfFuel {A}.

Definition bind {A B} (x : R A) (f : A -> R B) : R B :=
  match x with Ok a => f a | Err => Err | Panic => Panic | OutOfFuel => OutOfFuel end.
Notation "x <- e ;; k" := (bind e (fun x => k)) (at level 61, e at next level, right associativity).

Definition len (l : bytes) : N := N.of_nat (length l).

(* l[i] *)
Definition idx (l : bytes) (i : N) : R byte :=
  match nth_error l (N.to_nat i) with Some b => Ok b | None => Panic end.
(* l[a..b] : panics when a > b or b > len *)
Definition slice (l : bytes) (a b : N) : R bytes :=
  if (a <=? b) && (b <=? len l) then Ok (firstn (N.to_nat (b - a)) (skipn (N.to_nat a) l)) else Panic.
Definition slice_from (l : bytes) (a : N) : R bytes := slice l a (len l).   (* l[a..] *)
Definition slice_to (l : bytes) (b : N) : R bytes := slice l 0 b.           (* l[..b] *)
(* l.get(i) *)
Definition get (l : bytes) (i : N) : option byte := nth_error l (N.to_nat i).

Definition u8_max : N := 255.
Definition u16_max : N := 65535.
Definition u32_max : N := 4294967295.
Definition usize_max : N := 18446744073709551615.

Definition add_chk (max a b : N) : R N := if a + b <=? max then Ok (a + b) else Panic.   (* a + b *)
Definition sub_chk (a b : N) : R N := if b <=? a then Ok (a - b) else Panic.              (* a - b *)
Definition mul_chk (max a b : N) : R N := if a * b <=? max then Ok (a * b) else Panic.   (* a * b *)
Definition rem_chk (a b : N) : R N := if b =? 0 then Panic else Ok (a mod b).            (* a % b *)
Definition div_chk (a b : N) : R N := if b =? 0 then Panic else Ok (a / b).              (* a / b *)
Definition sat_add (max a b : N) : N := N.min (a + b) max.    (* saturating_add *)
Definition sat_sub (a b : N) : N := a - b.                    (* saturating_sub (N subtraction truncates) *)
Definition sat_mul (max a b : N) : N := N.min (a * b) max.    (* saturating_mul *)
Definition cast_u8 (n : N) : N := n mod 256.                  (* `as u8` *)
Definition cast_u16 (n : N) : N := n mod 65536.               (* `as u16` *)

(* u16 / u32 from_be_bytes of bytes already fetched *)
Definition be16 (a b : byte) : N := b2n a * 256 + b2n b.
Definition be32 (a b c d : byte) : N := ((b2n a * 256 + b2n b) * 256 + b2n c) * 256 + b2n d.

(* result-line helpers shared by the case interpreter *)
Definition show_opt_N (o : option N) : bytes := match o with Some n => show_N n | None => bs "-" end.
