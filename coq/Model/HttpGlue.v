(* The packet-level HTTP analyzer model (Model/HttpAnalyzer.v) seen through the conventions of the other
   properties: reported results (C15, Model/FilterGlue.v), field groups of the unified analyzer (C20,
   Model/Unified.v: http_request, http_response), and the HTTP worker pool (C10, Model/PoolConcrete.v;
   huginn-net-http/src/parallel.rs: dispatch by packet_hash::hash_flow -- endpoints ordered before hashing --,
   one flow table and one HttpProcessors per worker).  Definitions only. *)
From Coq Require Import List NArith ZArith Bool.
From Coq Require Import Strings.Byte.
From HN Require Import Base.Bytes Base.Cache Base.Tcp Base.Keyed Model.HttpFlow Model.HttpAnalyzer Model.Hash
                       Model.Unified Model.PoolConcrete.
From HN Require Model.TcpAnalyzer.
Import ListNotations.
Open Scope N_scope.

Section HttpGlue.
  Context {Req Resp : Type}.
  Variable parse_req : bytes -> option Req.
  Variable parse_resp : bytes -> option Resp.
  Notation hres := (@http_out Req Resp).

  (* ---- reported results: Err and the empty result are not outputs ---- *)
  Definition http_reported (o : hres) : list hres :=
    match o with HOut (OReq _) => [o] | HOut (OResp _) => [o] | _ => [] end.
  Definition http_report_step (st : http_state) (f : bytes) : http_state * list hres :=
    let '(st', o) := http_packet_step parse_req parse_resp st f in (st', http_reported o).

  (* ---- worker pool: n workers, each with a flow table of capacity cap ---- *)
  Variable SipH : ident -> N.
  Definition http_wk (n : N) (f : bytes) : nat :=
    match http_worker SipH n f with Some w => N.to_nat w | None => O end.
  Definition http_pool_run (n cap : N) (es : list (ev bytes)) : cpst bytes fkey hres http_state :=
    cprun bytes fkey hres http_state http_key (http_packet_results parse_req parse_resp) (http_wk n) (cache_new cap) es.
  Definition http_pool_withinb (n cap : N) (es : list (ev bytes)) : bool :=
    cpwithinb bytes fkey hres http_state http_key (http_packet_results parse_req parse_resp) (http_wk n)
              (@http_fits) (cinit bytes fkey hres http_state (cache_new cap)) es.
End HttpGlue.

(* ---- the HTTP stage of the unified analyzer, results as text tokens (e.g. the HTTP/1 recogniser's):
        the two field groups http_request, http_response; matching is outside the model ---- *)
Section HttpUnified.
  Variable parse_req parse_resp : bytes -> option bytes.
  Definition http_pres (o : @http_out bytes bytes) : pres :=
    match o with
    | HErr => None
    | HOut ONone => Some [None; None]
    | HOut (OReq r) => Some [Some {| g_sig := r; g_on := []; g_off := [] |}; None]
    | HOut (OResp r) => Some [None; Some {| g_sig := r; g_on := []; g_off := [] |}]
    end.
  Definition http_ustep (st : http_state) (e : TcpAnalyzer.tcp_event) : http_state * pres :=
    let '(st', o) := http_packet_step parse_req parse_resp st (fst e) in (st', http_pres o).
End HttpUnified.
