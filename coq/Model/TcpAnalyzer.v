(* MODEL of the sequential TCP analyzer at PACKET level, assembled from models that already exist:
     huginn-net-tcp/src/lib.rs         HuginnNetTcp::process_packet without filter (parse_packet, then
                                       process_ipv4_packet / process_ipv6_packet, IpPacket::None -> empty result)
     huginn-net-tcp/src/process.rs     create_observable_package_ipv{4,6}: syn / syn_ack / mtu (+ link) and
                                       client_uptime / server_uptime of TcpAnalysisResult
     huginn-net-tcp/src/tcp_process.rs visit_tcp: the TIMESTAMPS arm calls uptime::check_ts_tcp once for EVERY
                                       timestamp option with >= 8 payload bytes, in option order; the result
                                       of the last call is what the packet reports
   Pieces:  Model/TcpExtract.v  process_frame = everything of the result that does not depend on state
                                (signature, MTU, link; Err exactly when the real code returns Err, and every
                                Err is decided before the tracker is touched: protocol, fragment, TCP view,
                                flag check all precede the option loop);
            Model/Uptime.v      check_ts_tcp, is_packet_from_client, the tracker as an insertion-ordered
                                association list; the arrival time (what TcpTimestamp::now reads) is part
                                of the packet event.
   Added here: the capacity of the tracker.  TtlCache::insert = LinkedHashMap::insert (an existing key is
   overwritten and becomes the newest) followed by `if len > capacity { remove_oldest }`; check_ts_tcp
   inserts at most once per call and a table filled by inserts alone never exceeds its capacity, so the
   eviction test is applied after every call.  Wall-clock TTL expiry (30 s) is outside the model.
   Definitions only. *)
From Coq Require Import List NArith ZArith Bool.
From Coq Require Import Strings.Byte.
From HN Require Import Base.Bytes Model.SigAst Model.Pnet Model.TcpExtract.
From HN Require Model.Uptime.
Import ListNotations.
Open Scope N_scope.

(* ---- the timestamp options the TIMESTAMPS arm hands to check_ts_tcp ---- *)
(* same walk as TcpExtract.walk (`while let Some(opt) = TcpOptionPacket::new(buf)`), collecting
   u32::from_be_bytes(data[..4]) of every option 8 with data.len() >= 8 *)
Fixpoint ts_walk (fuel : nat) (buf : bytes) : list N :=
  match buf with
  | [] => []
  | _ => match fuel with
         | O => []
         | S f =>
             let rest := drop buf (N.min (opt_packet_size buf) (blen buf)) in
             let data := opt_payload buf in
             (if (opt_number buf =? 8) && (8 <=? blen data) then [be32_at data 0] else [])
             ++ ts_walk f rest
         end
  end.
Definition ts_values (t : bytes) : list N :=
  let buf := tcp_options_raw t in ts_walk (S (length buf)) buf.

(* ---- Connection { src_ip, src_port, dst_ip, dst_port } over Uptime.connection (Z fields) ----
   IpAddr::V4(a) -> a (< 2^32),  IpAddr::V6(a) -> 2^128 + a : the two variants never collide *)
Definition TP32 : N := 4294967296.
Definition TP128 : N := 340282366920938463463374607431768211456.
Definition addr4 (p : bytes) (off : N) : Z := Z.of_N (be32_at p off).
Definition addr6 (p : bytes) (off : N) : Z :=
  Z.of_N (TP128 + (((be32_at p off * TP32 + be32_at p (off + 4)) * TP32 + be32_at p (off + 8)) * TP32 + be32_at p (off + 12))).

(* what visit_tcp knows when it reaches the option loop *)
Record tcp_seg := { q_conn : Uptime.connection; q_from_client : bool; q_tsvals : list Z }.
Definition seg_of (src dst : Z) (t : bytes) : tcp_seg :=
  let sport := Z.of_N (be16_at t 0) in
  let dport := Z.of_N (be16_at t 2) in
  {| q_conn := {| Uptime.src_ip := src; Uptime.src_port := sport; Uptime.dst_ip := dst; Uptime.dst_port := dport |};
     q_from_client := Uptime.is_packet_from_client (Z.of_N (tcp_flags t)) sport dport;
     q_tsvals := map Z.of_N (ts_values t) |}.
(* the segment of a frame; only consulted when TcpExtract.process_frame returned Ok, which for an IP
   packet implies that the TCP view exists *)
Definition frame_segment (f : bytes) : option tcp_seg :=
  match parse_packet f with
  | Ipv4 p => Some (seg_of (addr4 p 12) (addr4 p 16) (v4_payload p))
  | Ipv6 p => Some (seg_of (addr6 p 8) (addr6 p 24) (v6_payload p))
  | NoIp => None
  end.

(* ---- the tracker with its capacity ---- *)
Definition tcp_state := Uptime.cache.
Definition clen (c : tcp_state) : N := N.of_nat (length c).
Definition evict (cap : N) (c : tcp_state) : tcp_state := if cap <? clen c then tl c else c.
Definition check_ts_cap (cap : N) (tr : tcp_state) (conn : Uptime.connection) (fc : bool) (tsv now : Z)
  : tcp_state * (option Uptime.uptime * option Uptime.uptime) :=
  let '(tr', res) := Uptime.check_ts_tcp tr conn fc tsv now in (evict cap tr', res).
(* the option loop: `client_uptime = cli_uptime; server_uptime = srv_uptime;` on every call *)
Fixpoint ts_updates (cap : N) (tr : tcp_state) (conn : Uptime.connection) (fc : bool) (tsvals : list Z) (now : Z)
                    (acc : option Uptime.uptime * option Uptime.uptime)
  : tcp_state * (option Uptime.uptime * option Uptime.uptime) :=
  match tsvals with
  | [] => (tr, acc)
  | v :: r => let '(tr', res) := check_ts_cap cap tr conn fc v now in ts_updates cap tr' conn fc r now res
  end.

(* Result<TcpAnalysisResult, _> of one packet *)
Inductive tcp_result := TRErr | TROk (o : tcp_out) (cli srv : option Uptime.uptime).

(* a packet event = the frame and the millisecond clock reading taken while it is processed *)
Definition tcp_event := (bytes * Z)%type.

Definition tcp_packet_step (db : list (bytes * list N)) (cap : N) (tr : tcp_state) (e : tcp_event)
  : tcp_state * tcp_result :=
  let '(f, now) := e in
  match process_frame db f with
  | Err => (tr, TRErr)
  | Ok o =>
      match frame_segment f with
      | None => (tr, TROk o None None)
      | Some q =>
          let '(tr', (cli, srv)) := ts_updates cap tr (q_conn q) (q_from_client q) (q_tsvals q) now (None, None) in
          (tr', TROk o cli srv)
      end
  end.
Definition tcp_packet_results db cap tr e : tcp_state * list tcp_result :=
  let '(tr', o) := tcp_packet_step db cap tr e in (tr', [o]).

Fixpoint tcp_run db (cap : N) (tr : tcp_state) (es : list tcp_event) : tcp_state * list tcp_result :=
  match es with
  | [] => (tr, [])
  | e :: r => let '(tr1, o) := tcp_packet_step db cap tr e in
              let '(tr2, os) := tcp_run db cap tr1 r in (tr2, o :: os)
  end.

(* the tracker key of a packet: (connection, role) as check_ts_tcp builds it; packets that never reach
   the option loop get a key no connection has (addresses are never negative) *)
Definition no_conn : Uptime.connection :=
  {| Uptime.src_ip := (-1)%Z; Uptime.src_port := 0%Z; Uptime.dst_ip := (-1)%Z; Uptime.dst_port := 0%Z |}.
Definition tcp_key db (e : tcp_event) : Uptime.connection_key :=
  match process_frame db (fst e) with
  | Err => (no_conn, true)
  | Ok _ => match frame_segment (fst e) with
            | Some q => (q_conn q, q_from_client q)
            | None => (no_conn, true)
            end
  end.
Definition tcp_results db (cap : N) (tr : tcp_state) (es : list tcp_event) : list (Uptime.connection_key * tcp_result) :=
  combine (map (tcp_key db) es) (snd (tcp_run db cap tr es)).

(* "within capacity": a packet that reaches check_ts_tcp finds the table not over-full, and when its
   key is not tracked there is a free slot, so no insert evicts.  Packets that never call check_ts_tcp
   (Err, no IP packet, no timestamp option with 8 payload bytes) always fit. *)
Definition tcp_fits db (cap : N) (tr : tcp_state) (e : tcp_event) : bool :=
  match process_frame db (fst e) with
  | Err => true
  | Ok _ =>
      match frame_segment (fst e) with
      | None => true
      | Some q =>
          match q_tsvals q with
          | [] => true
          | _ => (clen tr <=? cap) &&
                 match Uptime.cache_get tr (q_conn q, q_from_client q) with Some _ => true | None => clen tr <? cap end
          end
      end
  end.
Fixpoint tcp_within_capacityb db (cap : N) (tr : tcp_state) (es : list tcp_event) : bool :=
  match es with
  | [] => true
  | e :: r => tcp_fits db cap tr e && tcp_within_capacityb db cap (fst (tcp_packet_step db cap tr e)) r
  end.

(* ---- canonical result token (what harness/c07 prints for the real analyzer) ----
   ERR | <EC03 result line> up=<EC19 token> *)
Definition show_Z (z : Z) : bytes := show_N (Z.to_N z).
Definition show_uptime (lbl : bytes) (u : Uptime.uptime) : bytes :=
  join (bs " ") [lbl; show_Z (Uptime.u_freq u); show_Z (Uptime.u_days u); show_Z (Uptime.u_hours u);
                 show_Z (Uptime.u_min u); show_Z (Uptime.u_mod_days u)].
Definition show_uptimes (cli srv : option Uptime.uptime) : bytes :=
  match cli, srv with
  | None, None => bs "-"
  | Some u, None => show_uptime (bs "client") u
  | None, Some u => show_uptime (bs "server") u
  | Some u, Some w => show_uptime (bs "client") u ++ bs "," ++ show_uptime (bs "server") w
  end.
Definition tcp_out_line (r : tcp_result) : bytes :=
  match r with
  | TRErr => bs "ERR"
  | TROk o cli srv => show_out (Ok o) ++ bs " up=" ++ show_uptimes cli srv
  end.
