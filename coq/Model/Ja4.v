(* MODEL of huginn-net-tls/src/tls_process.rs (parse_tls_client_hello,
   extract_tls_signature_from_client_hello, tls_version_from_code, determine_tls_version) and
   huginn-net-tls/src/tls.rs (TlsVersion Display, TLS_GREASE_VALUES, first_last_alpn, hash12,
   Signature::generate_ja4_with_order).  Text is `bytes` (UTF-8 as in a Rust String).
   hash12 of a non-empty string prints `{sha12:<hex of the preimage>}`; the orchestrator replaces it
   by the first 12 hex digits of SHA-256 (HOWTO section 3).  Definitions only. *)
From Coq Require Import List NArith Bool.
From Coq Require Import Strings.Byte.
From HN Require Import Base.Bytes Model.TlsHello.
Import ListNotations.
Open Scope N_scope.

(* tls.rs TLS_GREASE_VALUES *)
Definition TLS_GREASE_VALUES : list N :=
  [0x0a0a; 0x1a1a; 0x2a2a; 0x3a3a; 0x4a4a; 0x5a5a; 0x6a6a; 0x7a7a;
   0x8a8a; 0x9a9a; 0xaaaa; 0xbaba; 0xcaca; 0xdada; 0xeaea; 0xfafa].
Definition is_grease_value (v : N) : bool := existsb (N.eqb v) TLS_GREASE_VALUES.
Definition filter_grease_values (l : list N) : list N := filter (fun v => negb (is_grease_value v)) l.

(* tls.rs enum TlsVersion *)
Inductive tls_version := V1_3 | V1_2 | V1_1 | V1_0 | Ssl3_0 | Ssl2_0 | VUnknown (code : N).

Record signature := {
  s_version : tls_version;
  s_cipher_suites : list N;
  s_extensions : list N;
  s_elliptic_curves : list N;
  s_point_formats : bytes;
  s_signature_algorithms : list N;
  s_sni : option bytes;
  s_alpn : option bytes }.

(* std::str::from_utf8(..).is_ok(): well-formed UTF-8 (Unicode Table 3-7) *)
Definition in_range (lo hi : N) (b : byte) : bool := (lo <=? b2n b) && (b2n b <=? hi).
Fixpoint utf8_valid (l : bytes) : bool :=
  match l with
  | [] => true
  | b0 :: r =>
      let n := b2n b0 in
      if n <? 0x80 then utf8_valid r
      else if (0xC2 <=? n) && (n <=? 0xDF) then
        match r with b1 :: r1 => in_range 0x80 0xBF b1 && utf8_valid r1 | _ => false end
      else if (0xE0 <=? n) && (n <=? 0xEF) then
        match r with
        | b1 :: b2 :: r2 =>
            (if n =? 0xE0 then in_range 0xA0 0xBF b1 else if n =? 0xED then in_range 0x80 0x9F b1
             else in_range 0x80 0xBF b1) && in_range 0x80 0xBF b2 && utf8_valid r2
        | _ => false end
      else if (0xF0 <=? n) && (n <=? 0xF4) then
        match r with
        | b1 :: b2 :: b3 :: r3 =>
            (if n =? 0xF0 then in_range 0x90 0xBF b1 else if n =? 0xF4 then in_range 0x80 0x8F b1
             else in_range 0x80 0xBF b1) && in_range 0x80 0xBF b2 && in_range 0x80 0xBF b3 && utf8_valid r3
        | _ => false end
      else false
  end.
(* std::str::from_utf8(x).ok().map(str::to_owned) *)
Definition from_utf8 (x : bytes) : option bytes := if utf8_valid x then Some x else None.

(* tls_process.rs tls_version_from_code *)
Definition tls_version_from_code (c : N) : tls_version :=
  if c =? 0x0304 then V1_3 else if c =? 0x0303 then V1_2 else if c =? 0x0302 then V1_1
  else if c =? 0x0301 then V1_0 else if c =? 0x0300 then Ssl3_0 else if c =? 0x0002 then Ssl2_0
  else VUnknown c.
(* tls_process.rs determine_tls_version(legacy_version, extensions): the legacy code goes through the same table *)
Definition determine_tls_version (legacy : N) (extensions : list N) : tls_version :=
  if existsb (N.eqb 43) extensions then V1_3 else tls_version_from_code legacy.

Definition list_max (l : list N) : option N :=
  match l with [] => None | x :: r => Some (fold_left N.max r x) end.

(* the mutable locals of extract_tls_signature_from_client_hello *)
Record ext_state := {
  e_extensions : list N; e_sni : option bytes; e_alpn : option bytes; e_sigalgs : list N;
  e_curves : list N; e_formats : bytes; e_versions : list N }.
Definition ext_state0 : ext_state :=
  {| e_extensions := []; e_sni := None; e_alpn := None; e_sigalgs := []; e_curves := [];
     e_formats := []; e_versions := [] |}.

(* one iteration of `for extension in &parsed_extensions` *)
Definition ext_step (st : ext_state) (e : N * ext_item) : ext_state :=
  let exts := if is_grease_value (fst e) then e_extensions st else e_extensions st ++ [fst e] in
  match snd e with
  | ExtSni names =>
      {| e_extensions := exts;
         e_sni := match names with (_, host) :: _ => from_utf8 host | [] => e_sni st end;
         e_alpn := e_alpn st; e_sigalgs := e_sigalgs st; e_curves := e_curves st;
         e_formats := e_formats st; e_versions := e_versions st |}
  | ExtAlpn protos =>
      {| e_extensions := exts; e_sni := e_sni st;
         e_alpn := match protos with p :: _ => from_utf8 p | [] => e_alpn st end;
         e_sigalgs := e_sigalgs st; e_curves := e_curves st;
         e_formats := e_formats st; e_versions := e_versions st |}
  | ExtSigAlgs l =>
      {| e_extensions := exts; e_sni := e_sni st; e_alpn := e_alpn st; e_sigalgs := l;
         e_curves := e_curves st; e_formats := e_formats st; e_versions := e_versions st |}
  | ExtGroups l =>
      {| e_extensions := exts; e_sni := e_sni st; e_alpn := e_alpn st; e_sigalgs := e_sigalgs st;
         e_curves := l; e_formats := e_formats st; e_versions := e_versions st |}
  | ExtVersions l =>
      {| e_extensions := exts; e_sni := e_sni st; e_alpn := e_alpn st; e_sigalgs := e_sigalgs st;
         e_curves := e_curves st; e_formats := e_formats st; e_versions := l |}
  | ExtPointFormats b =>
      {| e_extensions := exts; e_sni := e_sni st; e_alpn := e_alpn st; e_sigalgs := e_sigalgs st;
         e_curves := e_curves st; e_formats := b; e_versions := e_versions st |}
  | ExtOther =>
      {| e_extensions := exts; e_sni := e_sni st; e_alpn := e_alpn st; e_sigalgs := e_sigalgs st;
         e_curves := e_curves st; e_formats := e_formats st; e_versions := e_versions st |}
  end.

(* the signature built from the legacy version, the cipher list and the parsed extension list *)
Definition signature_of (legacy : N) (ciphers : list N) (parsed : list (N * ext_item)) : signature :=
  let st := fold_left ext_step parsed ext_state0 in
  let version :=
    match list_max (filter_grease_values (e_versions st)) with
    | Some v => tls_version_from_code v
    | None => determine_tls_version legacy []      (* since 53df476: `&[]`, no "extension 43 present => 1.3" *)
    end in
  {| s_version := version;
     s_cipher_suites := filter_grease_values ciphers;
     s_extensions := e_extensions st;
     s_elliptic_curves := e_curves st;
     s_point_formats := e_formats st;
     s_signature_algorithms := e_sigalgs st;
     s_sni := e_sni st;
     s_alpn := e_alpn st |}.

(* extract_tls_signature_from_client_hello (never fails) *)
Definition extract_signature (ch : client_hello) : signature :=
  signature_of (ch_version ch) (ch_ciphers ch)
    (match ch_ext ch with Some e => parse_extensions (length e) e | None => [] end).

Inductive tls_result := RSig (s : signature) | RNone | RErr.

(* tls_process.rs parse_tls_client_hello(data) *)
Definition parse_tls_client_hello (data : bytes) : tls_result :=
  if lenN data <? 5 then RErr else
  let record_len := match u16 (skipn 3 data) with Some (n, _) => n | None => 0 end in
  let needed := record_len + 5 in
  let data_to_parse := if needed <=? lenN data then firstn (N.to_nat needed) data else data in
  match parse_tls_plaintext_hello data_to_parse with
  | PErr => RErr
  | PNoHello => RNone
  | PHello ch => RSig (extract_signature ch)
  end.

(* ---------- tls.rs ---------- *)
Definition version_text (v : tls_version) : bytes :=
  match v with
  | V1_3 => bs "13" | V1_2 => bs "12" | V1_1 => bs "11" | V1_0 => bs "10"
  | Ssl3_0 => bs "s3" | Ssl2_0 => bs "s2"
  | VUnknown c =>      (* Display: DTLS 1.0 / 1.2 / 1.3 codes, then "00" *)
      if c =? 0xfeff then bs "d1" else if c =? 0xfefd then bs "d2" else if c =? 0xfefc then bs "d3" else bs "00"
  end.

(* byte length of the UTF-8 character that starts with byte b0 (input is valid UTF-8) *)
Definition utf8_char_len (b0 : N) : nat :=
  if b0 <? 0x80 then 1%nat else if b0 <? 0xE0 then 2%nat else if b0 <? 0xF0 then 3%nat else 4%nat.

(* tls.rs first_last_alpn on a valid UTF-8 string: chars().next() / next_back(), non-ASCII -> '9',
   missing -> '0', and a one-*byte* string gets '0' as last *)
Definition ascii_or_9 (b : byte) : byte := if b2n b <? 128 then b else "9"%byte.
Definition first_last_alpn (s : bytes) : byte * byte :=
  match s with
  | [] => ("0"%byte, "0"%byte)
  | b0 :: _ =>
      let one_char := Nat.eqb (length s) (utf8_char_len (b2n b0)) in
      let last_c := if one_char then "0"%byte else ascii_or_9 (last s b0) in
      (ascii_or_9 b0, if Nat.eqb (length s) 1 then "0"%byte else last_c)
  end.

Definition hex4 (c : N) : bytes := show_hex (be_bytes 2 c).            (* {:04x} of a u16 *)
Definition two_digits (n : N) : bytes := [digit_byte (n / 10); digit_byte (n mod 10)].   (* {:02}, n <= 99 *)
Definition comma : bytes := bs ",".
Definition csv (l : list N) : bytes := join comma (map hex4 l).
Definition underscore : bytes := bs "_".

Definition hash12 (input : bytes) : bytes :=
  match input with
  | [] => bs "000000000000"
  | _ => bs "{sha12:" ++ show_hex input ++ bs "}"
  end.

(* insertion sort; sort_unstable on u16 yields the ascending list *)
Fixpoint insert_sorted (x : N) (l : list N) : list N :=
  match l with
  | [] => [x]
  | y :: r => if x <=? y then x :: l else y :: insert_sorted x r
  end.
Definition sort_N (l : list N) : list N := fold_right insert_sorted [] l.

Record ja4_payload := { ja4_a : bytes; ja4_b : bytes; ja4_c : bytes; ja4_full : bytes; ja4_raw : bytes }.

(* Signature::generate_ja4_with_order *)
Definition generate_ja4_with_order (s : signature) (original_order : bool) : ja4_payload :=
  let filtered_ciphers := filter_grease_values (s_cipher_suites s) in
  let filtered_extensions := filter_grease_values (s_extensions s) in
  let filtered_sig_algs := filter_grease_values (s_signature_algorithms s) in
  let sni_indicator := match s_sni s with Some _ => bs "d" | None => bs "i" end in
  let cipher_count := two_digits (N.min (lenN (s_cipher_suites s)) 99) in
  let extension_count := two_digits (N.min (lenN (s_extensions s)) 99) in
  let fl := match s_alpn s with Some a => first_last_alpn a | None => ("0"%byte, "0"%byte) end in
  let a := bs "t" ++ version_text (s_version s) ++ sni_indicator ++ cipher_count ++ extension_count
           ++ [fst fl; snd fl] in
  let ciphers_for_b := if original_order then filtered_ciphers else sort_N filtered_ciphers in
  let b_raw := csv ciphers_for_b in
  let extensions_for_c :=
    if original_order then filtered_extensions
    else sort_N (filter (fun e => negb (e =? 0x0000) && negb (e =? 0x0010)) filtered_extensions) in
  let extensions_str := csv extensions_for_c in
  let sig_algs_str := csv filtered_sig_algs in
  let c_raw :=
    match sig_algs_str with
    | [] => extensions_str
    | _ => match extensions_str with
           | [] => sig_algs_str
           | _ => extensions_str ++ underscore ++ sig_algs_str
           end
    end in
  {| ja4_a := a; ja4_b := b_raw; ja4_c := c_raw;
     ja4_full := a ++ underscore ++ hash12 b_raw ++ underscore ++ hash12 c_raw;
     ja4_raw := a ++ underscore ++ b_raw ++ underscore ++ c_raw |}.

Definition generate_ja4 (s : signature) := generate_ja4_with_order s false.
Definition generate_ja4_original (s : signature) := generate_ja4_with_order s true.

(* ---------- canonical result line of the C04/C08 harness ---------- *)
Definition opt_hex (o : option bytes) : bytes :=
  match o with Some x => bs ":" ++ show_hex x | None => bs "-" end.
Definition csv_or_dash (l : list N) : bytes := match l with [] => bs "-" | _ => csv l end.
Definition version_token (v : tls_version) : bytes :=
  match v with
  | VUnknown c => if bytes_eqb (version_text v) (bs "00") then bs "00:" ++ hex4 c else version_text v
  | _ => version_text v
  end.

(* the four strings: JA4, JA4_r, JA4_o, JA4_ro *)
Definition ja4_all (s : signature) : bytes * bytes * bytes * bytes :=
  (ja4_full (generate_ja4 s), ja4_raw (generate_ja4 s),
   ja4_full (generate_ja4_original s), ja4_raw (generate_ja4_original s)).

Definition sig_fields (s : signature) : bytes :=
  bs "ver=" ++ version_token (s_version s) ++ bs " sni=" ++ opt_hex (s_sni s)
  ++ bs " alpn=" ++ opt_hex (s_alpn s) ++ bs " ciphers=" ++ csv_or_dash (s_cipher_suites s)
  ++ bs " exts=" ++ csv_or_dash (s_extensions s) ++ bs " sigalgs=" ++ csv_or_dash (s_signature_algorithms s)
  ++ bs " groups=" ++ csv_or_dash (s_elliptic_curves s).

Definition ja4_line (s : signature) : bytes :=
  let '(j, jr, jo, jro) := ja4_all s in
  j ++ [sp] ++ jr ++ [sp] ++ jo ++ [sp] ++ jro.

(* The fingerprint strings copy the first/last ALPN character verbatim, so they may hold blanks and
   control characters.  The harness prints every byte outside 0x21..0x7e of a fingerprint string as
   \xHH; `*_esc` are the lines as the harness prints them (identical when no such byte occurs). *)
Definition esc (l : bytes) : bytes :=
  flat_map (fun b => if (0x21 <=? b2n b) && (b2n b <=? 0x7e) then [b] else bs "\x" ++ show_hex [b]) l.
Definition ja4_line_esc (s : signature) : bytes :=
  let '(j, jr, jo, jro) := ja4_all s in
  esc j ++ [sp] ++ esc jr ++ [sp] ++ esc jo ++ [sp] ++ esc jro.

(* Signature returned by parse_tls_client_hello / the reader *)
Definition sig_line (s : signature) : bytes :=
  ja4_line s ++ [sp] ++ sig_fields s ++ bs " fmts=" ++ opt_hex (Some (s_point_formats s)).
(* ObservableTlsClient of the packet analyzer: the point-format list is not part of it *)
Definition client_line (s : signature) : bytes :=
  ja4_line s ++ [sp] ++ sig_fields s ++ bs " fmts=*".

Definition result_line (r : tls_result) : bytes :=
  match r with RSig s => sig_line s | RNone => bs "NONE" | RErr => bs "ERR" end.

Definition sig_line_esc (s : signature) : bytes :=
  ja4_line_esc s ++ [sp] ++ sig_fields s ++ bs " fmts=" ++ opt_hex (Some (s_point_formats s)).
Definition client_line_esc (s : signature) : bytes :=
  ja4_line_esc s ++ [sp] ++ sig_fields s ++ bs " fmts=*".
Definition result_line_esc (r : tls_result) : bytes :=
  match r with RSig s => sig_line_esc s | RNone => bs "NONE" | RErr => bs "ERR" end.
