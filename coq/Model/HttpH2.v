(* The two head parsers of the HTTP analyzer for HTTP/1.x AND HTTP/2 traffic:
     huginn-net-http/src/http_process.rs  HttpProcessors::parse_request / parse_response
       for parser in [Http1ParserAdapter, Http2ParserAdapter]:
         if parser.can_parse(data) { if let Some(r) = parser.parse_request(data) { return Some(r) } }
       Http1ParserAdapter: Model/HttpRecog.v (can_parse_h1, h1_parse_request/response, tokens as EC09)
       Http2ParserAdapter: can_parse = Http2Processor::can_process_request || can_process_response
                           (Model/HttpRecog.v can_parse_h2), parse_* = process_*(data).ok().flatten()
                           = Model/H2Msg.v analyse_request / analyse_response (preface check, frame
                           splitter, primary stream, header block, HPACK, observation)
   and the packet-level HTTP analyzer (Model/HttpAnalyzer.v: flow table, has_complete_http_data gate,
   process_tcp_packet) instantiated with them.

   Validated domain of the HTTP/1 gate on non-ASCII bytes (the recogniser models str functions on ASCII):
   a payload that starts with the full HTTP/2 preface, or whose first byte is 0x00 (every HTTP/2 frame
   header of a frame shorter than 64 KiB) makes can_process_request / can_process_response of the HTTP/1
   processor false whatever follows (the first token of the first line is "PRI" resp. starts with NUL), in
   the code and in the recogniser alike; a proper prefix of the preface is ASCII.  `h12_domain`.
   Result tokens: HTTP/1 as EC09 (Q.<..> / R.<..>); HTTP/2:
     Q2 <method> <path> hdr=.. cookies=.. referer=.. ua=.. lang={al:<hex>}|~ sig=..     (H2Show.show_req_obs)
     R2 <status> hdr=.. sig=..                                                          (H2Show.show_resp)
   Definitions only. *)
From Coq Require Import List NArith Bool.
From Coq Require Import Strings.Byte.
From HN Require Import Base.Bytes Base.Cache Base.Tcp Model.HttpFlow Model.HttpAnalyzer Model.H2Msg Model.H2Show.
From HN Require Model.HttpRecog.
Import ListNotations.
Open Scope N_scope.

(* Http2ParserAdapter::parse_request / parse_response behind its can_parse gate; a panic of the HPACK
   crate is unreachable (C16_decoder_total) and maps to None *)
Definition h2_adapter_req (d : bytes) : option bytes :=
  if HttpRecog.can_parse_h2 d then
    match analyse_request d with POk v => Some (bs "Q2 " ++ show_req_obs v) | _ => None end
  else None.
Definition h2_adapter_resp (d : bytes) : option bytes :=
  if HttpRecog.can_parse_h2 d then
    match analyse_response d with POk w => Some (bs "R2 " ++ show_resp w) | _ => None end
  else None.

(* HttpProcessors::parse_request / parse_response: first adapter that yields a result *)
Definition parse_req_12 (d : bytes) : option bytes :=
  match HttpRecog.recog_req d with Some r => Some r | None => h2_adapter_req d end.
Definition parse_resp_12 (d : bytes) : option bytes :=
  match HttpRecog.recog_resp d with Some r => Some r | None => h2_adapter_resp d end.

Definition h12_domain (d : bytes) : bool :=
  HttpRecog.ascii_nonzero d || starts_with HttpRecog.h2_preface d
  || match d with b :: _ => b2n b =? 0 | [] => true end.

(* the packet-level analyzer with both protocols *)
Definition http12_packet_step := @http_packet_step bytes bytes parse_req_12 parse_resp_12.
Definition http12_run := @http_run bytes bytes parse_req_12 parse_resp_12.
Definition http12_within_capacityb := @http_within_capacityb bytes bytes parse_req_12 parse_resp_12.
Definition http12_out_line (o : @http_out bytes bytes) : bytes := http1_out_line o.

(* the same parser pair with a request token that leaves the language out (Q2 ... without lang=) *)
Definition h2_adapter_req_nl (d : bytes) : option bytes :=
  if HttpRecog.can_parse_h2 d then
    match analyse_request d with POk v => Some (bs "Q2 " ++ show_req_obs_nl v) | _ => None end
  else None.
Definition parse_req_12nl (d : bytes) : option bytes :=
  match HttpRecog.recog_req d with Some r => Some r | None => h2_adapter_req_nl d end.
