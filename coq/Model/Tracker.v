(* The TCP analyzer's uptime tracker, for C11: huginn-net-tcp/src/uptime.rs check_ts_tcp.
   One fixed-size record (TcpTimestamp: u32 + u64 + bool) per (connection, direction) key in a
   TtlCache<ConnectionKey, TcpTimestamp>.  The floating-point frequency computation
   (calculate_frequency_p0f_style and the rounding) is a Section variable `freq_ok` that only says
   whether it returned Ok or Err; its value never reaches the cache.  Definitions only. *)
From Coq Require Import List NArith Bool.
From HN Require Import Base.Cache.
Import ListNotations.
Open Scope N_scope.

(* ConnectionKey { connection: (src ip, src port, dst ip, dst port), is_client } *)
Definition ckey := (N * N * N * N * bool)%type.
Definition ckey_eqb (a b : ckey) : bool :=
  let '(a1, a2, a3, a4, a5) := a in let '(b1, b2, b3, b4, b5) := b in
  (a1 =? b1) && (a2 =? b2) && (a3 =? b3) && (a4 =? b4) && Bool.eqb a5 b5.

(* TcpTimestamp *)
Record tsrec := mkTs { ts_val : N; ts_recv_ms : N; ts_bad : bool }.
Definition bad_marker : tsrec := mkTs 0 0 true.

Section Tracker.
  Variable freq_ok : tsrec -> tsrec -> bool.     (* calculate_frequency_p0f_style(current, reference).is_ok() *)

  Definition tracker := cache ckey tsrec.

  (* check_ts_tcp: both the client and the server branch have this shape; returns whether an uptime was reported *)
  Definition check_ts (t : tracker) (k : ckey) (cur : tsrec) : tracker * bool :=
    match cache_get ckey_eqb t k with
    | Some ref =>
        if ts_bad ref then (t, false)
        else if freq_ok cur ref then (t, true)
        else (cache_insert ckey_eqb t k bad_marker, false)
    | None => (cache_insert ckey_eqb t k cur, false)
    end.

  Fixpoint tracker_run (t : tracker) (ops : list (ckey * tsrec)) : tracker :=
    match ops with
    | [] => t
    | (k, cur) :: r => tracker_run (fst (check_ts t k cur)) r
    end.
End Tracker.
