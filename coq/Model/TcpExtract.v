(* MODEL of the TCP signature extraction of huginn-net-tcp (the code that exists, with its quirks):
     tcp_process.rs   from_client / from_server / is_valid / process_tcp_ipv4 / process_tcp_ipv6 / visit_tcp
     ttl.rs           guess_distance / calculate_ttl
     ip_options.rs    IpOptions::calculate_ipv4_length / calculate_ipv6_length
     window_size.rs   detect_win_multiplicator (u16 arithmetic, macros expanded; checked_add in the MSS + header rule)
     mtu.rs           extract_from_ipv4 / extract_from_ipv6
     process.rs       process_ipv4_packet / process_ipv6_packet (syn / syn_ack / mtu + link of TcpAnalysisResult)
     signature_matcher.rs  matching_by_mtu
     lib.rs           HuginnNetTcp::process_packet without filter (parse_packet, then the two above)
     huginn-net-db/src/display.rs   Display of TcpObservation and its parts
   u8/u16 values are N; `saturating_*` are written out; plain `-`/`*`/`%`//` in the source are
   guarded by the source itself (noted at each use).  Uptime tracking (check_ts_tcp) has no influence on
   the fields modelled here and is left out.  Definitions only. *)
From Coq Require Import List NArith Bool.
From Coq Require Import Strings.Byte.
From HN Require Import Base.Bytes Model.SigAst Model.Pnet.
Import ListNotations.
Open Scope N_scope.

(* ---------------- ttl.rs ---------------- *)
Definition guess_distance (ttl : N) : N :=
  if 128 <? ttl then sat_sub 255 ttl
  else if 64 <? ttl then sat_sub 128 ttl
  else if 32 <? ttl then sat_sub 64 ttl
  else sat_sub 32 ttl.
Definition MAX_HOPS_ACCEPTABLE : N := 30.
Definition calculate_ttl (ttl_observed : N) : ttl :=
  if ttl_observed =? 0 then TtlBad ttl_observed
  else let distance := guess_distance ttl_observed in
       if distance <=? MAX_HOPS_ACCEPTABLE then TtlDistance ttl_observed distance else TtlValue ttl_observed.

(* ---------------- ip_options.rs ---------------- *)
(* ihl.saturating_sub(5).saturating_mul(4): ihl is a u4, so at most 40 — never saturates *)
Definition calculate_ipv4_length (p : bytes) : N :=
  let ihl := v4_header_length p in
  if 5 <? ihl then N.min (sat_sub ihl 5 * 4) 255 else 0.
(* calculate_ipv6_length: returns 0 at once when next_header = TCP; process_tcp_ipv6 only reaches it in that
   case (any other next_header is rejected before), so the extension-header branch is dead here. *)
Definition calculate_ipv6_length (p : bytes) : N := 0.

(* ---------------- window_size.rs ---------------- *)
Definition sat16 (x : N) : N := N.min x 65535.            (* result of u16 saturating_add *)
(* check_mss_div! / check_mtu_div!: `$div != 0 && window_size % $div == 0`, multiplier <= 255 *)
Definition check_div (win div : N) : option N :=
  if negb (div =? 0) && (win mod div =? 0) then
    let multiplier := win / div in
    if multiplier <=? 255 then Some multiplier else None
  else None.
Definition or_else {A} (a : option A) (b : option A) : option A := match a with Some x => Some x | None => b end.

Definition detect_win_multiplicator (win mss total_header : N) (has_ts : bool) (ver : ip_version)
  : window_size :=
  if (win =? 0) || (mss <? 100) then WValue win else
  (* 1. MSS multiples: `if mss > 0 { check(mss); if has_ts && mss > 12 { check(mss.saturating_sub(12)) } }` *)
  match (if 0 <? mss then
           or_else (check_div win mss)
                   (if has_ts && (12 <? mss) then check_div win (sat_sub mss 12) else None)
         else None) with
  | Some k => WMss k
  | None =>
  (* 2. modulos.iter().rev(): 4096, 2048, 1024, 512, 256; checked_rem == Some(0) *)
  match find (fun m => win mod m =? 0) [4096; 2048; 1024; 512; 256] with
  | Some m => WMod m
  | None =>
  (* 3. ETH_MTU, ETH_MTU - MIN_TCP{4,6}, and that - TS_SIZE with timestamps *)
  match or_else (check_div win 1500)
        (match ver with
         | IpV4 => or_else (check_div win (1500 - 40))
                           (if has_ts then check_div win (1500 - 40 - 12) else None)
         | IpV6 => or_else (check_div win (1500 - 60))
                           (if has_ts then check_div win (1500 - 60 - 12) else None)
         | IpAny => None end) with
  | Some k => WMtu k
  | None =>
  (* 4. `if mss > 0 { if total_header > 0 { if let Some(mtu) = mss.checked_add(total_header) { check(mtu) } }
        else { per version, saturating } }` *)
  match (if 0 <? mss then
           if 0 <? total_header then
             (if mss + total_header <=? 65535 then check_div win (mss + total_header) else None)
           else match ver with
                | IpV4 => check_div win (sat16 (mss + 40))
                | IpV6 => check_div win (sat16 (mss + 60))
                | IpAny => None end
         else None) with
  | Some k => WMtu k
  | None => WValue win
  end end end end.

(* ---------------- tcp_process.rs: flags ---------------- *)
Definition FIN : N := 1.  Definition SYN : N := 2.  Definition RST : N := 4.  Definition PSH : N := 8.
Definition ACK : N := 16. Definition URG : N := 32. Definition ECE : N := 64. Definition CWR : N := 128.
Definition FIN_RST : N := 5.          (* FIN | RST *)
Definition ECE_CWR : N := 192.        (* ECE | CWR *)
Definition TCP_NS : N := 1.           (* NS (nonce sum) bit within the 4 reserved bits, RFC 3540 *)
Definition TYPE_MASK : N := 23.       (* SYN | ACK | FIN | RST *)

Definition from_client (f : N) : bool := negb (N.land f SYN =? 0) && (N.land f ACK =? 0).
Definition from_server (f : N) : bool := negb (N.land f SYN =? 0) && negb (N.land f ACK =? 0).
Definition is_valid (f tcp_type : N) : bool :=
  negb (((N.land f SYN =? SYN) && negb (N.land f FIN_RST =? 0))
        || (N.land f FIN_RST =? FIN_RST)
        || (tcp_type =? 0)).

(* ---------------- mtu.rs ---------------- *)
(* extract_from_ipv4: header length arrives in 32-bit words; extract_from_ipv6: in bytes (40) *)
Definition mtu_tcp_header_len (t : bytes) : N :=
  let l := sat16 (tcp_data_offset t * 4) in if 20 <? l then sat_sub l 20 else l.
Definition extract_from_ipv4 (t : bytes) (ipv4_header_len mss : N) : option N :=
  if N.land (tcp_flags t) SYN =? SYN then
    Some (sat16 (sat16 (mss + sat16 (ipv4_header_len * 4)) + mtu_tcp_header_len t))
  else None.
Definition extract_from_ipv6 (t : bytes) (ipv6_header_len mss : N) : option N :=
  if N.land (tcp_flags t) SYN =? SYN then
    Some (sat16 (sat16 (mss + ipv6_header_len) + mtu_tcp_header_len t))
  else None.

(* ---------------- tcp_process.rs: visit_tcp ---------------- *)
(* the mutable locals of the option loop *)
Record wst := { w_mss : option N; w_wscale : option N; w_olayout : list tcp_option; w_quirks : list quirk }.
Definition push_q (st : wst) (q : quirk) : wst :=
  {| w_mss := w_mss st; w_wscale := w_wscale st; w_olayout := w_olayout st; w_quirks := w_quirks st ++ [q] |}.
Definition push_o (st : wst) (o : tcp_option) : wst :=
  {| w_mss := w_mss st; w_wscale := w_wscale st; w_olayout := w_olayout st ++ [o]; w_quirks := w_quirks st |}.
Definition set_mss (st : wst) (v : N) : wst :=
  {| w_mss := Some v; w_wscale := w_wscale st; w_olayout := w_olayout st; w_quirks := w_quirks st |}.
Definition set_ws (st : wst) (v : N) : wst :=
  {| w_mss := w_mss st; w_wscale := Some v; w_olayout := w_olayout st; w_quirks := w_quirks st |}.
Definition push_q_if (c : bool) (st : wst) (q : quirk) : wst := if c then push_q st q else st.

Definition any_nonzero (l : bytes) : bool := existsb (fun b => negb (b2n b =? 0)) l.

(* body of the `match opt.get_number()` for option number n with payload `data`, `rest` = buffer after it *)
Definition opt_effect (tcp_type n : N) (data rest : bytes) (st : wst) : wst :=
   if n =? 0 then        (* EOL: pushes Eol(remaining) and goes on with the loop *)
     push_q_if (any_nonzero rest) (push_o st (OEol (blen rest mod 256))) QTrailinigNonZero
   else if n =? 1 then push_o st ONop
   else if n =? 2 then
     let st1 := push_o st OMss in
     if 2 <=? blen data then set_mss st1 (be16_at data 0) else st1
   else if n =? 3 then
     let st1 := push_o st OWs in
     match data with
     | scale :: _ => push_q_if (14 <? b2n scale) (set_ws st1 (b2n scale)) QExcessiveWindowScaling
     | [] => st1 end
   else if n =? 4 then push_o st OSok
   else if n =? 5 then push_o st OSack
   else if n =? 8 then
     let st1 := push_o st OTS in
     let st2 := if 4 <=? blen data then push_q_if (be32_at data 0 =? 0) st1 QOwnTimestampZero else st1 in
     if (8 <=? blen data) && (tcp_type =? SYN) then push_q_if (negb (be32_at data 4 =? 0)) st2 QPeerTimestampNonZero
     else st2
   else push_o st (OUnknown n).

(* one iteration of `while let Some(opt) = TcpOptionPacket::new(buf)`; buf is non-empty *)
Definition walk_step (tcp_type : N) (buf : bytes) (st : wst) : bytes * wst :=
  let rest := drop buf (N.min (opt_packet_size buf) (blen buf)) in   (* buf = &buf[opt.packet_size().min(buf.len())..] *)
  (rest, opt_effect tcp_type (opt_number buf) (opt_payload buf) rest st).

(* the loop; every iteration consumes min(packet_size, len) >= 1 bytes, fuel = S (length buf) is enough *)
Fixpoint walk (fuel : nat) (tcp_type : N) (buf : bytes) (st : wst) : option wst :=
  match buf with
  | [] => Some st
  | _ => match fuel with
         | O => None
         | S f => let '(rest, st') := walk_step tcp_type buf st in walk f tcp_type rest st'
         end
  end.

(* ObservableTCPPackage without the uptime fields *)
Record tcp_package := { tcp_request : option tcp_sig; tcp_response : option tcp_sig; pkg_mtu : option N }.
Inductive res (A : Type) := Err | Ok (a : A).
Arguments Err {A}. Arguments Ok {A} a.

(* quirks pushed by visit_tcp before the option loop, in source order *)
Definition tcp_header_quirks (t : bytes) : list quirk :=
  let flags := tcp_flags t in
  (if negb (N.land flags ECE_CWR =? 0) || negb (N.land (tcp_reserved t) TCP_NS =? 0) then [QEcn] else [])
  ++ (if tcp_sequence t =? 0 then [QSeqNumZero] else [])
  ++ (if N.land flags ACK =? ACK then (if tcp_acknowledgement t =? 0 then [QAckNumZero] else [])
      else if negb (tcp_acknowledgement t =? 0) && (N.land flags RST =? 0) then [QAckNumNonZero] else [])
  ++ (if N.land flags URG =? URG then [QUrg] else if negb (tcp_urgent_ptr t =? 0) then [QNonZeroURG] else [])
  ++ (if N.land flags PSH =? PSH then [QPush] else []).

(* `min_total_header`: minimal IP + TCP header size in bytes, what visit_tcp hands to detect_win_multiplicator *)
Definition min_total_header (version : ip_version) : N :=
  match version with IpV4 => 40 | IpV6 => 60 | IpAny => 0 end.

Definition visit_tcp (t : bytes) (version : ip_version) (ittl : ttl) (ip_package_header_length olen : N)
                     (quirks : list quirk) : res tcp_package :=
  let flags := tcp_flags t in
  let from_client_ := from_client flags in
  let tcp_type := N.land flags TYPE_MASK in
  if negb (is_valid flags tcp_type) then Err else
  let quirks1 := quirks ++ tcp_header_quirks t in
  let buf := tcp_options_raw t in
  match walk (S (length buf)) tcp_type buf {| w_mss := None; w_wscale := None; w_olayout := []; w_quirks := quirks1 |} with
  | None => Err     (* out of fuel: unreachable *)
  | Some st =>
      let mtu := match w_mss st, version with
                 | Some mss_value, IpV4 => extract_from_ipv4 t ip_package_header_length mss_value
                 | Some mss_value, IpV6 => extract_from_ipv6 t ip_package_header_length mss_value
                 | _, _ => None end in
      let wsize := detect_win_multiplicator (tcp_window t) (match w_mss st with Some m => m | None => 0 end)
                     (min_total_header version)
                     (existsb (tcp_option_eqb OTS) (w_olayout st)) version in
      let sig := {| t_version := version; t_ittl := ittl; t_olen := olen; t_mss := w_mss st; t_wsize := wsize;
                    t_wscale := w_wscale st; t_olayout := w_olayout st; t_quirks := w_quirks st;
                    t_pclass := match tcp_payload t with [] => PZero | _ => PNonZero end |} in
      Ok {| tcp_request := if from_client_ then Some sig else None;
            tcp_response := if negb from_client_ then Some sig else None;
            pkg_mtu := if from_client_ then mtu else None |}
  end.

(* ---------------- tcp_process.rs: process_tcp_ipv4 / process_tcp_ipv6 ---------------- *)
Definition IP_TOS_CE_ECT : N := 3.    (* IP_TOS_CE | IP_TOS_ECT *)
Definition IP4_MBZ : N := 4.
Definition DontFragment : N := 2.
Definition MoreFragments : N := 1.
Definition PROTO_TCP : N := 6.

Definition ipv4_quirks (p : bytes) : list quirk :=
  (if negb (N.land (v4_ecn p) IP_TOS_CE_ECT =? 0) then [QEcn] else [])
  ++ (if negb (N.land (v4_flags p) IP4_MBZ =? 0) then [QMustBeZero] else [])
  ++ (if negb (N.land (v4_flags p) DontFragment =? 0)
      then QDf :: (if negb (v4_identification p =? 0) then [QNonZeroID] else [])
      else if v4_identification p =? 0 then [QZeroID] else []).

Definition process_tcp_ipv4 (p : bytes) : res tcp_package :=
  if negb (v4_protocol p =? PROTO_TCP) then Err
  else if (0 <? v4_fragment_offset p) || (N.land (v4_flags p) MoreFragments =? MoreFragments) then Err
  else
    let ittl := calculate_ttl (v4_ttl p) in
    let olen := calculate_ipv4_length p in
    let quirks := ipv4_quirks p in
    let tcp_payload_ := v4_payload p in
    let ip_package_header_length := v4_header_length p in      (* 32-bit words, handed on as is *)
    if blen tcp_payload_ <? tcp_min then Err
    else visit_tcp tcp_payload_ IpV4 ittl ip_package_header_length olen quirks.

Definition ipv6_quirks (p : bytes) : list quirk :=
  (if negb (v6_flow_label p =? 0) then [QFlowID] else [])
  ++ (if negb (N.land (v6_traffic_class p) IP_TOS_CE_ECT =? 0) then [QEcn] else []).

Definition process_tcp_ipv6 (p : bytes) : res tcp_package :=
  if negb (v6_next_header p =? PROTO_TCP) then Err
  else
    let ittl := calculate_ttl (v6_hop_limit p) in
    let olen := calculate_ipv6_length p in
    let quirks := ipv6_quirks p in
    let ip_package_header_length := 40 in
    if blen (v6_payload p) <? tcp_min then Err
    else visit_tcp (v6_payload p) IpV6 ittl ip_package_header_length olen quirks.

(* ---------------- signature_matcher.rs: matching_by_mtu ---------------- *)
Fixpoint matching_by_mtu (db : list (bytes * list N)) (mtu : N) : option bytes :=
  match db with
  | [] => None
  | (link, db_mtus) :: r => if existsb (N.eqb mtu) db_mtus then Some link else matching_by_mtu r mtu
  end.

(* ---------------- process.rs: what TcpAnalysisResult shows of syn / syn_ack / mtu ---------------- *)
Record tcp_out := { o_syn : option tcp_sig; o_synack : option tcp_sig; o_mtu : option N; o_link : option bytes }.
Definition out_none : tcp_out := {| o_syn := None; o_synack := None; o_mtu := None; o_link := None |}.

Definition observable_package (db : list (bytes * list N)) (r : res tcp_package) : res tcp_out :=
  match r with
  | Err => Err
  | Ok pkg => Ok {| o_syn := tcp_request pkg; o_synack := tcp_response pkg; o_mtu := pkg_mtu pkg;
                    o_link := match pkg_mtu pkg with Some m => matching_by_mtu db m | None => None end |}
  end.
(* create_observable_package_ipv4 first builds a TcpPacket over the payload (Err when < 20 bytes) *)
Definition process_ipv4_packet (db : list (bytes * list N)) (p : bytes) : res tcp_out :=
  if blen (v4_payload p) <? tcp_min then Err else observable_package db (process_tcp_ipv4 p).
Definition process_ipv6_packet (db : list (bytes * list N)) (p : bytes) : res tcp_out :=
  if blen (v6_payload p) <? tcp_min then Err else observable_package db (process_tcp_ipv6 p).
(* lib.rs process_packet, no filter configured *)
Definition process_frame (db : list (bytes * list N)) (f : bytes) : res tcp_out :=
  match parse_packet f with
  | Ipv4 p => process_ipv4_packet db p
  | Ipv6 p => process_ipv6_packet db p
  | NoIp => Ok out_none end.

(* ---------------- huginn-net-db/src/display.rs ---------------- *)
Definition show_version (v : ip_version) : bytes := match v with IpV4 => bs "4" | IpV6 => bs "6" | IpAny => bs "*" end.
Definition show_ttl (t : ttl) : bytes :=
  match t with
  | TtlValue t => show_N t
  | TtlDistance t d => show_N t ++ bs "+" ++ show_N d
  | TtlGuess t => show_N t ++ bs "+?"
  | TtlBad t => show_N t ++ bs "-" end.
Definition show_wsize (w : window_size) : bytes :=
  match w with
  | WMss n => bs "mss*" ++ show_N n
  | WMtu n => bs "mtu*" ++ show_N n
  | WValue n => show_N n
  | WMod n => bs "%" ++ show_N n
  | WAny => bs "*" end.
Definition show_option (o : tcp_option) : bytes :=
  match o with
  | OEol n => bs "eol+" ++ show_N n
  | ONop => bs "nop" | OMss => bs "mss" | OWs => bs "ws" | OSok => bs "sok" | OSack => bs "sack" | OTS => bs "ts"
  | OUnknown n => bs "?" ++ show_N n end.
Definition show_quirk (q : quirk) : bytes :=
  match q with
  | QDf => bs "df" | QNonZeroID => bs "id+" | QZeroID => bs "id-" | QEcn => bs "ecn" | QMustBeZero => bs "0+"
  | QFlowID => bs "flow" | QSeqNumZero => bs "seq-" | QAckNumNonZero => bs "ack+" | QAckNumZero => bs "ack-"
  | QNonZeroURG => bs "uptr+" | QUrg => bs "urgf+" | QPush => bs "pushf+" | QOwnTimestampZero => bs "ts1-"
  | QPeerTimestampNonZero => bs "ts2+" | QTrailinigNonZero => bs "opt+" | QExcessiveWindowScaling => bs "exws"
  | QOptBad => bs "bad" end.
Definition show_pclass (p : payload_size) : bytes := match p with PZero => bs "0" | PNonZero => bs "+" | PAnySize => bs "*" end.
Definition show_opt_N (o : option N) : bytes := match o with Some n => show_N n | None => bs "*" end.
(* format_tcp_display *)
Definition show_sig (s : tcp_sig) : bytes :=
  show_version (t_version s) ++ bs ":" ++ show_ttl (t_ittl s) ++ bs ":" ++ show_N (t_olen s) ++ bs ":"
  ++ show_opt_N (t_mss s) ++ bs ":" ++ show_wsize (t_wsize s) ++ bs "," ++ show_opt_N (t_wscale s) ++ bs ":"
  ++ join (bs ",") (map show_option (t_olayout s)) ++ bs ":"
  ++ join (bs ",") (map show_quirk (t_quirks s)) ++ bs ":" ++ show_pclass (t_pclass s).

(* ---------------- canonical result line (what the harness prints for IMPL) ---------------- *)
Definition dash : bytes := bs "-".
Definition show_out (r : res tcp_out) : bytes :=
  match r with
  | Err => bs "ERR"
  | Ok o =>
      bs "syn=" ++ match o_syn o with Some s => show_sig s | None => dash end
      ++ bs " synack=" ++ match o_synack o with Some s => show_sig s | None => dash end
      ++ bs " mtu=" ++ match o_mtu o with Some m => show_N m | None => dash end
      ++ bs " link=" ++ match o_link o with Some l => show_hex l | None => dash end
  end.
