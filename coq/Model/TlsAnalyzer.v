(* MODEL of the sequential TLS analyzer at PACKET level, assembled from models that already exist:
     huginn-net-tls/src/lib.rs        HuginnNetTls::process_packet without filter
                                      (packet_parser::parse_packet, then process_ipv4_packet / process_ipv6_packet)
     huginn-net-tls/src/process.rs    process_ipv4_packet / process_ipv6_packet: next protocol must be TCP
                                      (else Err), TcpPacket::new(ip.payload()) (None -> Ok(None)), FlowKey =
                                      (src_ip, dst_ip, src_port, dst_port) -- DIRECTED --, process_tcp_packet
   Pieces:  Model/Pnet.v (packet_parser.rs framing, pnet 0.35 views incl. TcpPacket::payload),
            Model/TlsReader.v (flow_step = process_tcp_packet over the TtlCache model; add_bytes),
            Model/TlsHello.v + Model/Ja4.v (parse, signature, JA4 strings, result line).
   The flow table is TlsReader.flows: insertion-ordered association list, insert evicts the oldest
   entry when len > capacity; wall-clock TTL expiry (20 s) is outside the model.  Definitions only. *)
From Coq Require Import List NArith Bool.
From Coq Require Import Strings.Byte.
From HN Require Import Base.Bytes Model.Pnet Model.TlsHello Model.Ja4 Model.TlsReader.
Import ListNotations.
Open Scope N_scope.

(* ---- FlowKey as a number: (IpAddr, IpAddr, u16, u16) with the IpAddr variant (V4 / V6) ---- *)
Definition P128 : N := 340282366920938463463374607431768211456.   (* 2^128 *)
Definition P32 : N := 4294967296.
(* Ipv4Packet::get_source / get_destination: bytes 12..16 / 16..20 *)
Definition v4_addr (p : bytes) (off : N) : N := be32_at p off.
(* Ipv6Packet::get_source / get_destination: bytes 8..24 / 24..40 *)
Definition v6_addr (p : bytes) (off : N) : N :=
  ((be32_at p off * P32 + be32_at p (off + 4)) * P32 + be32_at p (off + 8)) * P32 + be32_at p (off + 12).
(* ver = 4 | 6 (the enum variant of both addresses; they always agree), addresses < 2^128, ports < 2^16.
   Injective on that domain (Proofs/KeyedInstances.v tls_flow_key_injective); never 0. *)
Definition tls_flow_key (ver src dst sport dport : N) : N :=
  (((ver * P128 + src) * P128 + dst) * 65536 + sport) * 65536 + dport.

(* what process_ipv{4,6}_packet hands to process_tcp_packet; the address bytes are kept for printing *)
Record tls_seg := { g_key : N; g_src : bytes; g_dst : bytes; g_sport : N; g_dport : N; g_payload : bytes }.
(* Err(UnsupportedProtocol) | Ok(None) before any access to the table | process_tcp_packet is called *)
Inductive tls_class := CErr | CNoTcp | CSeg (g : tls_seg).

(* TcpPacket::get_source / get_destination: bytes 0..2 / 2..4 of the TCP view *)
Definition classify4 (p : bytes) : tls_class :=
  if negb (v4_protocol p =? 6) then CErr
  else let t := v4_payload p in
       if blen t <? tcp_min then CNoTcp
       else CSeg {| g_key := tls_flow_key 4 (v4_addr p 12) (v4_addr p 16) (be16_at t 0) (be16_at t 2);
                    g_src := slice p 12 16; g_dst := slice p 16 20;
                    g_sport := be16_at t 0; g_dport := be16_at t 2; g_payload := tcp_payload t |}.
Definition classify6 (p : bytes) : tls_class :=
  if negb (v6_next_header p =? 6) then CErr
  else let t := v6_payload p in
       if blen t <? tcp_min then CNoTcp
       else CSeg {| g_key := tls_flow_key 6 (v6_addr p 8) (v6_addr p 24) (be16_at t 0) (be16_at t 2);
                    g_src := slice p 8 24; g_dst := slice p 24 40;
                    g_sport := be16_at t 0; g_dport := be16_at t 2; g_payload := tcp_payload t |}.
(* lib.rs process_packet: IpPacket::None -> Ok(None) *)
Definition tls_frame_class (f : bytes) : tls_class :=
  match parse_packet f with Ipv4 p => classify4 p | Ipv6 p => classify6 p | NoIp => CNoTcp end.

(* Result<Option<TlsClientOutput>, _> of one packet *)
Inductive tls_out := TOErr | TONone | TOSig (src dst : bytes) (sport dport : N) (s : signature).
Definition tls_out_of (g : tls_seg) (r : tls_result) : tls_out :=
  match r with
  | RSig s => TOSig (g_src g) (g_dst g) (g_sport g) (g_dport g) s
  | RNone => TONone
  | RErr => TOErr
  end.

Definition tls_state := flows.

(* one packet through the analyzer with a flow table of capacity cap *)
Definition tls_packet_step (cap : N) (fl : tls_state) (f : bytes) : tls_state * tls_out :=
  match tls_frame_class f with
  | CErr => (fl, TOErr)
  | CNoTcp => (fl, TONone)
  | CSeg g => let '(fl', r) := flow_step cap fl (g_key g) (g_payload g) in (fl', tls_out_of g r)
  end.
(* the same with results as a list (an analyzer reports zero or more results per packet; this one
   exactly one verdict) *)
Definition tls_packet_results (cap : N) (fl : tls_state) (f : bytes) : tls_state * list tls_out :=
  let '(fl', o) := tls_packet_step cap fl f in (fl', [o]).

Fixpoint tls_run (cap : N) (fl : tls_state) (tr : list bytes) : tls_state * list tls_out :=
  match tr with
  | [] => (fl, [])
  | f :: r => let '(fl1, o) := tls_packet_step cap fl f in
              let '(fl2, os) := tls_run cap fl1 r in (fl2, o :: os)
  end.

(* the flow a frame belongs to; frames that never reach the table get the key 0 (no flow has it) *)
Definition tls_key (f : bytes) : N :=
  match tls_frame_class f with CSeg g => g_key g | _ => 0 end.
(* results tagged with the flow of the packet that produced them *)
Definition tls_results (cap : N) (fl : tls_state) (tr : list bytes) : list (N * tls_out) :=
  combine (map tls_key tr) (snd (tls_run cap fl tr)).

(* "within capacity": a packet of a flow that is not tracked arrives only while the table has a free
   slot, so TtlCache::insert never evicts (decidable; Prop form in Proofs/KeyedInstances.v) *)
Definition tls_fits (cap : N) (fl : tls_state) (f : bytes) : bool :=
  match tls_frame_class f with
  | CSeg g => match flow_get fl (g_key g) with Some _ => true | None => lenN fl <? cap end
  | _ => true
  end.
Fixpoint tls_within_capacityb (cap : N) (fl : tls_state) (tr : list bytes) : bool :=
  match tr with
  | [] => true
  | f :: r => tls_fits cap fl f && tls_within_capacityb cap (fst (tls_packet_step cap fl f)) r
  end.

(* ---- canonical result token (what harness/c07 prints for the real analyzer) ----
   ERR | - | <src hex>:<sport>><dst hex>:<dport>|<EC08 packet-level line with '|' for ' '> *)
Definition bar_spaces (l : bytes) : bytes := map (fun b => if beqb b sp then "|"%byte else b) l.
Definition tls_out_line (o : tls_out) : bytes :=
  match o with
  | TOErr => bs "ERR"
  | TONone => bs "-"
  | TOSig src dst sport dport s =>
      show_hex src ++ bs ":" ++ show_N sport ++ bs ">" ++ show_hex dst ++ bs ":" ++ show_N dport
      ++ bs "|" ++ bar_spaces (client_line_esc s)
  end.
