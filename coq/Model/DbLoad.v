(* Executable model of  impl FromStr for Database  (huginn-net-db/src/db_parse.rs): str::lines(),
   str::trim(), the line dispatch (comment / classes / ua_os / [module] / name = value / error),
   parse_named_value, parse_classes, parse_module, parse_ua_os + parse_key_value, and the four
   label/signature tables.  Modelled as it is, including: a `classes` / `ua_os` / `[module]` line must be
   consumed completely (whole_line), ua_os rules are `name` or `name=[value]` over p0f's name characters,
   a module header must name one of the five modules (is_known_module), a name the current module does not
   have is an error, `sig` needs a `label`.
   Definitions only. *)
From Coq Require Import List NArith Bool.
From Coq Require Import Strings.Byte.
From HN Require Import Base.Bytes Model.SigAst Model.SigText.
Import ListNotations.
Open Scope N_scope.

(* ---------- std: str::lines ---------- *)
(* split_inclusive('\n'); each piece loses its "\n" and then one "\r" before it; a final piece without
   "\n" is kept as it is; no empty piece after a final "\n".  `cur` is the current piece reversed. *)
Definition strip_cr (cur : bytes) : bytes := match cur with x0d :: c => c | _ => cur end.
Fixpoint lines_aux (l cur : bytes) : list bytes :=
  match l with
  | [] => match cur with [] => [] | _ => [revl cur] end
  | b :: r => if beqb b x0a
              then revl (strip_cr cur) :: lines_aux r []
              else lines_aux r (b :: cur)
  end.
Definition lines (text : bytes) : list bytes := lines_aux text [].

(* ---------- std: str::trim (Unicode White_Space, on UTF-8 bytes) ---------- *)
Definition ascii_ws (n : N) : bool := ((9 <=? n) && (n <=? 13)) || (n =? 32).
(* input after one leading white-space character:
   U+0009..000D, U+0020 | U+0085, U+00A0 (C2 85, C2 A0) | U+1680 (E1 9A 80) |
   U+2000..200A, U+2028, U+2029, U+202F (E2 80 80..8A/A8/A9/AF) | U+205F (E2 81 9F) | U+3000 (E3 80 80) *)
Definition ws_head (l : bytes) : option bytes :=
  match l with
  | a :: r =>
      if ascii_ws (b2n a) then Some r else
      match r with
      | b :: r2 =>
          if (b2n a =? 194) && ((b2n b =? 133) || (b2n b =? 160)) then Some r2 else
          match r2 with
          | c :: r3 =>
              if (b2n a =? 225) && (b2n b =? 154) && (b2n c =? 128) then Some r3
              else if (b2n a =? 226) && (b2n b =? 128) &&
                      (((128 <=? b2n c) && (b2n c <=? 138)) || (b2n c =? 168) || (b2n c =? 169) || (b2n c =? 175))
                   then Some r3
              else if (b2n a =? 226) && (b2n b =? 129) && (b2n c =? 159) then Some r3
              else if (b2n a =? 227) && (b2n b =? 128) && (b2n c =? 128) then Some r3
              else None
          | [] => None end
      | [] => None end
  | [] => None end.
(* the same on the reversed string (last character first) *)
Definition ws_last (l : bytes) : option bytes :=
  match l with
  | c :: r =>
      if ascii_ws (b2n c) then Some r else
      match r with
      | b :: r2 =>
          if (b2n b =? 194) && ((b2n c =? 133) || (b2n c =? 160)) then Some r2 else
          match r2 with
          | a :: r3 =>
              if (b2n a =? 225) && (b2n b =? 154) && (b2n c =? 128) then Some r3
              else if (b2n a =? 226) && (b2n b =? 128) &&
                      (((128 <=? b2n c) && (b2n c <=? 138)) || (b2n c =? 168) || (b2n c =? 169) || (b2n c =? 175))
                   then Some r3
              else if (b2n a =? 226) && (b2n b =? 129) && (b2n c =? 159) then Some r3
              else if (b2n a =? 227) && (b2n b =? 128) && (b2n c =? 128) then Some r3
              else None
          | [] => None end
      | [] => None end
  | [] => None end.
Fixpoint strip_while (fuel : nat) (hd : bytes -> option bytes) (l : bytes) : bytes :=
  match fuel with
  | O => l
  | S f => match hd l with Some r => strip_while f hd r | None => l end
  end.
Definition trim_start (l : bytes) : bytes := strip_while (length l) ws_head l.
Definition trim_end (l : bytes) : bytes := revl (strip_while (length l) ws_last (revl l)).
Definition trim (l : bytes) : bytes := trim_end (trim_start l).

(* ---------- std: <u16 as FromStr> on an arbitrary string (mtu `sig` values) ---------- *)
(* optional single leading '+', then at least one digit, only digits, value <= 65535 *)
Definition u16_from_str (s : bytes) : option N :=
  let d := match s with b :: r => if beqb b "+"%byte then r else s | [] => s end in
  match d with
  | [] => None
  | _ => if all_digits d then dec_max U16 d else None
  end.

(* ---------- line-level parsers ---------- *)
(* parse_named_value: (alphanumeric1, space0, tag("="), space0, rest) *)
Definition parse_named_value (i : bytes) : option (bytes * bytes) :=
  match alphanumeric1 i with
  | Some (name, r) => match strip_prefix (bs "=") (space0 r) with
                      | Some r' => Some (name, space0 r')
                      | None => None end
  | None => None end.

(* separated_list0(tag(","), alphanumeric1) *)
Definition parse_classes (i : bytes) : option (list bytes * bytes) :=
  match strip_prefix (bs "classes") i with
  | Some r => match strip_prefix (bs "=") (space0 r) with
              | Some r' => separated_list0 comma alphanumeric1 (space0 r')
              | None => None end
  | None => None end.

(* parse_module: "[" alpha1 opt(":" alpha1) "]" *)
Definition parse_module (i : bytes) : option ((bytes * option bytes) * bytes) :=
  match strip_prefix (bs "[") i with
  | Some r => match alpha1 r with
              | Some (m, r1) =>
                  let d := match strip_prefix colon r1 with
                           | Some r2 => match alpha1 r2 with Some (x, r3) => (Some x, r3) | None => (None, r1) end
                           | None => (None, r1) end in
                  match strip_prefix (bs "]") (snd d) with
                  | Some r4 => Some ((m, fst d), r4)
                  | None => None end
              | None => None end
  | None => None end.

(* is_name_char: c.is_ascii_alphanumeric() || " ./-_!?()".contains(c) *)
Definition is_name_char (b : byte) : bool := is_alnum b || existsb (beqb b) (bs " ./-_!?()").
(* parse_key_value: pair(take_while1(is_name_char), opt(delimited(tag("=["), take_while1(is_name_char), tag("]")))) *)
Definition parse_key_value : parser (bytes * option bytes) :=
  fun i => match span1 is_name_char i with
           | Some (name, r) =>
               match strip_prefix (bs "=[") r with
               | Some r1 => match span1 is_name_char r1 with
                            | Some (v, r2) => match strip_prefix (bs "]") r2 with
                                              | Some r3 => Some ((name, Some v), r3)
                                              | None => Some ((name, None), r) end
                            | None => Some ((name, None), r) end
               | None => Some ((name, None), r) end
           | None => None end.

Definition parse_ua_os (i : bytes) : option (list (bytes * option bytes) * bytes) :=
  match strip_prefix (bs "ua_os") i with
  | Some r => match strip_prefix (bs "=") (space0 r) with
              | Some r' => separated_list0 comma parse_key_value (space0 r')
              | None => None end
  | None => None end.

(* ---------- the loader ---------- *)
Record lstate := {
  s_classes : list bytes;
  s_mtu : list (bytes * list N);
  s_ua : list (bytes * option bytes);
  s_treq : list (label * list tcp_sig);
  s_tresp : list (label * list tcp_sig);
  s_hreq : list (label * list http_sig);
  s_hresp : list (label * list http_sig);
  s_mod : option (bytes * option bytes) }.

Definition st0 : lstate :=
  {| s_classes := []; s_mtu := []; s_ua := []; s_treq := []; s_tresp := []; s_hreq := []; s_hresp := [];
     s_mod := None |}.

(* `if let Some((_, values)) = v.last_mut() { values.push(x) } else { error }` *)
Fixpoint push_last {L S} (es : list (L * list S)) (x : S) : option (list (L * list S)) :=
  match es with
  | [] => None
  | [(l, ss)] => Some [(l, ss ++ [x])]
  | e :: r => match push_last r x with Some r' => Some (e :: r') | None => None end
  end.

Inductive table := TblTcpReq | TblTcpResp | TblHttpReq | TblHttpResp | TblNone.
(* match (module.as_str(), direction.as_deref()) *)
Definition table_of (m : bytes) (d : option bytes) : table :=
  match d with
  | Some dir =>
      if bytes_eqb m (bs "tcp") then
        (if bytes_eqb dir (bs "request") then TblTcpReq else if bytes_eqb dir (bs "response") then TblTcpResp else TblNone)
      else if bytes_eqb m (bs "http") then
        (if bytes_eqb dir (bs "request") then TblHttpReq else if bytes_eqb dir (bs "response") then TblHttpResp else TblNone)
      else TblNone
  | None => TblNone end.

Definition set_classes s v := {| s_classes := v; s_mtu := s_mtu s; s_ua := s_ua s; s_treq := s_treq s; s_tresp := s_tresp s; s_hreq := s_hreq s; s_hresp := s_hresp s; s_mod := s_mod s |}.
Definition set_mtu s v := {| s_classes := s_classes s; s_mtu := v; s_ua := s_ua s; s_treq := s_treq s; s_tresp := s_tresp s; s_hreq := s_hreq s; s_hresp := s_hresp s; s_mod := s_mod s |}.
Definition set_ua s v := {| s_classes := s_classes s; s_mtu := s_mtu s; s_ua := v; s_treq := s_treq s; s_tresp := s_tresp s; s_hreq := s_hreq s; s_hresp := s_hresp s; s_mod := s_mod s |}.
Definition set_treq s v := {| s_classes := s_classes s; s_mtu := s_mtu s; s_ua := s_ua s; s_treq := v; s_tresp := s_tresp s; s_hreq := s_hreq s; s_hresp := s_hresp s; s_mod := s_mod s |}.
Definition set_tresp s v := {| s_classes := s_classes s; s_mtu := s_mtu s; s_ua := s_ua s; s_treq := s_treq s; s_tresp := v; s_hreq := s_hreq s; s_hresp := s_hresp s; s_mod := s_mod s |}.
Definition set_hreq s v := {| s_classes := s_classes s; s_mtu := s_mtu s; s_ua := s_ua s; s_treq := s_treq s; s_tresp := s_tresp s; s_hreq := v; s_hresp := s_hresp s; s_mod := s_mod s |}.
Definition set_hresp s v := {| s_classes := s_classes s; s_mtu := s_mtu s; s_ua := s_ua s; s_treq := s_treq s; s_tresp := s_tresp s; s_hreq := s_hreq s; s_hresp := v; s_mod := s_mod s |}.
Definition set_mod s v := {| s_classes := s_classes s; s_mtu := s_mtu s; s_ua := s_ua s; s_treq := s_treq s; s_tresp := s_tresp s; s_hreq := s_hreq s; s_hresp := s_hresp s; s_mod := v |}.

(* is_known_module: ("mtu", None) | ("tcp" | "http", Some("request" | "response")) *)
Definition is_known_module (md : bytes * option bytes) : bool :=
  match snd md with
  | None => bytes_eqb (fst md) (bs "mtu")
  | Some d => (bytes_eqb (fst md) (bs "tcp") || bytes_eqb (fst md) (bs "http")) &&
              (bytes_eqb d (bs "request") || bytes_eqb d (bs "response"))
  end.

Definition ends_with_b (c : byte) (l : bytes) : bool :=
  match revl l with b :: _ => beqb b c | [] => false end.

(* a `name = value` line inside module (m, d) *)
Definition step_named (s : lstate) (m : bytes) (d : option bytes) (name value : bytes) : option lstate :=
  let is_mtu := bytes_eqb m (bs "mtu") in
  if bytes_eqb name (bs "label") && is_mtu then
    Some (set_mtu s (s_mtu s ++ [(value, [])]))
  else if bytes_eqb name (bs "sig") && is_mtu then
    match u16_from_str value with
    | Some v => match push_last (s_mtu s) v with Some t => Some (set_mtu s t) | None => None end
    | None => None                      (* bad value, or (checked first in Rust) no label yet: both Err *)
    end
  else if bytes_eqb name (bs "label") then
    match parse_label value with
    | None => None
    | Some (lbl, _) =>
        match table_of m d with
        | TblTcpReq => Some (set_treq s (s_treq s ++ [(lbl, [])]))
        | TblTcpResp => Some (set_tresp s (s_tresp s ++ [(lbl, [])]))
        | TblHttpReq => Some (set_hreq s (s_hreq s ++ [(lbl, [])]))
        | TblHttpResp => Some (set_hresp s (s_hresp s ++ [(lbl, [])]))
        | TblNone => None                                           (* `label` in unknown module (unreachable) *)
        end
    end
  else if bytes_eqb name (bs "sig") then
    match table_of m d with
    | TblTcpReq =>
        match s_treq s with [] => None | _ =>
        match tcp_sig_from_str value with
        | Some sg => match push_last (s_treq s) sg with Some t => Some (set_treq s t) | None => None end
        | None => None end end
    | TblTcpResp =>
        match s_tresp s with [] => None | _ =>
        match tcp_sig_from_str value with
        | Some sg => match push_last (s_tresp s) sg with Some t => Some (set_tresp s t) | None => None end
        | None => None end end
    | TblHttpReq =>
        match s_hreq s with [] => None | _ =>
        match http_sig_from_str value with
        | Some sg => match push_last (s_hreq s) sg with Some t => Some (set_hreq s t) | None => None end
        | None => None end end
    | TblHttpResp =>
        match s_hresp s with [] => None | _ =>
        match http_sig_from_str value with
        | Some sg => match push_last (s_hresp s) sg with Some t => Some (set_hresp s t) | None => None end
        | None => None end end
    | TblNone => None                                               (* `sig` in unknown module (unreachable) *)
    end
  else if bytes_eqb name (bs "sys") && negb is_mtu then Some s      (* "sys" outside mtu: ignored *)
  else None.                                                        (* unknown named value *)

(* one iteration of `for line in s.lines()`; None = the loader returns Err *)
Definition step (s : lstate) (raw : bytes) : option lstate :=
  let line := trim raw in
  match line with
  | [] => Some s
  | c :: _ =>
    if beqb c ";"%byte then Some s
    else if starts_with (bs "classes") line then
      match parse_classes line with Some (cs, []) => Some (set_classes s (s_classes s ++ cs)) | _ => None end
    else if starts_with (bs "ua_os") line then
      match parse_ua_os line with Some (us, []) => Some (set_ua s (s_ua s ++ us)) | _ => None end
    else if beqb c "["%byte && ends_with_b "]"%byte line then
      match parse_module line with
      | Some (md, []) => if is_known_module md then Some (set_mod s (Some md)) else None
      | _ => None end
    else
      match s_mod s with
      | Some (m, d) =>
          match parse_named_value line with
          | Some (name, value) => step_named s m d name value
          | None => None end
      | None => None                                               (* unexpected line outside the module *)
      end
  end.

Fixpoint run_lines (s : lstate) (ls : list bytes) : option lstate :=
  match ls with
  | [] => Some s
  | l :: r => match step s l with Some s' => run_lines s' r | None => None end
  end.

Definition finish (s : lstate) : database :=
  {| db_classes := s_classes s; db_mtu := s_mtu s; db_ua_os := s_ua s;
     db_tcp_request := s_treq s; db_tcp_response := s_tresp s;
     db_http_request := s_hreq s; db_http_response := s_hresp s |}.

(* Database::from_str on the lines of the text *)
Definition load_lines (ls : list bytes) : option database :=
  match run_lines st0 ls with Some s => Some (finish s) | None => None end.
Definition load (text : bytes) : option database := load_lines (lines text).
