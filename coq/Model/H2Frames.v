(* MODEL of the HTTP/2 frame splitter of huginn-net-http/src/http2_parser.rs:
   `parse_frames`, `parse_single_frame`, `parse_frames_with_offset`, `parse_frames_skip_preface`,
   `Http2Frame::total_size`, `HTTP2_CONNECTION_PREFACE`.  Shared by C16 and C17.  Definitions only.

   A parsed `Http2Frame` always has `length = payload.len()`, so the model frame carries the payload
   only.  `usize::try_from(9u32.saturating_add(length))` cannot fail (length < 2^24, 64-bit usize). *)
From Coq Require Import List NArith Bool.
From Coq Require Import Strings.Byte.
From HN Require Import Base.Bytes Model.H2Text.
Import ListNotations.
Open Scope N_scope.

Record frame := { f_type : N; f_flags : N; f_stream : N; f_payload : bytes }.

Definition CR : byte := x0d.
Definition LF : byte := x0a.
(* b"PRI * HTTP/2.0\r\n\r\nSM\r\n\r\n" *)
Definition preface : bytes :=
  bs "PRI * HTTP/2.0" ++ [CR; LF; CR; LF] ++ bs "SM" ++ [CR; LF; CR; LF].

(* Http2Config::default().max_frame_size *)
Definition max_frame_size : N := 16384.


(* one iteration of the `while remaining.len() >= 9` loop of parse_frames, including the call of
   parse_single_frame: None = the loop stops (fewer than 9 bytes, incomplete frame, or
   FrameTooLarge) *)
Definition parse_one (data : bytes) : option (frame * bytes) :=
  match data with
  | l0 :: l1 :: l2 :: ty :: fl :: s0 :: s1 :: s2 :: s3 :: rest =>
      let len := be_N [l0; l1; l2] in
      if blen rest <? len then None                      (* remaining.len() < frame_total_size *)
      else if max_frame_size <? len then None            (* FrameTooLarge -> Err -> break *)
      else Some ({| f_type := b2n ty; f_flags := b2n fl;
                    f_stream := be_N [s0; s1; s2; s3] mod 2 ^ 31;      (* & 0x7FFF_FFFF *)
                    f_payload := firstn (N.to_nat len) rest |},
                 skipn (N.to_nat len) rest)
  | _ => None
  end.

(* fuel = number of input bytes: every iteration consumes at least 9 *)
Fixpoint parse_frames_fuel (fuel : nat) (data : bytes) : list frame :=
  match fuel with
  | O => []
  | S f => match parse_one data with
           | Some (fr, rest) => fr :: parse_frames_fuel f rest
           | None => []
           end
  end.
Definition parse_frames (data : bytes) : list frame := parse_frames_fuel (length data) data.

(* Http2Frame::total_size *)
Definition total_size (f : frame) : N := 9 + blen (f_payload f).
(* parse_frames_with_offset: frames and the sum of their total sizes *)
Definition parse_frames_with_offset (data : bytes) : list frame * N :=
  let fs := parse_frames data in (fs, fold_left (fun acc f => acc + total_size f) fs 0).

(* parse_frames_skip_preface *)
Definition skip_preface (data : bytes) : bytes :=
  match strip_prefix preface data with Some r => r | None => data end.
Definition parse_frames_skip_preface (data : bytes) : list frame := parse_frames (skip_preface data).

(* frame type numbers (Http2FrameType) *)
Definition T_DATA : N := 0.
Definition T_HEADERS : N := 1.
Definition T_PRIORITY : N := 2.
Definition T_SETTINGS : N := 4.
Definition T_WINDOW_UPDATE : N := 8.
Definition T_CONTINUATION : N := 9.

Definition FLAG_END_HEADERS : N := 4.
Definition FLAG_PADDED : N := 8.
Definition FLAG_PRIORITY : N := 32.
Definition has_flag (fl bit : N) : bool := negb (N.land fl bit =? 0).
