(* A concrete HTTP/1.x instance of the two parser parameters of Model/HttpFlow.v, adequate for the
   traffic the C09/C11 harnesses generate: payload bytes in 1..127 (ASCII without NUL), streams that
   never start with the HTTP/2 connection preface.  On that domain it transcribes

     http_process.rs   HttpProcessors::parse_request / parse_response (can_parse gate, first parser wins)
     http1_process.rs  Http1Processor::can_process_request / can_process_response
     http1_parser.rs   Http1Parser::parse_request / parse_response / parse_request_line /
                       parse_status_line / parse_headers, head_of
     http2_process.rs  can_process_request / can_process_response / looks_like_http2_response
                       (only to decide that the HTTP/2 adapter declines; if it would accept, the
                       result here is None and the input is outside the validated domain)

   and renders what the analyzer reports (method, uri, version, header names and values in order;
   version, status, headers for a response) as one ASCII token, which the Rust harness prints from
   ObservableHttpRequest / ObservableHttpResponse.  The full HTTP/1 parser model (cookies, language,
   observation signature ...) is C05's; this file only needs "is it a head, and which".
   std behaviours used (ASCII only): str::lines (split_inclusive('\n'), strip "\n" then one "\r"),
   split_whitespace / trim (White_Space = 9..13, 32 in ASCII), split("\r\n"), split('\n'),
   splitn(3,' '), find(':'), u16::from_str (optional '+', digits, <= 65535), to_lowercase.
   Definitions only. *)
From Coq Require Import List NArith Bool.
From Coq Require Import Strings.Byte.
From HN Require Import Base.Bytes Base.Cache.
Import ListNotations.
Open Scope N_scope.

Definition CR : byte := x0d.
Definition LF : byte := x0a.
Definition crlf : bytes := [CR; LF].
Definition crlfcrlf : bytes := [CR; LF; CR; LF].
Definition lflf : bytes := [LF; LF].

Fixpoint find_seq_from (pat d : bytes) (pos : N) : option N :=
  match d with
  | [] => if starts_with pat [] then Some pos else None
  | _ :: r => if starts_with pat d then Some pos else find_seq_from pat r (pos + 1)
  end.
Definition find_seq (pat d : bytes) : option N := find_seq_from pat d 0.
Definition contains_seq (pat d : bytes) : bool :=
  match find_seq pat d with Some _ => true | None => false end.

(* http1_parser.rs head_of: the head ends at min(first CRLFCRLF + 4, first LFLF + 2).  One left-to-
   right scan finds it: at the first position where either pattern starts, that pattern's end is the
   minimum (an LFLF cannot start inside a CRLFCRLF and end before it).  Returns the head bytes
   including the terminator, None when there is no terminator (head_of then returns all of data and
   the parser answers Ok(None)). *)
Fixpoint head_scan (d acc : bytes) : option bytes :=
  match d with
  | [] => None
  | b :: r => if starts_with crlfcrlf d then Some (frev acc ++ crlfcrlf)
              else if starts_with lflf d then Some (frev acc ++ lflf)
              else head_scan r (b :: acc)
  end.

(* str::split("\r\n") *)
Fixpoint split_crlf_aux (l cur : bytes) : list bytes :=
  match l with
  | [] => [frev cur]
  | a :: t =>
      match t with
      | b :: r => if beqb a CR && beqb b LF then frev cur :: split_crlf_aux r []
                  else split_crlf_aux t (a :: cur)
      | [] => [frev (a :: cur)]
      end
  end.
Definition split_crlf (l : bytes) : list bytes := split_crlf_aux l [].

(* str::lines().next().unwrap_or("") *)
Fixpoint take_line (d cur : bytes) : bytes * bool :=   (* bytes before the first LF, and whether an LF was met *)
  match d with
  | [] => (frev cur, false)
  | b :: r => if beqb b LF then (frev cur, true) else take_line r (b :: cur)
  end.
Definition strip_one_cr (l : bytes) : bytes :=
  match frev l with
  | b :: r => if beqb b CR then frev r else l
  | [] => l
  end.
Definition first_line (d : bytes) : bytes :=
  let '(l, nl) := take_line d [] in if nl then strip_one_cr l else l.

Definition is_ws (b : byte) : bool := let n := b2n b in ((9 <=? n) && (n <=? 13)) || (n =? 32).

Fixpoint split_ws_aux (l cur : bytes) : list bytes :=
  match l with
  | [] => match cur with [] => [] | _ => [frev cur] end
  | b :: r => if is_ws b then match cur with [] => split_ws_aux r [] | _ => frev cur :: split_ws_aux r [] end
              else split_ws_aux r (b :: cur)
  end.
Definition split_ws (l : bytes) : list bytes := split_ws_aux l [].

Fixpoint trim_start (l : bytes) : bytes :=
  match l with b :: r => if is_ws b then trim_start r else l | [] => [] end.
Definition trim (l : bytes) : bytes := frev (trim_start (frev (trim_start l))).

(* str::splitn(3, ' ') *)
Fixpoint take_to_sp (l cur : bytes) : bytes * option bytes :=
  match l with
  | [] => (frev cur, None)
  | b :: r => if beqb b sp then (frev cur, Some r) else take_to_sp r (b :: cur)
  end.
Definition splitn3_sp (l : bytes) : list bytes :=
  match take_to_sp l [] with
  | (a, None) => [a]
  | (a, Some r) => match take_to_sp r [] with
                   | (b, None) => [a; b]
                   | (b, Some r2) => [a; b; r2]
                   end
  end.

Fixpoint find_colon (l cur : bytes) : option (bytes * bytes) :=
  match l with
  | [] => None
  | b :: r => if beqb b ":"%byte then Some (frev cur, r) else find_colon r (b :: cur)
  end.

Definition lower_byte (b : byte) : byte :=
  let n := b2n b in if (65 <=? n) && (n <=? 90) then n2b (n + 32) else b.
Definition lower (l : bytes) : bytes := map lower_byte l.

Definition mem_bytes (x : bytes) (l : list bytes) : bool := existsb (bytes_eqb x) l.

(* the methods of Http1Processor::can_process_request (18 since fix 4eff695, which added MKCALENDAR
   and REPORT) and of Http1Parser::is_valid_method (the same 18) *)
Definition gate_methods : list bytes :=
  [bs "GET"; bs "POST"; bs "PUT"; bs "DELETE"; bs "HEAD"; bs "OPTIONS"; bs "PATCH"; bs "TRACE";
   bs "CONNECT"; bs "PROPFIND"; bs "PROPPATCH"; bs "MKCOL"; bs "COPY"; bs "MOVE"; bs "LOCK"; bs "UNLOCK";
   bs "MKCALENDAR"; bs "REPORT"].
Definition parser_methods : list bytes :=
  [bs "GET"; bs "POST"; bs "PUT"; bs "DELETE"; bs "HEAD"; bs "OPTIONS"; bs "PATCH"; bs "TRACE";
   bs "CONNECT"; bs "PROPFIND"; bs "PROPPATCH"; bs "MKCOL"; bs "COPY"; bs "MOVE"; bs "LOCK"; bs "UNLOCK";
   bs "MKCALENDAR"; bs "REPORT"].

Definition h2_preface : bytes :=
  bs "PRI * HTTP/2.0" ++ crlfcrlf ++ bs "SM" ++ crlfcrlf.

(* http::Version::parse restricted to what the HTTP/1 parser then accepts: 10 / 11 *)
Definition version1 (v : bytes) : option N :=
  if bytes_eqb v (bs "HTTP/1.0") then Some 10 else if bytes_eqb v (bs "HTTP/1.1") then Some 11 else None.

(* http2_process.rs looks_like_http2_response *)
Definition looks_like_h2 (d : bytes) : bool :=
  match d with
  | a :: b :: c :: t :: _ :: _ :: _ :: _ :: _ :: _ =>
      (be_N [a; b; c] <=? 16384) && (b2n t <=? 10)
  | _ => false
  end.

(* Http2ParserAdapter::can_parse *)
Definition can_parse_h2 (d : bytes) : bool :=
  (negb (shorter_than 24 d) && starts_with h2_preface d)
  || (negb (shorter_than 9 d) && negb (starts_with (bs "HTTP/1.") d) && looks_like_h2 d).

Definition is_some_N (o : option N) : bool := match o with Some _ => true | None => false end.

(* Http1Processor::can_process_request *)
Definition can_req (d : bytes) : bool :=
  if shorter_than 16 d then false
  else if starts_with h2_preface d then false
  else match split_ws (first_line d) with
       | [m; _; v] => mem_bytes m gate_methods && is_some_N (version1 v)
       | _ => false
       end.

Definition three_digits (l : bytes) : bool :=
  match l with [a; b; c] => is_digit a && is_digit b && is_digit c | _ => false end.

(* Http1Processor::can_process_response *)
Definition can_resp (d : bytes) : bool :=
  if shorter_than 12 d then false
  else if negb (shorter_than 9 d) && looks_like_h2 d then false
  else match splitn3_sp (first_line d) with
       | v :: c :: _ => is_some_N (version1 v) && three_digits c
       | _ => false
       end.

(* Http1ParserAdapter::can_parse *)
Definition can_parse_h1 (d : bytes) : bool := can_req d || can_resp d.

(* Result<Option<T>, E> of the HTTP/1 parser *)
Inductive pres (A : Type) := POk (a : A) | PNone | PErr.
Arguments POk {A}. Arguments PNone {A}. Arguments PErr {A}.

(* the head split into lines (None = Ok(None): no blank line yet) *)
Definition head_lines (d : bytes) : option (list bytes) :=
  match head_scan d [] with
  | None => None
  | Some head => Some (if contains_seq crlf head then split_crlf head else split_on LF head)
  end.

Fixpoint take_until_empty (ls : list bytes) : list bytes :=
  match ls with
  | [] => []
  | l :: r => match l with [] => [] | _ => l :: take_until_empty r end
  end.

Definition max_line : N := 8192.
Definition max_headers : N := 100.

(* Http1Parser::parse_headers (strict_parsing = false): Some = Ok(list of (name, value)), None = Err *)
Fixpoint parse_headers (ls : list bytes) : option (list (bytes * bytes)) :=
  match ls with
  | [] => Some []
  | l :: r =>
      if max_line <? len_N l then None
      else match parse_headers r with
           | None => None
           | Some hs =>
               match find_colon l [] with
               | Some (n, v) => let name := trim n in
                                match name with [] => Some hs | _ => Some ((name, trim v) :: hs) end
               | None => Some hs
               end
           end
  end.
Definition header_block (lines : list bytes) : option (list (bytes * bytes)) :=
  let hl := take_until_empty (tl lines) in
  if max_headers <? len_N hl then None else parse_headers hl.

(* u16::from_str *)
Definition parse_u16 (l : bytes) : option N :=
  let digits := match l with b :: r => if beqb b "+"%byte then r else l | [] => [] end in
  match digits with
  | [] => None
  | _ => if all_digits digits then
           let n := read_N_digits digits in if n <=? 65535 then Some n else None
         else None
  end.

Definition render_headers (hs : list (bytes * bytes)) : bytes :=
  join (bs ",") (map (fun nv => show_hex (fst nv) ++ bs "=" ++ show_hex (snd nv)) hs).

(* Http1Parser::parse_request + convert_http1_request_to_observable, rendered:
   Q.<method hex>.<uri hex>.<10|11>.<name hex>=<value hex>,...   (Cookie and Referer leave the list) *)
Definition h1_parse_request (d : bytes) : pres bytes :=
  match head_lines d with
  | None => PNone
  | Some lines =>
      let l0 := hd [] lines in
      if max_line <? len_N l0 then PErr
      else match split_ws l0 with
           | [m; u; v] =>
               match version1 v with
               | None => PErr
               | Some ver =>
                   if negb (mem_bytes m parser_methods) then PErr
                   else match header_block lines with
                        | None => PErr
                        | Some hs =>
                            let keep := filter (fun nv => negb (bytes_eqb (lower (fst nv)) (bs "cookie")
                                                              || bytes_eqb (lower (fst nv)) (bs "referer"))) hs in
                            POk (bs "Q." ++ show_hex m ++ bs "." ++ show_hex u ++ bs "." ++ show_N ver
                                 ++ bs "." ++ render_headers keep)
                        end
               end
           | _ => PErr
           end
  end.

(* Http1Parser::parse_response, rendered:  R.<10|11>.<status>.<headers> *)
Definition h1_parse_response (d : bytes) : pres bytes :=
  match head_lines d with
  | None => PNone
  | Some lines =>
      match splitn3_sp (hd [] lines) with
      | v :: c :: _ =>
          match version1 v with
          | None => PErr
          | Some ver =>
              match parse_u16 c with
              | None => PErr
              | Some code =>
                  match header_block lines with
                  | None => PErr
                  | Some hs => POk (bs "R." ++ show_N ver ++ bs "." ++ show_N code ++ bs "." ++ render_headers hs)
                  end
              end
          end
      | _ => PErr
      end
  end.

Definition ok_of {A} (r : pres A) : option A := match r with POk a => Some a | _ => None end.

(* HttpProcessors::parse_request / parse_response: HTTP/1 adapter first; the HTTP/2 adapter is
   consulted only if HTTP/1 gave nothing, and on the validated domain it declines (can_parse_h2 =
   false).  Where it would not decline the result is None and `recog_domain` is false. *)
Definition recog_req (d : bytes) : option bytes :=
  if can_parse_h1 d then ok_of (h1_parse_request d) else None.
Definition recog_resp (d : bytes) : option bytes :=
  if can_parse_h1 d then ok_of (h1_parse_response d) else None.

Definition ascii_nonzero (d : bytes) : bool := forallb (fun b => (1 <=? b2n b) && (b2n b <=? 127)) d.
Definition recog_domain (d : bytes) : bool := ascii_nonzero d && negb (can_parse_h2 d).
