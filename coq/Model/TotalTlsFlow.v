(* C01 -- flow table of the TLS analyzer around the ClientHello reader.  Definitions only.
     huginn-net-tls/src/process.rs       process_tcp_packet   (per TCP segment: flow lookup, is_tls gate,
                                          reader.add_bytes, flow REMOVED on a signature and on a parse error)
     huginn-net-tls/src/tls_process.rs   is_tls_traffic
   A segment is (flow identity, TCP payload); the record parser behind the reader is a parameter as in
   Model/TotalReader.v.  The recovery half of C01 for one 4-tuple lives here: a record that ends in an
   error must not stay at the head of the flow's buffer. *)
From Coq Require Import List NArith Bool.
From Coq Require Import Strings.Byte.
From HN Require Import Base.Bytes Model.TotalBase Model.TotalReader.
Import ListNotations.
Open Scope N_scope.

Definition is_tls_traffic (p : bytes) : R bool :=
  if len p <? 5 then Ok false else
  c <- idx p 0 ;;
  if b2n c =? 22 then
    v1 <- idx p 1 ;; v2 <- idx p 2 ;;
    let v := be16 v1 v2 in Ok ((768 <=? v) && (v <=? 772))        (* 0x0300..=0x0304 *)
  else Ok false.

Definition ftable := list (N * rstate).                             (* TtlCache<FlowKey, TlsClientHelloReader>, no expiry *)
Fixpoint ffind (t : ftable) (f : N) : option rstate :=
  match t with [] => None | (k, v) :: r => if k =? f then Some v else ffind r f end.
Fixpoint fremove (t : ftable) (f : N) : ftable :=
  match t with [] => [] | (k, v) :: r => if k =? f then fremove r f else (k, v) :: fremove r f end.
Definition fset (t : ftable) (f : N) (v : rstate) : ftable := (f, v) :: fremove t f.

(* one segment: new table, whether a ClientHello is reported, what the reader returned (None: reader not called) *)
Definition tls_step (parse : bytes -> pres) (t : ftable) (f : N) (payload : bytes) : R (ftable * bool * option rout) :=
  match payload with [] => Ok (t, false, None) | _ =>
    gate <- (match ffind t f with Some _ => Ok true | None => is_tls_traffic payload end) ;;
    if negb gate then Ok (t, false, None) else
    let reader := match ffind t f with Some r => r | None => rstate0 end in
    r <- add_bytes parse reader payload ;;
    match snd r with
    | RSome => Ok (fremove t f, true, Some RSome)                   (* tcp_flows.remove(&flow_key) *)
    | RNone => Ok (fset t f (fst r), false, Some RNone)             (* still accumulating *)
    | RErr => Ok (fremove t f, false, Some RErr)                    (* tcp_flows.remove(&flow_key) *)
    end
  end.

Fixpoint tls_run (t : ftable) (segs : list (N * bytes * pres)) : R (list bool) :=
  match segs with
  | [] => Ok []
  | (f, p, o) :: rest =>
      r <- tls_step (fun _ => o) t f p ;;
      k <- tls_run (fst (fst r)) rest ;;
      Ok (snd (fst r) :: k)
  end.
Definition show_tls_run (l : list bool) : bytes :=
  bs "RET" ++ concat (map (fun b : bool => sp :: (if b then bs "S" else bs "-")) l).
