(* MODEL of the sequential HTTP analyzer at PACKET level, assembled from models that already exist:
     huginn-net-http/src/lib.rs          HuginnNetHttp::process_packet without filter (parse_packet; IpPacket::None ->
                                         an empty result)
     huginn-net-http/src/process.rs      create_observable_package_ipv{4,6}: `TcpPacket::new(ip.payload())` FIRST
                                         (None -> Err(Parse)), then http_process::process_http_ipv{4,6}
     huginn-net-http/src/http_process.rs process_http_ipv{4,6}: next protocol must be TCP (else Err), then
                                         process_tcp_packet with FlowKey = (src_ip, dst_ip, src_port, dst_port);
                                         a packet finds its flow under its own key (is_client) or under the
                                         REVERSED key (the server's direction)
   Pieces: Model/Pnet.v (framing, pnet views), Model/HttpFlow.v (`step` = process_tcp_packet over Base/Cache.v, the
   two parsers HttpProcessors::parse_request / parse_response as Section variables), Model/HttpRecog.v (an
   executable HTTP/1.x instance of the parsers, valid on ASCII payloads that do not start an HTTP/2 preface).
   The parsers are FUNCTIONS OF THE BYTES: the HPACK decoder inside HttpProcessors is shared between connections in
   the code but rebuilt at the start of every parse (fix c544740), which is what makes this true; it is tied to the
   code by C16's reused-parser oracle and C01's poisoning histories, not proved here.
   Matching (browser / web server labels, diagnosis) is outside this model.  TTL expiry (60 s) is outside
   (Base/Cache.v).  Definitions only. *)
From Coq Require Import List NArith Bool.
From Coq Require Import Strings.Byte.
From HN Require Import Base.Bytes Base.Cache Base.Tcp Model.Pnet Model.HttpFlow.
From HN Require Model.HttpRecog.
Import ListNotations.
Open Scope N_scope.

(* IpAddr as a number: V4(a) -> a, V6(a) -> 2^128 + a *)
Definition H128 : N := 340282366920938463463374607431768211456.
Definition H32 : N := 4294967296.
Definition haddr4 (p : bytes) (off : N) : N := be32_at p off.
Definition haddr6 (p : bytes) (off : N) : N :=
  H128 + (((be32_at p off * H32 + be32_at p (off + 4)) * H32 + be32_at p (off + 8)) * H32 + be32_at p (off + 12)).

(* TcpFlags: FIN 0x01, SYN 0x02, RST 0x04 of tcp.get_flags() *)
Definition flag_set (flags bit : N) : bool := negb (N.land flags bit =? 0).
Definition seg_of_view (src dst : N) (t : bytes) : segment :=
  mkSeg src dst (be16_at t 0) (be16_at t 2)
        (flag_set (tcp_flags t) 2) (flag_set (tcp_flags t) 1) (flag_set (tcp_flags t) 4)
        (tcp_sequence t) (tcp_payload t).

(* Err | empty result without touching the table | process_tcp_packet is called *)
Inductive http_class := HCErr | HCNone | HCSeg (g : segment).
Definition hclassify4 (p : bytes) : http_class :=
  let t := v4_payload p in
  if blen t <? tcp_min then HCErr                       (* process.rs: "Invalid TCP packet" *)
  else if negb (v4_protocol p =? 6) then HCErr          (* http_process.rs: UnsupportedProtocol *)
  else HCSeg (seg_of_view (haddr4 p 12) (haddr4 p 16) t).
Definition hclassify6 (p : bytes) : http_class :=
  let t := v6_payload p in
  if blen t <? tcp_min then HCErr
  else if negb (v6_next_header p =? 6) then HCErr
  else HCSeg (seg_of_view (haddr6 p 8) (haddr6 p 24) t).
Definition http_frame_class (f : bytes) : http_class :=
  match parse_packet f with Ipv4 p => hclassify4 p | Ipv6 p => hclassify6 p | NoIp => HCNone end.

(* the connection a segment belongs to: the 4-tuple irrespective of direction (smaller (address, port)
   endpoint first); both directed keys of a connection have this normal form *)
Definition flip_key (k : fkey) : fkey := let '(a, b, p, q) := k in (b, a, q, p).
Definition key_le (k : fkey) : bool := let '(a, b, p, q) := k in (a <? b) || ((a =? b) && (p <=? q)).
Definition norm_key (k : fkey) : fkey := if key_le k then k else flip_key k.
Definition seg_key (g : segment) : fkey := (g_src g, g_dst g, g_sport g, g_dport g).
(* frames that never reach the table: a key no connection has (addresses are below 2^129) *)
Definition no_conn_key : fkey := (H128 * 4, H128 * 4, 0, 0).
Definition http_key (f : bytes) : fkey :=
  match http_frame_class f with HCSeg g => norm_key (seg_key g) | _ => no_conn_key end.

Section Analyzer.
  Context {Req Resp : Type}.
  Variable parse_req : bytes -> option Req.
  Variable parse_resp : bytes -> option Resp.

  (* Result<HttpAnalysisResult, _> of one packet *)
  Inductive http_out := HErr | HOut (o : hout Req Resp).
  Definition http_state := state.          (* cache fkey tcpflow, carries its capacity *)

  Definition http_packet_step (st : http_state) (f : bytes) : http_state * http_out :=
    match http_frame_class f with
    | HCErr => (st, HErr)
    | HCNone => (st, HOut ONone)
    | HCSeg g => let '(st', o) := step parse_req parse_resp st g in (st', HOut o)
    end.
  Definition http_packet_results (st : http_state) (f : bytes) : http_state * list http_out :=
    let '(st', o) := http_packet_step st f in (st', [o]).

  Fixpoint http_run (st : http_state) (tr : list bytes) : http_state * list http_out :=
    match tr with
    | [] => (st, [])
    | f :: r => let '(st1, o) := http_packet_step st f in
                let '(st2, os) := http_run st1 r in (st2, o :: os)
    end.
  Definition http_results (st : http_state) (tr : list bytes) : list (fkey * http_out) :=
    combine (map http_key tr) (snd (http_run st tr)).

  (* "within capacity": a packet that would open a flow (neither direction tracked) arrives only while the
     table has a free slot, so TtlCache::insert never evicts *)
  Definition http_fits (st : http_state) (f : bytes) : bool :=
    match http_frame_class f with
    | HCSeg g =>
        cache_contains fkey_eqb st (seg_key g) || cache_contains fkey_eqb st (flip_key (seg_key g))
        || (cache_len st <? c_cap st)
    | _ => true
    end.
  Fixpoint http_within_capacityb (st : http_state) (tr : list bytes) : bool :=
    match tr with
    | [] => true
    | f :: r => http_fits st f && http_within_capacityb (fst (http_packet_step st f)) r
    end.
End Analyzer.
Arguments HErr {Req Resp}.
Arguments HOut {Req Resp}.

(* ---- the HTTP/1.x instance and its canonical token (what harness/c07 prints for the real analyzer):
        ERR | - | Q.<method hex>.<uri hex>.<10|11>.<name hex>=<value hex>,... | R.<10|11>.<status>.<headers> ---- *)
Definition http1_packet_step := @http_packet_step bytes bytes HttpRecog.recog_req HttpRecog.recog_resp.
Definition http1_run := @http_run bytes bytes HttpRecog.recog_req HttpRecog.recog_resp.
Definition http1_within_capacityb := @http_within_capacityb bytes bytes HttpRecog.recog_req HttpRecog.recog_resp.
Definition http1_out_line (o : @http_out bytes bytes) : bytes :=
  match o with
  | HErr => bs "ERR"
  | HOut ONone => bs "-"
  | HOut (OReq r) => r
  | HOut (OResp r) => r
  end.
