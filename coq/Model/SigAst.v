(* Signature / observation ASTs of huginn-net-db (tcp.rs, http.rs, observable_signals.rs, db.rs).
   Shared by the text model (C06), the matcher (C02, C12, C13) and the extractors (C03, C05).
   u8/u16 fields are N (range is an invariant stated where it matters); Rust String is `bytes`. *)
From Coq Require Import List NArith Bool.
From HN Require Import Base.Bytes.
Import ListNotations.
Open Scope N_scope.

Inductive ip_version := IpV4 | IpV6 | IpAny.
Inductive ttl := TtlValue (t : N) | TtlDistance (t d : N) | TtlGuess (t : N) | TtlBad (t : N).
Inductive window_size := WMss (k : N) | WMtu (k : N) | WValue (w : N) | WMod (m : N) | WAny.
Inductive tcp_option := OEol (pad : N) | ONop | OMss | OWs | OSok | OSack | OTS | OUnknown (kind : N).
Inductive quirk := QDf | QNonZeroID | QZeroID | QEcn | QMustBeZero | QFlowID | QSeqNumZero
  | QAckNumNonZero | QAckNumZero | QNonZeroURG | QUrg | QPush | QOwnTimestampZero
  | QPeerTimestampNonZero | QTrailinigNonZero | QExcessiveWindowScaling | QOptBad.
Inductive payload_size := PZero | PNonZero | PAnySize.

(* tcp::Signature and TcpObservation have the same fields *)
Record tcp_sig := {
  t_version : ip_version; t_ittl : ttl; t_olen : N; t_mss : option N; t_wsize : window_size;
  t_wscale : option N; t_olayout : list tcp_option; t_quirks : list quirk; t_pclass : payload_size }.

Inductive http_version := HV10 | HV11 | HV20 | HV30 | HVAny.
Record header := { h_optional : bool; h_name : bytes; h_value : option bytes }.
(* http::Signature and Http{Request,Response}Observation have the same fields *)
Record http_sig := { hs_version : http_version; hs_horder : list header; hs_habsent : list header; hs_expsw : bytes }.

Inductive label_type := LSpecified | LGeneric.
Record label := { l_ty : label_type; l_class : option bytes; l_name : bytes; l_flavor : option bytes }.

(* Database: entries keep file order; the index is derived (Model/Match.v) *)
Record database := {
  db_classes : list bytes;
  db_mtu : list (bytes * list N);
  db_ua_os : list (bytes * option bytes);
  db_tcp_request : list (label * list tcp_sig);
  db_tcp_response : list (label * list tcp_sig);
  db_http_request : list (label * list http_sig);
  db_http_response : list (label * list http_sig) }.

(* ---- decidable equalities (Rust derives PartialEq on all of these) ---- *)
Definition ip_version_eqb (a b : ip_version) : bool :=
  match a, b with IpV4, IpV4 | IpV6, IpV6 | IpAny, IpAny => true | _, _ => false end.
Definition ttl_eqb (a b : ttl) : bool :=
  match a, b with
  | TtlValue x, TtlValue y | TtlGuess x, TtlGuess y | TtlBad x, TtlBad y => x =? y
  | TtlDistance x1 x2, TtlDistance y1 y2 => (x1 =? y1) && (x2 =? y2)
  | _, _ => false end.
Definition window_size_eqb (a b : window_size) : bool :=
  match a, b with
  | WMss x, WMss y | WMtu x, WMtu y | WValue x, WValue y | WMod x, WMod y => x =? y
  | WAny, WAny => true
  | _, _ => false end.
Definition tcp_option_eqb (a b : tcp_option) : bool :=
  match a, b with
  | OEol x, OEol y | OUnknown x, OUnknown y => x =? y
  | ONop, ONop | OMss, OMss | OWs, OWs | OSok, OSok | OSack, OSack | OTS, OTS => true
  | _, _ => false end.
Definition quirk_idx (q : quirk) : N :=
  match q with QDf => 0 | QNonZeroID => 1 | QZeroID => 2 | QEcn => 3 | QMustBeZero => 4 | QFlowID => 5
  | QSeqNumZero => 6 | QAckNumNonZero => 7 | QAckNumZero => 8 | QNonZeroURG => 9 | QUrg => 10 | QPush => 11
  | QOwnTimestampZero => 12 | QPeerTimestampNonZero => 13 | QTrailinigNonZero => 14
  | QExcessiveWindowScaling => 15 | QOptBad => 16 end.
Definition quirk_eqb (a b : quirk) : bool := quirk_idx a =? quirk_idx b.
Definition payload_size_eqb (a b : payload_size) : bool :=
  match a, b with PZero, PZero | PNonZero, PNonZero | PAnySize, PAnySize => true | _, _ => false end.
Definition http_version_eqb (a b : http_version) : bool :=
  match a, b with HV10, HV10 | HV11, HV11 | HV20, HV20 | HV30, HV30 | HVAny, HVAny => true | _, _ => false end.

Fixpoint list_eqb {A} (eqb : A -> A -> bool) (a b : list A) : bool :=
  match a, b with
  | [], [] => true
  | x :: a', y :: b' => eqb x y && list_eqb eqb a' b'
  | _, _ => false end.
Definition option_eqb {A} (eqb : A -> A -> bool) (a b : option A) : bool :=
  match a, b with Some x, Some y => eqb x y | None, None => true | _, _ => false end.
Definition header_eqb (a b : header) : bool :=
  Bool.eqb (h_optional a) (h_optional b) && bytes_eqb (h_name a) (h_name b)
  && option_eqb bytes_eqb (h_value a) (h_value b).
