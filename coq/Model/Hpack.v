(* MODEL of the third-party HPACK decoder hpack-patched 0.3.0 (RFC 7541) as huginn-net uses it:
   src/decoder.rs (`decode_integer`, `decode_string`, `FieldRepresentation::new`, `Decoder::decode`,
   `decode_indexed`, `decode_literal`, `update_max_dynamic_size`), src/lib.rs (`DynamicTable`,
   `HeaderTable::get_from_table`, STATIC_TABLE -> Gen/HpackStatic.v), src/huffman.rs
   (`HuffmanDecoder::decode`, HUFFMAN_CODE_TABLE -> Gen/Huffman.v).  Modelled, not verified: the
   correspondence run ties it to the real crate.  Definitions only.

   Conventions: where the Rust code returns "number of octets consumed" the model returns the
   remaining buffer.  `x & (2^k-1)` is written `x mod 2^k`, `b & 128 == 128` is `128 <=? b`
   (b < 256).  All decoding errors collapse to one error outcome. *)
From Coq Require Import List NArith Bool.
From Coq Require Import Strings.Byte.
From HN Require Import Base.Bytes Model.H2Text Gen.Huffman Gen.HpackStatic.
Import ListNotations.
Open Scope N_scope.


(* ------------------------------------------------------------------ prefix integers *)
(* the `for &b in buf[1..]` loop of decode_integer; `total` counts octets used so far, the
   octet limit is 5: a fifth octet that still has its continuation bit set is TooManyOctets *)
Fixpoint int_cont (rest : bytes) (value m total : N) : option (N * bytes) :=
  match rest with
  | [] => None                                               (* NotEnoughOctets *)
  | b :: r =>
      let total := total + 1 in
      let value := value + (b2n b mod 128) * 2 ^ m in
      if b2n b <? 128 then Some (value, r)
      else if total =? 5 then None                           (* TooManyOctets *)
      else int_cont r value (m + 7) total
  end.

(* prefix_size is 4, 5, 6 or 7 at every call site (the InvalidPrefix branch is dead) *)
Definition decode_integer (buf : bytes) (prefix : N) : option (N * bytes) :=
  match buf with
  | [] => None                                               (* NotEnoughOctets *)
  | b0 :: rest =>
      let mask := 2 ^ prefix - 1 in
      let v := b2n b0 mod 2 ^ prefix in
      if v <? mask then Some (v, rest) else int_cont rest v 0 1
  end.

(* ------------------------------------------------------------------ Huffman *)
(* bits most significant first *)
Fixpoint bits_msb (n : nat) (code : N) : list bool :=
  match n with O => [] | S k => N.testbit code (N.of_nat k) :: bits_msb k code end.
Definition code_bits (e : N * N) : list bool := bits_msb (N.to_nat (snd e)) (fst e).
Definition huff_codes : list (list bool) := map code_bits huffman_table.
Definition eos_bits : list bool := nth 256 huff_codes [].

Inductive htree := HEmpty | HLeaf (sym : N) | HNode (zero one : htree).

Fixpoint hinsert (bits : list bool) (sym : N) (t : htree) : htree :=
  match bits with
  | [] => HLeaf sym
  | b :: r =>
      let '(z, o) := match t with HNode z o => (z, o) | _ => (HEmpty, HEmpty) end in
      if b then HNode z (hinsert r sym o) else HNode (hinsert r sym z) o
  end.
Fixpoint hbuild (codes : list (list bool)) (sym : N) (t : htree) : htree :=
  match codes with [] => t | c :: r => hbuild r (sym + 1) (hinsert c sym t) end.
(* The Rust decoder keeps (length, code) -> symbol maps and looks the accumulated bits up after
   every bit; for a prefix-free table this is the walk of the code tree *)
Definition huff_tree : htree := hbuild huff_codes 0 HEmpty.

Fixpoint bool_list_eqb (a b : list bool) : bool :=
  match a, b with
  | [], [] => true
  | x :: a', y :: b' => Bool.eqb x y && bool_list_eqb a' b'
  | _, _ => false
  end.

(* cur = bits accumulated since the last symbol (in order); pos = their position in the tree *)
Fixpoint huff_loop (bits cur : list bool) (pos : htree) (acc : bytes) : option bytes :=
  match bits with
  | [] =>
      (* padding: at most 7 bits, equal to the most significant bits of EOS *)
      if Nat.leb (length cur) 7 && bool_list_eqb cur (firstn (length cur) eos_bits)
      then Some (rev acc) else None
  | b :: r =>
      match pos with
      | HNode z o =>
          match (if b then o else z) with
          | HLeaf s => if s =? 256 then None                  (* EOSInString *)
                       else huff_loop r [] huff_tree (n2b s :: acc)
          | HEmpty => None                                    (* no such code (tree is complete) *)
          | nxt => huff_loop r (cur ++ [b]) nxt acc
          end
      | _ => None
      end
  end.

Definition byte_bits (b : byte) : list bool := bits_msb 8 (b2n b).
Definition huffman_decode (raw : bytes) : option bytes :=
  huff_loop (flat_map byte_bits raw) [] huff_tree [].

(* ------------------------------------------------------------------ strings *)
Definition decode_string (buf : bytes) : option (bytes * bytes) :=
  match buf with
  | [] => None
  | b0 :: _ =>
      match decode_integer buf 7 with
      | None => None
      | Some (len, rest) =>
          if blen rest <? len then None                       (* consumed + len > buf.len() *)
          else
            let raw := firstn (N.to_nat len) rest in
            let rest' := skipn (N.to_nat len) rest in
            if 128 <=? b2n b0 then
              match huffman_decode raw with Some s => Some (s, rest') | None => None end
            else Some (raw, rest')
      end
  end.

(* ------------------------------------------------------------------ tables *)
Definition header := (bytes * bytes)%type.
Record dtable := { dt_entries : list header; dt_size : N; dt_max : N }.
Definition entry_size (e : header) : N := blen (fst e) + blen (snd e) + 32.
(* DynamicTable::new(): 4096 *)
Definition dt_new : dtable := {| dt_entries := []; dt_size := 0; dt_max := 4096 |}.

(* consolidate_table: evict from the back while size > max_size; None = the
   panic!("Size of table != 0, but no headers left!") branch *)
Fixpoint consolidate (fuel : nat) (t : dtable) : option dtable :=
  if dt_size t <=? dt_max t then Some t
  else match fuel with
       | O => None
       | S f =>
           match rev (dt_entries t) with
           | [] => None
           | last :: _ =>
               consolidate f {| dt_entries := removelast (dt_entries t);
                                dt_size := dt_size t - entry_size last; dt_max := dt_max t |}
           end
       end.
Definition add_header (t : dtable) (h : header) : option dtable :=
  let t' := {| dt_entries := h :: dt_entries t; dt_size := dt_size t + entry_size h; dt_max := dt_max t |} in
  consolidate (S (length (dt_entries t'))) t'.
Definition set_max_table_size (t : dtable) (n : N) : option dtable :=
  consolidate (S (length (dt_entries t)))
              {| dt_entries := dt_entries t; dt_size := dt_size t; dt_max := n |}.

Definition blen_entries (l : list header) : N := N.of_nat (length l).
(* HeaderTable::get_from_table: 1-based, static table first *)
Definition get_from_table (t : dtable) (index : N) : option header :=
  if index =? 0 then None
  else
    let real := index - 1 in
    let nstatic := N.of_nat (length crate_static_table) in
    if real <? nstatic then nth_error crate_static_table (N.to_nat real)
    else
      let dynamic_index := real - nstatic in
      if dynamic_index <? blen_entries (dt_entries t)        (* dynamic_index < self.dynamic_table.len() *)
      then nth_error (dt_entries t) (N.to_nat dynamic_index)
      else None.

(* ------------------------------------------------------------------ the block decoder *)
Inductive dres := DOk (hs : list header) (t : dtable) | DErr | DPanic | DFuel.

(* decode_literal: prefix 6 (with incremental indexing) or 4 *)
Definition decode_literal (buf : bytes) (t : dtable) (prefix : N) : option (header * bytes) :=
  match decode_integer buf prefix with
  | None => None
  | Some (table_index, rest) =>
      let name_r :=
        if table_index =? 0 then decode_string rest
        else match get_from_table t table_index with
             | Some (n, _) => Some (n, rest)
             | None => None                                   (* HeaderIndexOutOfBounds *)
             end in
      match name_r with
      | None => None
      | Some (name, rest1) =>
          match decode_string rest1 with
          | None => None
          | Some (value, rest2) => Some ((name, value), rest2)
          end
      end
  end.

(* Decoder::decode_with_cb; fuel = length of the block (every representation uses >= 1 octet) *)
Fixpoint decode_loop (fuel : nat) (buf : bytes) (t : dtable) (acc : list header) : dres :=
  match buf with
  | [] => DOk (rev acc) t
  | b0 :: _ =>
      match fuel with
      | O => DFuel
      | S f =>
          let o := b2n b0 in
          if 128 <=? o then                                   (* Indexed *)
            match decode_integer buf 7 with
            | None => DErr
            | Some (index, rest) =>
                match get_from_table t index with
                | None => DErr
                | Some h => decode_loop f rest t (h :: acc)
                end
            end
          else if 64 <=? o then                               (* LiteralWithIncrementalIndexing *)
            match decode_literal buf t 6 with
            | None => DErr
            | Some (h, rest) =>
                match add_header t h with
                | None => DPanic
                | Some t' => decode_loop f rest t' (h :: acc)
                end
            end
          else if 32 <=? o then                               (* SizeUpdate *)
            match decode_integer buf 5 with
            | None => DErr
            | Some (n, rest) =>
                match set_max_table_size t n with
                | None => DPanic
                | Some t' => decode_loop f rest t' acc
                end
            end
          else                                                (* LiteralNeverIndexed / WithoutIndexing *)
            match decode_literal buf t 4 with
            | None => DErr
            | Some (h, rest) => decode_loop f rest t (h :: acc)
            end
      end
  end.

Definition hpack_decode (t : dtable) (block : bytes) : dres := decode_loop (length block) block t [].
