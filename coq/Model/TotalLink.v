(* C01 -- panic-explicit model of the link-layer step shared by every per-packet path.  Definitions only.
     huginn-net{,-tcp,-tls,-http}/src/packet_parser.rs   parse_packet, detect_datalink_format (four copies, same logic)
   pnet views: EthernetPacket::new >= 14 bytes, Ipv4Packet::new >= 20, Ipv6Packet::new >= 40; get_ethertype reads
   packet[12..14]. *)
From Coq Require Import List NArith Bool.
From Coq Require Import Strings.Byte.
From HN Require Import Base.Bytes Model.TotalBase.
Import ListNotations.
Open Scope N_scope.

Inductive link := L4 (off n : N) | L6 (off n : N).     (* IP version, offset and length of the IP data *)
Definition version_of (b : byte) : N := N.land (b2n b) 240 / 16.       (* (x & 0xF0) >> 4 *)

Definition try_ethernet_format (p : bytes) : R (option link) :=
  if len p <? 14 then Ok None else
  ipd <- slice_from p 14 ;;                                 (* &packet[14..] *)
  e0 <- idx p 12 ;; e1 <- idx p 13 ;;                        (* ethernet.get_ethertype() *)
  let et := be16 e0 e1 in
  if et =? 2048 then Ok (if 20 <=? len ipd then Some (L4 14 (len ipd)) else None)
  else if et =? 34525 then Ok (if 40 <=? len ipd then Some (L6 14 (len ipd)) else None)
  else Ok None.
Definition try_raw_ip_format (p : bytes) : R (option link) :=
  if len p <? 20 then Ok None else
  b0 <- idx p 0 ;;
  let v := version_of b0 in
  if v =? 4 then Ok (Some (L4 0 (len p)))
  else if v =? 6 then Ok (if 40 <=? len p then Some (L6 0 (len p)) else None)
  else Ok None.
Definition null_sig (p : bytes) : R bool :=                  (* len >= 24 && packet[0] == 0x1e && packet[1] == 0x00 *)
  if len p <? 24 then Ok false else
  a <- idx p 0 ;;
  if negb (b2n a =? 30) then Ok false else
  b <- idx p 1 ;; Ok (b2n b =? 0).
Definition try_null_datalink_format (p : bytes) : R (option link) :=
  s <- null_sig p ;;
  if negb s then Ok None else
  ipd <- slice_from p 4 ;;
  b0 <- idx ipd 0 ;;
  let v := version_of b0 in
  if v =? 4 then Ok (if 20 <=? len ipd then Some (L4 4 (len ipd)) else None)
  else if v =? 6 then Ok (if 40 <=? len ipd then Some (L6 4 (len ipd)) else None)
  else Ok None.
Definition parse_packet (p : bytes) : R (option link) :=
  a <- try_ethernet_format p ;;
  match a with Some l => Ok (Some l) | None =>
    b <- try_raw_ip_format p ;;
    match b with Some l => Ok (Some l) | None => try_null_datalink_format p end
  end.

Inductive dlink := DEth | DRaw | DNull.
Definition detect_null (p : bytes) : R bool :=
  s <- null_sig p ;;
  if negb s then Ok false else
  ipd <- slice_from p 4 ;; b0 <- idx ipd 0 ;;
  Ok ((version_of b0 =? 4) || (version_of b0 =? 6)).
Definition detect_raw (p : bytes) : R bool :=
  if len p <? 20 then Ok false else
  b0 <- idx p 0 ;;
  let v := version_of b0 in
  if v =? 4 then
    b0' <- idx p 0 ;;
    let ihl := sat_mul u8_max (N.land (b2n b0') 15) 4 in
    Ok ((20 <=? ihl) && (ihl <=? len p))
  else if v =? 6 then Ok (40 <=? len p)
  else Ok false.
Definition detect_eth (p : bytes) : R bool :=
  if len p <? 14 then Ok false else
  e0 <- idx p 12 ;; e1 <- idx p 13 ;;
  let et := be16 e0 e1 in
  if (et =? 2048) || (et =? 34525) then
    ipd <- slice_from p 14 ;;
    match ipd with
    | [] => Ok false
    | _ => b0 <- idx ipd 0 ;;
           Ok (((et =? 2048) && (version_of b0 =? 4)) || ((et =? 34525) && (version_of b0 =? 6)))
    end
  else Ok false.
Definition detect_datalink_format (p : bytes) : R (option dlink) :=
  n <- detect_null p ;; if n then Ok (Some DNull) else
  r <- detect_raw p ;; if r then Ok (Some DRaw) else
  e <- detect_eth p ;; Ok (if e then Some DEth else None).

Definition show_link (o : option link) : bytes :=
  match o with
  | None => bs "none"
  | Some (L4 off n) => bs "4@" ++ show_N off ++ bs "+" ++ show_N n
  | Some (L6 off n) => bs "6@" ++ show_N off ++ bs "+" ++ show_N n end.
Definition show_dlink (o : option dlink) : bytes :=
  match o with None => bs "none" | Some DEth => bs "eth" | Some DRaw => bs "raw" | Some DNull => bs "null" end.
Definition run_link (p : bytes) : R bytes :=
  a <- parse_packet p ;; d <- detect_datalink_format p ;;
  Ok (bs "RET p=" ++ show_link a ++ bs " d=" ++ show_dlink d).
