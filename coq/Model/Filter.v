(* MODEL of huginn-net-{tcp,http,tls}/src/filter.rs (the three copies are textually identical
   up to doc comments): builders, the three `matches`, `should_process`.
   Ports and addresses are N; Ipv4Network/Ipv6Network::contains is the mask comparison of
   ipnetwork 0.20 (ipv4.rs:197, ipv6.rs:194/218).  Definitions only. *)
From Coq Require Import List NArith Bool.
From HN Require Import Base.Bytes.
Import ListNotations.
Open Scope N_scope.

Inductive ip := V4 (a : N) | V6 (a : N).

(* builder calls, in call order *)
Inductive pop := PDst (p : N) | PSrc (p : N) | PDstRange (a b : N) | PSrcRange (a b : N)
               | PDstList (l : list N) | PSrcList (l : list N) | PAny.
Inductive iop := IAllow (a : ip) | ISrcOnly | IDstOnly.
Inductive sop := SAllow (a : ip) (prefix : N) | SSrcOnly | SDstOnly.
Record cfg_src := { c_deny : bool; c_port : option (list pop);
                    c_ip : option (list iop); c_sub : option (list sop) }.

Record port_filter := { source_ports : list N; destination_ports : list N;
                        source_ranges : list (N * N); destination_ranges : list (N * N);
                        match_any : bool }.
Record ip_filter := { ipv4_addresses : list N; ipv6_addresses : list N;
                      ip_check_source : bool; ip_check_destination : bool }.
Record subnet_filter := { ipv4_subnets : list (N * N); ipv6_subnets : list (N * N);
                          sn_check_source : bool; sn_check_destination : bool }.
Record filter_config := { port_filter_ : option port_filter; ip_filter_ : option ip_filter;
                          subnet_filter_ : option subnet_filter; deny : bool }.

(* Range<u16> -> inclusive pair; `range.is_empty()` is `!(start < end)` *)
Definition inclusive (a b : N) : N * N := if a <? b then (a, b - 1) else (1, 0).

Definition pf_new : port_filter :=
  {| source_ports := []; destination_ports := []; source_ranges := []; destination_ranges := [];
     match_any := false |}.
Definition pf_step (f : port_filter) (o : pop) : port_filter :=
  match o with
  | PDst p => {| source_ports := source_ports f; destination_ports := destination_ports f ++ [p];
                 source_ranges := source_ranges f; destination_ranges := destination_ranges f;
                 match_any := match_any f |}
  | PSrc p => {| source_ports := source_ports f ++ [p]; destination_ports := destination_ports f;
                 source_ranges := source_ranges f; destination_ranges := destination_ranges f;
                 match_any := match_any f |}
  | PDstRange a b => {| source_ports := source_ports f; destination_ports := destination_ports f;
                 source_ranges := source_ranges f;
                 destination_ranges := destination_ranges f ++ [inclusive a b];
                 match_any := match_any f |}
  | PSrcRange a b => {| source_ports := source_ports f; destination_ports := destination_ports f;
                 source_ranges := source_ranges f ++ [inclusive a b];
                 destination_ranges := destination_ranges f;
                 match_any := match_any f |}
  | PDstList l => {| source_ports := source_ports f; destination_ports := destination_ports f ++ l;
                 source_ranges := source_ranges f; destination_ranges := destination_ranges f;
                 match_any := match_any f |}
  | PSrcList l => {| source_ports := source_ports f ++ l; destination_ports := destination_ports f;
                 source_ranges := source_ranges f; destination_ranges := destination_ranges f;
                 match_any := match_any f |}
  | PAny => {| source_ports := source_ports f; destination_ports := destination_ports f;
                 source_ranges := source_ranges f; destination_ranges := destination_ranges f;
                 match_any := true |}
  end.
Definition build_port (ops : list pop) : port_filter := fold_left pf_step ops pf_new.

Definition contains_N (l : list N) (x : N) : bool := existsb (N.eqb x) l.
Definition in_ranges (l : list (N * N)) (x : N) : bool :=
  existsb (fun r => (fst r <=? x) && (x <=? snd r)) l.
Definition is_nil {A} (l : list A) : bool := match l with [] => true | _ => false end.

Definition pf_matches (f : port_filter) (sport dport : N) : bool :=
  if match_any f then
    let all_ports := source_ports f ++ destination_ports f in
    let all_ranges := source_ranges f ++ destination_ranges f in
    contains_N all_ports sport || contains_N all_ports dport
    || in_ranges all_ranges sport || in_ranges all_ranges dport
  else
    let src_match := contains_N (source_ports f) sport || in_ranges (source_ranges f) sport in
    let dst_match := contains_N (destination_ports f) dport || in_ranges (destination_ranges f) dport in
    let src_ok := is_nil (source_ports f) && is_nil (source_ranges f) || src_match in
    let dst_ok := is_nil (destination_ports f) && is_nil (destination_ranges f) || dst_match in
    src_ok && dst_ok.

Definition if_new : ip_filter :=
  {| ipv4_addresses := []; ipv6_addresses := []; ip_check_source := true; ip_check_destination := true |}.
Definition if_step (f : ip_filter) (o : iop) : ip_filter :=
  match o with
  | IAllow (V4 a) => {| ipv4_addresses := ipv4_addresses f ++ [a]; ipv6_addresses := ipv6_addresses f;
                        ip_check_source := ip_check_source f; ip_check_destination := ip_check_destination f |}
  | IAllow (V6 a) => {| ipv4_addresses := ipv4_addresses f; ipv6_addresses := ipv6_addresses f ++ [a];
                        ip_check_source := ip_check_source f; ip_check_destination := ip_check_destination f |}
  | ISrcOnly => {| ipv4_addresses := ipv4_addresses f; ipv6_addresses := ipv6_addresses f;
                   ip_check_source := true; ip_check_destination := false |}
  | IDstOnly => {| ipv4_addresses := ipv4_addresses f; ipv6_addresses := ipv6_addresses f;
                   ip_check_source := false; ip_check_destination := true |}
  end.
Definition build_ip (ops : list iop) : ip_filter := fold_left if_step ops if_new.

Definition if_side (f : ip_filter) (a : ip) : bool :=
  match a with V4 x => contains_N (ipv4_addresses f) x | V6 x => contains_N (ipv6_addresses f) x end.
Definition if_matches (f : ip_filter) (src dst : ip) : bool :=
  (if ip_check_source f then if_side f src else false)
  || (if ip_check_destination f then if_side f dst else false).

(* `!(all_ones >> prefix)` truncated to the address width *)
Definition ones_w (w : N) : N := 2 ^ w - 1.
Definition net_mask (w prefix : N) : N := ones_w w - N.shiftr (ones_w w) prefix.
Definition net_contains (w : N) (net : N * N) (x : N) : bool :=
  let mask := net_mask w (snd net) in N.land x mask =? N.land (fst net) mask.

Definition sf_new : subnet_filter :=
  {| ipv4_subnets := []; ipv6_subnets := []; sn_check_source := true; sn_check_destination := true |}.
Definition sf_step (f : subnet_filter) (o : sop) : subnet_filter :=
  match o with
  | SAllow (V4 a) p => {| ipv4_subnets := ipv4_subnets f ++ [(a, p)]; ipv6_subnets := ipv6_subnets f;
                          sn_check_source := sn_check_source f; sn_check_destination := sn_check_destination f |}
  | SAllow (V6 a) p => {| ipv4_subnets := ipv4_subnets f; ipv6_subnets := ipv6_subnets f ++ [(a, p)];
                          sn_check_source := sn_check_source f; sn_check_destination := sn_check_destination f |}
  | SSrcOnly => {| ipv4_subnets := ipv4_subnets f; ipv6_subnets := ipv6_subnets f;
                   sn_check_source := true; sn_check_destination := false |}
  | SDstOnly => {| ipv4_subnets := ipv4_subnets f; ipv6_subnets := ipv6_subnets f;
                   sn_check_source := false; sn_check_destination := true |}
  end.
Definition build_sub (ops : list sop) : subnet_filter := fold_left sf_step ops sf_new.

Definition sf_side (f : subnet_filter) (a : ip) : bool :=
  match a with
  | V4 x => existsb (fun n => net_contains 32 n x) (ipv4_subnets f)
  | V6 x => existsb (fun n => net_contains 128 n x) (ipv6_subnets f)
  end.
Definition sf_matches (f : subnet_filter) (src dst : ip) : bool :=
  (if sn_check_source f then sf_side f src else false)
  || (if sn_check_destination f then sf_side f dst else false).

Definition build (c : cfg_src) : filter_config :=
  {| port_filter_ := option_map build_port (c_port c); ip_filter_ := option_map build_ip (c_ip c);
     subnet_filter_ := option_map build_sub (c_sub c); deny := c_deny c |}.

Definition opt_test {A} (o : option A) (t : A -> bool) : bool :=
  match o with Some f => t f | None => true end.

Definition should_process (c : filter_config) (src dst : ip) (sport dport : N) : bool :=
  match port_filter_ c, ip_filter_ c, subnet_filter_ c with
  | None, None, None => true
  | _, _, _ =>
    if deny c then
      let all_match := true in
      let all_match := match port_filter_ c with Some f => all_match && pf_matches f sport dport | None => all_match end in
      let all_match := match ip_filter_ c with Some f => all_match && if_matches f src dst | None => all_match end in
      let all_match := match subnet_filter_ c with Some f => all_match && sf_matches f src dst | None => all_match end in
      negb all_match
    else
      if negb (opt_test (port_filter_ c) (fun f => pf_matches f sport dport)) then false
      else if negb (opt_test (ip_filter_ c) (fun f => if_matches f src dst)) then false
      else if negb (opt_test (subnet_filter_ c) (fun f => sf_matches f src dst)) then false
      else true
  end.

Definition model_filter (c : cfg_src) (src dst : ip) (sport dport : N) : bool :=
  should_process (build c) src dst sport dport.
