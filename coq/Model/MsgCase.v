(* Text encoding of an abstract HTTP/1.x message head (Spec/Http1Grammar.v `msg`) inside case lines — the QM / SM
   grammar of Extract/EC05.v (the Rust side is harness/c05/src/ast.rs), repeated here so that C13's interpreter
   can read the same messages.  Definitions only.
     QM <method> <target hex|-> <0|1> <n> { <name hex|-> <ows hex|-> <value> <ows hex|-> }*n B <body hex|->
     SM <0|1> <status> <reason hex|-> <n> { ... }*n B <body hex|->
     <value> = r<hex> | l<item>,<item>,..  item = <pre hex>.<tag hex>.<n | w<o1 hex>_<o2 hex>_<q hex>>.<post hex>  (W: "Q=") *)
From Coq Require Import List NArith Bool.
From Coq Require Import Strings.Byte.
From HN Require Import Base.Bytes Base.Http1Text Spec.Http1Grammar.
Import ListNotations.
Open Scope N_scope.

Definition read_hex_dash (t : bytes) : option bytes := if bytes_eqb t (bs "-") then Some [] else read_hex t.

Definition parse_weight (t : bytes) : option (option (bytes * bytes * bytes) * bool) :=
  if bytes_eqb t (bs "n") then Some (None, false) else
  match t with
  | b :: r => if beqb b "w"%byte || beqb b "W"%byte then
                match split_byte "_"%byte r with
                | [a; c; q] => match read_hex a, read_hex c, read_hex q with
                               | Some a', Some c', Some q' => Some (Some (a', c', q'), beqb b "W"%byte)
                               | _, _, _ => None end
                | _ => None end
              else None
  | [] => None end.
Definition parse_item (t : bytes) : option lang_item :=
  match split_byte "."%byte t with
  | [a; g; w; p] => match read_hex a, read_hex g, parse_weight w, read_hex p with
                    | Some a', Some g', Some (w', up), Some p' =>
                        Some {| li_pre := a'; li_tag := g'; li_weight := w'; li_post := p'; li_qupper := up |}
                    | _, _, _, _ => None end
  | _ => None end.
Fixpoint all_some {A} (l : list (option A)) : option (list A) :=
  match l with
  | [] => Some []
  | Some x :: r => option_map (cons x) (all_some r)
  | None :: _ => None end.
Definition parse_value (t : bytes) : option hvalue :=
  match t with
  | b :: r => if beqb b "r"%byte then option_map VRaw (read_hex r)
              else if beqb b "l"%byte then
                match r with [] => Some (VLang []) | _ => option_map VLang (all_some (map parse_item (split_byte ","%byte r))) end
              else None
  | [] => None end.
Fixpoint parse_hlines (n : nat) (ts : list bytes) : option (list hline * list bytes) :=
  match n with
  | O => Some ([], ts)
  | S k => match ts with
           | a :: b :: c :: d :: r =>
               match read_hex_dash a, read_hex_dash b, parse_value c, read_hex_dash d, parse_hlines k r with
               | Some na, Some o1, Some v, Some o2, Some (hs, rest) =>
                   Some ({| hl_name := na; hl_ows1 := o1; hl_value := v; hl_ows2 := o2 |} :: hs, rest)
               | _, _, _, _, _ => None end
           | _ => None end
  end.
Definition parse_v (t : bytes) : option bool :=
  if bytes_eqb t (bs "1") then Some true else if bytes_eqb t (bs "0") then Some false else None.

(* tokens after the case kind: the message and its body *)
Definition parse_msg (ts : list bytes) : option (msg * bytes) :=
  match ts with
  | k :: a :: b :: c :: n :: rest =>
      let start :=
        if bytes_eqb k (bs "QM") then
          match read_hex_dash b, parse_v c with Some t, Some v => Some (SReq a t v) | _, _ => None end
        else if bytes_eqb k (bs "SM") then
          match parse_v a, read_hex_dash c with Some v, Some reason => Some (SResp v b reason) | _, _ => None end
        else None in
      match start, read_N n with
      | Some st, Some cnt =>
          if 200 <? cnt then None else
          match parse_hlines (N.to_nat cnt) rest with
          | Some (hs, [bt; body]) =>
              if bytes_eqb bt (bs "B") then
                match read_hex_dash body with
                | Some bd => Some ({| m_start := st; m_headers := hs |}, bd)
                | None => None end
              else None
          | _ => None end
      | _, _ => None end
  | _ => None end.
