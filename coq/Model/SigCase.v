(* Text encoding of signatures / observations inside case lines (C02, C12).  Definitions only.
   The Rust harnesses (harness/c12, harness/c02) parse and print the same grammar.

   tcp  :=  <ver>:<ttl>:<olen>:<mss>:<wsize>:<wscale>:<olayout>:<quirks>:<pclass>
     ver     4 | 6 | *
     ttl     v<n> | d<t>.<d> | g<n> | b<n>              Value | Distance | Guess | Bad       (u8)
     olen    <n>                                                                             (u8)
     mss     * | <n>                                     None | Some                          (u16)
     wsize   s<k> | t<k> | v<w> | m<n> | *               Mss | Mtu | Value | Mod | Any        (u8,u8,u16,u16)
     wscale  * | <n>                                                                          (u8)
     olayout - | <opt>,<opt>,…     opt := e<n> | n | m | w | k | a | t | u<n>
                                           Eol(n) Nop Mss Ws Sok Sack TS Unknown(n)
     quirks  - | <i>,<i>,…         i = position of the quirk in the enum of tcp.rs, 0..16
     pclass  0 | + | *
   http :=  <ver>:<headers>:<headers>:<expsw>            horder, habsent
     ver     0 | 1 | 2 | 3 | *                           V10 V11 V20 V30 Any
     headers - | <h>,<h>,…         h := (?|!)<name hex>[=<value hex>]     ? optional, ! required
     expsw   - | <hex>
   Numbers out of the Rust type's range do not parse (None). *)
From Coq Require Import List NArith Bool.
From Coq Require Import Strings.Byte.
From HN Require Import Base.Bytes Model.SigAst Model.Match.
Import ListNotations.
Open Scope N_scope.

(* linear-time splitting (Base.Bytes.fsplit reverses every token with the quadratic List.rev; case lines
   here carry whole databases).  fsplit sep l = fsplit sep l. *)
Fixpoint fsplit (sep : byte) (l : bytes) : list bytes :=
  match l with
  | [] => [[]]
  | b :: r =>
      match fsplit sep r with
      | cur :: rest => if beqb b sep then [] :: cur :: rest else (b :: cur) :: rest
      | [] => [[b]]
      end
  end.
Definition tokens (l : bytes) : list bytes := filter (fun f => match f with [] => false | _ => true end) (fsplit sp l).

Definition read_le (max : N) (b : bytes) : option N :=
  match read_N b with Some n => if n <=? max then Some n else None | None => None end.

Fixpoint map_opt {A B} (f : A -> option B) (l : list A) : option (list B) :=
  match l with
  | [] => Some []
  | x :: r => match f x, map_opt f r with Some y, Some t => Some (y :: t) | _, _ => None end
  end.
Definition is_dash (b : bytes) : bool := bytes_eqb b (bs "-").
Definition is_star (b : bytes) : bool := bytes_eqb b (bs "*").
Definition parse_list {A} (f : bytes -> option A) (b : bytes) : option (list A) :=
  if is_dash b then Some [] else map_opt f (fsplit ","%byte b).

Definition parse_ipver (b : bytes) : option ip_version :=
  if bytes_eqb b (bs "4") then Some IpV4 else if bytes_eqb b (bs "6") then Some IpV6
  else if is_star b then Some IpAny else None.
Definition parse_ttl (b : bytes) : option ttl :=
  match b with
  | c :: r =>
      if beqb c "v"%byte then option_map TtlValue (read_le 255 r)
      else if beqb c "g"%byte then option_map TtlGuess (read_le 255 r)
      else if beqb c "b"%byte then option_map TtlBad (read_le 255 r)
      else if beqb c "d"%byte then
        match fsplit "."%byte r with
        | [x; y] => match read_le 255 x, read_le 255 y with Some t, Some d => Some (TtlDistance t d) | _, _ => None end
        | _ => None end
      else None
  | [] => None end.
Definition parse_optnum (max : N) (b : bytes) : option (option N) :=
  if is_star b then Some None else option_map Some (read_le max b).
Definition parse_wsize (b : bytes) : option window_size :=
  if is_star b then Some WAny else
  match b with
  | c :: r =>
      if beqb c "s"%byte then option_map WMss (read_le 255 r)
      else if beqb c "t"%byte then option_map WMtu (read_le 255 r)
      else if beqb c "v"%byte then option_map WValue (read_le 65535 r)
      else if beqb c "m"%byte then option_map WMod (read_le 65535 r)
      else None
  | [] => None end.
Definition parse_tcpopt (b : bytes) : option tcp_option :=
  match b with
  | [c] =>
      if beqb c "n"%byte then Some ONop else if beqb c "m"%byte then Some OMss
      else if beqb c "w"%byte then Some OWs else if beqb c "k"%byte then Some OSok
      else if beqb c "a"%byte then Some OSack else if beqb c "t"%byte then Some OTS else None
  | c :: r =>
      if beqb c "e"%byte then option_map OEol (read_le 255 r)
      else if beqb c "u"%byte then option_map OUnknown (read_le 255 r) else None
  | [] => None end.
Definition all_quirks : list quirk :=
  [QDf; QNonZeroID; QZeroID; QEcn; QMustBeZero; QFlowID; QSeqNumZero; QAckNumNonZero; QAckNumZero; QNonZeroURG;
   QUrg; QPush; QOwnTimestampZero; QPeerTimestampNonZero; QTrailinigNonZero; QExcessiveWindowScaling; QOptBad].
Definition parse_quirk (b : bytes) : option quirk :=
  match read_le 16 b with Some i => nth_error all_quirks (N.to_nat i) | None => None end.
Definition parse_pclass (b : bytes) : option payload_size :=
  if bytes_eqb b (bs "0") then Some PZero else if bytes_eqb b (bs "+") then Some PNonZero
  else if is_star b then Some PAnySize else None.

Definition parse_tcp (b : bytes) : option tcp_sig :=
  match fsplit ":"%byte b with
  | [f0; f1; f2; f3; f4; f5; f6; f7; f8] =>
      do v <- parse_ipver f0; do t <- parse_ttl f1; do ol <- read_le 255 f2;
      do ms <- parse_optnum 65535 f3; do ws <- parse_wsize f4; do sc <- parse_optnum 255 f5;
      do lay <- parse_list parse_tcpopt f6; do qs <- parse_list parse_quirk f7; do pc <- parse_pclass f8;
      Some {| t_version := v; t_ittl := t; t_olen := ol; t_mss := ms; t_wsize := ws; t_wscale := sc;
              t_olayout := lay; t_quirks := qs; t_pclass := pc |}
  | _ => None end.

Definition parse_hver (b : bytes) : option http_version :=
  if bytes_eqb b (bs "0") then Some HV10 else if bytes_eqb b (bs "1") then Some HV11
  else if bytes_eqb b (bs "2") then Some HV20 else if bytes_eqb b (bs "3") then Some HV30
  else if is_star b then Some HVAny else None.
Definition parse_header (b : bytes) : option header :=
  match b with
  | c :: r =>
      do opt <- (if beqb c "?"%byte then Some true else if beqb c "!"%byte then Some false else None);
      match fsplit "="%byte r with
      | [n] => do name <- read_hex n; Some {| h_optional := opt; h_name := name; h_value := None |}
      | [n; v] => do name <- read_hex n; do val <- read_hex v;
                  Some {| h_optional := opt; h_name := name; h_value := Some val |}
      | _ => None end
  | [] => None end.
Definition parse_hexdash (b : bytes) : option bytes := if is_dash b then Some [] else read_hex b.
Definition parse_http (b : bytes) : option http_sig :=
  match fsplit ":"%byte b with
  | [f0; f1; f2; f3] =>
      do v <- parse_hver f0; do ho <- parse_list parse_header f1; do ha <- parse_list parse_header f2;
      do sw <- parse_hexdash f3;
      Some {| hs_version := v; hs_horder := ho; hs_habsent := ha; hs_expsw := sw |}
  | _ => None end.

(* result printers *)
Definition show_dist (score : N -> N) (r : option N) : bytes :=
  match r with Some d => show_N d ++ bs " " ++ show_quality (score d) | None => bs "NONE" end.
Definition show_fres (r : fres) : bytes :=
  match r with
  | FNone => bs "NONE"
  | FPanic => bs "PANIC"
  | FSome li si d q => show_N li ++ bs " " ++ show_N si ++ bs " " ++ show_N d ++ bs " " ++ show_quality q
  end.
