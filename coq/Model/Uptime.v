(* MODEL of huginn-net-tcp/src/uptime.rs (calculate_frequency_p0f_style, guess_frequency,
   round_frequency_p0f_style, calculate_uptime_from_frequency, check_ts_tcp) and of the part of
   tcp_process.rs that calls it (from_client, from_server, is_packet_from_client, is_valid, the
   TIMESTAMPS arm of visit_tcp) plus the role labelling of process.rs.  Definitions only.

   Numbers are Z with the Rust type's range as an invariant (u64 clock readings, u32 TSval,
   u16 ports, u8 flags).  Where the Rust code computes in f64 the model carries the EXACT
   real value as a non-negative rational num/den and decides every comparison, `.round()` and
   `as u32` on that exact value ("float separation assumption", see props/C19.json):
     - d * 1000.0 (d < 2^32) and every integer below 2^53 are exact in binary64;
     - every quotient that reaches a comparison, a round() or a truncation is a rational
       whose denominator is at most 15 * 600000 (ms_diff <= MAX_TWAIT, multiplier <= 15) resp.
       1500 * 86400 (freq <= 1500); it is therefore either exactly on the threshold - and then
       all intermediate values are integers or dyadic and the float computation is exact - or at
       least 1.1e-7 (resp. 7.7e-9 for the day counts) away from it, far above the accumulated
       binary64 error (a few ulp, < 1e-11 in these ranges). *)
From Coq Require Import List ZArith Bool.
Import ListNotations.
Open Scope Z_scope.

(* ---- constants of uptime.rs ---- *)
Definition MIN_TWAIT : Z := 25.
Definition MAX_TWAIT : Z := 600000.
Definition MIN_TS_DIFF : Z := 5.
Definition TSTAMP_GRACE : Z := 100.
Definition MAX_FINAL_HZ : Z := 1500.
Definition MIN_FINAL_HZ : Z := 1.
Definition GUESS_HZ_1K : Z := 1000.
Definition GUESS_HZ_100 : Z := 100.
(* GUESS_TOLERANCE = 0.10: base * 0.10 evaluates to exactly 100.0 resp. 10.0 in binary64; the
   model uses the rational 1/10 (see guess_frequency). *)

Definition U32 : Z := 4294967296.
Definition U32_MAX : Z := 4294967295.

(* u32::wrapping_sub, bitwise not on u32, u64::saturating_sub, f64 -> u32 `as` cast (saturating;
   the argument is already the floor of a non-negative value) *)
Definition wrapping_sub32 (a b : Z) : Z := (a - b) mod U32.
Definition not32 (x : Z) : Z := U32_MAX - x.
Definition saturating_sub (a b : Z) : Z := Z.max 0 (a - b).
Definition sat32 (x : Z) : Z := Z.min x U32_MAX.

(* exact value of an f64 expression: qn / qd with qd > 0 *)
Record q := { qn : Z; qd : Z }.
Definition q_of_Z (z : Z) : q := {| qn := z; qd := 1 |}.
Definition q_le (a b : q) : bool := qn a * qd b <=? qn b * qd a.
Definition q_lt (a b : q) : bool := qn a * qd b <? qn b * qd a.
Definition q_floor (a : q) : Z := qn a / qd a.
(* f64::round: half away from zero; only used on non-negative values *)
Definition q_round (a : q) : Z := (2 * qn a + qd a) / (2 * qd a).

(* ---- TcpTimestamp ---- *)
Record tcp_timestamp := { ts_val : Z; recv_time_ms : Z; is_bad_frequency : bool }.
(* TcpTimestamp::now with the clock reading supplied by the history (hook) *)
Definition ts_now (v now : Z) : tcp_timestamp :=
  {| ts_val := v; recv_time_ms := now; is_bad_frequency := false |}.
Definition bad_frequency_marker : tcp_timestamp :=
  {| ts_val := 0; recv_time_ms := 0; is_bad_frequency := true |}.

(* (MAX_FINAL_HZ / TSTAMP_GRACE as f64) * 1000.0 = 15.0 * 1000.0, exact *)
Definition max_backward_ticks : Z := MAX_FINAL_HZ / TSTAMP_GRACE * 1000.

(* Result<Option<f64>, String>:  Ok(Some raw) | Ok(None) = keep waiting | Err _ *)
Inductive freq_result := FreqOk (raw : q) | FreqWait | FreqErr.

Definition calculate_frequency_p0f_style (current reference : tcp_timestamp) : freq_result :=
  let ms_diff := saturating_sub (recv_time_ms current) (recv_time_ms reference) in
  let ts_diff := wrapping_sub32 (ts_val current) (ts_val reference) in
  if ms_diff <? MIN_TWAIT then FreqErr
  else if MAX_TWAIT <? ms_diff then FreqErr
  else
    let is_backward := not32 ts_diff <? ts_diff in
    let guards_pass :=
      if is_backward then
        let inverted_diff := not32 ts_diff in
        if inverted_diff <? MIN_TS_DIFF then false
        else if (ms_diff <? TSTAMP_GRACE) && (max_backward_ticks <? inverted_diff) then false
        else true
      else true in
    if negb guards_pass then FreqErr
    else
      let effective_ms_diff := Z.max ms_diff 1 in
      let raw_freq :=
        if not32 ts_diff <? ts_diff
        then {| qn := - (not32 ts_diff * 1000); qd := effective_ms_diff |}   (* -(inverted as f64 * 1000.0) / ms: negative, as in p0f *)
        else {| qn := ts_diff * 1000; qd := effective_ms_diff |} in
      if negb (q_le (q_of_Z MIN_FINAL_HZ) raw_freq && q_le raw_freq (q_of_Z MAX_FINAL_HZ)) then FreqErr
      (* forward movement at a plausible rate, but on fewer than MIN_TS_DIFF ticks: wait for more *)
      else if ts_diff <? MIN_TS_DIFF then FreqWait
      else FreqOk raw_freq.

(* guess_frequency(raw_freq, base_guess, 0.10); is_finite always holds for a rational *)
Definition guess_frequency (raw_freq : q) (base_guess : Z) : option Z :=
  if (qn raw_freq <=? 0) || (base_guess <=? 0) then None
  else
    let multiplier := q_round {| qn := qn raw_freq; qd := qd raw_freq * base_guess |} in
    if multiplier <=? 0 then None
    else
      let normalized := {| qn := qn raw_freq; qd := qd raw_freq * multiplier |} in
      (* (normalized - base_guess).abs() <= base_guess * tolerance,  tolerance = 1/10 *)
      if 10 * Z.abs (qn normalized - base_guess * qd normalized) <=? base_guess * qd normalized
      then Some (base_guess * multiplier) else None.

(* round_frequency_p0f_style; saturating_* on u32 *)
Definition round_frequency_p0f_style (freq : q) : Z :=
  let freq := sat32 (q_floor freq) in
  if freq =? 0 then 1
  else if freq <=? 10 then freq
  else if freq <=? 50 then sat32 (sat32 (freq + 3) / 5 * 5)
  else if freq <=? 100 then sat32 (sat32 (freq + 7) / 10 * 10)
  else if freq <=? 500 then sat32 (sat32 (freq + 33) / 50 * 50)
  else sat32 (sat32 (freq + 67) / 100 * 100).

(* the `final_freq` expression of check_ts_tcp (identical in the client and server arm) *)
Definition final_frequency (raw_freq : q) : Z :=
  match guess_frequency raw_freq GUESS_HZ_1K with
  | Some f => f
  | None => match guess_frequency raw_freq GUESS_HZ_100 with
            | Some f => f
            | None => round_frequency_p0f_style raw_freq
            end
  end.

(* ObservableUptime; freq is an f64 holding an integer *)
Record uptime := { u_freq : Z; u_days : Z; u_hours : Z; u_min : Z; u_mod_days : Z }.

(* calculate_uptime_from_frequency on exact reals: uptime_seconds = ts_val / freq_hz (not floored),
   x % m is the real remainder, `as u32` truncates *)
Definition calculate_uptime_from_frequency (tsv freq_hz : Z) : uptime :=
  {| u_freq := freq_hz;
     u_days := sat32 (tsv / (freq_hz * 86400));
     u_hours := sat32 ((tsv mod (freq_hz * 86400)) / (freq_hz * 3600));
     u_min := sat32 ((tsv mod (freq_hz * 3600)) / (freq_hz * 60));
     u_mod_days := sat32 (U32_MAX / (freq_hz * 60 * 60 * 24)) |}.

(* ---- connection tracker: TtlCache<ConnectionKey, TcpTimestamp> without expiry/eviction ---- *)
Record connection := { src_ip : Z; src_port : Z; dst_ip : Z; dst_port : Z }.
Definition connection_key : Type := connection * bool.     (* (connection, is_client) *)
Definition conn_eqb (a b : connection) : bool :=
  (src_ip a =? src_ip b) && (src_port a =? src_port b) && (dst_ip a =? dst_ip b) && (dst_port a =? dst_port b).
Definition key_eqb (a b : connection_key) : bool := conn_eqb (fst a) (fst b) && Bool.eqb (snd a) (snd b).
Definition cache := list (connection_key * tcp_timestamp).
Fixpoint cache_get (c : cache) (k : connection_key) : option tcp_timestamp :=
  match c with
  | [] => None
  | (k', v) :: r => if key_eqb k' k then Some v else cache_get r k
  end.
Fixpoint cache_remove (c : cache) (k : connection_key) : cache :=
  match c with
  | [] => []
  | (k', v) :: r => if key_eqb k' k then cache_remove r k else (k', v) :: cache_remove r k
  end.
(* insert replaces an existing entry and makes it the newest *)
Definition cache_insert (c : cache) (k : connection_key) (v : tcp_timestamp) : cache :=
  cache_remove c k ++ [(k, v)].

(* check_ts_tcp: the client and the server arm are the same code up to the position of the
   result in the returned pair. `now` is the reading TcpTimestamp::now takes (exactly one per call). *)
Definition check_ts_tcp (tracker : cache) (conn : connection) (from_client : bool) (tsv now : Z)
  : cache * (option uptime * option uptime) :=
  let tracking_key := (conn, from_client) in
  let current_ts := ts_now tsv now in
  match cache_get tracker tracking_key with
  | Some reference_ts =>
      if is_bad_frequency reference_ts then (tracker, (None, None))
      else
        match calculate_frequency_p0f_style current_ts reference_ts with
        | FreqOk raw_freq =>
            let uptime_info := calculate_uptime_from_frequency tsv (final_frequency raw_freq) in
            (tracker, if from_client then (Some uptime_info, None) else (None, Some uptime_info))
        | FreqWait => (tracker, (None, None))          (* reference kept, no marker *)
        | FreqErr => (cache_insert tracker tracking_key bad_frequency_marker, (None, None))
        end
  | None => (cache_insert tracker tracking_key current_ts, (None, None))
  end.

(* ---- tcp_process.rs ---- *)
Definition FIN : Z := 1.
Definition SYN : Z := 2.
Definition RST : Z := 4.
Definition ACK : Z := 16.
Definition from_client (tcp_flags : Z) : bool :=
  negb (Z.land tcp_flags SYN =? 0) && (Z.land tcp_flags ACK =? 0).
Definition from_server (tcp_flags : Z) : bool :=
  negb (Z.land tcp_flags SYN =? 0) && negb (Z.land tcp_flags ACK =? 0).
Definition is_packet_from_client (tcp_flags src_p dst_p : Z) : bool :=
  if from_client tcp_flags then true
  else if from_server tcp_flags then false
  else (1024 <? src_p) && (dst_p <=? 1024).
Definition is_valid (tcp_flags tcp_type : Z) : bool :=
  negb (((Z.land tcp_flags SYN =? SYN) && negb (Z.land tcp_flags (Z.lor FIN RST) =? 0))
        || (Z.land tcp_flags (Z.lor FIN RST) =? Z.lor FIN RST)
        || (tcp_type =? 0)).

(* one TCP segment carrying exactly one well-formed timestamp option (kind 8, length 10) *)
Record segment := { sg_flags : Z; sg_conn : connection; sg_tsval : Z; sg_tsecr : Z }.

Inductive role := Client | Server.
Inductive seg_result :=
| RErr                                   (* process_tcp_ipv4 returned Err (invalid flag combination) *)
| ROut (client_uptime server_uptime : option uptime).

(* visit_tcp restricted to what reaches TcpAnalysisResult.client_uptime/.server_uptime: the flag check
   comes first (no clock reading is taken on Err), then the TIMESTAMPS arm calls check_ts_tcp.
   process.rs copies client_uptime with role Client and server_uptime with role Server. *)
Definition process_segment (tracker : cache) (s : segment) (now : Z) : cache * seg_result :=
  let flags := sg_flags s in
  let tcp_type := Z.land flags (Z.lor (Z.lor SYN ACK) (Z.lor FIN RST)) in
  if negb (is_valid flags tcp_type) then (tracker, RErr)
  else
    let c := sg_conn s in
    let is_from_client := is_packet_from_client flags (src_port c) (dst_port c) in
    let '(tracker', (cli, srv)) := check_ts_tcp tracker c is_from_client (sg_tsval s) now in
    (tracker', ROut cli srv).

(* a history on one tracker: segments with the clock reading taken while each is processed *)
Fixpoint run_history (tracker : cache) (h : list (segment * Z)) : list seg_result :=
  match h with
  | [] => []
  | (s, now) :: r => let '(tracker', o) := process_segment tracker s now in o :: run_history tracker' r
  end.
Fixpoint final_tracker (tracker : cache) (h : list (segment * Z)) : cache :=
  match h with
  | [] => tracker
  | (s, now) :: r => final_tracker (fst (process_segment tracker s now)) r
  end.

(* the estimator on a pair of observations (reference first), as check_ts_tcp applies it *)
Inductive eval_result := EvEst (u : uptime) | EvWait | EvBad.
Definition model_eval (t1 v1 t2 v2 : Z) : eval_result :=
  match calculate_frequency_p0f_style (ts_now v2 t2) (ts_now v1 t1) with
  | FreqOk raw => EvEst (calculate_uptime_from_frequency v2 (final_frequency raw))
  | FreqWait => EvWait
  | FreqErr => EvBad
  end.
(* what is reported *)
Definition model_estimate (t1 v1 t2 v2 : Z) : option uptime :=
  match model_eval t1 v1 t2 v2 with EvEst u => Some u | _ => None end.
