(* C01 (e) -- panic-explicit models of the small arithmetic helpers around the option walk.
   Definitions only.
     huginn-net-tcp/src/window_size.rs  detect_win_multiplicator   (u16 `%` and `/`, `as u8`)
     huginn-net-tcp/src/mtu.rs          extract_from_ipv4/ipv6      (saturating only)
     huginn-net-tcp/src/ip_options.rs   calculate_ipv4_length / calculate_ipv6_length (`payload[1]`, `as u8`)
   and the tail of visit_tcp that combines them with the walk result. *)
From Coq Require Import List NArith Bool.
From Coq Require Import Strings.Byte.
From HN Require Import Base.Bytes Model.TotalBase Model.TotalTcpOpt.
Import ListNotations.
Open Scope N_scope.

Inductive wsize := WValue (n : N) | WMss (n : N) | WMod (n : N) | WMtu (n : N).

(* macro check_{mss,mtu}_div!:  if $div != 0 && window_size % $div == 0 { let m = window_size / $div;
                                   if m <= 255 { return X(m as u8) } }          -> Some m when it returns *)
Definition check_div (w d : N) : R (option N) :=
  if negb (d =? 0) then
    r <- rem_chk w d ;;
    if r =? 0 then
      m <- div_chk w d ;;
      if m <=? 255 then Ok (Some (cast_u8 m)) else Ok None
    else Ok None
  else Ok None.

(* early return: if the check produced a value, return it, else continue *)
Definition or_else (x : R (option N)) (wrap : N -> wsize) (k : R wsize) : R wsize :=
  o <- x ;; match o with Some m => Ok (wrap m) | None => k end.

(* `for &modulo in [256,512,1024,2048,4096].iter().rev()`: checked_rem(modulo) == Some(0) *)
Fixpoint first_modulo (w : N) (ms : list N) : option N :=
  match ms with
  | [] => None
  | m :: r => if negb (m =? 0) && (w mod m =? 0) then Some m else first_modulo w r
  end.

(* 4. special MTU cases *)
Definition win_stage4 (window mss total_header min_tcp : N) : R wsize :=
  if 0 <? mss then
    if 0 <? total_header then
      (* `if let Some(mtu) = mss.checked_add(total_header) { check_mtu_div!(mtu) }` *)
      if mss + total_header <=? u16_max then
        or_else (check_div window (mss + total_header)) WMtu (Ok (WValue window))
      else Ok (WValue window)
    else
      or_else (check_div window (sat_add u16_max mss min_tcp)) WMtu (Ok (WValue window))
  else Ok (WValue window).
(* 3. MTU multiples: ETH_MTU, ETH_MTU - MIN_TCPx, ETH_MTU - MIN_TCPx - TS_SIZE *)
Definition win_stage3 (window mss total_header : N) (has_ts v6 : bool) : R wsize :=
  or_else (check_div window 1500) WMtu (
    let min_tcp := if v6 then 60 else 40 in
    a <- sub_chk 1500 min_tcp ;;
    or_else (check_div window a) WMtu (
      if has_ts then
        b <- sub_chk a 12 ;;
        or_else (check_div window b) WMtu (win_stage4 window mss total_header min_tcp)
      else win_stage4 window mss total_header min_tcp)).
(* 2. common modulo patterns, largest first *)
Definition win_stage2 (window mss total_header : N) (has_ts v6 : bool) : R wsize :=
  match first_modulo window [4096; 2048; 1024; 512; 256] with
  | Some m => Ok (WMod m)
  | None => win_stage3 window mss total_header has_ts v6
  end.
(* 1. MSS multiples, then the rest *)
Definition detect_win (window mss total_header : N) (has_ts v6 : bool) : R wsize :=
  if (window =? 0) || (mss <? 100) then Ok (WValue window) else
  let k := win_stage2 window mss total_header has_ts v6 in
  if 0 <? mss then
    or_else (check_div window mss) WMss
      (if has_ts && (12 <? mss) then or_else (check_div window (sat_sub mss 12)) WMss k else k)
  else k.

(* mtu.rs: Some(value) iff the SYN flag is set *)
Definition mtu_of (flags ip_header_bytes data_offset mss : N) : option N :=
  if N.land flags 2 =? 2 then
    let t := sat_mul u16_max data_offset 4 in
    let t' := if 20 <? t then sat_sub t 20 else t in
    Some (sat_add u16_max (sat_add u16_max mss ip_header_bytes) t')
  else None.
Definition mtu_v4 (flags ihl data_offset mss : N) : option N := mtu_of flags (sat_mul u16_max ihl 4) data_offset mss.
Definition mtu_v6 (flags data_offset mss : N) : option N := mtu_of flags 40 data_offset mss.

(* ip_options.rs *)
Definition ipv4_olen (ihl : N) : N := if 5 <? ihl then sat_mul u8_max (sat_sub ihl 5) 4 else 0.
(* pnet Ipv6Packet::payload(): packet[40 .. min(40 + payload_length, len)] unless len <= 40 *)
Definition ipv6_payload (p : bytes) : R bytes :=
  if len p <=? 40 then Ok [] else
  l0 <- idx p 4 ;; l1 <- idx p 5 ;;
  slice p 40 (N.min (40 + be16 l0 l1) (len p)).
(* calculate_ipv6_length on an Ipv6Packet view (len >= 40) *)
Definition ipv6_olen (p : bytes) : R N :=
  nh <- idx p 6 ;;
  if b2n nh =? 6 then Ok 0 else
  pl <- ipv6_payload p ;;
  match pl with
  | [] => Ok 0
  | _ =>
    if b2n nh =? 44 then Ok (cast_u8 8) else
    if 2 <=? len pl then
      h <- idx pl 1 ;;
      Ok (cast_u8 ((b2n h + 1) * 8))       (* checked_add(1).and_then(checked_mul(8)).unwrap_or(0) on usize: never None *)
    else Ok (cast_u8 0)
  end.

(* ---- visit_tcp for an IPv4 segment: walk + mtu + window size ---- *)
Record tcpsum := { ts_opts : ostate; ts_win : wsize; ts_mtu : option N }.
Definition has_ts (s : ostate) : bool := existsb (fun o => match o with OTs => true | _ => false end) (os_lay s).
Definition from_client (flags : N) : bool := negb (N.land flags 2 =? 0) && (N.land flags 16 =? 0).
Definition visit_tcp_v4 (flags window ihl data_offset : N) (opts : bytes) : R tcpsum :=
  st <- visit_opts flags opts ;;
  let mtu := match os_mss st with Some m => mtu_v4 flags ihl data_offset m | None => None end in
  (* `min_total_header`: 40 for IPv4 (minimal IP + TCP header bytes); `ihl` only reaches mtu.rs *)
  w <- detect_win window (match os_mss st with Some m => m | None => 0 end) 40 (has_ts st) false ;;
  Ok {| ts_opts := st; ts_win := w; ts_mtu := if from_client flags then mtu else None |}.

Definition show_wsize (w : wsize) : bytes :=
  match w with
  | WValue n => bs "v" ++ show_N n | WMss n => bs "mss*" ++ show_N n
  | WMod n => bs "mod" ++ show_N n | WMtu n => bs "mtu*" ++ show_N n end.
Definition show_tcpsum (s : tcpsum) : bytes :=
  show_ostate (ts_opts s) ++ bs " win=" ++ show_wsize (ts_win s) ++ bs " mtu=" ++ show_opt_N (ts_mtu s).
