(* The TLS analyzer's per-connection state, for C11:
     huginn-net-tls/src/tls_client_hello_reader.rs   TlsClientHelloReader::add_bytes / reset
     huginn-net-tls/src/process.rs                    process_tcp_packet (flow table of readers)
     huginn-net-tls/src/tls_process.rs                is_tls_traffic
   `parse_tls_client_hello` (tls-parser + signature extraction) is a Section variable returning only
   the shape of its result: Ok(Some _) / Ok(None) / Err(_).  Current code = after fix 653a6f2 (the
   buffer is cleared when its first byte is not 0x16).  Expiry by TTL (20 s) is outside the model.
   Definitions only. *)
From Coq Require Import List NArith Bool.
From Coq Require Import Strings.Byte.
From HN Require Import Base.Bytes Base.Cache Model.HttpFlow.
Import ListNotations.
Open Scope N_scope.

Inductive tls_parse := TSome | TNone | TErr.          (* Result<Option<Signature>, _> of parse_tls_client_hello *)
Inductive rres := RSome | RNone | RErr.               (* Result<Option<Signature>, _> of add_bytes *)

(* struct TlsClientHelloReader { buffer, signature } *)
Record reader := mkReader { r_buf : bytes; r_sig : bool }.
Definition reader_new : reader := mkReader [] false.

Definition byte_at (l : bytes) (i : nat) : N := match nth_error l i with Some b => b2n b | None => 0 end.
(* record_len.saturating_add(5) *)
Definition needed (buf : bytes) : N := byte_at buf 3 * 256 + byte_at buf 4 + 5.

Section Tls.
  Variable parse : bytes -> tls_parse.

  (* TlsClientHelloReader::add_bytes, in the order of its checks *)
  Definition add_bytes (r : reader) (data : bytes) : reader * rres :=
    if r_sig r then (r, RNone)
    else
      let buf := r_buf r ++ data in
      if shorter_than 5 buf then (mkReader buf false, RNone)
      else if negb (byte_at buf 0 =? 22) then (mkReader [] false, RNone)          (* buffer.clear() *)
      else if len_N buf <? needed buf then (mkReader buf false, RNone)
      else if 65536 <? needed buf then (mkReader [] false, RErr)                  (* reset(), "record too large" *)
      else match parse (firstn (N.to_nat (needed buf)) buf) with
           | TSome => (mkReader (skipn (N.to_nat (needed buf)) buf) true, RSome)  (* drain(..needed) *)
           | TNone => (mkReader [] false, RNone)                                  (* reset() *)
           | TErr => (mkReader buf false, RErr)                                   (* buffer kept *)
           end.

  (* tls_process.rs is_tls_traffic *)
  Definition is_tls_traffic (p : bytes) : bool :=
    if shorter_than 5 p then false
    else if byte_at p 0 =? 22 then
      let v := byte_at p 1 * 256 + byte_at p 2 in (768 <=? v) && (v <=? 772)
    else false.

  Definition tstate := cache fkey reader.
  Inductive tout := TOutNone | TOutSome | TOutErr.    (* Ok(None) / Ok(Some(output)) / Err *)

  (* process.rs process_tcp_packet *)
  Definition tstep (st : tstate) (p : segment) : tstate * tout :=
    let flow_key : fkey := (g_src p, g_dst p, g_sport p, g_dport p) in
    match g_pay p with
    | [] => (st, TOutNone)
    | _ :: _ =>
        let has_active := cache_contains fkey_eqb st flow_key in
        if negb (has_active || is_tls_traffic (g_pay p)) then (st, TOutNone)
        else
          let '(st1, found) :=
            match cache_get fkey_eqb st flow_key with
            | Some r => (st, Some r)
            | None => let st1 := cache_insert fkey_eqb st flow_key reader_new in
                      (st1, cache_get fkey_eqb st1 flow_key)
            end in
          match found with
          | None => (st1, TOutErr)            (* "Failed to retrieve flow after insert" (capacity 0) *)
          | Some r =>
              match add_bytes r (g_pay p) with
              | (_, RSome) => (cache_remove fkey_eqb st1 flow_key, TOutSome)
              | (r', RNone) => (cache_update fkey_eqb st1 flow_key r', TOutNone)
              | (_, RErr) => (cache_remove fkey_eqb st1 flow_key, TOutNone)
              end
          end
    end.

  Fixpoint trun (st : tstate) (tr : list segment) : tstate * list tout :=
    match tr with
    | [] => (st, [])
    | p :: r => let '(st1, o) := tstep st p in let '(st2, os) := trun st1 r in (st2, o :: os)
    end.

  (* the reader used on its own (public API), one call per chunk *)
  Fixpoint reader_run (r : reader) (chunks : list bytes) : reader * list rres :=
    match chunks with
    | [] => (r, [])
    | c :: cs => let '(r1, o) := add_bytes r c in let '(r2, os) := reader_run r1 cs in (r2, o :: os)
    end.
End Tls.
