(* C11 resource measures over the analyzer models, defined alongside each step function.

   retained = payload bytes (HTTP: stored segments of all flows; TLS: reader buffers) or records (TCP
              tracker) the state keeps after a packet;
   cost     = bytes copied + bytes scanned while handling one packet, as a LOWER bound of what the
              code does (so that growth of `cost` is growth of real work):
     HTTP (http_process.rs): Vec::from(payload) = |p|; when the segment is stored:
              get_full_data clones every stored segment (|full|) and concatenates them (|full|),
              and at least one parser pass scans the rebuilt stream (|full|; has_complete_http_data
              calls parse_request, maybe parse_response, then the parse again) => |p| + 3*|full|,
              where |full| = td_bytes of the stored segments (= length of get_full_data's result,
              lemma full_data_len in Proofs/CostProofs.v).
     TLS (tls_client_hello_reader.rs): extend_from_slice = |p|; a parse only when the record is
              complete and <= 64 KiB = needed; drain moves the rest.
   Allocator behaviour, Vec growth policy and LinkedHashMap overhead are outside the model.
   Definitions only. *)
From Coq Require Import List NArith Bool.
From Coq Require Import Strings.Byte.
From HN Require Import Base.Bytes Base.Cache Base.Tcp Model.HttpFlow Model.TlsFlow Model.Tracker.
Import ListNotations.
Open Scope N_scope.

Definition sum_N (l : list N) : N := fold_right N.add 0 l.

(* ---- HTTP ---- *)
Definition td_bytes (l : list tcpdata) : N := sum_N (map (fun d => len_N (td_data d)) l).
Definition flow_retained (f : tcpflow) : N := td_bytes (f_cdata f) + td_bytes (f_sdata f).
Definition retained_http (st : state) : N := sum_N (map (fun kv => flow_retained (snd kv)) (c_entries st)).

Section HttpCost.
  Context {Req Resp : Type}.
  Variable parse_req : bytes -> option Req.
  Variable parse_resp : bytes -> option Resp.

  (* mirrors the branching of HttpFlow.on_flow *)
  Definition cost_on_flow (p : segment) (f : tcpflow) (is_client : bool) : N :=
    match g_pay p with
    | [] => 0
    | _ :: _ =>
        let td := mkTd (g_seq p) (g_pay p) in
        if is_client && (g_src p =? f_cip f) && (g_sport p =? f_cport f) then
          if negb (f_cparsed f) && negb (is_retrans (f_cdata f) td) then len_N (g_pay p) + 3 * td_bytes (f_cdata f ++ [td])
          else len_N (g_pay p)
        else if (g_src p =? f_sip f) && (g_sport p =? f_sport f) then
          if negb (f_sparsed f) && negb (is_retrans (f_sdata f) td)
          then len_N (g_pay p) + 3 * td_bytes (if is_client then f_cdata f else f_sdata f ++ [td])
          else len_N (g_pay p)
        else len_N (g_pay p)
    end.

  (* mirrors HttpFlow.step *)
  Definition cost_http (st : state) (p : segment) : N :=
    let flow_key : fkey := (g_src p, g_dst p, g_sport p, g_dport p) in
    let rev_key : fkey := (g_dst p, g_src p, g_dport p, g_sport p) in
    match cache_get fkey_eqb st flow_key with
    | Some f => cost_on_flow p f true
    | None =>
        match cache_get fkey_eqb st rev_key with
        | Some f => cost_on_flow p f false
        | None => if g_syn p then len_N (g_pay p) else 0
        end
    end.

  (* (report kind, retained after, cost) per packet *)
  Fixpoint http_profile (st : state) (tr : list segment) : state * list (hout Req Resp * N * N) :=
    match tr with
    | [] => (st, [])
    | p :: r => let c := cost_http st p in
                let '(st1, o) := step parse_req parse_resp st p in
                let ret := retained_http st1 in      (* before the recursive call: st1 must not stay live in the frame *)
                let '(st2, l) := http_profile st1 r in
                (st2, (o, ret, c) :: l)
    end.
End HttpCost.

(* ---- TLS ---- *)
Definition retained_tls (st : tstate) : N := sum_N (map (fun kv => len_N (r_buf (snd kv))) (c_entries st)).

Section TlsCost.
  Variable parse : bytes -> tls_parse.

  (* mirrors add_bytes *)
  Definition cost_add_bytes (r : reader) (data : bytes) : N :=
    if r_sig r then 0
    else
      let buf := r_buf r ++ data in
      if shorter_than 5 buf then len_N data
      else if negb (byte_at buf 0 =? 22) then len_N data
      else if len_N buf <? needed buf then len_N data
      else if 65536 <? needed buf then len_N data
      else len_N data + needed buf + (len_N buf - needed buf).

  Definition cost_tls (st : tstate) (p : segment) : N :=
    let flow_key : fkey := (g_src p, g_dst p, g_sport p, g_dport p) in
    match g_pay p with
    | [] => 0
    | _ :: _ =>
        if negb (cache_contains fkey_eqb st flow_key || is_tls_traffic (g_pay p)) then 0
        else match cache_get fkey_eqb st flow_key with
             | Some r => cost_add_bytes r (g_pay p)
             | None => cost_add_bytes reader_new (g_pay p)
             end
    end.

  Fixpoint tls_profile (st : tstate) (tr : list segment) : tstate * list (tout * N * N) :=
    match tr with
    | [] => (st, [])
    | p :: r => let c := cost_tls st p in
                let '(st1, o) := tstep parse st p in
                let ret := retained_tls st1 in
                let '(st2, l) := tls_profile st1 r in
                (st2, (o, ret, c) :: l)
    end.
End TlsCost.

(* ---- TCP uptime tracker: records, not bytes ---- *)
Definition retained_tcp (t : tracker) : N := cache_len t.
