(* Canonical text of what the HTTP/2 analysis reports (used by the C16 case interpreter and by the
   packet-level HTTP analyzer instance Model/HttpH2.v).  Text fields: [A-Za-z0-9._/-] literally, other
   bytes %xx; absent = ~.  Definitions only. *)
From Coq Require Import List NArith Bool.
From Coq Require Import Strings.Byte.
From HN Require Import Base.Bytes Model.H2Text Model.H2Msg.
Import ListNotations.
Open Scope N_scope.

Definition tilde : bytes := bs "~".
Definition safe_char (b : byte) : bool :=
  let n := b2n b in
  ((48 <=? n) && (n <=? 57)) || ((65 <=? n) && (n <=? 90)) || ((97 <=? n) && (n <=? 122))
  || (n =? 45) || (n =? 46) || (n =? 95) || (n =? 47).
Definition escs_byte (b : byte) : bytes := if safe_char b then [b] else "%"%byte :: show_hex [b].
Definition escs (t : bytes) : bytes := flat_map escs_byte t.
Definition escs_opt (o : option bytes) : bytes := match o with Some t => escs t | None => tilde end.

Definition show_hhdr (h : hhdr) : bytes := show_N (h_pos h) ++ bs ":" ++ escs (h_name h) ++ bs ":" ++ escs_opt (h_value h).
Definition show_cookie (c : cookie) : bytes := show_N (c_pos c) ++ bs ":" ++ escs (c_name c) ++ bs ":" ++ escs_opt (c_value c).
Definition show_al (o : option bytes) : bytes :=
  match o with Some v => bs "{al:" ++ show_hex v ++ bs "}" | None => tilde end.
Definition show_req (v : req_view) : bytes :=
  escs (v_method v) ++ bs " " ++ escs (v_path v) ++ bs " auth=" ++ escs_opt (v_authority v)
  ++ bs " scheme=" ++ escs_opt (v_scheme v)
  ++ bs " hdr=" ++ join (bs ",") (map show_hhdr (v_headers v))
  ++ bs " cookies=" ++ join (bs ",") (map show_cookie (v_cookies v))
  ++ bs " referer=" ++ escs_opt (v_referer v) ++ bs " ua=" ++ escs_opt (v_user_agent v)
  ++ bs " lang=" ++ show_al (v_accept_language v) ++ bs " sig=" ++ escs (v_signature v).
Definition show_resp (w : resp_view) : bytes :=
  show_N (w_status w) ++ bs " hdr=" ++ join (bs ",") (map show_hhdr (w_headers w)) ++ bs " sig=" ++ escs (w_signature w).
Definition show_pres {A} (f : A -> bytes) (r : pres A) : bytes :=
  match r with POk a => f a | PNone => bs "NONE" | PErr => bs "ERR" | PPanic => bs "PANIC" end.

(* what is visible through ObservableHttpRequest (no authority / scheme): the token of the packet-level
   analyzer *)
Definition show_req_obs (v : req_view) : bytes :=
  escs (v_method v) ++ bs " " ++ escs (v_path v)
  ++ bs " hdr=" ++ join (bs ",") (map show_hhdr (v_headers v))
  ++ bs " cookies=" ++ join (bs ",") (map show_cookie (v_cookies v))
  ++ bs " referer=" ++ escs_opt (v_referer v) ++ bs " ua=" ++ escs_opt (v_user_agent v)
  ++ bs " lang=" ++ show_al (v_accept_language v) ++ bs " sig=" ++ escs (v_signature v).

(* the same without the language field (for interpreters that have no post step: EC20 kind U) *)
Definition show_req_obs_nl (v : req_view) : bytes :=
  escs (v_method v) ++ bs " " ++ escs (v_path v)
  ++ bs " hdr=" ++ join (bs ",") (map show_hhdr (v_headers v))
  ++ bs " cookies=" ++ join (bs ",") (map show_cookie (v_cookies v))
  ++ bs " referer=" ++ escs_opt (v_referer v) ++ bs " ua=" ++ escs_opt (v_user_agent v)
  ++ bs " sig=" ++ escs (v_signature v).
