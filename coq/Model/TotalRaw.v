(* C01 (d) -- panic-explicit models of the raw-filter quick extraction and of the offset computations of
   the three dispatch hashes.  Definitions only.
     huginn-net-{tcp,tls,http}/src/raw_filter.rs   (three identical copies) extract_quick_info and helpers
     huginn-net-tcp/src/packet_hash.rs              hash_source_ip
     huginn-net-tls/src/packet_hash.rs              hash_flow (Option)
     huginn-net-http/src/packet_hash.rs             hash_flow (with fallbacks and ordered endpoints)
   The SipHash of std's DefaultHasher is not modelled: a hash model returns the *identity* that is hashed
   (the harness applies the real hasher to it).  Little-endian target assumed for `u32::from_ne_bytes`. *)
From Coq Require Import List NArith Bool.
From Coq Require Import Strings.Byte.
From HN Require Import Base.Bytes Model.TotalBase.
Import ListNotations.
Open Scope N_scope.

(* n successive single-byte index operations packet[a], packet[a+1], ... *)
Fixpoint idxs (l : bytes) (a : N) (n : nat) : R bytes :=
  match n with
  | O => Ok []
  | S k => b <- idx l a ;; r <- idxs l (a + 1) k ;; Ok (b :: r)
  end.

Record qinfo := { q_src : bytes; q_dst : bytes; q_sp : N; q_dp : N }.

Definition extract_ipv4_info (p : bytes) : R (option qinfo) :=
  if len p <? 20 then Ok None else
  pr <- idx p 9 ;;
  if negb (b2n pr =? 6) then Ok None else
  src <- idxs p 12 4 ;;
  dst <- idxs p 16 4 ;;
  b0 <- idx p 0 ;;
  let ihl := N.land (b2n b0) 15 in
  let tcp_offset := sat_mul usize_max (N.max ihl 5) 4 in
  if len p <? sat_add usize_max tcp_offset 4 then Ok None else
  s0 <- idx p tcp_offset ;; s1 <- idx p (sat_add usize_max tcp_offset 1) ;;
  d0 <- idx p (sat_add usize_max tcp_offset 2) ;; d1 <- idx p (sat_add usize_max tcp_offset 3) ;;
  Ok (Some {| q_src := src; q_dst := dst; q_sp := be16 s0 s1; q_dp := be16 d0 d1 |}).

Definition extract_ipv6_info (p : bytes) : R (option qinfo) :=
  if len p <? 40 then Ok None else
  nh <- idx p 6 ;;
  if negb (b2n nh =? 6) then Ok None else
  src <- idxs p 8 16 ;;
  dst <- idxs p 24 16 ;;
  if len p <? 44 then Ok None else
  s0 <- idx p 40 ;; s1 <- idx p 41 ;; d0 <- idx p 42 ;; d1 <- idx p 43 ;;
  Ok (Some {| q_src := src; q_dst := dst; q_sp := be16 s0 s1; q_dp := be16 d0 d1 |}).

Definition try_ethernet (p : bytes) : R (option qinfo) :=
  if len p <? 14 then Ok None else
  e0 <- idx p 12 ;; e1 <- idx p 13 ;;
  let et := be16 e0 e1 in
  if et =? 2048 then q <- slice_from p 14 ;; extract_ipv4_info q
  else if et =? 34525 then q <- slice_from p 14 ;; extract_ipv6_info q
  else Ok None.
Definition try_raw_ip (p : bytes) : R (option qinfo) :=
  match p with [] => Ok None | _ =>
    b0 <- idx p 0 ;;
    let v := b2n b0 / 16 in
    if v =? 4 then extract_ipv4_info p else if v =? 6 then extract_ipv6_info p else Ok None
  end.
(* packet.len() >= 24 && packet[0] == 0x1e && packet[1] == 0x00  (short-circuit) *)
Definition null_signature (p : bytes) : R bool :=
  if 24 <=? len p then
    a <- idx p 0 ;;
    if b2n a =? 30 then b <- idx p 1 ;; Ok (b2n b =? 0) else Ok false
  else Ok false.
Definition try_null_datalink (p : bytes) : R (option qinfo) :=
  if len p <? 4 then Ok None else
  sg <- null_signature p ;;
  if sg then                                                 (* fix 3908c86: decode 0x1e-signature frames as the analyzer does *)
    v <- idx p 4 ;;
    let ver := b2n v / 16 in
    if ver =? 4 then q <- slice_from p 4 ;; extract_ipv4_info q
    else if ver =? 6 then q <- slice_from p 4 ;; extract_ipv6_info q
    else Ok None
  else
  a <- idx p 0 ;; b <- idx p 1 ;; c <- idx p 2 ;; d <- idx p 3 ;;
  let family := b2n a + 256 * (b2n b + 256 * (b2n c + 256 * b2n d)) in      (* from_ne_bytes, little endian *)
  if family =? 2 then q <- slice_from p 4 ;; extract_ipv4_info q
  else if (family =? 30) || (family =? 28) then q <- slice_from p 4 ;; extract_ipv6_info q
  else Ok None.
Definition extract_quick_info (p : bytes) : R (option qinfo) :=
  a <- try_ethernet p ;;
  match a with Some i => Ok (Some i) | None =>
    b <- try_raw_ip p ;;
    match b with Some i => Ok (Some i) | None => try_null_datalink p end
  end.

(* ---- hashes: what is fed to the hasher ---- *)
Inductive hid :=
| HNone                                   (* None: no flow (TLS) *)
| HBytes (b : bytes)                      (* hash_bytes(b) *)
| HBytesMod (b : bytes)                   (* hash_bytes(b) % workers *)
| HFlow (a b : bytes) (p q : N).          (* a.hash, b.hash, p.hash, q.hash, % workers *)

(* ip_start (fix 1768945): a frame is read as Ethernet only when it can hold the IP header its EtherType announces:
   (len >= 34 && p[12] == 0x08 && p[13] == 0x00) || (len >= 54 && p[12] == 0x86 && p[13] == 0xDD)   (short-circuit) *)
Definition eth_announces (p : bytes) (minlen e0 e1 : N) : R bool :=
  if minlen <=? len p then
    a <- idx p 12 ;;
    if b2n a =? e0 then b <- idx p 13 ;; Ok (b2n b =? e1) else Ok false
  else Ok false.
Definition ip_start_of (p : bytes) : R N :=
  v4 <- eth_announces p 34 8 0 ;;
  if v4 then Ok 14 else
  v6 <- eth_announces p 54 134 221 ;;
  Ok (if v6 then 14 else 0).

Definition hash_source_ip (p : bytes) : R hid :=
  ip_start <- ip_start_of p ;;
  if len p <? sat_add usize_max ip_start 20 then Ok (HBytes p) else
  ipp <- slice_from p ip_start ;;
  b0 <- idx ipp 0 ;;
  let v := N.land (b2n b0 / 16) 15 in
  if v =? 4 then (if 16 <=? len ipp then s <- slice ipp 12 16 ;; Ok (HBytes s) else Ok (HBytes p))
  else if v =? 6 then (if 24 <=? len ipp then s <- slice ipp 8 24 ;; Ok (HBytes s) else Ok (HBytes p))
  else Ok (HBytes p).

Definition tls_hash_ipv4 (ipp : bytes) : R hid :=
  if len ipp <? 20 then Ok HNone else
  pr <- idx ipp 9 ;;
  if negb (b2n pr =? 6) then Ok HNone else
  b0 <- idx ipp 0 ;;
  let hl := sat_mul usize_max (N.max (N.land (b2n b0) 15) 5) 4 in
  if len ipp <? sat_add usize_max hl 4 then Ok HNone else
  src <- slice ipp 12 16 ;; dst <- slice ipp 16 20 ;;
  th <- slice_from ipp hl ;;
  s0 <- idx th 0 ;; s1 <- idx th 1 ;; d0 <- idx th 2 ;; d1 <- idx th 3 ;;
  Ok (HFlow src dst (be16 s0 s1) (be16 d0 d1)).
Definition tls_hash_ipv6 (ipp : bytes) : R hid :=
  if len ipp <? 40 then Ok HNone else
  nh <- idx ipp 6 ;;
  if negb (b2n nh =? 6) then Ok HNone else
  if len ipp <? 44 then Ok HNone else
  src <- slice ipp 8 24 ;; dst <- slice ipp 24 40 ;;
  th <- slice_from ipp 40 ;;
  s0 <- idx th 0 ;; s1 <- idx th 1 ;; d0 <- idx th 2 ;; d1 <- idx th 3 ;;
  Ok (HFlow src dst (be16 s0 s1) (be16 d0 d1)).
Definition tls_hash_flow (p : bytes) : R hid :=
  ip_start <- ip_start_of p ;;
  if len p <? sat_add usize_max ip_start 40 then Ok HNone else
  ipp <- slice_from p ip_start ;;
  b0 <- idx ipp 0 ;;
  let v := N.land (b2n b0 / 16) 15 in
  if v =? 4 then tls_hash_ipv4 ipp else if v =? 6 then tls_hash_ipv6 ipp else Ok HNone.

(* (src_ip, src_port) <= (dst_ip, dst_port) on (&[u8], u16) tuples *)
Fixpoint bytes_cmp (a b : bytes) : comparison :=
  match a, b with
  | [], [] => Eq | [], _ => Lt | _, [] => Gt
  | x :: a', y :: b' => match b2n x ?= b2n y with Eq => bytes_cmp a' b' | c => c end
  end.
Definition endpoint_le (a : bytes) (p : N) (b : bytes) (q : N) : bool :=
  match bytes_cmp a b with Lt => true | Gt => false | Eq => p <=? q end.
Definition ordered_flow (src dst : bytes) (sp dp : N) : hid :=
  if endpoint_le src sp dst dp then HFlow src dst sp dp else HFlow dst src dp sp.

Definition http_hash_ipv4 (ipp : bytes) : R hid :=
  if len ipp <? 20 then Ok (HBytesMod ipp) else
  pr <- idx ipp 9 ;;
  if negb (b2n pr =? 6) then s <- slice ipp 12 16 ;; Ok (HBytesMod s) else
  b0 <- idx ipp 0 ;;
  let hl := sat_mul usize_max (N.max (N.land (b2n b0) 15) 5) 4 in
  if len ipp <? sat_add usize_max hl 4 then s <- slice ipp 12 16 ;; Ok (HBytesMod s) else
  src <- slice ipp 12 16 ;; dst <- slice ipp 16 20 ;;
  th <- slice_from ipp hl ;;
  s0 <- idx th 0 ;; s1 <- idx th 1 ;; d0 <- idx th 2 ;; d1 <- idx th 3 ;;
  Ok (ordered_flow src dst (be16 s0 s1) (be16 d0 d1)).
Definition http_hash_ipv6 (ipp : bytes) : R hid :=
  if len ipp <? 40 then Ok (HBytesMod ipp) else
  nh <- idx ipp 6 ;;
  if negb (b2n nh =? 6) then s <- slice ipp 8 24 ;; Ok (HBytesMod s) else
  if len ipp <? 44 then s <- slice ipp 8 24 ;; Ok (HBytesMod s) else
  src <- slice ipp 8 24 ;; dst <- slice ipp 24 40 ;;
  th <- slice_from ipp 40 ;;
  s0 <- idx th 0 ;; s1 <- idx th 1 ;; d0 <- idx th 2 ;; d1 <- idx th 3 ;;
  Ok (ordered_flow src dst (be16 s0 s1) (be16 d0 d1)).
Definition http_hash_flow (p : bytes) : R hid :=
  ip_start <- ip_start_of p ;;
  if len p <? sat_add usize_max ip_start 40 then Ok (HBytesMod p) else
  ipp <- slice_from p ip_start ;;
  b0 <- idx ipp 0 ;;
  let v := N.land (b2n b0 / 16) 15 in
  if v =? 4 then http_hash_ipv4 ipp else if v =? 6 then http_hash_ipv6 ipp else Ok (HBytesMod p).

(* ---- summary ---- *)
Definition show_qinfo (o : option qinfo) : bytes :=
  match o with
  | None => bs "FAILOPEN"
  | Some q => show_hex (q_src q) ++ bs ">" ++ show_hex (q_dst q) ++ bs ":" ++ show_N (q_sp q) ++ bs ":" ++ show_N (q_dp q)
  end.
Definition show_hid (h : hid) : bytes :=
  match h with
  | HNone => bs "NONE"
  | HBytes b => bs "{b:" ++ show_hex b ++ bs "}"
  | HBytesMod b => bs "{bm:" ++ show_hex b ++ bs "}"
  | HFlow a b p q => bs "{f:" ++ show_hex a ++ bs ":" ++ show_hex b ++ bs ":" ++ show_N p ++ bs ":" ++ show_N q ++ bs "}"
  end.
Definition run_raw (p : bytes) : R bytes :=
  f <- extract_quick_info p ;; t <- hash_source_ip p ;; l <- tls_hash_flow p ;; h <- http_hash_flow p ;;
  Ok (bs "RET f=" ++ show_qinfo f ++ bs " t=" ++ show_hid t ++ bs " l=" ++ show_hid l ++ bs " h=" ++ show_hid h).
