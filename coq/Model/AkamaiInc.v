(* MODEL of huginn-net-http/src/http2_fingerprint_extractor.rs: `Http2FingerprintExtractor`
   (`new`, `add_bytes`) as it is after fix 9ca3ef7 (parsed_offset only advances when a fingerprint
   has been found).  Definitions only. *)
From Coq Require Import List NArith Bool.
From HN Require Import Base.Bytes Model.H2Text Model.H2Frames Model.Hpack Model.Akamai.
Import ListNotations.
Open Scope N_scope.

Record ext_state := { e_buffer : bytes; e_parsed_offset : N; e_fp : option bytes }.
Definition ext_new : ext_state := {| e_buffer := []; e_parsed_offset := 0; e_fp := None |}.

(* Ok(None) | Ok(Some fp) | Err(_) | panic.  `parse_frames` never returns Err, so RErr is only
   there to mirror the signature. *)
Inductive add_result := RNone | RSome (fp : bytes) | RErr | RPanic.

Definition add_bytes (st : ext_state) (data : bytes) : ext_state * add_result :=
  match e_fp st with
  | Some _ => (st, RNone)                       (* fingerprint already extracted *)
  | None =>
      let buffer := e_buffer st ++ data in
      let st1 := {| e_buffer := buffer; e_parsed_offset := e_parsed_offset st; e_fp := None |} in
      let start_offset :=
        if (e_parsed_offset st =? 0) && starts_with preface buffer
        then blen preface else e_parsed_offset st in
      if blen buffer <? start_offset then (st1, RPanic)     (* &self.buffer[start_offset..] *)
      else
        let frame_data := skipn (N.to_nat start_offset) buffer in
        if 9 <=? blen frame_data then
          let '(frames, bytes_consumed) := parse_frames_with_offset frame_data in
          match frames with
          | [] => (st1, RNone)
          | _ =>
              match extract_akamai_fingerprint frames with
              | Panicked => (st1, RPanic)
              | Val None => (st1, RNone)
              | Val (Some fp) =>
                  ({| e_buffer := buffer; e_parsed_offset := start_offset + bytes_consumed;
                      e_fp := Some fp |}, RSome fp)
              end
          end
        else (st1, RNone)
  end.

(* results of feeding the chunks one by one to a fresh extractor *)
Fixpoint run_chunks (st : ext_state) (chunks : list bytes) : list add_result :=
  match chunks with
  | [] => []
  | c :: r => let '(st', res) := add_bytes st c in res :: run_chunks st' r
  end.
Definition inc_outs (chunks : list bytes) : list add_result := run_chunks ext_new chunks.
