(* MODEL of the per-packet glue that every analyzer wraps around its protocol logic:
     huginn-net-{tcp,http,tls}/src/lib.rs      process_packet      (sequential path)
     huginn-net-{tcp,http,tls}/src/parallel.rs WorkerPool::process_packet (each worker)
     huginn-net/src/lib.rs                     process_with -> analyze_tcp
   All seven places read:  if a filter is installed and !raw_filter::apply(packet, filter) then
   nothing is analysed (an all-None result or `continue`); otherwise parse_packet and the
   protocol code, which returns Err / an empty result *before touching any state* unless the
   IP view carries TCP and `TcpPacket::new(ip.payload())` succeeds (process.rs / *_process.rs,
   RawFrame.view_endpoints).  Results that carry no observation (all fields None) and Err
   results are not outputs.  The protocol logic proper is the Section variable `core`.
   Definitions only. *)
From Coq Require Import List NArith Bool.
From HN Require Import Base.Bytes Model.Filter Model.RawFrame.
Import ListNotations.

Section Glue.
  Variables (St Out : Type).

  (* a trace through a per-packet step function *)
  Fixpoint run (step : St -> bytes -> St * list Out) (s : St) (tau : list bytes) : St * list Out :=
    match tau with
    | [] => (s, [])
    | p :: t => let '(s1, o1) := step s p in
                let '(s2, o2) := run step s1 t in (s2, o1 ++ o2)
    end.

  (* raw_filter::apply in front of any step *)
  Definition with_filter (c : filter_config) (step : St -> bytes -> St * list Out)
             (s : St) (p : bytes) : St * list Out :=
    if raw_apply c p then step s p else (s, []).

  (* the protocol analyzer proper: reached with the endpoints it has just decoded *)
  Variable core : St -> endpoints -> bytes -> St * list Out.

  (* process_packet without a filter *)
  Definition analyse (s : St) (p : bytes) : St * list Out :=
    match analyzer_endpoints p with
    | Some e => core s e p
    | None => (s, [])
    end.

  (* process_packet with `filter_config: Option<FilterConfig>` *)
  Definition process_packet (c : option filter_config) (s : St) (p : bytes) : St * list Out :=
    match c with
    | Some cfg => with_filter cfg analyse s p
    | None => analyse s p
    end.
End Glue.
Arguments run {St Out}.
Arguments with_filter {St Out}.
Arguments analyse {St Out}.
Arguments process_packet {St Out}.
