(* MODEL of the part of tls-parser 0.12.2 (over nom 7.1.3) that huginn-net-tls drives:
     tls_record.rs     parse_tls_plaintext, parse_tls_record_with_header
     tls_message.rs    change_cipher_spec / alert / application data / heartbeat records
     tls_handshake.rs  parse_tls_message_handshake (every handshake type), parse_tls_handshake_client_hello
     tls_extensions.rs parse_tls_extensions = many0(complete(parse_tls_extension)) with every content parser
   Modelled, not verified: the correspondence run (harness/c04, harness/c08) ties it to the real crate.
   All nom parsers used there are the *streaming* ones under `complete`, so "not enough bytes" is a
   plain failure everywhere.  Definitions only. *)
From Coq Require Import List NArith Bool.
From Coq Require Import Strings.Byte.
From HN Require Import Base.Bytes.
Import ListNotations.
Open Scope N_scope.

Definition lenN {A} (l : list A) : N := N.of_nat (length l).

(* nom take(n): fails when fewer than n bytes are left *)
Definition split_at (n : N) (l : bytes) : option (bytes * bytes) :=
  if lenN l <? n then None else Some (firstn (N.to_nat n) l, skipn (N.to_nat n) l).

Definition u8 (l : bytes) : option (N * bytes) :=
  match l with b :: r => Some (b2n b, r) | [] => None end.
Definition u16 (l : bytes) : option (N * bytes) :=
  match l with a :: b :: r => Some (b2n a * 256 + b2n b, r) | _ => None end.
Definition u24 (l : bytes) : option (N * bytes) :=
  match l with a :: b :: c :: r => Some ((b2n a * 256 + b2n b) * 256 + b2n c, r) | _ => None end.

(* length_data(be_u8 / be_u16 / be_u24) *)
Definition ld8 (l : bytes) : option (bytes * bytes) :=
  match u8 l with Some (n, r) => split_at n r | None => None end.
Definition ld16 (l : bytes) : option (bytes * bytes) :=
  match u16 l with Some (n, r) => split_at n r | None => None end.
Definition ld24 (l : bytes) : option (bytes * bytes) :=
  match u24 l with Some (n, r) => split_at n r | None => None end.

(* `chunks(2)` read as big-endian u16 / many0(complete(be_u16)): a trailing odd byte is dropped *)
Fixpoint u16s (l : bytes) : list N :=
  match l with a :: b :: r => (b2n a * 256 + b2n b) :: u16s r | _ => [] end.

(* tls_handshake.rs parse_cipher_suites(i, len) *)
Definition parse_u16_vec (i : bytes) (len : N) : option (list N * bytes) :=
  if len =? 0 then Some ([], i)
  else if N.odd len || (lenN i <? len) then None
  else match split_at len i with Some (a, r) => Some (u16s a, r) | None => None end.
(* tls_handshake.rs parse_compressions_algs(i, len) *)
Definition parse_u8_vec (i : bytes) (len : N) : option (bytes * bytes) :=
  if len =? 0 then Some ([], i) else split_at len i.

(* ---------- ClientHello body (parse_tls_handshake_client_hello) ---------- *)
Record client_hello := { ch_version : N; ch_random : bytes; ch_sid : bytes;
                         ch_ciphers : list N; ch_comp : bytes; ch_ext : option bytes }.

Definition parse_client_hello (i : bytes) : option client_hello :=
  match u16 i with None => None | Some (version, i) =>
  match split_at 32 i with None => None | Some (random, i) =>
  match u8 i with None => None | Some (sidlen, i) =>
  if 32 <? sidlen then None else                               (* verify(be_u8, n <= 32) *)
  match (if 0 <? sidlen then split_at sidlen i else Some ([], i)) with None => None | Some (sid, i) =>
  match u16 i with None => None | Some (clen, i) =>
  match parse_u16_vec i clen with None => None | Some (ciphers, i) =>
  match u8 i with None => None | Some (complen, i) =>
  match parse_u8_vec i complen with None => None | Some (comp, i) =>
    (* opt(complete(length_data(be_u16))): a lying extensions length means "no extensions" *)
    Some {| ch_version := version; ch_random := random; ch_sid := sid; ch_ciphers := ciphers;
            ch_comp := comp; ch_ext := match ld16 i with Some (e, _) => Some e | None => None end |}
  end end end end end end end end.

(* ---------- the other handshake messages: only success/failure of their parsers matters ---------- *)
Definition is_some {A} (o : option A) : bool := match o with Some _ => true | None => false end.

(* parse_tls_server_hello_tlsv12<HAS_EXT> *)
Definition server_hello_v12_ok (i : bytes) : bool :=
  match u16 i with None => false | Some (_, i) =>
  match split_at 32 i with None => false | Some (_, i) =>
  match u8 i with None => false | Some (sidlen, i) =>
  if 32 <? sidlen then false else
  match (if 0 <? sidlen then split_at sidlen i else Some ([], i)) with None => false | Some (_, i) =>
  match u16 i with None => false | Some (_, i) => is_some (u8 i) end end end end end.
(* parse_tls_handshake_msg_server_hello: dispatch on the version read ahead *)
Definition server_hello_ok (i : bytes) : bool :=
  match u16 i with
  | None => false
  | Some (v, _) =>
      if v =? 0x7f12 then is_some (split_at 36 i)             (* draft 18: version, random, cipher *)
      else if (v =? 0x0303) || (v =? 0x0302) || (v =? 0x0301) || (v =? 0x0300) then server_hello_v12_ok i
      else false
  end.
(* parse_tls_handshake_certificaterequest = alt(complete(full), complete(nosigalg)) *)
Definition certreq_full_ok (i : bytes) : bool :=
  match ld8 i with None => false | Some (_, i) =>
  match ld16 i with None => false | Some (_, i) => is_some (ld16 i) end end.
Definition certreq_nosig_ok (i : bytes) : bool :=
  match ld8 i with None => false | Some (_, i) => is_some (ld16 i) end.

Inductive hs_msg := HsClientHello (ch : client_hello) | HsOther.

(* parse_tls_message_handshake: the match on TlsHandshakeType(ht) applied to raw_msg (exactly hl bytes) *)
Definition hs_body (ht hl : N) (raw : bytes) : option hs_msg :=
  let ok (b : bool) := if b then Some HsOther else None in
  if ht =? 0x00 then Some HsOther                                          (* HelloRequest *)
  else if ht =? 0x01 then option_map HsClientHello (parse_client_hello raw)
  else if ht =? 0x02 then ok (server_hello_ok raw)
  else if ht =? 0x04 then ok (4 <=? hl)                                     (* NewSessionTicket *)
  else if ht =? 0x05 then Some HsOther                                     (* EndOfEarlyData *)
  else if ht =? 0x06 then ok (is_some (split_at 4 raw))                    (* HelloRetryRequest *)
  else if ht =? 0x0b then ok (is_some (ld24 raw))                          (* Certificate *)
  else if ht =? 0x0c then Some HsOther                                     (* ServerKeyExchange: take(hl) *)
  else if ht =? 0x0d then ok (certreq_full_ok raw || certreq_nosig_ok raw) (* CertificateRequest *)
  else if ht =? 0x0e then Some HsOther                                     (* ServerDone *)
  else if ht =? 0x0f then Some HsOther                                     (* CertificateVerify *)
  else if ht =? 0x10 then Some HsOther                                     (* ClientKeyExchange *)
  else if ht =? 0x14 then Some HsOther                                     (* Finished *)
  else if ht =? 0x16 then ok (match u8 raw with Some (_, i) => is_some (ld24 i) | None => false end)
  else if ht =? 0x18 then ok (is_some (u8 raw))                            (* KeyUpdate *)
  else if ht =? 0x43 then ok (match ld8 raw with Some (_, i) => is_some (ld8 i) | None => false end)
  else None.                                                               (* ErrorKind::Switch *)

Definition parse_handshake_msg (i : bytes) : option (hs_msg * bytes) :=
  match u8 i with None => None | Some (ht, i1) =>
  match u24 i1 with None => None | Some (hl, i2) =>
  match split_at hl i2 with None => None | Some (raw, rest) =>
  match hs_body ht hl raw with Some m => Some (m, rest) | None => None end end end end.

(* What huginn does with the result of parse_tls_plaintext: error, no ClientHello among the
   messages, or the first ClientHello. *)
Inductive plaintext_result := PErr | PNoHello | PHello (ch : client_hello).

(* many1(complete(parse_tls_message_handshake)): the first message must parse; later ones are
   collected until one fails (silently).  Every message consumes >= 4 bytes, so the nom
   "parser must consume" check never fires and fuel = length suffices: with fuel 0 the input is
   empty and parsing fails anyway, which is the answer given. *)
Fixpoint hs_walk (fuel : nat) (i : bytes) (first : bool) : plaintext_result :=
  match fuel with
  | O => if first then PErr else PNoHello
  | S f =>
      match parse_handshake_msg i with
      | None => if first then PErr else PNoHello
      | Some (HsClientHello ch, _) => PHello ch
      | Some (HsOther, rest) => hs_walk f rest false
      end
  end.

Definition MAX_RECORD_LEN : N := 16640.   (* (1 << 14) + 256 *)

(* parse_tls_plaintext followed by the scan for a ClientHello message (tls_process.rs) *)
Definition parse_tls_plaintext_hello (i : bytes) : plaintext_result :=
  match u8 i with None => PErr | Some (rt, i1) =>
  match u16 i1 with None => PErr | Some (_, i2) =>
  match u16 i2 with None => PErr | Some (len, i3) =>
  if MAX_RECORD_LEN <? len then PErr else
  match split_at len i3 with None => PErr | Some (body, _) =>
    if rt =? 0x14 then            (* many1(complete(verify(be_u8, tag == 1))) *)
      match body with b :: _ => if b2n b =? 1 then PNoHello else PErr | [] => PErr end
    else if rt =? 0x15 then       (* many1(complete(TlsMessageAlert::parse)): two bytes *)
      if 2 <=? lenN body then PNoHello else PErr
    else if rt =? 0x16 then hs_walk (length body) body true
    else if rt =? 0x17 then PErr  (* the application-data parser consumes everything and then succeeds
                                     on the empty rest without consuming: many1 reports an error *)
    else if rt =? 0x18 then       (* heartbeat: type, payload_len, hdr.len >= 3, take(payload_len) *)
      match u8 body with None => PErr | Some (_, b1) =>
      match u16 b1 with None => PErr | Some (pl, b2) =>
        if len <? 3 then PErr else if is_some (split_at pl b2) then PNoHello else PErr end end
    else PErr
  end end end end.

(* ---------- extensions ---------- *)
Inductive ext_item :=
| ExtSni (names : list (N * bytes))
| ExtAlpn (protos : list bytes)
| ExtSigAlgs (l : list N)
| ExtGroups (l : list N)
| ExtVersions (l : list N)
| ExtPointFormats (b : bytes)
| ExtOther.

(* many0(complete(parse_tls_extension_sni_hostname)) *)
Fixpoint sni_names (fuel : nat) (i : bytes) : list (N * bytes) :=
  match fuel with O => [] | S f =>
    match u8 i with None => [] | Some (t, i1) =>
    match ld16 i1 with None => [] | Some (v, rest) => (t, v) :: sni_names f rest end end
  end.
(* many0(complete(length_data(be_u8))) *)
Fixpoint alpn_names (fuel : nat) (i : bytes) : list bytes :=
  match fuel with O => [] | S f =>
    match ld8 i with None => [] | Some (v, rest) => v :: alpn_names f rest end
  end.

(* tls-parser's own GREASE test (256 values), evaluated before the per-type dispatch *)
Definition grease_mask (t : N) : bool := N.land t 0x0f0f =? 0x0a0a.

(* the per-type content parsers of parse_tls_extension; None = the content parser fails *)
Definition ext_content (t : N) (d : bytes) : option ext_item :=
  let ok (b : bool) := if b then Some ExtOther else None in
  let l := lenN d in
  if t =? 0 then
    match d with
    | [] => Some (ExtSni [])                        (* "SNI extension in server can be empty" *)
    | _ => match ld16 d with Some (lst, _) => Some (ExtSni (sni_names (length lst) lst)) | None => None end
    end
  else if t =? 1 then ok (1 <=? l)                  (* max_fragment_length: be_u8 *)
  else if t =? 5 then Some ExtOther                 (* status_request: empty, or type + take(len-1) *)
  else if t =? 10 then
    match ld16 d with
    | Some (g, _) => if N.odd (lenN g) then None else Some (ExtGroups (u16s g))
    | None => None end
  else if t =? 11 then match ld8 d with Some (f, _) => Some (ExtPointFormats f) | None => None end
  else if t =? 13 then match ld16 d with Some (s, _) => Some (ExtSigAlgs (u16s s)) | None => None end
  else if t =? 15 then ok (1 <=? l)                 (* heartbeat: be_u8 *)
  else if t =? 16 then match ld16 d with Some (a, _) => Some (ExtAlpn (alpn_names (length a) a)) | None => None end
  else if t =? 18 then Some ExtOther                (* SCT: opt(complete(..)) *)
  else if t =? 21 then Some ExtOther                (* padding *)
  else if (t =? 22) || (t =? 23) then ok (l =? 0)   (* encrypt_then_mac, extended_master_secret *)
  else if t =? 28 then ok (2 <=? l)                 (* record_size_limit: be_u16 *)
  else if (t =? 35) || (t =? 40) || (t =? 41) then Some ExtOther
  else if t =? 42 then ok ((l =? 0) || (4 <=? l))   (* early_data: cond(len > 0, be_u32) *)
  else if t =? 43 then
    if l =? 2 then Some (ExtVersions (u16s d))      (* ServerHello form: one version *)
    else match d with
         | [] => None
         | _ :: vs => if N.odd (lenN vs) then None else Some (ExtVersions (u16s vs))
         end
  else if t =? 44 then Some ExtOther                (* cookie *)
  else if t =? 45 then ok (is_some (ld8 d))         (* psk_key_exchange_modes *)
  else if t =? 48 then ok (is_some (ld16 d))        (* oid_filters *)
  else if t =? 49 then ok (l =? 0)                  (* post_handshake_auth *)
  else if t =? 51 then Some ExtOther                (* key_share *)
  else if t =? 13172 then ok (l =? 0)               (* next_protocol_negotiation *)
  else if t =? 0xff01 then ok (is_some (ld8 d))     (* renegotiation_info *)
  else if t =? 0xffce then                          (* encrypted_server_name (draft) *)
    match split_at 4 d with None => None | Some (_, i) =>
    match ld16 i with None => None | Some (_, i) =>
    match ld16 i with None => None | Some (_, i) => ok (is_some (ld16 i)) end end end
  else Some ExtOther.                               (* TlsExtension::Unknown *)

(* TlsExtensionType::from(&Grease(_, _)) is the constant 0xfafa, but the Grease variant carries the type that
   was on the wire, and that is what tls_process.rs reads since the c04grease repair *)

(* parse_tls_extensions = many0(complete(parse_tls_extension)): pairs (wire type for Grease(..), otherwise the type
   reported by TlsExtensionType::from(&ext); content); stops silently at the first failing extension.
   Every extension consumes >= 4 bytes; fuel as for hs_walk. *)
Fixpoint parse_extensions (fuel : nat) (i : bytes) : list (N * ext_item) :=
  match fuel with O => [] | S f =>
    match u16 i with None => [] | Some (t, i1) =>
    match ld16 i1 with None => [] | Some (d, rest) =>
      if grease_mask t then (t, ExtOther) :: parse_extensions f rest
      else match ext_content t d with
           | Some it => (t, it) :: parse_extensions f rest
           | None => []
           end
    end end
  end.
