(* MODEL of huginn-net-tls/src/tls_client_hello_reader.rs (TlsClientHelloReader::add_bytes, reset)
   and of the per-flow logic of huginn-net-tls/src/process.rs (process_tcp_packet) with
   tls_process.rs is_tls_traffic.  The flow table is ttl_cache 0.5.1 as an insertion-ordered
   association list (insert appends, evicts the oldest entry when len > capacity; expiry by
   wall-clock TTL is outside the model).  Definitions only. *)
From Coq Require Import List NArith Bool.
From Coq Require Import Strings.Byte.
From HN Require Import Base.Bytes Model.TlsHello Model.Ja4.
Import ListNotations.
Open Scope N_scope.

Record reader := { r_buffer : bytes; r_signature : option signature }.
Definition reader_new : reader := {| r_buffer := []; r_signature := None |}.

Definition READER_CAP : N := 65536.   (* 64 * 1024 *)

(* the record length announced in bytes 3..4 of the buffer, plus the 5 header bytes *)
Definition needed_of (buf : bytes) : N :=
  match u16 (skipn 3 buf) with Some (n, _) => n + 5 | None => 5 end.
Definition first_byte (buf : bytes) : N := match buf with b :: _ => b2n b | [] => 0 end.

(* TlsClientHelloReader::add_bytes: new state and return value *)
Definition add_bytes (st : reader) (data : bytes) : reader * tls_result :=
  match r_signature st with
  | Some _ => (st, RNone)                                  (* "Signature already parsed" *)
  | None =>
      let buf := r_buffer st ++ data in
      if lenN buf <? 5 then ({| r_buffer := buf; r_signature := None |}, RNone)
      else
        let needed := needed_of buf in
        if negb (first_byte buf =? 0x16) then (reader_new, RNone)          (* buffer.clear() *)
        else if lenN buf <? needed then ({| r_buffer := buf; r_signature := None |}, RNone)
        else if READER_CAP <? needed then (reader_new, RErr)              (* reset(), "too large" *)
        else
          match parse_tls_client_hello (firstn (N.to_nat needed) buf) with
          | RSig s => ({| r_buffer := skipn (N.to_nat needed) buf; r_signature := Some s |}, RSig s)
          | RNone => (reader_new, RNone)                                   (* reset() *)
          | RErr => ({| r_buffer := buf; r_signature := None |}, RErr)     (* buffer is kept *)
          end
  end.

(* the return values of feeding the chunks one after the other *)
Fixpoint reader_outs (st : reader) (cs : list bytes) : list tls_result :=
  match cs with
  | [] => []
  | c :: rest => let (st', o) := add_bytes st c in o :: reader_outs st' rest
  end.

(* ---------- process.rs: per-packet flow logic ---------- *)
(* tls_process.rs is_tls_traffic *)
Definition is_tls_traffic (payload : bytes) : bool :=
  match payload with
  | t :: v1 :: v2 :: _ :: _ :: _ =>
      (b2n t =? 0x16) && (let v := b2n v1 * 256 + b2n v2 in (0x0300 <=? v) && (v <=? 0x0304))
  | _ => false
  end.

Definition flows := list (N * reader).      (* oldest first; keys are abstract flow identities *)
Fixpoint flow_get (fl : flows) (k : N) : option reader :=
  match fl with [] => None | (k', r) :: t => if k' =? k then Some r else flow_get t k end.
(* keys of a TtlCache are unique, so "remove the entry of k" is "drop every pair with key k" *)
Definition flow_remove (fl : flows) (k : N) : flows := filter (fun e => negb (fst e =? k)) fl.
Fixpoint flow_set (fl : flows) (k : N) (r : reader) : flows :=
  match fl with [] => [] | (k', r') :: t => if k' =? k then (k, r) :: t else (k', r') :: flow_set t k r end.
(* TtlCache::insert of a key that is not present *)
Definition flow_insert (cap : N) (fl : flows) (k : N) (r : reader) : flows :=
  let fl' := fl ++ [(k, r)] in
  if cap <? lenN fl' then tl fl' else fl'.

(* process_tcp_packet for one (flow key, TCP payload): new table and Ok(Some sig) / Ok(None) / Err *)
Definition flow_step (cap : N) (fl : flows) (k : N) (payload : bytes) : flows * tls_result :=
  match payload with
  | [] => (fl, RNone)
  | _ =>
      let is_tls := match flow_get fl k with Some _ => true | None => is_tls_traffic payload end in
      if negb is_tls then (fl, RNone)
      else
        let fl1 := match flow_get fl k with Some _ => fl | None => flow_insert cap fl k reader_new end in
        match flow_get fl1 k with
        | None => (fl1, RErr)                    (* "Failed to retrieve flow after insert" (capacity 0) *)
        | Some rd =>
            match add_bytes rd payload with
            | (_, RSig s) => (flow_remove fl1 k, RSig s)
            | (rd', RNone) => (flow_set fl1 k rd', RNone)
            | (_, RErr) => (flow_remove fl1 k, RNone)
            end
        end
  end.

Fixpoint flow_outs (cap : N) (fl : flows) (evs : list (N * bytes)) : list tls_result :=
  match evs with
  | [] => []
  | (k, p) :: rest => let (fl', o) := flow_step cap fl k p in o :: flow_outs cap fl' rest
  end.
