(* The keyed "replay" instance used by the C07/C10 case interpreters: the per-connection behaviour of
   the real analyzer is given by its recorded results when the connection is run alone
   (slot = results still to come); the keyed machine of Base/Keyed.v merges them.  Definitions only. *)
From Coq Require Import List NArith Bool.
From HN Require Import Base.Bytes Base.Keyed.
Import ListNotations.

Definition rpacket := (N * bytes)%type.                 (* connection index, its recorded result token *)
Definition rkey (p : rpacket) : N := fst p.
(* local step: pop the next recorded result of this connection *)
Definition rlstep (slot : option (list bytes)) (p : rpacket) : option (list bytes) * list bytes :=
  match slot with
  | Some (x :: rest) => (Some rest, [x])
  | _ => (slot, [bs "?"])
  end.
(* initial slots: every connection's recorded results in its own packet order *)
Definition rinit (tr : list rpacket) : N -> option (list bytes) :=
  fun k => Some (map snd (filter (fun p => N.eqb (fst p) k) tr)).

Definition replay_run (tr : list rpacket) : list (N * bytes) :=
  snd (run rpacket N (list bytes) bytes rkey N.eqb rlstep (rinit tr) tr).
