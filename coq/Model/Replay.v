(* The keyed "replay" instance used by the C07/C10 case interpreters: the per-connection behaviour of
   the real analyzer is given by its recorded results when the connection is run alone
   (slot = results still to come); the keyed machine of Base/Keyed.v merges them.  Definitions only. *)
From Coq Require Import List NArith Bool.
From HN Require Import Base.Bytes Base.Keyed.
Import ListNotations.

Definition rpacket := (N * bytes)%type.                 (* connection index, its recorded result token *)
Definition rkey (p : rpacket) : N := fst p.
(* local step: pop the next recorded result of this connection *)
Definition rlstep (slot : option (list bytes)) (p : rpacket) : option (list bytes) * list bytes :=
  match slot with
  | Some (x :: rest) => (Some rest, [x])
  | _ => (slot, [bs "?"])
  end.
(* initial slots: every connection's recorded results in its own packet order *)
Definition rinit (tr : list rpacket) : N -> option (list bytes) :=
  fun k => Some (map snd (filter (fun p => N.eqb (fst p) k) tr)).

Definition replay_run (tr : list rpacket) : list (N * bytes) :=
  snd (run rpacket N (list bytes) bytes rkey N.eqb rlstep (rinit tr) tr).

(* ---- worker pool over the replay instance (C10) ---- *)
Definition rshard (workers : nat) (k : N) : nat := Nat.modulo (N.to_nat k) workers.
Definition pool_init (tr : list rpacket) : pst rpacket N (list bytes) bytes :=
  init rpacket N (list bytes) bytes (rinit tr).
Definition pool_step (workers : nat) :=
  pstep rpacket N (list bytes) bytes rkey N.eqb rlstep (rshard workers).

Inductive sched := SDisp | SWork (w : nat).
(* turn a schedule into pool events: each SDisp dispatches the next packet of the trace *)
Fixpoint sched_events (s : list sched) (tr : list rpacket) : list (ev rpacket) :=
  match s with
  | [] => map (Disp rpacket) tr                       (* whatever was not dispatched yet *)
  | SDisp :: s' => match tr with p :: tr' => Disp rpacket p :: sched_events s' tr' | [] => sched_events s' [] end
  | SWork w :: s' => Work rpacket w :: sched_events s' tr
  end.
(* drain: every worker handles everything left in its queue *)
Definition drain_events (workers n : nat) : list (ev rpacket) :=
  flat_map (fun w => repeat (Work rpacket w) n) (seq 0 workers).

Definition pool_run (workers : nat) (s : list sched) (tr : list rpacket) : list (N * bytes) :=
  outs rpacket N (list bytes) bytes
    (fold_left (pool_step workers) (sched_events s tr ++ drain_events workers (length tr)) (pool_init tr)).

(* canonical multiset form: insertion sort of the non-empty result tokens *)
Fixpoint bytes_leb (a b : bytes) : bool :=
  match a, b with
  | [], _ => true
  | _ :: _, [] => false
  | x :: a', y :: b' => if N.ltb (b2n x) (b2n y) then true else if N.ltb (b2n y) (b2n x) then false else bytes_leb a' b'
  end.
Fixpoint insert_sorted (x : bytes) (l : list bytes) : list bytes :=
  match l with
  | [] => [x]
  | y :: r => if bytes_leb x y then x :: l else y :: insert_sorted x r
  end.
Definition sort_bytes (l : list bytes) : list bytes := fold_right insert_sorted [] l.
Definition reported (l : list bytes) : list bytes := filter (fun t => negb (bytes_eqb t (bs "-"))) l.
