(* MODEL of the unified analyzer's composition logic: huginn-net/src/process.rs
   (execute_analysis: HTTP stage, then TCP stage, then stateless TLS stage, `?` on each enabled stage;
   handle_http_tcp_tlc) and huginn-net/src/lib.rs (HuginnNet::new constructor check; analyze_tcp: an
   error blanks the whole result; quality_match!/simple_quality_match!: matcher off => Disabled).
   The protocol analyzers' own per-packet results are inputs (opaque field groups).  Definitions only. *)
From Coq Require Import List NArith Bool.
From Coq Require Import Strings.Byte.
From HN Require Import Base.Bytes.
Import ListNotations.

Record cfg := { tcp_en : bool; http_en : bool; tls_en : bool; matcher_en : bool; db_present : bool }.

(* a field group of a protocol analyzer: raw signature part (with endpoints), match part as reported
   with a matcher, match part as reported without one *)
Record grp := { g_sig : bytes; g_on : bytes; g_off : bytes }.
(* per-packet result of one protocol analyzer: None = it returned an error *)
Definition pres := option (list (option grp)).
(* what the unified analyzer shows of a group: signature part and match part *)
Definition shown := option (bytes * bytes).

Definition ctor_ok (c : cfg) : bool :=
  negb (matcher_en c && (tcp_en c || http_en c) && negb (db_present c)).

(* everything from the first '+' on (the diagnosis sub-field), or nothing *)
Fixpoint plus_suffix (m : bytes) : bytes :=
  match m with [] => [] | b :: r => if beqb b "+"%byte then m else plus_suffix r end.
Definition no_match_part (m : bytes) : bool := starts_with (bs "X") m.
(* matcher disabled: every quality is Disabled, no label *)
Definition disabled_form (m_off : bytes) : bytes :=
  if no_match_part m_off then m_off else bs "D" ++ plus_suffix m_off.
Definition show_grp (c : cfg) (g : option grp) : shown :=
  match g with
  | None => None
  | Some g => Some (g_sig g, if matcher_en c then g_on g else disabled_form (g_off g))
  end.

Definition absent (n : nat) : list (option grp) := repeat None n.
Definition stage (enabled : bool) (n : nat) (r : pres) : pres := if enabled then r else Some (absent n).

(* one packet: the 8 groups of FingerprintResult in field order
   tcp_syn, tcp_syn_ack, tcp_mtu, tcp_client_uptime, tcp_server_uptime, http_request, http_response, tls_client *)
Definition analyze_packet (c : cfg) (t h l : pres) : list shown :=
  match stage (http_en c) 2 h with
  | None => map (show_grp c) (absent 8)
  | Some hg =>
    match stage (tcp_en c) 5 t with
    | None => map (show_grp c) (absent 8)
    | Some tg =>
      match stage (tls_en c) 1 l with
      | None => map (show_grp c) (absent 8)
      | Some lg => map (show_grp c) (tg ++ hg ++ lg)
      end
    end
  end.

(* ---- trace level, protocol analyzers as abstract step functions ---- *)
Section Trace.
  Variables (P ST SH : Type).
  Variable tcp_step : ST -> P -> ST * pres.
  Variable http_step : SH -> P -> SH * pres.
  Variable tls_fn : P -> pres.

  Definition unified_step (c : cfg) (s : ST * SH) (p : P) : (ST * SH) * list shown :=
    let '(st, sh) := s in
    let '(sh', h) := if http_en c then http_step sh p else (sh, Some (absent 2)) in
    match h with
    | None => ((st, sh'), map (show_grp c) (absent 8))
    | Some hg =>
      let '(st', t) := if tcp_en c then tcp_step st p else (st, Some (absent 5)) in
      match t with
      | None => ((st', sh'), map (show_grp c) (absent 8))
      | Some tg =>
        match (if tls_en c then tls_fn p else Some (absent 1)) with
        | None => ((st', sh'), map (show_grp c) (absent 8))
        | Some lg => ((st', sh'), map (show_grp c) (tg ++ hg ++ lg))
        end
      end
    end.

  Fixpoint unified_run (c : cfg) (s : ST * SH) (tr : list P) : list (list shown) :=
    match tr with
    | [] => []
    | p :: r => let '(s', o) := unified_step c s p in o :: unified_run c s' r
    end.

  (* the protocol analyzers on their own over the same trace *)
  Fixpoint tcp_run (st : ST) (tr : list P) : list pres :=
    match tr with [] => [] | p :: r => let '(st', o) := tcp_step st p in o :: tcp_run st' r end.
  Fixpoint http_run (sh : SH) (tr : list P) : list pres :=
    match tr with [] => [] | p :: r => let '(sh', o) := http_step sh p in o :: http_run sh' r end.
End Trace.
