(* MODEL for C13: the composition traffic -> observation -> table -> best match, as the analyzers wire it.
     huginn-net-tcp/src/process.rs   create_observable_package_ipv4/_ipv6: the package of process_tcp_ipv4/_ipv6;
                                     `tcp_request` (SYN)      -> matcher.matching_by_tcp_request  -> db.tcp_request
                                     `tcp_response` (others)  -> matcher.matching_by_tcp_response -> db.tcp_response
     huginn-net-tcp/src/signature_matcher.rs   matching_by_tcp_request / _response = <table>.find_best_match(&sig.matching)
     huginn-net-http/src/process.rs  http_request -> matcher.matching_by_http_request  -> db.http_request
                                     http_response -> matcher.matching_by_http_response -> db.http_response
     huginn-net-http/src/signature_matcher.rs  matching_by_http_request / _response = <table>.find_best_match(&sig.matching)
   The pieces are the delivered models: Model/TcpExtract.v (packet -> observation), Model/Http1Obs.v (message ->
   observation), Model/Match.v (index + find_best_match).  Definitions only. *)
From Coq Require Import List NArith Bool.
From Coq Require Import Strings.Byte.
From HN Require Import Base.Bytes Model.SigAst Model.Match Model.Pnet Model.TcpExtract Model.Http1Obs.
Import ListNotations.
Open Scope N_scope.

(* what a report says about the match: nothing analysed (error / no handshake segment / no HTTP message), or the
   table that was consulted and the result of its find_best_match *)
Inductive table_id := TblTcpRequest | TblTcpResponse | TblHttpRequest | TblHttpResponse.
Inductive reach := RNothing | RMatch (t : table_id) (r : fres).

(* process.rs (TCP): syn is filled from tcp_request, syn_ack from tcp_response; visit_tcp fills exactly one *)
Definition reach_of_tcp_out (db : database) (r : res tcp_out) : reach :=
  match r with
  | TcpExtract.Err => RNothing
  | TcpExtract.Ok o =>
      match o_syn o, o_synack o with
      | Some obs, _ => RMatch TblTcpRequest (tcp_find_best_match (db_tcp_request db) obs)
      | None, Some obs => RMatch TblTcpResponse (tcp_find_best_match (db_tcp_response db) obs)
      | None, None => RNothing
      end
  end.
Definition reach_tcp4 (db : database) (p : bytes) : reach := reach_of_tcp_out db (process_ipv4_packet (db_mtu db) p).
Definition reach_tcp6 (db : database) (p : bytes) : reach := reach_of_tcp_out db (process_ipv6_packet (db_mtu db) p).

(* process.rs (HTTP) on the observation HttpProcessors::parse_request / parse_response produce *)
Definition reach_http_request (db : database) (d : bytes) : reach :=
  match analyse_request d with
  | Http1Obs.Ok r => RMatch TblHttpRequest (http_find_best_match (db_http_request db) (q_sig r))
  | _ => RNothing end.
Definition reach_http_response (db : database) (d : bytes) : reach :=
  match analyse_response d with
  | Http1Obs.Ok r => RMatch TblHttpResponse (http_find_best_match (db_http_response db) (p_sig r))
  | _ => RNothing end.

(* the label / signature a result refers to *)
Definition entry_label {S} (tbl : list (label * list S)) (li : N) : option label :=
  option_map fst (nth_error tbl (N.to_nat li)).

(* canonical result line: NONE | PANIC | NOTHING | <label idx> <sig idx> <label name hex> *)
Definition show_reach_in {S} (tbl : list (label * list S)) (r : fres) : bytes :=
  match r with
  | FNone => bs "NONE"
  | FPanic => bs "PANIC"
  | FSome li si _ _ =>
      show_N li ++ bs " " ++ show_N si ++ bs " "
      ++ match entry_label tbl li with Some l => (match l_name l with [] => bs "-" | n => show_hex n end) | None => bs "?" end
  end.
Definition show_reach (db : database) (r : reach) : bytes :=
  match r with
  | RNothing => bs "NOTHING"
  | RMatch TblTcpRequest f => bs "q " ++ show_reach_in (db_tcp_request db) f
  | RMatch TblTcpResponse f => bs "s " ++ show_reach_in (db_tcp_response db) f
  | RMatch TblHttpRequest f => bs "q " ++ show_reach_in (db_http_request db) f
  | RMatch TblHttpResponse f => bs "s " ++ show_reach_in (db_http_response db) f
  end.
