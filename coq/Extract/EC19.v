(* Case-line interpreter for C19 (evaluated both by the extracted driver and inside Coq).
   A case is a scripted history on one fresh tracker: a sequence of events, 7 tokens each
     <dir> <flags> <src port> <dst port> <now ms> <tsval> <tsecr>
   dir:   c = segment 10.0.0.1 -> 10.0.0.2,  s = segment 10.0.0.2 -> 10.0.0.1          (IPv4)
          c6 = segment 2001:db8::1 -> 2001:db8::2,  s6 = the reverse                    (IPv6)
   flags: syn | synack | ack | pshack | finack | f<decimal flag byte>
   now:   the millisecond clock reading taken while the segment is processed (u64)
   Result: one token per event, joined by ';' :
     ERR                                         segment rejected (invalid flag combination)
     -                                           nothing reported
     <client|server> <freq> <days> <hours> <min> <mod_days>
   The result line is  MODEL TAB SPEC TAB known. *)
From Coq Require Import List NArith ZArith Bool.
From Coq Require Import Strings.Byte.
From HN Require Import Base.Bytes Model.Uptime Spec.UptimeSpec.
Import ListNotations.
Open Scope Z_scope.

Definition bad : bytes := bs "BADCASE".
Definition show_Z (z : Z) : bytes := show_N (Z.to_N z).
Definition read_Z (b : bytes) : option Z := option_map Z.of_N (read_N b).

Definition parse_flags (t : bytes) : option Z :=
  if bytes_eqb t (bs "syn") then Some 2
  else if bytes_eqb t (bs "synack") then Some 18
  else if bytes_eqb t (bs "ack") then Some 16
  else if bytes_eqb t (bs "pshack") then Some 24
  else if bytes_eqb t (bs "finack") then Some 17
  else match t with
       | "f"%byte :: r => match read_Z r with Some f => if f <? 256 then Some f else None | None => None end
       | _ => None
       end.

Definition ip_a : Z := 167772161.   (* 10.0.0.1 *)
Definition ip_b : Z := 167772162.   (* 10.0.0.2 *)
Definition ip6_a : Z := 42540766411282592856903984951653826561.   (* 2001:db8::1 *)
Definition ip6_b : Z := 42540766411282592856903984951653826562.   (* 2001:db8::2 *)

Definition parse_event (d f sp_ dp now tv te : bytes) : option (segment * Z) :=
  match parse_flags f, read_Z sp_, read_Z dp, read_Z now, read_Z tv, read_Z te with
  | Some fl, Some sport, Some dport, Some t, Some v, Some e =>
      if (sport <? 65536) && (dport <? 65536) && (t <? 18446744073709551616) && (v <? 4294967296) && (e <? 4294967296)
      then
        let mk a b := Some ({| sg_flags := fl;
                               sg_conn := {| src_ip := a; src_port := sport; dst_ip := b; dst_port := dport |};
                               sg_tsval := v; sg_tsecr := e |}, t) in
        if bytes_eqb d (bs "c") then mk ip_a ip_b
        else if bytes_eqb d (bs "s") then mk ip_b ip_a
        else if bytes_eqb d (bs "c6") then mk ip6_a ip6_b
        else if bytes_eqb d (bs "s6") then mk ip6_b ip6_a
        else None
      else None
  | _, _, _, _, _, _ => None
  end.

Fixpoint parse_events (fuel : nat) (ts : list bytes) : option (list (segment * Z)) :=
  match fuel with
  | O => None
  | S k =>
      match ts with
      | [] => Some []
      | d :: f :: sp_ :: dp :: now :: tv :: te :: r =>
          match parse_event d f sp_ dp now tv te, parse_events k r with
          | Some e, Some es => Some (e :: es)
          | _, _ => None
          end
      | _ => None
      end
  end.

Definition show_uptime (lbl : bytes) (u : uptime) : bytes :=
  join (bs " ") [lbl; show_Z (u_freq u); show_Z (u_days u); show_Z (u_hours u); show_Z (u_min u); show_Z (u_mod_days u)].

Definition show_model (r : seg_result) : bytes :=
  match r with
  | RErr => bs "ERR"
  | ROut None None => bs "-"
  | ROut (Some u) None => show_uptime (bs "client") u
  | ROut None (Some u) => show_uptime (bs "server") u
  | ROut (Some u) (Some w) => show_uptime (bs "client") u ++ bs "," ++ show_uptime (bs "server") w
  end.
Definition show_spec (r : sresult) : bytes :=
  match r with
  | SErr => bs "ERR"
  | SNone => bs "-"
  | SEst Client u => show_uptime (bs "client") u
  | SEst Server u => show_uptime (bs "server") u
  end.

Definition run_line (l : bytes) : bytes :=
  let ts := fields l in
  match ts with
  | [] => bad
  | _ =>
    match parse_events (S (length ts)) ts with
    | Some h =>
        out3 (join (bs ";") (map show_model (run_history [] h)))
             (join (bs ";") (map show_spec (spec_history [] h)))
             (known_history h)
    | None => bad
    end
  end.

Example run_line_ex :
  run_line (bs "c syn 40000 80 1000 5000 0 s synack 80 40000 1010 777000 5000 c ack 40000 80 2000 6000 777000 s ack 80 40000 2010 777250 6000")
  = bs "-;-;client 1000 0 0 0 49;server 250 0 0 51 198	-;-;client 1000 0 0 0 49;server 250 0 0 51 198	0".
Proof. vm_compute. reflexivity. Qed.
Example run_line_ex6 :
  run_line (bs "s6 synack 443 50000 0 1000 0 s ack 443 50000 5 9000 0 s6 ack 443 50000 120 1012 0 c6 ack 50000 443 130 7 0")
  = bs "-;-;server 100 0 0 0 497;-	-;-;server 100 0 0 0 497;-	0".
Proof. vm_compute. reflexivity. Qed.

Require Extraction.
Require Import ExtrOcamlBasic.
Extraction "Extract/C19_model.ml" run_line b2n n2b.
