(* Case-line interpreter for C12 (evaluated both by the extracted driver and inside Coq).
   line:  T <tag> <tcp sig> <tcp obs>      -> "<distance> <quality>" | NONE      calculate_distance + get_quality_score
          H <tag> <http sig> <http obs>    -> likewise (request observation);  R … (response observation)
          Q t|h <distance>                 -> "<quality>"                         distance_to_score of the TCP / HTTP table
          W <http sig>                     -> 1 | 0   no optional header's name occurs again later in its list
                                              (emitted for the bundled signatures only: SPEC demands 1)
   tag:   I  the generator claims: obs instantiates sig       (checked here with the decider; wrong claim -> BADCASE)
               SPEC = "0 1.00", known = the pair is in a documented known class
          D  the generator claims: obs is decisively mismatched (checked likewise)      SPEC = NONE
          F  the generator claims: obs differs from an instance in exactly one non-decisive field (TCP: ittl,
               olen, mss, wsize, wscale; HTTP: the software string)  (checked likewise)
               SPEC = "<that field's penalty> <its quality>" when the two values are of comparable form, else -
          -  no claim                                                                    SPEC = -
   signature / observation encoding: Model/SigCase.v;  quality printed as hundredths "<int>.<dd>". *)
From Coq Require Import List NArith Bool.
From Coq Require Import Strings.Byte.
From HN Require Import Base.Bytes Model.SigAst Model.Match Model.SigCase Spec.InstanceSpec.
Import ListNotations.
Open Scope N_scope.

Definition bad : bytes := bs "BADCASE".
Definition spec_zero : bytes := bs "0 1.00".

(* `fclaim`: what the SPEC says if the F claim holds (None: the claim is wrong) *)
Definition verdict (tag : bytes) (model : bytes) (inst decisive known : bool) (fclaim : option (bytes * bool)) : bytes :=
  if bytes_eqb tag (bs "I") then (if inst then out3 model spec_zero known else bad)
  else if bytes_eqb tag (bs "D") then (if decisive then out3 model (bs "NONE") false else bad)
  else if bytes_eqb tag (bs "F") then (match fclaim with Some (spec, k) => out3 model spec k | None => bad end)
  else if bytes_eqb tag (bs "-") then out3 model (bs "-") false
  else bad.

Definition tcp_fclaim (s o : tcp_sig) : option (bytes * bool) :=
  match find (fun f => single_field_off f s o) all_tcp_fields with
  | Some f => Some (if field_differs_comparably f s o then show_dist tcp_score (Some (field_penalty f)) else bs "-",
                    false)
  | None => None end.
Definition http_fclaim (s o : http_sig) : option (bytes * bool) :=
  if expsw_off s o then Some (show_dist http_score (Some pen_expsw), optional_name_reused s || expsw_reversed s o) else None.

Definition run_line (l : bytes) : bytes :=
  match tokens l with
  | [k; tag; s; o] =>
      if bytes_eqb k (bs "T") then
        match parse_tcp s, parse_tcp o with
        | Some sg, Some ob =>
            verdict tag (show_dist tcp_score (tcp_distance sg ob))
                    (tcp_instance_b sg ob) (tcp_decisive_mismatch_b sg ob) false (tcp_fclaim sg ob)
        | _, _ => bad end
      else if bytes_eqb k (bs "H") || bytes_eqb k (bs "R") then
        match parse_http s, parse_http o with
        | Some sg, Some ob =>
            verdict tag (show_dist http_score (http_distance sg ob))
                    (http_instance_b sg ob) (http_decisive_mismatch_b sg ob) (known_http sg ob) (http_fclaim sg ob)
        | _, _ => bad end
      else bad
  | [k; t; d] =>
      if bytes_eqb k (bs "Q") then
        match read_le u32_max d with
        | Some n =>
            let spec := if n =? 0 then bs "1.00" else bs "-" in
            if bytes_eqb t (bs "t") then out3 (show_quality (tcp_score n)) spec false
            else if bytes_eqb t (bs "h") then out3 (show_quality (http_score n)) spec false
            else bad
        | None => bad end
      else bad
  | [k; s] =>
      if bytes_eqb k (bs "W") then
        match parse_http s with
        | Some sg => out3 (show_bool (http_sig_wf_b sg)) (bs "1") false
        | None => bad end
      else bad
  | _ => bad end.

Example run_line_ex1 :
  run_line (bs "T I *:v64:0:*:s4:7:m,k,t,n,w:0,1:0 4:d54.10:0:1460:v5840:7:m,k,t,n,w:0,1:0") = bs "0 1.00	0 1.00	0".
Proof. vm_compute. reflexivity. Qed.
Example run_line_ex2 :
  run_line (bs "H I 1:!486f7374,?4163636570743d2a2f2a:-:6375726c 1:!486f7374:-:6375726c2f372e3838") = bs "3 0.80	0 1.00	1".
Proof. vm_compute. reflexivity. Qed.
Example run_line_ex3 : run_line (bs "Q t 4294967295") = bs "0.05	-	0".
Proof. vm_compute. reflexivity. Qed.
Example run_line_ex4 :
  run_line (bs "T F *:v64:0:*:s4:7:m,k,t,n,w:0,1:0 4:d54.10:0:1460:v5840:8:m,k,t,n,w:0,1:0") = bs "1 0.95	1 0.95	0".
Proof. vm_compute. reflexivity. Qed.

Require Extraction.
Require Import ExtrOcamlBasic.
Extraction "Extract/C12_model.ml" run_line b2n n2b.
