(* Case-line interpreter for C09 (evaluated by the extracted driver and inside Coq).
   line:   <capacity> <event> <event> ...
   event:  <conn><c|s>:<flags>:<seq>:<payload hex | ->
           conn = decimal connection number < 200; on the wire (Model/HttpFlow.v `wire`): conn < 100 is
           10.0.1.<conn>:40000+<conn> -> 10.0.2.1:80, 100..149 is 10.0.2.1:40000+<conn> -> 10.0.2.1:80 (same
           address), 150..199 is [::1]:40000+<conn> -> [::1]:80 (IPv6, same address),
           c = sent by the client (the side that sends the opening SYN), s = by the server,
           flags = subset of the letters S A F R P, or - for none (A and P are put on the wire but
           never read by the analyzer), seq = raw u32 sequence number, decimal.
   result: one token per event:  -  |  Q.<method hex>.<uri hex>.<10|11>.<name hex>=<value hex>,...
                                   |  R.<10|11>.<status>.<name hex>=<value hex>,...
   MODEL = Model/HttpFlow.v with the HTTP/1 recogniser of Model/HttpRecog.v on the wire image of the
   events; SPEC = Spec/StreamSpec.v with the same recogniser (- when the trace is outside the
   specification's domain, a payload byte is outside 1..127,
   or more connections are opened than <capacity>); known = the known-defect classes of
   Spec/StreamSpec.v (wrap, harmful gap, dup, fin); benign reordering gets a SPEC verdict with known = 0. *)
From Coq Require Import List NArith Bool.
From Coq Require Import Strings.Byte.
From HN Require Import Base.Bytes Base.Cache Base.Tcp Model.HttpFlow Model.HttpRecog Spec.StreamSpec.
Import ListNotations.
Open Scope N_scope.

Definition has_byte (c : byte) (l : bytes) : bool := existsb (beqb c) l.

(* "<conn><c|s>" *)
Definition parse_who (t : bytes) : option (N * bool) :=
  match rev t with
  | d :: r =>
      match read_N (rev r) with
      | Some n => if beqb d "c"%byte then Some (n, true) else if beqb d "s"%byte then Some (n, false) else None
      | None => None
      end
  | [] => None
  end.

Definition parse_event (t : bytes) : option event :=
  match split_on ":"%byte t with
  | [w; f; s; p] =>
      match parse_who w, read_N s, (if bytes_eqb p (bs "-") then Some [] else read_hex p) with
      | Some (n, cl), Some sq, Some pay =>
          if (sq <? two32) && (n <? 200) then
            Some (mkEv n cl (has_byte "S"%byte f) (has_byte "F"%byte f) (has_byte "R"%byte f) sq pay)
          else None
      | _, _, _ => None
      end
  | _ => None
  end.

Fixpoint parse_events (ts : list bytes) : option (list event) :=
  match ts with
  | [] => Some []
  | t :: r => match parse_event t, parse_events r with
              | Some e, Some es => Some (e :: es)
              | _, _ => None end
  end.

Definition show_out (o : hout bytes bytes) : bytes :=
  match o with ONone => bs "-" | OReq r => r | OResp r => r end.
Definition show_outs (os : list (hout bytes bytes)) : bytes := join (bs " ") (map show_out os).

Definition model_line (cap : N) (tr : list event) : bytes :=
  show_outs (outs recog_req recog_resp cap (map wire tr)).
(* no verdict when the trace opens more connections than the configured capacity (eviction of the
   oldest flow is then the documented behaviour, not a reassembly defect) *)
Definition spec_line (cap : N) (tr : list event) : bytes :=
  if spec_wf recog_req recog_resp tr && forallb (fun e => ascii_nonzero (e_pay e)) tr
     && (spec_conn_count recog_req recog_resp tr <=? cap)
  then show_outs (spec_outs recog_req recog_resp tr) else bs "-".

Definition run_line (l : bytes) : bytes :=
  match fields l with
  | c :: ts =>
      match read_N c, parse_events ts with
      | Some cap, Some tr => out3 (model_line cap tr) (spec_line cap tr) (known recog_req recog_resp tr)
      | _, _ => bs "BADCASE"
      end
  | _ => bs "BADCASE"
  end.

(* "GET / HTTP/1.1\r\nHost: a\r\n\r\n" in two segments, "HTTP/1.1 200 OK\r\nServer: x\r\n\r\n" in one *)
Example run_line_ex :
  run_line (bs "10 1c:S:1000:- 1s:SA:5000:- 1c:A:1001:474554202f20485454502f312e310d0a486f 1c:PA:1019:73743a20610d0a0d0a 1s:PA:5001:485454502f312e3120323030204f4b0d0a5365727665723a20780d0a0d0a")
  = bs "- - - Q.474554.2f.11.486f7374=61 R.11.200.536572766572=78	- - - Q.474554.2f.11.486f7374=61 R.11.200.536572766572=78	0".
Proof. vm_compute. reflexivity. Qed.

Require Extraction.
Require Import ExtrOcamlBasic.
Extraction "Extract/C09_model.ml" run_line b2n n2b.
