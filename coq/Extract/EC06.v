(* Case-line interpreter for C06 (evaluated by the extracted driver and, on a sample, inside Coq).
   "-" stands for the empty byte string wherever a hex string is expected.
     T <hex line>          TCP signature text through <tcp::Signature as FromStr> and Display
                           -> OK <hex of print(parse line)> <#olayout> <#quirks>   | ERR
     H <hex line>          HTTP signature text -> OK <hex of print(parse line)> <#horder> <#habsent> | ERR
     L <hex value>         label text through <Label as FromStr>
                           -> OK <s|g> <!|=hex class> <hex name> <!|=hex flavor> <hex of Display> | ERR
     K <kind> <hex token>  one token through its FromStr and Display; kind in
                           ver ttl win opt quirk pc hdr ty   -> OK <hex of print(parse token)> | ERR
     D <hex text>          whole database text through Database::from_str
                           -> OK <#classes> <#mtu groups> <#ua rules> <#labels/#sigs x4> then, in file order,
                              c=<hex> | m=<hex label> v=<n>* | u=<hex name>/<!|=hex value> |
                              TQ|TS|HQ|HS  l=<s|g>/<!|=hex class>/<hex name>/<!|=hex flavor>  s=<hex printed sig>*
                           | ERR
   SPEC column (what the property demands for this input; "-" = no demand):
     T, H, K   Spec.SigTextSpec.demand: the line is canonical (it is the printed form of the well-formed value the
               reference reader finds in it) -> the same OK line; the reference reader rejects the line -> ERR;
               readable but not canonical (leading zeros, empty header names, HTTP version 2/3) -> "-"
     L         Spec.DbLoadSpec.spec_label -> the same OK line or ERR
     D         Spec.DbLoadSpec.spec_load: the dump of what the text denotes; ERR for a text that is not a
               database (incl. unknown module headers and keys the module does not have); "-" only for
               texts with non-ASCII line edges (Unicode white space is outside the reference reader)
   known is always 0: no open defect class is left (C06-list-remainder and C06-unknown-item-skipped are repaired). *)
From Coq Require Import List NArith Bool.
From Coq Require Import Strings.Byte.
From HN Require Import Base.Bytes Model.SigAst Model.SigText Model.DbLoad Spec.SigTextSpec Spec.DbLoadSpec.
Import ListNotations.
Open Scope N_scope.

Definition hexd (l : bytes) : bytes := match l with [] => bs "-" | _ => show_hex l end.
Definition unhexd (l : bytes) : option bytes := if bytes_eqb l (bs "-") then Some [] else read_hex l.
Definition bad : bytes := bs "BADCASE".
Definition err : bytes := bs "ERR".
Definition dash : bytes := bs "-".
Definition len_N {A} (l : list A) : bytes := show_N (N.of_nat (length l)).
Definition spj (l : list bytes) : bytes := join (bs " ") l.

(* ---- renderings of successful results (shared by MODEL and SPEC columns) ---- *)
Definition show_tcp (s : tcp_sig) : bytes :=
  spj [bs "OK"; hexd (print_tcp_sig s); len_N (t_olayout s); len_N (t_quirks s)].
Definition show_http (s : http_sig) : bytes :=
  spj [bs "OK"; hexd (print_http_sig s); len_N (hs_horder s); len_N (hs_habsent s)].
Definition show_optb (o : option bytes) : bytes := match o with Some v => bs "=" ++ show_hex v | None => bs "!" end.
Definition show_ty (t : label_type) : bytes := match t with LSpecified => bs "s" | LGeneric => bs "g" end.
Definition show_label (l : label) : bytes :=
  spj [bs "OK"; show_ty (l_ty l); show_optb (l_class l); hexd (l_name l); show_optb (l_flavor l); hexd (print_label l)].
Definition show_tok {A} (pr : A -> bytes) (v : A) : bytes := spj [bs "OK"; hexd (pr v)].

Definition of_opt {A} (show : A -> bytes) (o : option A) : bytes := match o with Some v => show v | None => err end.
Definition of_verdict {A} (show : A -> bytes) (v : verdict A) : bytes :=
  match v with VOk a => show a | VErr => err | VNone => dash end.

(* ---- database dump ---- *)
Definition dump_label (l : label) : bytes :=
  bs "l=" ++ show_ty (l_ty l) ++ bs "/" ++ show_optb (l_class l) ++ bs "/" ++ show_hex (l_name l) ++ bs "/" ++ show_optb (l_flavor l).
Definition dump_table {S} (tagname : bytes) (pr : S -> bytes) (t : list (label * list S)) : list bytes :=
  tagname :: flat_map (fun e => dump_label (fst e) :: map (fun s => bs "s=" ++ show_hex (pr s)) (snd e)) t.
Definition count_table {S} (t : list (label * list S)) : bytes :=
  len_N t ++ bs "/" ++ show_N (N.of_nat (fold_left (fun a e => (a + length (snd e))%nat) t O)).
Definition dump_db (d : database) : bytes :=
  spj ([bs "OK"; len_N (db_classes d); len_N (db_mtu d); len_N (db_ua_os d);
        count_table (db_tcp_request d); count_table (db_tcp_response d);
        count_table (db_http_request d); count_table (db_http_response d)]
       ++ map (fun c => bs "c=" ++ show_hex c) (db_classes d)
       ++ flat_map (fun e => (bs "m=" ++ show_hex (fst e)) :: map (fun v => bs "v=" ++ show_N v) (snd e)) (db_mtu d)
       ++ map (fun e => bs "u=" ++ show_hex (fst e) ++ bs "/" ++ show_optb (snd e)) (db_ua_os d)
       ++ dump_table (bs "TQ") print_tcp_sig (db_tcp_request d)
       ++ dump_table (bs "TS") print_tcp_sig (db_tcp_response d)
       ++ dump_table (bs "HQ") print_http_sig (db_http_request d)
       ++ dump_table (bs "HS") print_http_sig (db_http_response d)).

(* ---- token kinds ---- *)
Definition run_tok (kind tok : bytes) : option bytes :=
  let go {A} (p : parser A) (rd : bytes -> option A) (wf : A -> bool) (pr : A -> bytes) :=
    Some (out3 (of_opt (show_tok pr) (from_str p tok)) (of_verdict (show_tok pr) (demand rd wf pr tok)) false) in
  if bytes_eqb kind (bs "ver") then go parse_ip_version rd_ip_version (fun _ => true) print_ip_version
  else if bytes_eqb kind (bs "ttl") then go parse_ttl rd_ttl wf_ttl print_ttl
  else if bytes_eqb kind (bs "win") then go parse_window_size rd_window wf_window print_window_size
  else if bytes_eqb kind (bs "opt") then go parse_tcp_option rd_option wf_option print_tcp_option
  else if bytes_eqb kind (bs "quirk") then go parse_quirk rd_quirk (fun _ => true) print_quirk
  else if bytes_eqb kind (bs "pc") then go parse_payload_size rd_pclass (fun _ => true) print_payload_size
  else if bytes_eqb kind (bs "hdr") then go parse_http_header rd_header wf_header print_header
  else if bytes_eqb kind (bs "ty") then go parse_type rd_type (fun _ => true) print_type
  else None.

(* fields are separated by exactly one space (Base.Bytes.fields reverses with the quadratic List.rev,
   too slow for a 70 KB database case) *)
Definition run_line (l : bytes) : bytes :=
  match cut sp l with
  | Some (k, rest) =>
      if bytes_eqb k (bs "K") then
        match cut sp rest with
        | Some (kind, h) =>
            match unhexd h with
            | Some t => match run_tok kind t with Some r => r | None => bad end
            | None => bad end
        | None => bad end
      else
      match unhexd rest with
      | Some t =>
          if bytes_eqb k (bs "T") then
            out3 (of_opt show_tcp (tcp_sig_from_str t)) (of_verdict show_tcp (demand spec_tcp wf_tcp print_tcp_sig t)) false
          else if bytes_eqb k (bs "H") then
            out3 (of_opt show_http (http_sig_from_str t)) (of_verdict show_http (demand spec_http wf_http print_http_sig t)) false
          else if bytes_eqb k (bs "L") then
            out3 (of_opt show_label (label_from_str t)) (of_opt show_label (spec_label t)) false
          else if bytes_eqb k (bs "D") then
            out3 (of_opt dump_db (load t)) (of_verdict dump_db (spec_load t)) false
          else bad
      | None => bad end
  | None => bad end.

Example run_line_ex1 :
  run_line (bs "T 2a3a36343a303a2a3a6d73732a32302c31303a6d73732c736f6b2c74732c6e6f702c77733a64662c69642b3a30")
  = bs "OK 2a3a36343a303a2a3a6d73732a32302c31303a6d73732c736f6b2c74732c6e6f702c77733a64662c69642b3a30 5 2	OK 2a3a36343a303a2a3a6d73732a32302c31303a6d73732c736f6b2c74732c6e6f702c77733a64662c69642b3a30 5 2	0".
Proof. vm_compute. reflexivity. Qed.

Require Extraction.
Require Import ExtrOcamlBasic.
Extraction "Extract/C06_model.ml" run_line b2n n2b.
