(* Case-line interpreter for C10.
   line: <kind> W <workers> B <batch> T <timeout> P <key>:<sequential token>:<frame hex> ... S <d|w<k>> ...
   MODEL: the FIFO worker-pool transition system of Base/Keyed.v over the replay instance, driven by the
          schedule of the case and then drained; reported tokens sorted, joined by ','.
          (batch size and timeout only choose among Work events; they do not occur in the transition relation)
   SPEC : the sequential results of the trace as a multiset (sorted). *)
From Coq Require Import List NArith Bool.
From Coq Require Import Strings.Byte.
From HN Require Import Base.Bytes Base.Keyed Model.Replay.
Import ListNotations.

Fixpoint parse_packets (ts : list bytes) : option (list rpacket * list bytes) :=
  match ts with
  | [] => None
  | t :: r =>
      if bytes_eqb t (bs "S") then Some ([], r) else
      match fsplit_on ":"%byte t, parse_packets r with
      | [c; tok; _], Some (ps, rest) => match read_N c with Some n => Some ((n, tok) :: ps, rest) | None => None end
      | _, _ => None end
  end.
Fixpoint parse_sched (ts : list bytes) : option (list sched) :=
  match ts with
  | [] => Some []
  | t :: r =>
      match t, parse_sched r with
      | [d], Some s => if beqb d "d"%byte then Some (SDisp :: s) else None
      | w :: num, Some s => if beqb w "w"%byte then match read_N num with Some n => Some (SWork (N.to_nat n) :: s) | None => None end else None
      | _, _ => None end
  end.

Definition run_line (l : bytes) : bytes :=
  match fsplit_on sp l with
  | _ :: _ :: w :: _ :: _ :: _ :: _ :: p :: rest =>
      match read_N w, parse_packets rest with
      | Some workers, Some (tr, srest) =>
          match parse_sched srest with
          | Some s =>
              if (negb (bytes_eqb p (bs "P"))) || (workers =? 0)%N then bs "BADCASE" else
              let model := sort_bytes (reported (map snd (pool_run (N.to_nat workers) s tr))) in
              let spec := sort_bytes (reported (map snd tr)) in
              out3 (join (bs ",") model) (join (bs ",") spec) false
          | None => bs "BADCASE" end
      | _, _ => bs "BADCASE" end
  | _ => bs "BADCASE" end.

Example run_line_ex : run_line (bs "l W 2 B 1 T 5 P 0:bb:00 1:-:00 0:aa:00 1:cc:00 S d w1 d d w0 d") = bs "aa,bb,cc	aa,bb,cc	0".
Proof. vm_compute. reflexivity. Qed.

Require Extraction.
Require Import ExtrOcamlBasic.
Extraction "Extract/C10_model.ml" run_line b2n n2b.
