(* Case-line interpreter for C10.
   line: <kind> W <workers> B <batch> T <timeout> P <key>:<sequential token>:<frame hex> ... S <d|w<k>> ...
   MODEL: the FIFO worker-pool transition system of Base/Keyed.v over the replay instance, driven by the
          schedule of the case and then drained; reported tokens sorted, joined by ','.
          (batch size and timeout only choose among Work events; they do not occur in the transition relation)
   SPEC : the sequential results of the trace as a multiset (sorted).
   kind L (TLS): <kind> W <workers> B <batch> T <timeout> L <cap per worker> <worker|x>:<frame hex> ... S <d|w<k>> ...
   worker = the worker the real flow hash names for the frame (x: the hash returns None, the pool discards it).
   MODEL: the CONCRETE TLS pool (Model/PoolConcrete.v: every worker runs Model/TlsAnalyzer.v tls_packet_step on
          its own flow table of that capacity) under the schedule, then drained; the reported results as tokens
          <src hex>:<port>><dst hex>:<port>|<signature fields>|fmts=*|<JA4>|<JA4_r>|<JA4_o>|<JA4_ro>, sorted, joined
          by ';' ("-" when nothing is reported).
   SPEC : the reports of the sequential concrete analyzer (capacity 1000) on ALL frames of the case, sorted;
          no verdict ("-" column) when a worker or the sequential table leaves its capacity. *)
From Coq Require Import List NArith Bool.
From Coq Require Import Strings.Byte.
From HN Require Import Base.Bytes Base.Keyed Model.Replay Model.Ja4 Model.TlsAnalyzer Model.PoolConcrete.
Import ListNotations.

Fixpoint parse_packets (ts : list bytes) : option (list rpacket * list bytes) :=
  match ts with
  | [] => None
  | t :: r =>
      if bytes_eqb t (bs "S") then Some ([], r) else
      match fsplit_on ":"%byte t, parse_packets r with
      | [c; tok; _], Some (ps, rest) => match read_N c with Some n => Some ((n, tok) :: ps, rest) | None => None end
      | _, _ => None end
  end.
Fixpoint parse_sched (ts : list bytes) : option (list sched) :=
  match ts with
  | [] => Some []
  | t :: r =>
      match t, parse_sched r with
      | [d], Some s => if beqb d "d"%byte then Some (SDisp :: s) else None
      | w :: num, Some s => if beqb w "w"%byte then match read_N num with Some n => Some (SWork (N.to_nat n) :: s) | None => None end else None
      | _, _ => None end
  end.

(* ---- kind L ---- *)
Definition lpacket := (nat * bytes)%type.          (* worker named by the real hash, frame *)
Fixpoint parse_lpackets (ts : list bytes) : option (list (option nat * bytes) * list bytes) :=
  match ts with
  | [] => None
  | t :: r =>
      if bytes_eqb t (bs "S") then Some ([], r) else
      match fsplit_on ":"%byte t, parse_lpackets r with
      | [w; h], Some (ps, rest) =>
          match read_hex h with
          | Some f => if bytes_eqb w (bs "x") then Some ((None, f) :: ps, rest)
                      else match read_N w with Some n => Some ((Some (N.to_nat n), f) :: ps, rest) | None => None end
          | None => None end
      | _, _ => None end
  end.
Definition dispatched_of (ps : list (option nat * bytes)) : list lpacket :=
  flat_map (fun p => match fst p with Some w => [(w, snd p)] | None => [] end) ps.
Fixpoint lsched_events (s : list sched) (tr : list lpacket) : list (ev lpacket) :=
  match s with
  | [] => map (Disp lpacket) tr
  | SDisp :: s' => match tr with p :: tr' => Disp lpacket p :: lsched_events s' tr' | [] => lsched_events s' [] end
  | SWork w :: s' => Work lpacket w :: lsched_events s' tr
  end.
Definition ldrain (workers n : nat) : list (ev lpacket) :=
  flat_map (fun w => repeat (Work lpacket w) n) (seq 0 workers).

Definition lkey (p : lpacket) : N := tls_key (snd p).
Definition lstep (cap : N) (c : tls_state) (p : lpacket) := tls_packet_results cap c (snd p).
Definition lfits (cap : N) (c : tls_state) (p : lpacket) := tls_fits cap c (snd p).

Definition tls_pool_token (o : tls_out) : bytes :=
  match o with
  | TOSig src dst sport dport s =>
      show_hex src ++ bs ":" ++ show_N sport ++ bs ">" ++ show_hex dst ++ bs ":" ++ show_N dport
      ++ bs "|" ++ bar_spaces (sig_fields s ++ bs " fmts=* " ++ ja4_line_esc s)
  | TONone => bs "-"
  | TOErr => bs "-"                (* an Err is not a result: the worker loop drops it *)
  end.
Definition report_line (os : list tls_out) : bytes :=
  match sort_bytes (reported (map tls_pool_token os)) with [] => bs "-" | l => join (bs ";") l end.

Definition run_l (workers cap : N) (ps : list (option nat * bytes)) (s : list sched) : bytes :=
  let tr := dispatched_of ps in
  let es := lsched_events s tr ++ ldrain (N.to_nat workers) (length tr) in
  let x := cprun lpacket N tls_out tls_state lkey (lstep cap) fst [] es in
  let inside :=
    cpwithinb lpacket N tls_out tls_state lkey (lstep cap) fst (lfits cap) (cinit lpacket N tls_out tls_state []) es
    && tls_within_capacityb 1000 [] (map snd ps) in
  out3 (report_line (map snd (couts lpacket N tls_out tls_state x)))
       (if inside then report_line (snd (tls_run 1000 [] (map snd ps))) else bs "-") false.

Definition run_line (l : bytes) : bytes :=
  match fsplit_on sp l with
  | _ :: _ :: w :: _ :: _ :: _ :: _ :: p :: rest =>
      if bytes_eqb p (bs "L") then
        match read_N w, rest with
        | Some workers, c :: rest' =>
            match read_N c, parse_lpackets rest' with
            | Some cap, Some (ps, srest) =>
                match parse_sched srest with
                | Some s => if (workers =? 0)%N then bs "BADCASE" else run_l workers cap ps s
                | None => bs "BADCASE" end
            | _, _ => bs "BADCASE" end
        | _, _ => bs "BADCASE" end
      else
      match read_N w, parse_packets rest with
      | Some workers, Some (tr, srest) =>
          match parse_sched srest with
          | Some s =>
              if (negb (bytes_eqb p (bs "P"))) || (workers =? 0)%N then bs "BADCASE" else
              let model := sort_bytes (reported (map snd (pool_run (N.to_nat workers) s tr))) in
              let spec := sort_bytes (reported (map snd tr)) in
              out3 (join (bs ",") model) (join (bs ",") spec) false
          | None => bs "BADCASE" end
      | _, _ => bs "BADCASE" end
  | _ => bs "BADCASE" end.

Example run_line_ex : run_line (bs "l W 2 B 1 T 5 P 0:bb:00 1:-:00 0:aa:00 1:cc:00 S d w1 d d w0 d") = bs "aa,bb,cc	aa,bb,cc	0".
Proof. vm_compute. reflexivity. Qed.

(* kind L: one whole ClientHello frame on worker 1 of 2 *)
Example run_line_ex_L :
  run_line (bs "l W 2 B 1 T 5 L 8 1:0200000000010200000000020800450000a812344000400600000a01039b5db8d823511201bb3e59830e6e58e2c48018ffff000000000101080a000810e2005470dd160301006f0100006b0303b3e811057e78288f5f15c0a9eb76c5ed5ab6a1d0d1a516de1b200477df05907100000600351302c02b0100003c000000090007000004782e696f001000050003026832000a00040002001d000d000400020403002b00030203040015000b0000000000000000000000 S d w1")
  = bs "0a01039b:20754>5db8d823:443|ver=13|sni=:782e696f|alpn=:6832|ciphers=0035,1302,c02b|exts=0000,0010,000a,000d,002b,0015|sigalgs=0403|groups=001d|fmts=*|t13d0306h2_{sha12:303033352c313330322c63303262}_{sha12:303030612c303030642c303031352c303032625f30343033}|t13d0306h2_0035,1302,c02b_000a,000d,0015,002b_0403|t13d0306h2_{sha12:303033352c313330322c63303262}_{sha12:303030302c303031302c303030612c303030642c303032622c303031355f30343033}|t13d0306h2_0035,1302,c02b_0000,0010,000a,000d,002b,0015_0403	0a01039b:20754>5db8d823:443|ver=13|sni=:782e696f|alpn=:6832|ciphers=0035,1302,c02b|exts=0000,0010,000a,000d,002b,0015|sigalgs=0403|groups=001d|fmts=*|t13d0306h2_{sha12:303033352c313330322c63303262}_{sha12:303030612c303030642c303031352c303032625f30343033}|t13d0306h2_0035,1302,c02b_000a,000d,0015,002b_0403|t13d0306h2_{sha12:303033352c313330322c63303262}_{sha12:303030302c303031302c303030612c303030642c303032622c303031355f30343033}|t13d0306h2_0035,1302,c02b_0000,0010,000a,000d,002b,0015_0403	0".
Proof. vm_compute. reflexivity. Qed.

Require Extraction.
Require Import ExtrOcamlBasic.
Extraction "Extract/C10_model.ml" run_line b2n n2b.
