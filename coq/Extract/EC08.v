(* Case-line interpreter for C08.
   C <chunk> <chunk> ...            TlsClientHelloReader::new(), add_bytes per chunk (chunk: hex, "-" = empty)
   P <cap> <k>:<chunk> <k>:<chunk>  process_ipv4_packet on a TtlCache of capacity <cap>; <k> = flow number
   (P, W: the harness sends every segment in an IPv4 datagram whose buffer / Ethernet frame is zero-padded to the
    minimum frame size; the payload is what the IP total length delimits, which is what the model is given.
    W order: s / c = bursts, w<ms> = first segment, <ms> ms of silence, then the rest; the model is order-independent.)
   (P flow numbers also select what the model ignores, as the code must: 20..29 / 40..49 = SYN on the first data segment
    (TCP Fast Open), 30..39 = RST|PSH|ACK on every segment, 40..59 = IPv6; W order y / y6 / r = the same for the pool.)
   W <workers> <nconn> <order> <chunk> ...   huginn_net_tls::WorkerPool (batch 32), <nconn> connections delivering the same
                                    chunks back-to-back; result "<number of results> <token | MIXED | ->".  MODEL: every
                                    connection behaves as one connection alone on a worker's flow table (C08_analyzer holds
                                    for any table content; dispatch keeps a connection on one worker in FIFO order)
   result (C, P): one token per chunk:  -  |  ERR  |  the C04 result line of the signature with '|' for ' '
   SPEC column: exactly-once expectation when the chunks start with a complete ClientHello record
   (P: one connection, first segment admitted); "-" otherwise.  known = 1 (P only): a later segment of
   the connection itself starts like a handshake record. *)
From Coq Require Import List NArith Bool.
From Coq Require Import Strings.Byte.
From HN Require Import Base.Bytes Model.TlsHello Model.Ja4 Model.TlsReader Spec.ReaderSpec.
Import ListNotations.
Open Scope N_scope.

Definition bad : bytes := bs "BADCASE".

Fixpoint tokens_aux (l cur : bytes) : list bytes :=
  match l with
  | [] => match cur with [] => [] | _ => [rev_append cur []] end
  | b :: r => if beqb b sp then match cur with [] => tokens_aux r [] | _ => rev_append cur [] :: tokens_aux r [] end
              else tokens_aux r (b :: cur)
  end.
Definition tokens (l : bytes) : list bytes := tokens_aux l [].
Definition read_hex_or_dash (h : bytes) : option bytes := if bytes_eqb h (bs "-") then Some [] else read_hex h.

Fixpoint all_some {A} (l : list (option A)) : option (list A) :=
  match l with
  | [] => Some []
  | Some x :: r => match all_some r with Some t => Some (x :: t) | None => None end
  | None :: _ => None
  end.

Definition tok (r : tls_result) : bytes :=
  match r with
  | RSig s => map (fun b => if beqb b sp then "|"%byte else b) (sig_line_esc s)
  | RNone => bs "-"
  | RErr => bs "ERR"
  end.
Definition toks (l : list tls_result) : bytes := join [sp] (map tok l).
(* packet level: the analyzer's ObservableTlsClient *)
Definition tok_p (r : tls_result) : bytes :=
  match r with
  | RSig s => map (fun b => if beqb b sp then "|"%byte else b) (client_line_esc s)
  | RNone => bs "-"
  | RErr => bs "ERR"
  end.
Definition toks_p (l : list tls_result) : bytes := join [sp] (map tok_p l).

(* the expectation of the property for these segments, if they begin with a whole handshake record *)
Definition spec_for (cs : list bytes) : option (list tls_result * bool) :=   (* outputs, record is a hello *)
  let all := concat cs in
  let need := needed_of all in
  if (5 <=? lenN all) && (need <=? lenN all) && (need <=? READER_CAP) then
    let r := firstn (N.to_nat need) all in
    if framedb r then
      match reader_outs reader_new [r] with
      | [RSig s] => Some (exactly_once 0 need (RSig s) cs, true)
      | [RNone] => if lenN all =? need then Some (map (fun _ => RNone) cs, false) else None
      | _ => None
      end
    else None
  else None.

Fixpoint split_colon (l acc : bytes) : option (bytes * bytes) :=
  match l with
  | [] => None
  | b :: r => if beqb b ":"%byte then Some (rev_append acc [], r) else split_colon r (b :: acc)
  end.
Definition parse_event (t : bytes) : option (N * bytes) :=
  match split_colon t [] with
  | Some (k, h) => match read_N k, read_hex_or_dash h with Some n, Some b => Some (n, b) | _, _ => None end
  | None => None
  end.

Definition same_key (evs : list (N * bytes)) : bool :=
  match evs with [] => false | (k, _) :: r => forallb (fun e => fst e =? k) r end.

Definition run_line (l : bytes) : bytes :=
  match tokens l with
  | k :: rest =>
      if bytes_eqb k (bs "C") then
        match all_some (map read_hex_or_dash rest) with
        | Some cs =>
            out3 (toks (reader_outs reader_new cs))
                 (match spec_for cs with Some (o, _) => toks o | None => bs "-" end) false
        | None => bad end
      else if bytes_eqb k (bs "P") then
        match rest with
        | c :: evs_t =>
            match read_N c, all_some (map parse_event evs_t) with
            | Some cap, Some evs =>
                let cs := map snd evs in
                let verdict :=
                  if same_key evs && (1 <=? cap) then
                    match cs, spec_for cs with
                    | c1 :: _, Some (o, true) =>
                        if looks_like_record_start c1 then
                          Some (o, negb (calm (after_completion 0 (needed_of (concat cs)) cs)))
                        else None
                    | _, _ => None
                    end
                  else None in
                out3 (toks_p (flow_outs cap [] evs))
                     (match verdict with Some (o, _) => toks_p o | None => bs "-" end)
                     (match verdict with Some (_, kn) => kn | None => false end)
            | _, _ => bad end
        | _ => bad end
      else if bytes_eqb k (bs "W") then
        match rest with
        | w :: n :: o :: chunks_t =>
            match read_N w, read_N n, all_some (map read_hex_or_dash chunks_t) with
            | Some _, Some nconn, Some cs =>
                let sigs := filter (fun x => match x with RSig _ => true | _ => false end)
                                   (flow_outs 4096 [] (map (fun c => (0, c)) cs)) in
                let show (per : list tls_result) :=
                  show_N (nconn * lenN per) ++ [sp] ++
                  match per with
                  | [] => bs "-"
                  | x :: r => if forallb (fun y => bytes_eqb (tok_p y) (tok_p x)) r then tok_p x else bs "MIXED"
                  end in
                let verdict :=
                  match cs, spec_for cs with
                  | c1 :: _, Some (o, true) =>
                      if looks_like_record_start c1 && calm (after_completion 0 (needed_of (concat cs)) cs)
                      then Some (filter (fun x => match x with RSig _ => true | _ => false end) o) else None
                  | _, _ => None
                  end in
                out3 (show sigs) (match verdict with Some o => show o | None => bs "-" end) false
            | _, _, _ => bad end
        | _ => bad end
      else bad
  | _ => bad end.

Example run_line_ex :
  run_line (bs "C 16030100 2b01000027030300000000000000000000000000000000000000000000000000000000000000000000000100 00")
  = bs "- t12i000000_000000000000_000000000000|t12i000000__|t12i000000_000000000000_000000000000|t12i000000__|ver=12|sni=-|alpn=-|ciphers=-|exts=-|sigalgs=-|groups=-|fmts=: -"
    ++ [tab] ++
    bs "- t12i000000_000000000000_000000000000|t12i000000__|t12i000000_000000000000_000000000000|t12i000000__|ver=12|sni=-|alpn=-|ciphers=-|exts=-|sigalgs=-|groups=-|fmts=: -"
    ++ [tab] ++ bs "0".
Proof. vm_compute. reflexivity. Qed.

Require Extraction.
Require Import ExtrOcamlBasic.
Extraction "Extract/C08_model.ml" run_line b2n n2b.
