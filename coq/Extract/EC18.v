(* Case-line interpreter for C18 (evaluated both by the extracted driver and inside Coq).
   T1 (affinity)
     H <crate> <n> <hexframe>            crate = tcp|http|tls, n = worker count
        MODEL (before post): `B <hex>` | `F <hexa> <hexb> <p> <q>` | `NONE`   -- what is written into the hasher
        post (harness, real DefaultHasher):  `<worker>` | `NONE`;   SPEC `-`
     P <crate> <n> <hexframe1> <hexframe2>
        MODEL (before post): `<id1> | <id2>`, post: `<w1> <w2>`
        SPEC (before post): `SAME` when the analyzer reports the same connection identity for both frames
        (TCP source address / TLS directed 4-tuple / HTTP undirected 4-tuple) and both lie in the domain
        c18_dom; post turns it into `<w1> <w1>` (`WORKER WORKER` when the model discards
        the first frame: a valid worker is demanded);  `-` otherwise.   known = 0 (the former class raw_as_ethernet is empty).
   T2 (accounting)
     Q <pool> <nworkers> <cap> <threads> <seed> <kind>:<worker|->:<id> ...
        packets: kind s (TCP SYN) u (UDP) t (IPv4 proto 6, TCP header cut) g (8 junk bytes) h (TLS ClientHello);
        worker = what the real hash gives (computed by the generator, re-checked by the harness), `-` = TLS discard.
        The model runs the pool transition system on the canonical schedule (one dispatcher, each call run to
        completion, bounded FIFO of capacity cap, then every worker drains) and evaluates the laws.
        cap >= number of packets (no overflow, outcome independent of the interleaving):
          MODEL `calls=<n> queued=<n> dropped=<n> disp=<n> drop=<n> wd=<a,b,..> results=<n> law=ok`
          SPEC  same line with drop / wd as the returned outcomes demand (known = 0: no class left after 93cdf08)
        otherwise (overflow depends on the real interleaving): MODEL `calls=<n> law=ok`, SPEC `-`;
        the harness checks the laws on the observed outcomes and counters (`!` on a breach).
     G <pool> <nworkers> <cap> <pkt> ... / <pkt> ...          (result consumer gone; one dispatcher, cap > all calls)
        the packets before `/` are dispatched and analysed while the receiver of the results is alive; at `/` the
        receiver is dropped (the pool is NOT shut down); afterwards a worker that analyses a packet yielding a result
        finds the result channel closed and exits, its queue becomes disconnected: in the model every later try_send
        to it is answered `full = true` (PoolAcct: "the answer of the channel is an input of the transition ...
        Disconnected").  The harness waits for the exit after every Queued result-yielding packet by repeating that
        packet until dispatch answers Dropped (probe calls; recorded, checked by the `!` laws, and subtracted from the
        printed counters so that the line is the one of the scripted calls alone).
          MODEL `calls=<n> out=<Q|D per scripted call> disp=<n> drop=<n> wd=<a,b,..> resA=<results before />` ++
                ` gone=<0|1 per worker> law=ok`,   SPEC same line with drop / wd as the returned outcomes demand *)
From Coq Require Import List NArith Bool Arith.
From Coq Require Import Strings.Byte.
From HN Require Import Base.Bytes Model.Filter Model.RawFrame Model.Hash Model.PoolAcct Spec.HashSpec.
Import ListNotations.
Open Scope N_scope.

Definition bad : bytes := bs "BADCASE".

Definition show_ident (i : ident) : bytes :=
  match i with
  | IdBytes b => bs "B " ++ (match b with [] => bs "-" | _ => show_hex b end)
  | IdFlow a b p q => bs "F " ++ show_hex a ++ sp :: show_hex b ++ sp :: show_N p ++ sp :: show_N q
  end.
Definition show_oident (o : option ident) : bytes :=
  match o with Some i => show_ident i | None => bs "NONE" end.

(* "-" stands for the empty frame *)
Definition read_frame (h : bytes) : option bytes := if bytes_eqb h (bs "-") then Some [] else read_hex h.

Definition crate_ident (c : bytes) : option (bytes -> option ident) :=
  if bytes_eqb c (bs "tcp") then Some (fun f => Some (tcp_ident f))
  else if bytes_eqb c (bs "tls") then Some tls_ident
  else if bytes_eqb c (bs "http") then Some (fun f => Some (http_ident f))
  else None.

Definition ip_eqb (a b : ip) : bool :=
  match a, b with V4 x, V4 y => x =? y | V6 x, V6 y => x =? y | _, _ => false end.
Definition ep_eqb (a b : endpoints) : bool :=
  ip_eqb (e_src a) (e_src b) && ip_eqb (e_dst a) (e_dst b) && (e_sport a =? e_sport b) && (e_dport a =? e_dport b).

(* the analyzer reports the same connection identity for both frames *)
Definition same_identity (c : bytes) (f g : bytes) : bool :=
  if bytes_eqb c (bs "tcp") then
    match identity_tcp f, identity_tcp g with Some a, Some b => ip_eqb a b | _, _ => false end
  else if bytes_eqb c (bs "tls") then
    match identity_tls f, identity_tls g with Some a, Some b => ep_eqb a b | _, _ => false end
  else
    match identity_http f, identity_http g with Some a, Some b => ep_eqb a b | _, _ => false end.

(* ---------------- T2 ---------------- *)
Definition pkt := (N * option nat * N)%type.          (* kind code (ASCII), worker, id *)
Definition pk_kind (p : pkt) : N := fst (fst p).
Definition pk_shard (p : pkt) : option nat := snd (fst p).
Definition K_s : N := 115. Definition K_u : N := 117. Definition K_t : N := 116.
Definition K_g : N := 103. Definition K_h : N := 104.

(* process_packet of the worker returns Err: non-TCP IP (UnsupportedProtocol), TCP header cut (Parse) *)
Definition pk_err (p : pkt) : bool := (pk_kind p =? K_u) || (pk_kind p =? K_t).
(* the worker sends something on the result channel for this packet *)
Definition pk_yields (k : pool_kind) (p : pkt) : bool :=
  match k with
  | PTcp => (pk_kind p =? K_s) || (pk_kind p =? K_g)       (* every Ok result, also the empty one *)
  | PHttp => (pk_kind p =? K_s) || (pk_kind p =? K_g)
  | PTls => pk_kind p =? K_h                               (* only Ok(Some(..)) *)
  end.
Definition pk_analyse (s : unit) (p : pkt) : unit * bool := (s, pk_err p).

Definition parse_kind (t : bytes) : option pool_kind :=
  if bytes_eqb t (bs "tcp") then Some PTcp else if bytes_eqb t (bs "http") then Some PHttp
  else if bytes_eqb t (bs "tls") then Some PTls else None.

Definition parse_pkt (t : bytes) : option pkt :=
  match split_on ":"%byte t with
  | [[k]; w; i] =>
      match read_N i with
      | Some id => if bytes_eqb w (bs "-") then Some (b2n k, None, id)
                   else match read_N w with Some wn => Some (b2n k, Some (N.to_nat wn), id) | None => None end
      | None => None end
  | _ => None end.
Fixpoint parse_pkts (ts : list bytes) : option (list pkt) :=
  match ts with
  | [] => Some []
  | t :: r => match parse_pkt t, parse_pkts r with Some p, Some ps => Some (p :: ps) | _, _ => None end
  end.

Definition pool_run (k : pool_kind) (nworkers cap : nat) (ps : list pkt) : pstate pkt unit :=
  let x0 := init pkt unit nworkers 1 tt in
  let x1 := fold_left (dispatch_now pkt unit pk_shard pk_analyse k cap) ps x0 in
  drain_all pkt unit pk_analyse nworkers x1.

Definition law_b (k : pool_kind) (nworkers : nat) (x : pstate pkt unit) : bool :=
  (calls pkt unit x =? n_queued pkt unit x + n_dropped pkt unit x)
  && (c_dropped pkt unit x =? n_dropped pkt unit x)
  && dispatched_law_b pkt unit k x
  && forallb (fun w => nth w (c_wdropped pkt unit x) 0 =? dropped_at pkt unit x w) (seq 0 nworkers)
  && (N.of_nat (length (analysed pkt unit x)) =? n_queued pkt unit x)
  && quiescent pkt unit x.

Definition show_list (l : list N) : bytes := join (bs ",") (map show_N l).
Definition n_results (k : pool_kind) (x : pstate pkt unit) : N :=
  N.of_nat (length (filter (fun a => pk_yields k (snd (fst a))) (analysed pkt unit x))).

Definition q_line (k : pool_kind) (nworkers : nat) (x : pstate pkt unit) (spec : bool) : bytes :=
  bs "calls=" ++ show_N (calls pkt unit x) ++ bs " queued=" ++ show_N (n_queued pkt unit x) ++
  bs " dropped=" ++ show_N (n_dropped pkt unit x) ++ bs " disp=" ++ show_N (c_dispatched pkt unit x) ++
  bs " drop=" ++ show_N (if spec then n_dropped pkt unit x else c_dropped pkt unit x) ++
  bs " wd=" ++ show_list (if spec then map (dropped_at pkt unit x) (seq 0 nworkers) else c_wdropped pkt unit x) ++
  bs " results=" ++ show_N (n_results k x) ++
  bs " law=" ++ (if spec then bs "ok" else if law_b k nworkers x then bs "ok" else bs "BROKEN").

(* ---------------- T2, result consumer gone (G) ---------------- *)
(* pool state, worker exited?, outcomes of the scripted calls (Queued?), newest first *)
Definition gst := (pstate pkt unit * list bool * list bool)%type.

Definition last_queued (x : pstate pkt unit) : bool :=
  match rev (rets pkt unit x) with r :: _ => r_queued pkt r | [] => false end.

(* dispatch(p) run to completion; the channel of an exited worker refuses (Disconnected), otherwise bounded FIFO.
   rx_gone: the receiver of the results has been dropped -- a worker that analyses a result-yielding packet
   (after everything queued before it) fails to send and exits *)
Definition g_dispatch (k : pool_kind) (cap : nat) (rx_gone : bool) (st : gst) (p : pkt) : gst :=
  let '(x, dead, outs) := st in
  let w := worker_of pkt pk_shard p in
  let full := nth w dead false || (cap <=? length (nth w (queues pkt unit x) []))%nat in
  let x1 := pstep pkt unit pk_shard pk_analyse k x (Call 0%nat p) in
  let x2 := fold_left (fun y _ => pstep pkt unit pk_shard pk_analyse k y (Tick 0%nat full)) (seq 0 4) x1 in
  let q := last_queued x2 in
  if rx_gone && q && pk_yields k p then
    (drain pkt unit pk_analyse (length (nth w (queues pkt unit x2) [])) x2 w, upd dead w true, q :: outs)
  else (x2, dead, q :: outs).

Definition g_run (k : pool_kind) (nworkers cap : nat) (a b : list pkt) : gst * N :=
  let x0 := init pkt unit nworkers 1 tt in
  let '(xa, d, oa) := fold_left (g_dispatch k cap false) a (x0, repeat false nworkers, []) in
  let xa' := drain_all pkt unit pk_analyse nworkers xa in
  let '(xb, d', ob) := fold_left (g_dispatch k cap true) b (xa', d, oa) in
  ((drain_all pkt unit pk_analyse nworkers xb, d', ob), n_results k xa').

Definition show_outs (o : list bool) : bytes :=
  match o with [] => bs "-" | _ => map (fun q : bool => if q then "Q"%byte else "D"%byte) (rev o) end.

Definition g_line (k : pool_kind) (nworkers : nat) (r : gst * N) (spec : bool) : bytes :=
  let '((x, dead, outs), resA) := r in
  bs "calls=" ++ show_N (calls pkt unit x) ++ bs " out=" ++ show_outs outs ++
  bs " disp=" ++ show_N (c_dispatched pkt unit x) ++
  bs " drop=" ++ show_N (if spec then n_dropped pkt unit x else c_dropped pkt unit x) ++
  bs " wd=" ++ show_list (if spec then map (dropped_at pkt unit x) (seq 0 nworkers) else c_wdropped pkt unit x) ++
  bs " resA=" ++ show_N resA ++
  bs " gone=" ++ map (fun g : bool => if g then "1"%byte else "0"%byte) dead ++
  bs " law=" ++ (if spec then bs "ok" else if law_b k nworkers x then bs "ok" else bs "BROKEN").

Fixpoint split_slash (ts acc : list bytes) : option (list bytes * list bytes) :=
  match ts with
  | [] => None
  | t :: r => if bytes_eqb t (bs "/") then Some (rev acc, r) else split_slash r (t :: acc)
  end.

Definition run_line (l : bytes) : bytes :=
  match fields l with
  | [op; c; n; h] =>
      if bytes_eqb op (bs "H") then
        match crate_ident c, read_N n, read_frame h with
        | Some idf, Some _, Some f => out3 (show_oident (idf f)) (bs "-") false
        | _, _, _ => bad end
      else bad
  | op :: c :: n :: rest =>
      if bytes_eqb op (bs "P") then
        match rest, crate_ident c, read_N n with
        | [h1; h2], Some idf, Some _ =>
            match read_frame h1, read_frame h2 with
            | Some f, Some g =>
                out3 (show_oident (idf f) ++ bs " | " ++ show_oident (idf g))
                     (if same_identity c f g && c18_dom f && c18_dom g then bs "SAME" else bs "-")
                     false
            | _, _ => bad end
        | _, _, _ => bad end
      else if bytes_eqb op (bs "Q") then
        match rest with
        | cap :: _threads :: _seed :: pts =>
            match parse_kind c, read_N n, read_N cap, parse_pkts pts with
            | Some k, Some nw, Some cp, Some ps =>
                let nworkers := N.to_nat nw in
                let x := pool_run k nworkers (N.to_nat cp) ps in
                if (length ps <=? N.to_nat cp)%nat then
                  out3 (q_line k nworkers x false) (q_line k nworkers x true) false
                else
                  out3 (bs "calls=" ++ show_N (calls pkt unit x) ++ bs " law=" ++
                        (if law_b k nworkers x then bs "ok" else bs "BROKEN")) (bs "-") false
            | _, _, _, _ => bad end
        | _ => bad end
      else if bytes_eqb op (bs "G") then
        match rest with
        | cap :: pts =>
            match parse_kind c, read_N n, read_N cap, split_slash pts [] with
            | Some k, Some nw, Some cp, Some (ta, tb) =>
                match parse_pkts ta, parse_pkts tb with
                | Some a, Some b =>
                    let nworkers := N.to_nat nw in
                    let r := g_run k nworkers (N.to_nat cp) a b in
                    out3 (g_line k nworkers r false) (g_line k nworkers r true) false
                | _, _ => bad end
            | _, _, _, _ => bad end
        | _ => bad end
      else bad
  | _ => bad end.

Example run_line_ex1 :
  run_line (bs "H tls 4 0200000000010200000000020800450000280000400040060000c0a801010a000002303901bb00000000000000005002ffff00000000")
  = bs "F c0a80101 0a000002 12345 443" ++ tab :: bs "-" ++ tab :: bs "0".
Proof. vm_compute. reflexivity. Qed.

Example run_line_ex2 :
  run_line (bs "Q http 2 8 1 7 s:0:1 u:0:2 g:1:3")
  = bs "calls=3 queued=3 dropped=0 disp=3 drop=0 wd=0,0 results=2 law=ok" ++ tab ::
    bs "calls=3 queued=3 dropped=0 disp=3 drop=0 wd=0,0 results=2 law=ok" ++ tab :: bs "0".
Proof. vm_compute. reflexivity. Qed.

(* worker 0 analyses s:0:1 with the consumer alive; after `/` s:0:2 is queued, worker 0 exits, the two later
   packets for it are refused and counted; worker 1 stays alive (u yields nothing) *)
Example run_line_ex3 :
  run_line (bs "G tcp 2 512 s:0:1 / s:0:2 u:0:3 u:1:70 s:0:4 u:1:71")
  = bs "calls=6 out=QQDQDQ disp=4 drop=2 wd=2,0 resA=1 gone=10 law=ok" ++ tab ::
    bs "calls=6 out=QQDQDQ disp=4 drop=2 wd=2,0 resA=1 gone=10 law=ok" ++ tab :: bs "0".
Proof. vm_compute. reflexivity. Qed.

Require Extraction.
Require Import ExtrOcamlBasic.
Extraction "Extract/C18_model.ml" run_line b2n n2b.
