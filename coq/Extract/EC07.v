(* Case-line interpreter for C07.  line: <kind> P <conn>:<isolated token>:<t ms>:<frame hex> ...
   MODEL: the keyed replay machine (Model/Replay.v) over the interleaved trace -> tokens joined by ','.
   SPEC : the property itself: packet j of connection c reports what it reports when c runs alone,
          i.e. the recorded isolated tokens in trace order. *)
From Coq Require Import List NArith Bool.
From Coq Require Import Strings.Byte.
From HN Require Import Base.Bytes Base.Keyed Model.Replay.
Import ListNotations.

Fixpoint parse_packets (ts : list bytes) : option (list rpacket) :=
  match ts with
  | [] => Some []
  | t :: r =>
      match fsplit_on ":"%byte t, parse_packets r with
      | [c; tok; _; _], Some ps => match read_N c with Some n => Some ((n, tok) :: ps) | None => None end
      | _, _ => None end
  end.

Definition run_line (l : bytes) : bytes :=
  match fsplit_on sp l with
  | _ :: p :: rest =>
      if negb (bytes_eqb p (bs "P")) then bs "BADCASE" else
      match parse_packets rest with
      | Some tr => out3 (join (bs ",") (map snd (replay_run tr))) (join (bs ",") (map snd tr)) false
      | None => bs "BADCASE" end
  | _ => bs "BADCASE" end.

Example run_line_ex : run_line (bs "l P 0:aa:1:00 1:-:2:00 0:-:3:00") = bs "aa,-,-	aa,-,-	0".
Proof. vm_compute. reflexivity. Qed.

Require Extraction.
Require Import ExtrOcamlBasic.
Extraction "Extract/C07_model.ml" run_line b2n n2b.
