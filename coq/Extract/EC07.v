(* Case-line interpreter for C07.
   kind P:  <a> P <conn>:<isolated token>:<t ms>:<frame hex> ...
     MODEL: the keyed replay machine (Model/Replay.v) over the interleaved trace -> tokens joined by ','.
     SPEC : the property itself: packet j of connection c reports what it reports when c runs alone,
            i.e. the recorded isolated tokens in trace order.
   kinds L (TLS analyzer) and T (TCP analyzer):  <a> L|T <cap> <conn>:<t ms>:<frame hex> ...
     MODEL: the CONCRETE packet-level model (Model/TlsAnalyzer.v resp. Model/TcpAnalyzer.v with the MTU table
            of Gen/Mtu.v) with a table of capacity <cap>, fresh state, on the frames in trace order; for T
            <t ms> is the clock reading taken while the packet is processed.  One token per packet, joined
            by ';':   L:  ERR | - | <src hex>:<port>><dst hex>:<port>|<EC08 packet-level line, '|' for ' '>
                      T:  ERR | <EC03 result line> up=<EC19 uptime token>
     SPEC : the property: every packet reports what it reports when the packets of its connection <conn>
            are run ALONE (fresh state, same capacity) through the same concrete model; `-` when the trace
            does not stay within capacity (the property has that hypothesis).
   kind H (HTTP analyzer, HTTP/1.x traffic):  <a> H <cap> <conn>:<t ms>:<frame hex> ...
     MODEL: Model/HttpAnalyzer.v (packet level, flow table of capacity <cap>) with the HTTP/1 recogniser of
            Model/HttpRecog.v as the two parsers; tokens joined by ';':
            ERR | - | Q.<method hex>.<uri hex>.<10|11>.<name hex>=<value hex>,... | R.<10|11>.<status>.<headers>  (as EC09).
            The recogniser is valid on payloads of bytes 1..127 that do not start an HTTP/2 preface: the generator
            of kind H emits HTTP/1 connections only.
     SPEC : as for L/T (every connection alone; `-` outside capacity).
   <a> (t|l|h|u) names the analyzer for the harness and is not read here. *)
From Coq Require Import List NArith ZArith Bool.
From Coq Require Import Strings.Byte.
From HN Require Import Base.Bytes Base.Keyed Base.Cache Model.Replay Model.TlsAnalyzer Model.HttpAnalyzer Gen.Mtu.
From HN Require Model.TcpAnalyzer.
Import ListNotations.

Fixpoint parse_packets (ts : list bytes) : option (list rpacket) :=
  match ts with
  | [] => Some []
  | t :: r =>
      match fsplit_on ":"%byte t, parse_packets r with
      | [c; tok; _; _], Some ps => match read_N c with Some n => Some ((n, tok) :: ps) | None => None end
      | _, _ => None end
  end.

(* ---- concrete kinds ---- *)
(* <conn>:<t ms>:<frame hex> *)
Fixpoint parse_events (ts : list bytes) : option (list (N * (N * bytes))) :=
  match ts with
  | [] => Some []
  | t :: r =>
      match fsplit_on ":"%byte t, parse_events r with
      | [c; tm; h], Some es =>
          match read_N c, read_N tm, read_hex h with
          | Some n, Some t', Some f => Some ((n, (t', f)) :: es)
          | _, _, _ => None end
      | _, _ => None end
  end.

Fixpoint count_N (c : N) (l : list N) : nat :=
  match l with [] => O | x :: r => if N.eqb x c then S (count_N c r) else count_N c r end.
Fixpoint nodup_N (l : list N) (seen : list N) : list N :=
  match l with
  | [] => []
  | x :: r => if existsb (N.eqb x) seen then nodup_N r seen else x :: nodup_N r (x :: seen)
  end.
Fixpoint lookup_N {A} (c : N) (t : list (N * A)) (d : A) : A :=
  match t with [] => d | (k, v) :: r => if N.eqb k c then v else lookup_N c r d end.
(* each packet's token when its connection runs alone, in trace order *)
Fixpoint alone_in_order (table : list (N * list bytes)) (conns seen : list N) : list bytes :=
  match conns with
  | [] => []
  | c :: r => nth (count_N c seen) (lookup_N c table []) (bs "?") :: alone_in_order table r (c :: seen)
  end.
Definition spec_alone {E} (run_tokens : list E -> list bytes) (evs : list (N * E)) : bytes :=
  let conns := map fst evs in
  let table := map (fun c => (c, run_tokens (map snd (filter (fun e => N.eqb (fst e) c) evs)))) (nodup_N conns []) in
  join (bs ";") (alone_in_order table conns []).

Definition tls_tokens (cap : N) (fs : list (N * bytes)) : list bytes :=
  map tls_out_line (snd (tls_run cap [] (map snd fs))).
Definition tcp_events (es : list (N * bytes)) : list TcpAnalyzer.tcp_event :=
  map (fun e => (snd e, Z.of_N (fst e))) es.
Definition tcp_tokens (cap : N) (es : list (N * bytes)) : list bytes :=
  map TcpAnalyzer.tcp_out_line (snd (TcpAnalyzer.tcp_run mtu_table cap [] (tcp_events es))).

Definition http_tokens (cap : N) (fs : list (N * bytes)) : list bytes :=
  map http1_out_line (snd (http1_run (cache_new cap) (map snd fs))).

Definition run_concrete (k c : bytes) (rest : list bytes) : bytes :=
  match read_N c, parse_events rest with
  | Some cap, Some evs =>
      if bytes_eqb k (bs "H") then
        out3 (join (bs ";") (http_tokens cap (map snd evs)))
             (if http1_within_capacityb (cache_new cap) (map (fun e => snd (snd e)) evs) then spec_alone (http_tokens cap) evs else bs "-")
             false
      else if bytes_eqb k (bs "L") then
        out3 (join (bs ";") (tls_tokens cap (map snd evs)))
             (if tls_within_capacityb cap [] (map (fun e => snd (snd e)) evs) then spec_alone (tls_tokens cap) evs else bs "-")
             false
      else
        out3 (join (bs ";") (tcp_tokens cap (map snd evs)))
             (if TcpAnalyzer.tcp_within_capacityb mtu_table cap [] (tcp_events (map snd evs))
              then spec_alone (tcp_tokens cap) evs else bs "-")
             false
  | _, _ => bs "BADCASE" end.

Definition run_line (l : bytes) : bytes :=
  match fsplit_on sp l with
  | _ :: p :: rest =>
      if bytes_eqb p (bs "P") then
        match parse_packets rest with
        | Some tr => out3 (join (bs ",") (map snd (replay_run tr))) (join (bs ",") (map snd tr)) false
        | None => bs "BADCASE" end
      else if bytes_eqb p (bs "L") || bytes_eqb p (bs "T") || bytes_eqb p (bs "H") then
        match rest with
        | c :: evs => run_concrete p c evs
        | [] => bs "BADCASE" end
      else bs "BADCASE"
  | _ => bs "BADCASE" end.

Example run_line_ex : run_line (bs "l P 0:aa:1:00 1:-:2:00 0:-:3:00") = bs "aa,-,-	aa,-,-	0".
Proof. vm_compute. reflexivity. Qed.

(* concrete kinds: a SYN and, 335 ms later, the ACK of the same connection (1000 Hz timestamp clock) *)
Example run_line_ex_T :
  run_line (bs "t T 8 3:1000484:02000000000102000000000208004500003c12344000390600000a0100775db8d829757d00162f01a6ae00000000a002721000000000020405780402080a0010210b0000000001030307 3:1000819:02000000000102000000000208004500003412344000400600000a0100775db8d829757d00162f01a6af5a88adb08010ffff000000000101080a0010225a005985b8")
  = bs "syn=4:57+7:0:1400:mtu*20,7:mss,sok,ts,nop,ws:df,id+:0 synack=- mtu=1440 link=67656e657269632074756e6e656c206f722056504e up=-;syn=- synack=4:64+0:0:*:65535,*:nop,nop,ts:df,id+:0 mtu=- link=- up=client 1000 0 0 17 49	syn=4:57+7:0:1400:mtu*20,7:mss,sok,ts,nop,ws:df,id+:0 synack=- mtu=1440 link=67656e657269632074756e6e656c206f722056504e up=-;syn=- synack=4:64+0:0:*:65535,*:nop,nop,ts:df,id+:0 mtu=- link=- up=client 1000 0 0 17 49	0".
Proof. vm_compute. reflexivity. Qed.
Example run_line_ex_L :
  run_line (bs "l L 8 3:1000484:02000000000102000000000208004500003c12344000390600000a0100775db8d829757d00162f01a6ae00000000a002721000000000020405780402080a0010210b0000000001030307 3:1000819:02000000000102000000000208004500003412344000400600000a0100775db8d829757d00162f01a6af5a88adb08010ffff000000000101080a0010225a005985b8")
  = bs "-;-	-;-	0".
Proof. vm_compute. reflexivity. Qed.

(* kind H: one generated HTTP/1.1 connection (handshake, request, response, FIN) *)
Example run_line_ex_H :
  run_line (bs "h H 8 2:1000579:02000000000102000000000208004500003c12344000800600000a013d3b0a013d3b7e02005029261ae800000000a002faf000000000020405780402080a00064f3b0000000001030308 2:1000702:02000000000102000000000208004500003c12344000340600000a013d3b0a013d3b00507e02318c2dac29261ae9a012712000000000020405b40402080a00550dfa00064f3b01030307 2:1000889:02000000000102000000000208004500003412344000400600000a013d3b0a013d3b7e02005029261ae9318c2dad8010ffff000000000101080a0006507100550eb5 2:1000931:02000000000102000000000208004500003b12344000400600000a013d3b0a013d3b7e02005029261ae9318c2dad8018ffff000000000101080a0006509b00550edf474554202f3132 2:1001208:0200000000010200000000020800450000cc1234 2:1001300:02000000000102000000000208004500009812346000340600000a013d3b0a013d3b00507e02318c2dad29261b888018ffff000000000101080a005510500006520c485454502f312e3120323030204f4b0d0a5365727665723a204170616368652f322e342e343120285562756e7475290d0a436f6e74656e742d547970653a20746578742f68746d6c0d0a436f6e74656e742d4c656e6774683a20350d0a0d0a68656c6c6f 2:1001426:02000000000102000000000208004500003412344000400600000a013d3b0a013d3b7e02005029261b88318c2dad8011ffff000000000101080a0006528a005510ce")
  = bs "-;-;-;-;-;R.11.200.536572766572=4170616368652f322e342e343120285562756e747529,436f6e74656e742d54797065=746578742f68746d6c,436f6e74656e742d4c656e677468=35;-	-;-;-;-;-;R.11.200.536572766572=4170616368652f322e342e343120285562756e747529,436f6e74656e742d54797065=746578742f68746d6c,436f6e74656e742d4c656e677468=35;-	0".
Proof. vm_compute. reflexivity. Qed.

Require Extraction.
Require Import ExtrOcamlBasic.
Extraction "Extract/C07_model.ml" run_line b2n n2b.
