(* Case-line interpreter for C02 (evaluated both by the extracted driver and inside Coq).
   line:  <kind> <observation> <entry> <entry> …          the database = the entries in file order (may be none)
   kind:  T tcp_request | U tcp_response | H http_request | R http_response
          (which collection of `Database` and which SignatureMatcher::matching_by_* wrapper the harness drives;
           the model is the same for T/U and for H/R)
   entry: one label with its signatures:  <sig>/<sig>/…   or  .  for a label without signatures
          compact forms (expanded before MODEL and SPEC run; used for databases beyond 2^16 positions):
            inside an entry   <run>~<run>~…   with run = <sig>/<sig>/…  or  <n>^<sig>/<sig>/…  (that list n times)
            database token    <n>@<entry>|<entry>|…   = that sequence of labels n times   (n <= 300000)
   signature / observation encoding: Model/SigCase.v
   result:  NONE | <label idx> <sig idx> <distance> <quality>     (PANIC: index out of range, never reached)
   MODEL = FingerprintCollection::new(entries).find_best_match(obs)  (index + strict-< candidate loop)
   SPEC  = exhaustive scan (Spec/ScanSpec.v) when the observation is concrete (what analyzers emit), else - *)
From Coq Require Import List NArith Bool.
From Coq Require Import Strings.Byte.
From HN Require Import Base.Bytes Model.SigAst Model.Match Model.SigCase Spec.ScanSpec.
Import ListNotations.
Open Scope N_scope.

Definition bad : bytes := bs "BADCASE".

(* repetition (compact notation for databases with more than 2^16 labels / signatures under one label);
   the database handed to MODEL and SPEC is the fully expanded one *)
Definition max_rep : N := 300000.
Definition rep {A} (n : N) (l : list A) : list A := N.iter n (fun acc => l ++ acc) [].

(* run: <sig>/<sig>/…  or  <n>^<sig>/<sig>/…  (the signature list n times) *)
Definition parse_run {A} (f : bytes -> option A) (b : bytes) : option (list A) :=
  match fsplit "^"%byte b with
  | [sigs] => map_opt f (fsplit "/"%byte sigs)
  | [c; sigs] =>
      match read_le max_rep c, map_opt f (fsplit "/"%byte sigs) with
      | Some n, Some l => Some (rep n l)
      | _, _ => None end
  | _ => None end.

(* entry: .  or  <run>~<run>~…  (concatenated) *)
Definition parse_entry {A} (f : bytes -> option A) (b : bytes) : option (unit * list A) :=
  if bytes_eqb b (bs ".") then Some (tt, [])
  else option_map (fun ls => (tt, concat ls)) (map_opt (parse_run f) (fsplit "~"%byte b)).

(* database token: <entry>  or  <n>@<entry>|<entry>|…  (that sequence of labels n times) *)
Definition parse_dbtok {A} (f : bytes -> option A) (t : bytes) : option (list (unit * list A)) :=
  match fsplit "@"%byte t with
  | [e] => option_map (fun x => [x]) (parse_entry f e)
  | [c; es] =>
      match read_le max_rep c, map_opt (parse_entry f) (fsplit "|"%byte es) with
      | Some n, Some l => Some (rep n l)
      | _, _ => None end
  | _ => None end.
Definition parse_db {A} (f : bytes -> option A) (ents : list bytes) : option (list (unit * list A)) :=
  option_map (@concat _) (map_opt (parse_dbtok f) ents).

Definition run_line (l : bytes) : bytes :=
  match tokens l with
  | k :: ob :: ents =>
      if bytes_eqb k (bs "T") || bytes_eqb k (bs "U") then
        match parse_tcp ob, parse_db parse_tcp ents with
        | Some o, Some db =>
            out3 (show_fres (tcp_find_best_match db o))
                 (if concrete_obs_b o then show_fres (tcp_scan db o) else bs "-") false
        | _, _ => bad end
      else if bytes_eqb k (bs "H") || bytes_eqb k (bs "R") then
        match parse_http ob, parse_db parse_http ents with
        | Some o, Some db =>
            out3 (show_fres (http_find_best_match db o))
                 (if concrete_http_b o then show_fres (http_scan db o) else bs "-") false
        | _, _ => bad end
      else bad
  | _ => bad end.

Example run_line_ex1 :
  run_line (bs "T 4:d54.10:0:1460:s4:7:m,k,t,n,w:0,1:0 6:v64:0:*:s4:7:m,k,t,n,w:0,1:0/*:v128:0:*:s4:7:m,k,t,n,w:0,1:* *:v64:0:*:s4:7:m,k,t,n,w:0,1:*/4:v64:0:*:s4:7:m,k,t,n,w:0,1:0")
  = bs "1 0 0 1.00	1 0 0 1.00	0".
Proof. vm_compute. reflexivity. Qed.
Example run_line_ex2 :
  run_line (bs "H 2:!486f7374:-:6375726c . *:!486f7374,!4163636570743d2a2f2a:-:6375726c/*:!486f7374:-:6375726c2f37 1:!486f7374:-:6375726c")
  = bs "1 0 0 1.00	1 0 0 1.00	0".
Proof. vm_compute. reflexivity. Qed.

Example run_line_ex3 :
  run_line (bs "T 4:d54.10:0:1460:s4:7:m,k,t,n,w:0,1:0 2@.|6:v64:0:*:s4:7:m,k,t,n,w:0,1:0 3^6:v64:0:*:s4:7:m,k,t,n,w:0,1:0/*:v128:0:*:s4:7:m,k,t,n,w:0,1:0~2^*:v128:0:*:s4:7:m,k,t,n,w:0,1:*/4:v64:0:*:s4:7:m,k,t,n,w:0,1:0")
  = bs "4 7 0 1.00	4 7 0 1.00	0".
Proof. vm_compute. reflexivity. Qed.

Require Extraction.
Require Import ExtrOcamlBasic.
Extraction "Extract/C02_model.ml" run_line b2n n2b.
