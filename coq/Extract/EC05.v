(* Case-line interpreter for C05 (evaluated by the extracted driver and inside Coq).
   Q <hex|->                 HttpProcessors::parse_request on these bytes      (SPEC column: -)
   S <hex|->                 HttpProcessors::parse_response on these bytes     (SPEC column: -)
   QM <method> <target hex|-> <0|1> <n> { <name hex|-> <ows hex|-> <value> <ows hex|-> }*n B <body hex|->
   SM <0|1> <status> <reason hex|-> <n> { ... }*n B <body hex|->
        abstract message (Spec/Http1Grammar.v msg) + body.  MODEL: analyse (render msg ++ body);
        SPEC: expect msg when wf msg, else -; known: wf msg && known msg.  (The Rust harness renders
        the same message with its own renderer.)
        <value> = r<hex>  |  l<item>,<item>,..   item = <pre hex>.<tag hex>.<n | w<o1 hex>_<o2 hex>_<q hex>>.<post hex>   (W instead of w: the literal is "Q=")
   result:  NONE | UNSPEC (HTTP/2 adapter would be tried / not modelled) |
     request : <method> <uri hex> HTTP/1.x hdr=<name hex>:<value hex|->:<position>,..|- cookies=<name hex>:<value hex|->:<position>,..|-
               referer=<hex|-> ua=<hex|-> lang=<hex|-|UNSPEC> sig=<hex of the printed observation>
     response: HTTP/1.x <status> hdr=... sig=<hex> *)
From Coq Require Import List NArith Bool.
From Coq Require Import Strings.Byte.
From HN Require Import Base.Bytes Base.Http1Text Model.SigAst Model.Http1 Model.Lang Model.Http1Obs Spec.Http1Grammar.
Import ListNotations.
Open Scope N_scope.

Definition bad : bytes := bs "BADCASE".
(* Bytes.fields reverses an accumulator with the quadratic List.rev; case lines here are long *)
Definition fields' (l : bytes) : list bytes := filter (fun f => negb (bytes_eqb f [])) (split_byte sp l).
Definition read_hex_dash (t : bytes) : option bytes := if bytes_eqb t (bs "-") then Some [] else read_hex t.

(* weight token -> (weight, "Q=" flag) *)
Definition parse_weight (t : bytes) : option (option (bytes * bytes * bytes) * bool) :=
  if bytes_eqb t (bs "n") then Some (None, false) else
  match t with
  | b :: r => if beqb b "w"%byte || beqb b "W"%byte then
                match split_byte "_"%byte r with
                | [a; c; q] => match read_hex a, read_hex c, read_hex q with
                               | Some a', Some c', Some q' => Some (Some (a', c', q'), beqb b "W"%byte)
                               | _, _, _ => None end
                | _ => None end
              else None
  | [] => None end.
Definition parse_item (t : bytes) : option lang_item :=
  match split_byte "."%byte t with
  | [a; g; w; p] => match read_hex a, read_hex g, parse_weight w, read_hex p with
                    | Some a', Some g', Some (w', up), Some p' =>
                        Some {| li_pre := a'; li_tag := g'; li_weight := w'; li_post := p'; li_qupper := up |}
                    | _, _, _, _ => None end
  | _ => None end.
Fixpoint all_some {A} (l : list (option A)) : option (list A) :=
  match l with
  | [] => Some []
  | Some x :: r => option_map (cons x) (all_some r)
  | None :: _ => None end.
Definition parse_value (t : bytes) : option hvalue :=
  match t with
  | b :: r => if beqb b "r"%byte then option_map VRaw (read_hex r)
              else if beqb b "l"%byte then
                match r with [] => Some (VLang []) | _ => option_map VLang (all_some (map parse_item (split_byte ","%byte r))) end
              else None
  | [] => None end.
Fixpoint parse_hlines (n : nat) (ts : list bytes) : option (list hline * list bytes) :=
  match n with
  | O => Some ([], ts)
  | S k => match ts with
           | a :: b :: c :: d :: r =>
               match read_hex_dash a, read_hex_dash b, parse_value c, read_hex_dash d, parse_hlines k r with
               | Some na, Some o1, Some v, Some o2, Some (hs, rest) =>
                   Some ({| hl_name := na; hl_ows1 := o1; hl_value := v; hl_ows2 := o2 |} :: hs, rest)
               | _, _, _, _, _ => None end
           | _ => None end
  end.
Definition parse_v (t : bytes) : option bool :=
  if bytes_eqb t (bs "1") then Some true else if bytes_eqb t (bs "0") then Some false else None.

Definition spec_col (m : msg) (shown : bytes) : bytes := if wf m then shown else bs "-".

Definition run_msg (start : start_line) (n : bytes) (ts : list bytes) : bytes :=
  match read_N n with
  | Some k =>
      if 200 <? k then bad else
      match parse_hlines (N.to_nat k) ts with
      | Some (hs, [b; body]) =>
          match read_hex_dash body with
          | Some bd =>
              if bytes_eqb b (bs "B") then
                let m := {| m_start := start; m_headers := hs |} in
                match start with
                | SReq me t v => out3 (show_result show_req (analyse_request (render m ++ bd)))
                                      (spec_col m (show_req (expect_request m me t v))) (wf m && known m)
                | SResp v st _ => out3 (show_result show_resp (analyse_response (render m ++ bd)))
                                       (spec_col m (show_resp (expect_response m v st))) (wf m && known m)
                end
              else bad
          | None => bad end
      | _ => bad end
  | None => bad end.

Definition run_line (l : bytes) : bytes :=
  match fields' l with
  | [k; h] =>
      match read_hex_dash h with
      | Some d =>
          if bytes_eqb k (bs "Q") then out3 (show_result show_req (analyse_request d)) (bs "-") false
          else if bytes_eqb k (bs "S") then out3 (show_result show_resp (analyse_response d)) (bs "-") false
          else bad
      | None => bad end
  | k :: a :: b :: c :: n :: ts =>
      if bytes_eqb k (bs "QM") then
        match read_hex_dash b, parse_v c with
        | Some t, Some v => run_msg (SReq a t v) n ts
        | _, _ => bad end
      else if bytes_eqb k (bs "SM") then
        match parse_v a, read_hex_dash c with
        | Some v, Some reason => run_msg (SResp v b reason) n ts
        | _, _ => bad end
      else bad
  | _ => bad end.

Example run_line_ex :
  run_line (bs "QM GET 2f 1 2 486f7374 20 r61 - 436f6f6b6965 20 r613d623b20633d64 - B fffe00")
  = bs "GET 2f HTTP/1.1 hdr=486f7374:61:0 cookies=61:62:0,63:64:1 referer=- ua=- lang=- sig=313a486f73743a557365722d4167656e742c436f6e6e656374696f6e2c4163636570742c4163636570742d456e636f64696e672c4163636570742d4c616e67756167652c4163636570742d436861727365742c4b6565702d416c6976653a3f3f3f"
    ++ [x09] ++ bs "GET 2f HTTP/1.1 hdr=486f7374:61:0 cookies=61:62:0,63:64:1 referer=- ua=- lang=- sig=313a486f73743a557365722d4167656e742c436f6e6e656374696f6e2c4163636570742c4163636570742d456e636f64696e672c4163636570742d4c616e67756167652c4163636570742d436861727365742c4b6565702d416c6976653a3f3f3f"
    ++ [x09] ++ bs "0".
Proof. vm_compute. reflexivity. Qed.

Require Extraction.
Require Import ExtrOcamlBasic.
Extraction "Extract/C05_model.ml" run_line b2n n2b.
