(* Case-line interpreter for C11 (evaluated by the extracted driver and inside Coq).
   line:   <mode> <capacity> <item> <item> ...
   mode H  HTTP analyzer (Model/HttpFlow.v + HttpRecog.v), mode T  TLS analyzer (Model/TlsFlow.v):
     item = event  <conn><c|s>:<flags>:<seq>:<payload hex | ->                      (as in EC09.v)
          | macro  <conn><c|s>*<count>*<size>:<flags>:<seq>:<template hex>
            = <count> packets; packet i has sequence number seq + i*size (mod 2^32) and carries the
              <size> bytes of the endlessly repeated template starting at offset i*size
     H token per event  <-|Q|R>:<retained bytes>:<cost>      per macro  <reports>x:<retained after>:<max cost>
     T token per event  <-|S|E>:<retained bytes>             per macro  <reports>x:<retained after>
   mode R  TlsClientHelloReader on its own:  item = <chunk hex>  |  <template hex>*<count>*<size>
     token per chunk <S|N|E>:<buffer_len>                    per macro  <S count>x:<buffer_len after>
   modes P, L, K  the same analyzers reached through the public parallel entry points
     (HuginnNet{Http,Tls,Tcp}::with_config.. + init_pool, ONE worker, so the worker's table is the whole
     analyzer):  <mode> <capacity> <queue size> <items>; the queue size must not influence anything the
     model says (one packet is in flight at a time): the worker's table has the configured capacity.
     P  items as in mode H; token per event <-|Q|R>, per macro <reports>x
     L  items as in mode T; result = the reports in order, S<conn><c|s> each, or - if there is none
     K  item = <conn><c|s>:<tsval> (a SYN / SYN+ACK carrying that TSval; the harness advances an injected
        clock so that every comparison with a stored reference succeeds); token u (uptime reported) or -
   mode U  uptime tracker (Model/Tracker.v), frequency computation always failing (equal TSval):
     item = <conn><c|s>:<tsval>            token = number of records in the tracker afterwards
   MODEL = the tokens; SPEC = the same line when every packet satisfies Spec/BoundSpec.v
   (retained <= capacity * 65540, cost <= 65540 + 4 * payload length), else EXCEEDED@<packet index>;
   SPEC is - for mode R once a parse error was returned (the analyzers drop the reader then).
   known = 1 iff mode H and the bounds are exceeded (HTTP flows store and re-parse without limit).
   parse_tls_client_hello is replaced by a recogniser adequate for the generated records only:
   the generator's one ClientHello record -> parsed; its ServerHelloDone, ServerHello, Certificate,
   ServerKeyExchange and two multi-message records -> no ClientHello;
   any other complete handshake record (unknown type 0xff, empty, spliced) -> error. *)
From Coq Require Import List NArith Bool.
From Coq Require Import Strings.Byte.
From HN Require Import Base.Bytes Base.Cache Base.Tcp Model.HttpFlow Model.HttpRecog Model.TlsFlow Model.Tracker
  Model.Cost Spec.BoundSpec.
Import ListNotations.
Open Scope N_scope.

Definition has_byte (c : byte) (l : bytes) : bool := existsb (beqb c) l.
Definition star : byte := "*"%byte.

Definition parse_who (t : bytes) : option (N * bool) :=
  match rev t with
  | d :: r =>
      match read_N (rev r) with
      | Some n => if beqb d "c"%byte then Some (n, true) else if beqb d "s"%byte then Some (n, false) else None
      | None => None
      end
  | [] => None
  end.

Definition hex_or_dash (p : bytes) : option bytes := if bytes_eqb p (bs "-") then Some [] else read_hex p.

(* <size> bytes of the repeated template from offset off (the template is non-empty) *)
Fixpoint cycle_take (tpl cur : bytes) (n : nat) : bytes :=
  match n with
  | O => []
  | S k => match cur with
           | b :: r => b :: cycle_take tpl r k
           | [] => match tpl with b :: r => b :: cycle_take tpl r k | [] => [] end
           end
  end.
Fixpoint cycle_drop (tpl cur : bytes) (n : nat) : bytes :=
  match n with
  | O => cur
  | S k => match cur with
           | _ :: r => cycle_drop tpl r k
           | [] => match tpl with _ :: r => cycle_drop tpl r k | [] => [] end
           end
  end.

(* a group = the packets one item stands for *)
Fixpoint macro_events (n : nat) (mk : N -> bytes -> event) (seq size : N) (tpl cur : bytes) : list event :=
  match n with
  | O => []
  | S k => mk seq (cycle_take tpl cur (N.to_nat size))
           :: macro_events k mk ((seq + size) mod two32) size tpl (cycle_drop tpl cur (N.to_nat size))
  end.

Definition parse_item (t : bytes) : option (bool * list event) :=     (* (is macro, packets) *)
  match split_on ":"%byte t with
  | [w; f; s; p] =>
      match read_N s, hex_or_dash p with
      | Some sq, Some pay =>
          if negb (sq <? two32) then None else
          let mk := fun who : N * bool => fun (q : N) (d : bytes) =>
                      mkEv (fst who) (snd who) (has_byte "S"%byte f) (has_byte "F"%byte f) (has_byte "R"%byte f) q d in
          match split_on star w with
          | [w1] => match parse_who w1 with
                    | Some who => if fst who <? 200 then Some (false, [mk who sq pay]) else None
                    | None => None end
          | [w1; c; z] =>
              match parse_who w1, read_N c, read_N z, pay with
              | Some who, Some cnt, Some size, _ :: _ =>
                  if (fst who <? 200) && (1 <=? size) && (size <=? 65495)
                  then Some (true, macro_events (N.to_nat cnt) (mk who) sq size pay pay) else None
              | _, _, _, _ => None
              end
          | _ => None
          end
      | _, _ => None
      end
  | _ => None
  end.

Fixpoint parse_items (ts : list bytes) : option (list (bool * list event)) :=
  match ts with
  | [] => Some []
  | t :: r => match parse_item t, parse_items r with
              | Some e, Some es => Some (e :: es)
              | _, _ => None end
  end.

Definition max_list (l : list N) : N := fold_right N.max 0 l.

(* ---- mode H ---- *)
Definition kind_h (o : hout bytes bytes) : bytes := match o with ONone => bs "-" | OReq _ => bs "Q" | OResp _ => bs "R" end.
Definition is_report_h (o : hout bytes bytes) : bool := match o with ONone => false | _ => true end.

(* run one group from state st: tokens and observations (retained, cost, payload length) *)
Definition group_h (st : state) (g : bool * list event) : state * bytes * list (N * N * N) :=
  let segs := map wire (snd g) in
  let '(st1, prof) := http_profile recog_req recog_resp st segs in
  let obs := map (fun x => let '(_, r, c) := fst x in (r, c, len_N (g_pay (snd x)))) (combine prof segs) in
  let tok :=
    if fst g then
      show_N (len_N (filter (fun x => is_report_h (fst (fst x))) prof)) ++ bs "x:" ++ show_N (retained_http st1)
      ++ bs ":" ++ show_N (max_list (map (fun x => snd x) prof))
    else match prof with
         | (o, r, c) :: _ => kind_h o ++ bs ":" ++ show_N r ++ bs ":" ++ show_N c
         | [] => bs "?" end in
  (st1, tok, obs).

Fixpoint run_h (st : state) (gs : list (bool * list event)) : list bytes * list (N * N * N) :=
  match gs with
  | [] => ([], [])
  | g :: r => let '(st1, tok, obs) := group_h st g in
              let '(toks, obss) := run_h st1 r in (tok :: toks, obs ++ obss)
  end.

(* ---- mode T ---- *)
(* the two records the generator makes that parse: its one ClientHello, and a ServerHelloDone *)
Definition gen_client_hello : bytes :=
  match read_hex (bs "160301002d010000290303000102030405060708090a0b0c0d0e0f101112131415161718191a1b1c1d1e1f00000213010100") with
  | Some b => b | None => [] end.
Definition gen_server_hello_done : bytes :=
  match read_hex (bs "16030300040e000000") with Some b => b | None => [] end.
(* further complete handshake records the generator makes that tls-parser accepts and that hold no
   ClientHello: ServerHello, Certificate (one 1-byte entry), ServerKeyExchange (opaque), a record with
   ServerHello + ServerHelloDone, a record with all four messages *)
Definition gen_other_records : list bytes :=
  map (fun h => match read_hex h with Some b => b | None => [] end)
    [ bs "160303002a020000260303202122232425262728292a2b2c2d2e2f303132333435363738393a3b3c3d3e3f00130100";
      bs "160303000b0b000007000004000001aa";
      bs "160303000c0c00000803001d0401020304";
      bs "160303002e020000260303202122232425262728292a2b2c2d2e2f303132333435363738393a3b3c3d3e3f001301000e000000";
      bs "1603030045020000260303202122232425262728292a2b2c2d2e2f303132333435363738393a3b3c3d3e3f001301000b000007000004000001aa0c00000803001d04010203040e000000" ].
Definition tls_parse_gen (rec : bytes) : tls_parse :=
  if bytes_eqb rec gen_client_hello then TSome
  else if bytes_eqb rec gen_server_hello_done || existsb (bytes_eqb rec) gen_other_records then TNone
  else TErr.
Definition kind_t (o : tout) : bytes := match o with TOutNone => bs "-" | TOutSome => bs "S" | TOutErr => bs "E" end.

Definition group_t (st : tstate) (g : bool * list event) : tstate * bytes * list (N * N * N) :=
  let segs := map wire (snd g) in
  let '(st1, prof) := tls_profile tls_parse_gen st segs in
  let obs := map (fun x => let '(_, r, c) := fst x in (r, c, len_N (g_pay (snd x)))) (combine prof segs) in
  let tok :=
    if fst g then
      show_N (len_N (filter (fun x => match fst (fst x) with TOutSome => true | _ => false end) prof))
      ++ bs "x:" ++ show_N (retained_tls st1)
    else match prof with
         | (o, r, _) :: _ => kind_t o ++ bs ":" ++ show_N r
         | [] => bs "?" end in
  (st1, tok, obs).

Fixpoint run_t (st : tstate) (gs : list (bool * list event)) : list bytes * list (N * N * N) :=
  match gs with
  | [] => ([], [])
  | g :: r => let '(st1, tok, obs) := group_t st g in
              let '(toks, obss) := run_t st1 r in (tok :: toks, obs ++ obss)
  end.

(* ---- mode R ---- *)
Fixpoint macro_chunks (n : nat) (size : N) (tpl cur : bytes) : list bytes :=
  match n with
  | O => []
  | S k => cycle_take tpl cur (N.to_nat size) :: macro_chunks k size tpl (cycle_drop tpl cur (N.to_nat size))
  end.
Definition parse_chunk_item (t : bytes) : option (bool * list bytes) :=
  match split_on star t with
  | [h] => match hex_or_dash h with Some c => Some (false, [c]) | None => None end
  | [h; c; z] => match read_hex h, read_N c, read_N z with
                 | Some (b :: tpl), Some cnt, Some size =>
                     if 1 <=? size then Some (true, macro_chunks (N.to_nat cnt) size (b :: tpl) (b :: tpl)) else None
                 | _, _, _ => None end
  | _ => None
  end.
Fixpoint parse_chunk_items (ts : list bytes) : option (list (bool * list bytes)) :=
  match ts with
  | [] => Some []
  | t :: r => match parse_chunk_item t, parse_chunk_items r with
              | Some e, Some es => Some (e :: es)
              | _, _ => None end
  end.
Definition kind_r (o : rres) : bytes := match o with RSome => bs "S" | RNone => bs "N" | RErr => bs "E" end.

Definition is_nil_b (l : bytes) : bool := match l with [] => true | _ => false end.
(* reader after the chunks, per chunk (result, buffer_len, cost, chunk length), and whether a parse
   error (Err with the buffer kept, i.e. not "record too large") was returned *)
Fixpoint reader_chunks (r : reader) (cs : list bytes) : reader * list (rres * N * N * N) * bool :=
  match cs with
  | [] => (r, [], false)
  | c :: rest =>
      let cost := cost_add_bytes r c in
      let '(r1, o) := add_bytes tls_parse_gen r c in
      let perr := match o with RErr => negb (is_nil_b (r_buf r1)) | _ => false end in
      let n := len_N (r_buf r1) in
      let lc := len_N c in
      let '(r2, l, e) := reader_chunks r1 rest in
      (r2, (o, n, cost, lc) :: l, perr || e)
  end.

Fixpoint run_r (r : reader) (gs : list (bool * list bytes)) : list bytes * list (N * N * N) * bool :=
  match gs with
  | [] => ([], [], false)
  | g :: rest =>
      let '(r1, l, e) := reader_chunks r (snd g) in
      let tok :=
        if fst g then
          show_N (len_N (filter (fun x => match fst (fst (fst x)) with RSome => true | _ => false end) l))
          ++ bs "x:" ++ show_N (len_N (r_buf r1))
        else match l with
             | (o, n, _, _) :: _ => kind_r o ++ bs ":" ++ show_N n
             | [] => bs "?" end in
      let '(toks, obss, e2) := run_r r1 rest in
      (tok :: toks, map (fun x => let '(_, n, c, pl) := x in (n, c, pl)) l ++ obss, e || e2)
  end.

(* ---- mode U ---- *)
Definition parse_u_item (t : bytes) : option (ckey * tsrec) :=
  match split_on ":"%byte t with
  | [w; v] => match parse_who w, read_N v with
              | Some (n, cl), Some ts => Some ((167772416 + n, 40000 + n, 167772673, 80, cl), mkTs ts 0 false)
              | _, _ => None end
  | _ => None
  end.
Fixpoint parse_u_items (ts : list bytes) : option (list (ckey * tsrec)) :=
  match ts with
  | [] => Some []
  | t :: r => match parse_u_item t, parse_u_items r with
              | Some e, Some es => Some (e :: es)
              | _, _ => None end
  end.
Fixpoint run_u (t : tracker) (ops : list (ckey * tsrec)) : list bytes * list (N * N * N) :=
  match ops with
  | [] => ([], [])
  | (k, cur) :: r =>
      let t1 := fst (check_ts (fun _ _ => false) t k cur) in
      let '(toks, obs) := run_u t1 r in
      (show_N (retained_tcp t1) :: toks, (retained_tcp t1, 1, 0) :: obs)
  end.

(* ---- modes P, L, K: one-worker pools (the queue size is not part of the model) ---- *)
Definition tok_p (st : state) (g : bool * list event) : state * bytes * list (N * N * N) :=
  let segs := map wire (snd g) in
  let '(st1, prof) := http_profile recog_req recog_resp st segs in
  let obs := map (fun x => let '(_, r, c) := fst x in (r, c, len_N (g_pay (snd x)))) (combine prof segs) in
  let tok :=
    if fst g then show_N (len_N (filter (fun x => is_report_h (fst (fst x))) prof)) ++ bs "x"
    else match prof with (o, _, _) :: _ => kind_h o | [] => bs "?" end in
  (st1, tok, obs).
Fixpoint run_p (st : state) (gs : list (bool * list event)) : list bytes * list (N * N * N) :=
  match gs with
  | [] => ([], [])
  | g :: r => let '(st1, tok, obs) := tok_p st g in
              let '(toks, obss) := run_p st1 r in (tok :: toks, obs ++ obss)
  end.

Definition who_tok (e : event) : bytes := bs "S" ++ show_N (e_conn e) ++ (if e_client e then bs "c" else bs "s").
Fixpoint run_l (st : tstate) (evs : list event) : list bytes * list (N * N * N) :=
  match evs with
  | [] => ([], [])
  | e :: r =>
      let p := wire e in
      let c := cost_tls st p in
      let '(st1, o) := tstep tls_parse_gen st p in
      let ret := retained_tls st1 in
      let '(toks, obs) := run_l st1 r in
      ((match o with TOutSome => who_tok e :: toks | _ => toks end), (ret, c, len_N (g_pay p)) :: obs)
  end.

Fixpoint run_k (t : tracker) (ops : list (ckey * tsrec)) : list bytes * list (N * N * N) :=
  match ops with
  | [] => ([], [])
  | (k, cur) :: r =>
      let '(t1, rep) := check_ts (fun _ _ => true) t k cur in
      let '(toks, obs) := run_k t1 r in
      ((if rep then bs "u" else bs "-") :: toks, (retained_tcp t1, 1, 0) :: obs)
  end.

Definition spec_of (cap : N) (model : bytes) (obs : list (N * N * N)) : bytes :=
  match first_violation cap obs 0 with
  | None => model
  | Some i => bs "EXCEEDED@" ++ show_N i
  end.

Definition run_line (l : bytes) : bytes :=
  match fields l with
  | m :: c :: ts =>
      match read_N c with
      | None => bs "BADCASE"
      | Some cap =>
          if bytes_eqb m (bs "H") then
            match parse_items ts with
            | Some gs => let '(toks, obs) := run_h (cache_new cap) gs in
                         let model := join (bs " ") toks in
                         out3 model (spec_of cap model obs) (negb (within_bounds cap obs))
            | None => bs "BADCASE" end
          else if bytes_eqb m (bs "T") then
            match parse_items ts with
            | Some gs => let '(toks, obs) := run_t (cache_new cap) gs in
                         let model := join (bs " ") toks in
                         out3 model (spec_of cap model obs) false
            | None => bs "BADCASE" end
          else if bytes_eqb m (bs "R") then
            match parse_chunk_items ts with
            | Some gs => let '(toks, obs, perr) := run_r reader_new gs in
                         let model := join (bs " ") toks in
                         out3 model (if perr then bs "-" else spec_of 1 model obs) false
            | None => bs "BADCASE" end
          else if bytes_eqb m (bs "P") then
            match ts with
            | q :: ts' =>
                match read_N q, parse_items ts' with
                | Some _, Some gs => let '(toks, obs) := run_p (cache_new cap) gs in
                                     let model := join (bs " ") toks in
                                     out3 model (spec_of cap model obs) (negb (within_bounds cap obs))
                | _, _ => bs "BADCASE" end
            | [] => bs "BADCASE" end
          else if bytes_eqb m (bs "L") then
            match ts with
            | q :: ts' =>
                match read_N q, parse_items ts' with
                | Some _, Some gs => let '(toks, obs) := run_l (cache_new cap) (concat (map snd gs)) in
                                     let model := match toks with [] => bs "-" | _ => join (bs " ") toks end in
                                     out3 model (spec_of cap model obs) false
                | _, _ => bs "BADCASE" end
            | [] => bs "BADCASE" end
          else if bytes_eqb m (bs "K") then
            match ts with
            | q :: ts' =>
                match read_N q, parse_u_items ts' with
                | Some _, Some ops => let '(toks, obs) := run_k (cache_new cap) ops in
                                      let model := join (bs " ") toks in
                                      out3 model (spec_of cap model obs) false
                | _, _ => bs "BADCASE" end
            | [] => bs "BADCASE" end
          else if bytes_eqb m (bs "U") then
            match parse_u_items ts with
            | Some ops => let '(toks, obs) := run_u (cache_new cap) ops in
                          let model := join (bs " ") toks in
                          out3 model (spec_of cap model obs) false
            | None => bs "BADCASE" end
          else bs "BADCASE"
      end
  | _ => bs "BADCASE"
  end.

(* SYN, then "GET / HT" three times (24 bytes stored, rebuilt and re-scanned each time) *)
Example run_line_ex :
  run_line (bs "H 10 1c:S:1000:- 1c*3*8:PA:1001:474554202f204854")
  = bs "-:0:0 0x:24:80	-:0:0 0x:24:80	0".
Proof. vm_compute. reflexivity. Qed.

Require Extraction.
Require Import ExtrOcamlBasic.
Extraction "Extract/C11_model.ml" run_line b2n n2b.
