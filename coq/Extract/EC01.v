(* Case-line interpreter for C01 (evaluated by the extracted driver and, on a sample, inside Coq).
   Bytes are lowercase hex, "-" is the empty byte string, numbers are decimal.

   O <hex option bytes> <hex flags byte> <window>
        option walk of visit_tcp + mtu + window size on an IPv4 segment whose TCP header carries
        exactly these option bytes (<= 40; data offset = 5 + ceil(len/4), frame cut after the options)
        -> RET lay=<olayout> mss=<n|-> ws=<n|-> q=<walk quirks> win=<wsize> mtu=<n|->  |  ERR
   W <window> <mss> <total_header> <has_ts 0|1> <4|6>      detect_win_multiplicator -> RET <wsize>
   P6 <hex ipv6 packet (>= 40 bytes)>                      IpOptions::calculate_ipv6_length -> RET <n>
   R <chunk>:<o> <chunk>:<o> ...   TlsClientHelloReader::add_bytes per chunk; <o> in {s,n,e} is the
        recorded outcome of parse_tls_client_hello (Some / None / Err) should the reader call it on
        that chunk  -> RET <N|S|E>:<buffer_len after> per chunk
   T <flow>:<payload>:<o> ...   TCP segments (flow number, payload, recorded parser outcome as in R) through ONE TLS
        analyzer instance (process_ipv4_packet + flow table) -> RET <S|-> per segment; TP: the same, the harness also
        sends them through a one-worker TLS WorkerPool (direct oracle)
   J <q|s> <hex ASCII bytes> <s|n|e>   Http1Parser::parse_request (q) / parse_response (s), also through Http1Processor and
        parse_http1_request/_response; the last field is the recorded verdict of the real parser (whether the start-line and
        header parsers accept the head); MODEL = head layout of Model/TotalHttp1.v -> RET N (Ok(None)) | RET S (Ok(Some)) | RET E (Err)
   K <chunk> <chunk> ...   Http2FingerprintExtractor::add_bytes per chunk -> RET <N|S> per chunk
   F <hex>     Http2Parser::parse_frames_with_offset -> RET n=<consumed> <type>,<flags>,<stream>,<len>[=<payload summary>] ...
   S <hex>     parse_settings_payload / parse_window_update_payload / parse_priority_payload(7, .)
   X <hex frame>   raw_filter quick extraction + the three flow-hash identities
   L <hex frame>   packet_parser parse_packet + detect_datalink_format -> RET p=<4|6>@<offset>+<ip bytes>|none d=eth|raw|null|none
   E <entry> <hex>                      whole entry point: MODEL answers RET (totality only)
   H <entry> <hex>;<hex>;... | <hex>    history then probe on one instance: MODEL answers RET

   Result = RET <summary> | ERR | PANIC | HANG.  SPEC column: the MODEL's own line when it is not
   PANIC/HANG, the literal NOPANIC otherwise (a model panic shows up as MODEL <> SPEC). *)
From Coq Require Import List NArith Bool.
From Coq Require Import Strings.Byte.
From HN Require Import Base.Bytes Model.TotalBase Model.TotalTcpOpt Model.TotalMisc Model.TotalReader
  Model.TotalH2 Model.TotalRaw Model.TotalLink Model.TotalTlsFlow Model.TotalHttp1 Spec.TotalSpec.
Import ListNotations.
Open Scope N_scope.

Definition read_hexd (t : bytes) : option bytes := if bytes_eqb t (bs "-") then Some [] else read_hex t.
Definition bad : bytes := bs "BADCASE".

Definition show_R (r : R bytes) : bytes :=
  match r with Ok s => s | Err => bs "ERR" | Panic => bs "PANIC" | OutOfFuel => bs "HANG" end.
Definition rmap {A} (f : A -> bytes) (r : R A) : R bytes := x <- r ;; Ok (f x).
Definition finish (r : R bytes) : bytes := let m := show_R r in out3 m (spec_col m) false.

Definition ceil4 (n : N) : N := (n + 3) / 4.

Definition run_O (ts : list bytes) : bytes :=
  match ts with
  | [o; f; w] =>
      match read_hexd o, read_hex f, read_N w with
      | Some opts, Some [fl], Some win =>
          if (len opts <=? 40) && (win <=? 65535) then
            finish (rmap show_tcpsum (visit_tcp_v4 (b2n fl) win 5 (5 + ceil4 (len opts)) opts))
          else bad
      | _, _, _ => bad end
  | _ => bad end.

Definition run_W (ts : list bytes) : bytes :=
  match ts with
  | [w; m; h; t; v] =>
      match read_N w, read_N m, read_N h, read_N t, read_N v with
      | Some w, Some m, Some h, Some t, Some v =>
          if (w <=? 65535) && (m <=? 65535) && (h <=? 65535) && (t <=? 1) && ((v =? 4) || (v =? 6)) then
            finish (rmap (fun x => bs "RET " ++ show_wsize x) (detect_win w m h (t =? 1) (v =? 6)))
          else bad
      | _, _, _, _, _ => bad end
  | _ => bad end.

Definition run_P6 (ts : list bytes) : bytes :=
  match ts with
  | [p] => match read_hexd p with
           | Some pk => if 40 <=? len pk then finish (rmap (fun n => bs "RET " ++ show_N n) (ipv6_olen pk)) else bad
           | None => bad end
  | _ => bad end.


Definition parse_pres (t : bytes) : option pres :=
  if bytes_eqb t (bs "s") then Some PSome else if bytes_eqb t (bs "n") then Some PNone
  else if bytes_eqb t (bs "e") then Some PErr else None.
Fixpoint parse_rchunks (ts : list bytes) : option (list (bytes * pres)) :=
  match ts with
  | [] => Some []
  | t :: r =>
      match fsplit_on ":"%byte t, parse_rchunks r with
      | [c; o], Some rest => match read_hexd c, parse_pres o with Some b, Some q => Some ((b, q) :: rest) | _, _ => None end
      | _, _ => None end
  end.
Definition run_R (ts : list bytes) : bytes :=
  match ts, parse_rchunks ts with
  | _ :: _, Some cs => finish (rmap show_feed (feed rstate0 cs))
  | _, _ => bad end.

Fixpoint read_hexd_list (ts : list bytes) : option (list bytes) :=
  match ts with
  | [] => Some []
  | t :: r => match read_hexd t, read_hexd_list r with Some b, Some rest => Some (b :: rest) | _, _ => None end
  end.
Definition run_K (ts : list bytes) : bytes :=
  match ts, read_hexd_list ts with
  | _ :: _, Some cs =>
      finish (rmap (fun l => bs "RET" ++ concat (map (fun b : bool => sp :: (if b then bs "S" else bs "N")) l)) (x_feed xstate0 cs))
  | _, _ => bad end.


Fixpoint parse_tsegs (ts : list bytes) : option (list (N * bytes * pres)) :=
  match ts with
  | [] => Some []
  | t :: r =>
      match fsplit_on ":"%byte t, parse_tsegs r with
      | [f; c; o], Some rest =>
          match read_N f, read_hexd c, parse_pres o with Some n, Some b, Some q => Some ((n, b, q) :: rest) | _, _, _ => None end
      | _, _ => None end
  end.
Definition run_T (ts : list bytes) : bytes :=
  match ts, parse_tsegs ts with
  | _ :: _, Some segs => finish (rmap show_tls_run (tls_run [] segs))
  | _, _ => bad end.


Definition run_J (ts : list bytes) : bytes :=
  match ts with
  | [k; d; o] =>
      match read_hexd d with
      | Some b =>
          if forallb (fun x => b2n x <? 128) b && (bytes_eqb k (bs "q") || bytes_eqb k (bs "s"))
             && (bytes_eqb o (bs "s") || bytes_eqb o (bs "n") || bytes_eqb o (bs "e")) then
            finish (rmap show_h1res (parse_head (bytes_eqb o (bs "s")) b))
          else bad
      | None => bad end
  | _ => bad end.

Definition run_hex1 (f : bytes -> R bytes) (ts : list bytes) : bytes :=
  match ts with
  | [d] => match read_hexd d with Some b => finish (f b) | None => bad end
  | _ => bad end.

Definition run_line (l : bytes) : bytes :=
  match ffields l with
  | k :: ts =>
      if bytes_eqb k (bs "O") then run_O ts
      else if bytes_eqb k (bs "W") then run_W ts
      else if bytes_eqb k (bs "P6") then run_P6 ts
      else if bytes_eqb k (bs "R") then run_R ts
      else if bytes_eqb k (bs "K") then run_K ts
      else if bytes_eqb k (bs "J") then run_J ts
      else if bytes_eqb k (bs "T") || bytes_eqb k (bs "TP") then run_T ts
      else if bytes_eqb k (bs "F") then run_hex1 run_frames ts
      else if bytes_eqb k (bs "S") then run_hex1 run_payloads ts
      else if bytes_eqb k (bs "X") then run_hex1 run_raw ts
      else if bytes_eqb k (bs "L") then run_hex1 run_link ts
      else if bytes_eqb k (bs "E") || bytes_eqb k (bs "H") then
        match ts with _ :: _ :: _ => out3 (bs "RET") (bs "RET") false | _ => bad end
      else bad
  | _ => bad end.

Example run_line_ex :
  run_line (bs "O 020405b40402080a000000010000000001030307 02 65535")
  = bs "RET lay=mss,sok,ts,nop,ws mss=1460 ws=7 q=- win=v65535 mtu=1500	RET lay=mss,sok,ts,nop,ws mss=1460 ws=7 q=- win=v65535 mtu=1500	0".
Proof. vm_compute. reflexivity. Qed.

Require Extraction.
Require Import ExtrOcamlBasic.
Extraction "Extract/C01_model.ml" run_line b2n n2b.
