(* Case-line interpreter for C04.  Fingerprint strings are printed with `esc` (bytes outside 0x21..0x7e as \xHH)
   on both sides; the specification's strings never contain such bytes.
   *)
(* R <hex>          the bytes handed to huginn_net_tls::tls_process::parse_tls_client_hello ("-" = empty)
     MODEL: NONE | ERR | <ja4> <ja4_r> <ja4_o> <ja4_ro> ver=.. sni=.. alpn=.. ciphers=.. exts=.. sigalgs=.. groups=.. fmts=..
     SPEC : Ja4Spec.line h when the bytes are `encode_hello h` for a hello h with `wf h` (h is found by the
            decoder below and *checked* by re-encoding, so the decoder is not trusted), "-" otherwise
     known: Ja4Spec.known h
   V <hexA> <hexB>  a hello and a variant of it (ciphers / extensions permuted, GREASE inserted or removed
                    in ciphers, extensions, signature algorithms, supported versions); BADCASE unless B is
                    such a variant of A.  MODEL/SPEC: "<ja4 A> <ja4_r A> | <ja4 B> <ja4_r B>". *)
From Coq Require Import List NArith Bool.
From Coq Require Import Strings.Byte.
From HN Require Import Base.Bytes Model.TlsHello Model.Ja4 Spec.Ja4Spec.
Import ListNotations.
Open Scope N_scope.

Definition bad : bytes := bs "BADCASE".

(* space-separated tokens, linear time (Base.Bytes.split_on reverses with the quadratic List.rev) *)
Fixpoint tokens_aux (l cur : bytes) : list bytes :=
  match l with
  | [] => match cur with [] => [] | _ => [rev_append cur []] end
  | b :: r => if beqb b sp then match cur with [] => tokens_aux r [] | _ => rev_append cur [] :: tokens_aux r [] end
              else tokens_aux r (b :: cur)
  end.
Definition tokens (l : bytes) : list bytes := tokens_aux l [].
Definition read_hex_or_dash (h : bytes) : option bytes := if bytes_eqb h (bs "-") then Some [] else read_hex h.

(* ---------- decoder: finds the abstract hello of well-formed bytes (validated by re-encoding) ---------- *)
Fixpoint dec_names (fuel : nat) (i : bytes) : option (list (N * bytes)) :=
  match i with
  | [] => Some []
  | _ => match fuel with O => None | S f =>
           match u8 i with None => None | Some (t, i1) =>
           match ld16 i1 with None => None | Some (v, rest) =>
           match dec_names f rest with Some l => Some ((t, v) :: l) | None => None end end end
         end
  end.
Fixpoint dec_protos (fuel : nat) (i : bytes) : option (list bytes) :=
  match i with
  | [] => Some []
  | _ => match fuel with O => None | S f =>
           match ld8 i with None => None | Some (v, rest) =>
           match dec_protos f rest with Some l => Some (v :: l) | None => None end end
         end
  end.
Definition whole {A} (o : option (A * bytes)) : option A :=
  match o with Some (a, []) => Some a | _ => None end.

Definition dec_body (t : N) (d : bytes) : ext_body :=
  let raw := BRaw d in
  if t =? 0 then match whole (ld16 d) with Some l => match dec_names (length l) l with Some n => BSni n | None => raw end | None => raw end
  else if t =? 16 then match whole (ld16 d) with Some l => match dec_protos (length l) l with Some p => BAlpn p | None => raw end | None => raw end
  else if t =? 43 then match whole (ld8 d) with Some l => if N.even (lenN l) then BVersions (u16s l) else raw | None => raw end
  else if t =? 13 then match whole (ld16 d) with Some l => if N.even (lenN l) then BSigAlgs (u16s l) else raw | None => raw end
  else if t =? 10 then match whole (ld16 d) with Some l => if N.even (lenN l) then BGroups (u16s l) else raw | None => raw end
  else if t =? 11 then match whole (ld8 d) with Some l => BPointFormats l | None => raw end
  else raw.
Fixpoint dec_exts (fuel : nat) (i : bytes) : option (list (N * ext_body)) :=
  match i with
  | [] => Some []
  | _ => match fuel with O => None | S f =>
           match u16 i with None => None | Some (t, i1) =>
           match ld16 i1 with None => None | Some (d, rest) =>
           match dec_exts f rest with Some l => Some ((t, dec_body t d) :: l) | None => None end end end
         end
  end.

Definition decode_hello (data : bytes) : option hello :=
  match u8 data with None => None | Some (rt, i) =>
  match u16 i with None => None | Some (rv, i) =>
  match whole (ld16 i) with None => None | Some m =>
  match u8 m with None => None | Some (ht, i) =>
  match whole (ld24 i) with None => None | Some b =>
  match u16 b with None => None | Some (v, i) =>
  match split_at 32 i with None => None | Some (random, i) =>
  match ld8 i with None => None | Some (sid, i) =>
  match ld16 i with None => None | Some (cs, i) =>
  match ld8 i with None => None | Some (comp, i) =>
    if (rt =? 0x16) && (ht =? 1) && N.even (lenN cs) then
      match i with
      | [] => Some {| h_rec_version := rv; h_version := v; h_random := random; h_sid := sid;
                      h_ciphers := u16s cs; h_comp := comp; h_exts := []; h_omit_ext_block := true |}
      | _ => match whole (ld16 i) with None => None | Some e =>
             match dec_exts (length e) e with None => None | Some exts =>
               Some {| h_rec_version := rv; h_version := v; h_random := random; h_sid := sid;
                       h_ciphers := u16s cs; h_comp := comp; h_exts := exts; h_omit_ext_block := false |}
             end end
      end
    else None
  end end end end end end end end end end.

(* the hello these bytes encode, if any (checked, not trusted) *)
Definition hello_of (data : bytes) : option hello :=
  match decode_hello data with
  | Some h => if bytes_eqb (encode_hello h) data then Some h else None
  | None => None
  end.

(* ---------- "B is a permutation / GREASE variant of A" ---------- *)
Fixpoint list_eqb {A} (eq : A -> A -> bool) (a b : list A) : bool :=
  match a, b with
  | [], [] => true
  | x :: a', y :: b' => eq x y && list_eqb eq a' b'
  | _, _ => false
  end.
Definition pair_eqb (a b : N * bytes) : bool := (fst a =? fst b) && bytes_eqb (snd a) (snd b).
Definition canon_body (b : ext_body) : ext_body :=
  match b with
  | BVersions vs => BVersions (non_grease vs)
  | BSigAlgs l => BSigAlgs (non_grease l)
  | _ => b
  end.
Definition body_eqb (a b : ext_body) : bool :=
  match a, b with
  | BSni x, BSni y => list_eqb pair_eqb x y
  | BAlpn x, BAlpn y => list_eqb bytes_eqb x y
  | BVersions x, BVersions y => list_eqb N.eqb x y
  | BSigAlgs x, BSigAlgs y => list_eqb N.eqb x y
  | BGroups x, BGroups y => list_eqb N.eqb x y
  | BPointFormats x, BPointFormats y => bytes_eqb x y
  | BRaw x, BRaw y => bytes_eqb x y
  | _, _ => false
  end.
Fixpoint insert_ext (e : N * ext_body) (l : list (N * ext_body)) : list (N * ext_body) :=
  match l with
  | [] => [e]
  | y :: r => if fst e <=? fst y then e :: l else y :: insert_ext e r
  end.
Definition canon_exts (l : list (N * ext_body)) : list (N * ext_body) :=
  fold_right insert_ext [] (map (fun e => (fst e, canon_body (snd e))) (filter (fun e => negb (grease (fst e))) l)).
Definition no_dup_types (l : list (N * ext_body)) : bool :=
  forallb (fun e => count_type (fst e) (map fst l) =? 1) l.
Definition is_variant (a b : hello) : bool :=
  (h_version a =? h_version b)
  && list_eqb N.eqb (sorted (non_grease (h_ciphers a))) (sorted (non_grease (h_ciphers b)))
  && no_dup_types (filter (fun e => negb (grease (fst e))) (h_exts a))
  && list_eqb (fun x y => (fst x =? fst y) && body_eqb (snd x) (snd y)) (canon_exts (h_exts a)) (canon_exts (h_exts b)).

Definition model_pair (data : bytes) : bytes :=
  match parse_tls_client_hello data with
  | RSig s => esc (ja4_full (generate_ja4 s)) ++ [sp] ++ esc (ja4_raw (generate_ja4 s))
  | RNone => bs "NONE"
  | RErr => bs "ERR"
  end.
Definition spec_pair (h : hello) : bytes := ja4 h ++ [sp] ++ ja4_r h.

Definition run_line (l : bytes) : bytes :=
  match tokens l with
  | [k; x] =>
      if bytes_eqb k (bs "R") then
        match read_hex_or_dash x with
        | Some data =>
            let m := result_line_esc (parse_tls_client_hello data) in
            match hello_of data with
            | Some h => if wf h then out3 m (line h) (known h) else out3 m (bs "-") false
            | None => out3 m (bs "-") false
            end
        | None => bad end
      else bad
  | [k; x; y] =>
      if bytes_eqb k (bs "V") then
        match read_hex x, read_hex y with
        | Some da, Some db =>
            match hello_of da, hello_of db with
            | Some ha, Some hb =>
                if is_variant ha hb then
                  let m := model_pair da ++ bs " | " ++ model_pair db in
                  if wf ha && wf hb then out3 m (spec_pair ha ++ bs " | " ++ spec_pair hb) (known ha || known hb)
                  else out3 m (bs "-") false
                else bad
            | _, _ => bad
            end
        | _, _ => bad end
      else bad
  | _ => bad end.

Example run_line_ex :
  run_line (bs "R 160301002b01000027030300000000000000000000000000000000000000000000000000000000000000000000000100")
  = bs "t12i000000_000000000000_000000000000 t12i000000__ t12i000000_000000000000_000000000000 t12i000000__ ver=12 sni=- alpn=- ciphers=- exts=- sigalgs=- groups=- fmts=:"
    ++ [tab] ++
    bs "t12i000000_000000000000_000000000000 t12i000000__ t12i000000_000000000000_000000000000 t12i000000__ ver=12 sni=- alpn=- ciphers=- exts=- sigalgs=- groups=- fmts=:"
    ++ [tab] ++ bs "0".
Proof. vm_compute. reflexivity. Qed.

Require Extraction.
Require Import ExtrOcamlBasic.
Extraction "Extract/C04_model.ml" run_line b2n n2b.
