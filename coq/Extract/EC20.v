(* Case-line interpreter for C20.  Grammar (see harness/c20/src/main.rs):
   <t><h><l><m><d> N (<tcp-res> <http-res> <tls-res>)* F <frame hex>*
   res := E | group(,group)*    group := - | <sig hex>~<match on>~<match off>
   result: packets joined by ';', 8 groups joined by ',', group '-' or <sig hex>~<match> ; CTORERR
   SPEC column: the same per packet, '*' where the property gives no verdict for that packet
   kind K (concrete composition, HTTP must be disabled):  <t>0<l><m><d> K <cap> <t ms>:<frame hex> ...
   MODEL: Model/Unified.v unified_run over the packet-level TCP analyzer model (Model/TcpAnalyzer.v with the MTU table
          of Gen/Mtu.v, tracker capacity <cap>, <t ms> = clock reading of the packet) and the stateless TLS path
          (Model/AnalyzerReports.v tcp_ustep, tls_ufn); packets joined by ';', the 8 groups by '^':
          '-' | signature text | <mtu>~<M+link hex|X|D> | uptime token | TLS token.
   SPEC : spec_run_enabled over the same concrete analyzers, '*' where an enabled analyzer rejects the packet.
   kind U (fully concrete composition, HTTP may be enabled):  <t><h><l><m><d> U <cap> <t ms>:<frame hex> ...
   as K, with the packet-level HTTP analyzer model (Model/HttpAnalyzer.v, flow table of capacity <cap>) and the
   HTTP/1 + HTTP/2 parser pair of Model/HttpH2.v as the HTTP stage (Model/HttpGlue.v http_ustep); the two HTTP groups
   print '-' | Q.<..> | R.<..> (HTTP/1, as EC09) | Q2 <request line without auth/scheme/lang> | R2 <response line>
   (matching of browsers / web servers is outside the model: only the observed signature part is compared). *)
From Coq Require Import List NArith ZArith Bool.
From Coq Require Import Strings.Byte.
From HN Require Import Base.Bytes Base.Cache Model.Unified Spec.UnifiedSpec Model.AnalyzerReports Model.HttpAnalyzer Model.HttpGlue Model.HttpH2 Gen.Mtu.
From HN Require Model.TcpAnalyzer.
Import ListNotations.

Definition parse_group (t : bytes) : option (option grp) :=
  if bytes_eqb t (bs "-") then Some None else
  match fsplit_on "~"%byte t with
  | [s; a; b] => Some (Some {| g_sig := s; g_on := a; g_off := b |})
  | _ => None end.
Fixpoint parse_groups (ts : list bytes) : option (list (option grp)) :=
  match ts with
  | [] => Some []
  | t :: r => match parse_group t, parse_groups r with Some g, Some gs => Some (g :: gs) | _, _ => None end
  end.
(* outer None: unparsable *)
Definition parse_res (n : nat) (t : bytes) : option pres :=
  if bytes_eqb t (bs "E") then Some None else
  match parse_groups (fsplit_on ","%byte t) with
  | Some gs => if Nat.eqb (length gs) n then Some (Some gs) else None
  | None => None end.

Fixpoint parse_packets (fuel : nat) (ts : list bytes) : option (list (pres * pres * pres)) :=
  match fuel with O => None | S f =>
  match ts with
  | [] => None
  | t :: r =>
      if bytes_eqb t (bs "F") then Some [] else
      match r with
      | h :: l :: r' =>
          match parse_res 5 t, parse_res 2 h, parse_res 1 l, parse_packets f r' with
          | Some a, Some b, Some c, Some ps => Some ((a, b, c) :: ps)
          | _, _, _, _ => None end
      | _ => None end
  end end.

Definition bit (b : byte) : bool := beqb b "1"%byte.
Definition parse_cfg (t : bytes) : option cfg :=
  match t with
  | [a; b; c; d; e] => Some {| tcp_en := bit a; http_en := bit b; tls_en := bit c; matcher_en := bit d; db_present := bit e |}
  | _ => None end.

Definition show_shown (s : shown) : bytes :=
  match s with None => bs "-" | Some (sg, m) => sg ++ "~"%byte :: m end.
Definition show_packet (gs : list shown) : bytes := join (bs ",") (map show_shown gs).
Definition show_trace (ps : list (list shown)) : bytes := join (bs ";") (map show_packet ps).

Fixpoint all_some {A} (l : list (option A)) : option (list A) :=
  match l with
  | [] => Some []
  | Some x :: r => option_map (cons x) (all_some r)
  | None :: _ => None end.

(* ---- kind K ---- *)
Fixpoint parse_kevents (ts : list bytes) : option (list TcpAnalyzer.tcp_event) :=
  match ts with
  | [] => Some []
  | t :: r =>
      match fsplit_on ":"%byte t, parse_kevents r with
      | [tm; h], Some es =>
          match read_N tm, (if bytes_eqb h (bs "-") then Some [] else read_hex h) with
          | Some t', Some f => Some ((f, Z.of_N t') :: es)
          | _, _ => None end
      | _, _ => None end
  end.
Definition show_k_group (ig : nat * shown) : bytes :=
  match snd ig with
  | None => bs "-"
  | Some (sg, m) => if Nat.eqb (fst ig) 2 then sg ++ "~"%byte :: m else sg
  end.
Definition show_k_packet (gs : list shown) : bytes := join (bs "^") (map show_k_group (combine (seq 0 (length gs)) gs)).
Definition no_http (s : unit) (e : TcpAnalyzer.tcp_event) : unit * pres := (s, Some (absent 2)).
(* the standalone analyzers of the ENABLED protocols on the same trace (= Proofs/UnifiedProofs.v spec_run_enabled) *)
Fixpoint k_spec_run (cf : cfg) (cap : N) (st : TcpAnalyzer.tcp_state) (es : list TcpAnalyzer.tcp_event) : list (option (list shown)) :=
  match es with
  | [] => []
  | e :: r => spec_packet cf (snd (tcp_ustep mtu_table cap st e)) (Some (absent 2)) (tls_ufn e)
              :: k_spec_run cf cap (if tcp_en cf then fst (tcp_ustep mtu_table cap st e) else st) r
  end.
Definition run_k (cf : cfg) (cap : N) (es : list TcpAnalyzer.tcp_event) : bytes :=
  if http_en cf then bs "BADCASE" else
  if negb (ctor_ok cf) then out3 (bs "CTORERR") (bs "CTORERR") false else
  let model := unified_run TcpAnalyzer.tcp_event TcpAnalyzer.tcp_state unit (tcp_ustep mtu_table cap) no_http tls_ufn cf ([], tt) es in
  let spec := k_spec_run cf cap [] es in
  out3 (join (bs ";") (map show_k_packet model))
       (join (bs ";") (map (fun o => match o with Some gs => show_k_packet gs | None => bs "*" end) spec)) false.

(* ---- kind U: all three stages concrete ---- *)
Definition u_http := http_ustep parse_req_12nl parse_resp_12.
Fixpoint u_spec_run (cf : cfg) (cap : N) (st : TcpAnalyzer.tcp_state) (sh : http_state) (es : list TcpAnalyzer.tcp_event)
  : list (option (list shown)) :=
  match es with
  | [] => []
  | e :: r => spec_packet cf (snd (tcp_ustep mtu_table cap st e)) (if http_en cf then snd (u_http sh e) else Some (absent 2)) (tls_ufn e)
              :: u_spec_run cf cap (if tcp_en cf then fst (tcp_ustep mtu_table cap st e) else st)
                            (if http_en cf then fst (u_http sh e) else sh) r
  end.
Definition run_u (cf : cfg) (cap : N) (es : list TcpAnalyzer.tcp_event) : bytes :=
  if negb (ctor_ok cf) then out3 (bs "CTORERR") (bs "CTORERR") false else
  let model := unified_run TcpAnalyzer.tcp_event TcpAnalyzer.tcp_state http_state (tcp_ustep mtu_table cap) u_http tls_ufn cf
                           ([], cache_new cap) es in
  let spec := u_spec_run cf cap [] (cache_new cap) es in
  out3 (join (bs ";") (map show_k_packet model))
       (join (bs ";") (map (fun o => match o with Some gs => show_k_packet gs | None => bs "*" end) spec)) false.

Definition run_line (l : bytes) : bytes :=
  match fsplit_on sp l with
  | c :: n :: rest =>
      if bytes_eqb n (bs "U") then
        match parse_cfg c, rest with
        | Some cf, capt :: evs =>
            match read_N capt, parse_kevents evs with
            | Some cap, Some es => run_u cf cap es
            | _, _ => bs "BADCASE" end
        | _, _ => bs "BADCASE" end
      else
      if bytes_eqb n (bs "K") then
        match parse_cfg c, rest with
        | Some cf, capt :: evs =>
            match read_N capt, parse_kevents evs with
            | Some cap, Some es => run_k cf cap es
            | _, _ => bs "BADCASE" end
        | _, _ => bs "BADCASE" end
      else
      match parse_cfg c, parse_packets (S (length rest)) rest with
      | Some cf, Some ps =>
          if negb (bytes_eqb n (bs "N")) then bs "BADCASE" else
          if negb (ctor_ok cf) then out3 (bs "CTORERR") (bs "CTORERR") false else
          let model := show_trace (map (fun x => match x with (t, h, tl) => analyze_packet cf t h tl end) ps) in
          (* per packet: the property's verdict, or * when an enabled analyzer rejected that packet *)
          let spec := join (bs ";") (map (fun x => match x with (t, h, tl) =>
                         match spec_packet cf t h tl with Some o => show_packet o | None => bs "*" end end) ps) in
          out3 model spec false
      | _, _ => bs "BADCASE" end
  | _ => bs "BADCASE" end.

Example run_line_ex :
  run_line (bs "10111 N aa~M01~D,-,-,-,- E 00~X~X F 00")
  = bs "aa~M01,-,-,-,-,-,-,00~X	aa~M01,-,-,-,-,-,-,00~X	0".
Proof. vm_compute. reflexivity. Qed.

(* kind K: the first two packets of a generated trace, TCP + TLS enabled, matcher on *)
Example run_line_ex_K :
  run_line (bs "10111 K 8 1000500:02000000000102000000000208004500003c12344000401100000a0100225db8d8224e410050194727c800000000a002faf000000000020405b40402080a000b09950000000001030307 1000344:02000000000102000000000208004500003c12344000400600000a0100225db8d8224e410050194727c800000000a002faf000000000020405b40402080a000b09950000000001030307")
  = bs "-^-^-^-^-^-^-^-;4:64+0:0:1460:mss*44,7:mss,sok,ts,nop,ws:df,id+:0^-^1500~M+45746865726e6574206f72206d6f64656d^-^-^-^-^-	*;4:64+0:0:1460:mss*44,7:mss,sok,ts,nop,ws:df,id+:0^-^1500~M+45746865726e6574206f72206d6f64656d^-^-^-^-^-	0".
Proof. vm_compute. reflexivity. Qed.

Require Extraction.
Require Import ExtrOcamlBasic.
Extraction "Extract/C20_model.ml" run_line b2n n2b.
