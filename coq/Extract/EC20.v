(* Case-line interpreter for C20.  Grammar (see harness/c20/src/main.rs):
   <t><h><l><m><d> N (<tcp-res> <http-res> <tls-res>)* F <frame hex>*
   res := E | group(,group)*    group := - | <sig hex>~<match on>~<match off>
   result: packets joined by ';', 8 groups joined by ',', group '-' or <sig hex>~<match> ; CTORERR
   SPEC column: the same per packet, '*' where the property gives no verdict for that packet *)
From Coq Require Import List NArith Bool.
From Coq Require Import Strings.Byte.
From HN Require Import Base.Bytes Model.Unified Spec.UnifiedSpec.
Import ListNotations.

Definition parse_group (t : bytes) : option (option grp) :=
  if bytes_eqb t (bs "-") then Some None else
  match fsplit_on "~"%byte t with
  | [s; a; b] => Some (Some {| g_sig := s; g_on := a; g_off := b |})
  | _ => None end.
Fixpoint parse_groups (ts : list bytes) : option (list (option grp)) :=
  match ts with
  | [] => Some []
  | t :: r => match parse_group t, parse_groups r with Some g, Some gs => Some (g :: gs) | _, _ => None end
  end.
(* outer None: unparsable *)
Definition parse_res (n : nat) (t : bytes) : option pres :=
  if bytes_eqb t (bs "E") then Some None else
  match parse_groups (fsplit_on ","%byte t) with
  | Some gs => if Nat.eqb (length gs) n then Some (Some gs) else None
  | None => None end.

Fixpoint parse_packets (fuel : nat) (ts : list bytes) : option (list (pres * pres * pres)) :=
  match fuel with O => None | S f =>
  match ts with
  | [] => None
  | t :: r =>
      if bytes_eqb t (bs "F") then Some [] else
      match r with
      | h :: l :: r' =>
          match parse_res 5 t, parse_res 2 h, parse_res 1 l, parse_packets f r' with
          | Some a, Some b, Some c, Some ps => Some ((a, b, c) :: ps)
          | _, _, _, _ => None end
      | _ => None end
  end end.

Definition bit (b : byte) : bool := beqb b "1"%byte.
Definition parse_cfg (t : bytes) : option cfg :=
  match t with
  | [a; b; c; d; e] => Some {| tcp_en := bit a; http_en := bit b; tls_en := bit c; matcher_en := bit d; db_present := bit e |}
  | _ => None end.

Definition show_shown (s : shown) : bytes :=
  match s with None => bs "-" | Some (sg, m) => sg ++ "~"%byte :: m end.
Definition show_packet (gs : list shown) : bytes := join (bs ",") (map show_shown gs).
Definition show_trace (ps : list (list shown)) : bytes := join (bs ";") (map show_packet ps).

Fixpoint all_some {A} (l : list (option A)) : option (list A) :=
  match l with
  | [] => Some []
  | Some x :: r => option_map (cons x) (all_some r)
  | None :: _ => None end.

Definition run_line (l : bytes) : bytes :=
  match fsplit_on sp l with
  | c :: n :: rest =>
      match parse_cfg c, parse_packets (S (length rest)) rest with
      | Some cf, Some ps =>
          if negb (bytes_eqb n (bs "N")) then bs "BADCASE" else
          if negb (ctor_ok cf) then out3 (bs "CTORERR") (bs "CTORERR") false else
          let model := show_trace (map (fun x => match x with (t, h, tl) => analyze_packet cf t h tl end) ps) in
          (* per packet: the property's verdict, or * when an enabled analyzer rejected that packet *)
          let spec := join (bs ";") (map (fun x => match x with (t, h, tl) =>
                         match spec_packet cf t h tl with Some o => show_packet o | None => bs "*" end end) ps) in
          out3 model spec false
      | _, _ => bs "BADCASE" end
  | _ => bs "BADCASE" end.

Example run_line_ex :
  run_line (bs "10111 N aa~M01~D,-,-,-,- E 00~X~X F 00")
  = bs "aa~M01,-,-,-,-,-,-,00~X	aa~M01,-,-,-,-,-,-,00~X	0".
Proof. vm_compute. reflexivity. Qed.

Require Extraction.
Require Import ExtrOcamlBasic.
Extraction "Extract/C20_model.ml" run_line b2n n2b.
