(* Case-line interpreter for C17 (evaluated by the extracted driver and inside Coq).
   line:
     O <hex|->                      raw bytes, one-shot extract_akamai_fingerprint_from_bytes; SPEC "-"
     I <hex|-> <hex|-> ...          raw bytes, one add_bytes per chunk;                        SPEC "-"
     F <p|n> <frames|-> <hex|->     abstract frames (p = client preface first); the hex bytes must be a
                                    prefix of the wire encoding of the frames (else BADCASE); one-shot
     J <p|n> <frames|-> <hex|-> ... same, bytes supplied in chunks (their concatenation is the prefix)
   frames: `;`-separated  <type>.<flags>.<reserved bit>.<stream>.<payload hex, may be empty>   (decimal)
   result: one token per call (O/F: one; I/J: one per chunk, space separated):
     NONE | PANIC | ERR | <fingerprint string, bytes outside 0x21..0x7e and '%' as %xx>
   SPEC column: same format from AkamaiSpec (fp / inc_spec on the abstract frames), "-" when the
   frames seen up to the report are outside wf_frames. *)
From Coq Require Import List NArith Bool.
From Coq Require Import Strings.Byte.
From HN Require Import Base.Bytes Model.H2Text Model.H2Frames Model.Hpack Model.Akamai Model.AkamaiInc Spec.H2Wire Spec.AkamaiSpec.
Import ListNotations.
Open Scope N_scope.

Definition bad : bytes := bs "BADCASE".
Definition dash : bytes := bs "-".

Definition esc_byte (b : byte) : bytes :=
  let n := b2n b in
  if (33 <=? n) && (n <=? 126) && negb (n =? 37) then [b]
  else "%"%byte :: show_hex [b].
Definition esc (t : bytes) : bytes := flat_map esc_byte t.

Definition hex_or_dash (t : bytes) : option bytes := if bytes_eqb t dash then Some [] else read_hex t.

Fixpoint map_opt {A B} (f : A -> option B) (l : list A) : option (list B) :=
  match l with
  | [] => Some []
  | x :: r => match f x, map_opt f r with Some y, Some t => Some (y :: t) | _, _ => None end
  end.

Definition parse_frame (t : bytes) : option (bool * frame) :=
  match split_lin "."%byte t with
  | [ty; fl; r; st; pl] =>
      match read_N ty, read_N fl, read_N r, read_N st, read_hex pl with
      | Some ty, Some fl, Some r, Some st, Some pl =>
          Some (negb (r =? 0), {| f_type := ty; f_flags := fl; f_stream := st; f_payload := pl |})
      | _, _, _, _, _ => None
      end
  | _ => None
  end.
Definition parse_frames_tok (t : bytes) : option (list (bool * frame)) :=
  if bytes_eqb t dash then Some [] else map_opt parse_frame (split_lin ";"%byte t).
Definition parse_pre (t : bytes) : option bool :=
  if bytes_eqb t (bs "p") then Some true else if bytes_eqb t (bs "n") then Some false else None.

Definition show_outcome (o : outcome (option bytes)) : bytes :=
  match o with
  | Panicked => bs "PANIC"
  | Val None => bs "NONE"
  | Val (Some t) => esc t
  end.
Definition show_add (r : add_result) : bytes :=
  match r with RNone => bs "NONE" | RSome t => esc t | RErr => bs "ERR" | RPanic => bs "PANIC" end.
Definition show_spec (o : option text) : bytes := match o with None => bs "NONE" | Some t => esc t end.

Definition run_line (l : bytes) : bytes :=
  match fields_lin l with
  | k :: args =>
      if bytes_eqb k (bs "O") then
        match args with
        | [h] => match hex_or_dash h with
                 | Some data => out3 (show_outcome (extract_akamai_fingerprint_from_bytes data)) dash false
                 | None => bad end
        | _ => bad end
      else if bytes_eqb k (bs "I") then
        match map_opt hex_or_dash args with
        | Some chunks => out3 (join (bs " ") (map show_add (inc_outs chunks))) dash false
        | None => bad end
      else if bytes_eqb k (bs "F") then
        match args with
        | [p; fr; h] =>
            match parse_pre p, parse_frames_tok fr, hex_or_dash h with
            | Some pre, Some frs, Some data =>
                if forallb wire_ok frs && starts_with data (stream_start pre frs) then
                  let vis := visible_at pre frs (blen data) in
                  out3 (show_outcome (extract_akamai_fingerprint_from_bytes data))
                       (if wf_frames vis then show_spec (fp vis) else dash)
                       (known vis)
                else bad
            | _, _, _ => bad end
        | _ => bad end
      else if bytes_eqb k (bs "J") then
        match args with
        | p :: fr :: hs =>
            match parse_pre p, parse_frames_tok fr, map_opt hex_or_dash hs with
            | Some pre, Some frs, Some chunks =>
                if forallb wire_ok frs && starts_with (concat chunks) (stream_start pre frs) then
                  let bds := boundaries pre frs 0 chunks in
                  out3 (join (bs " ") (map show_add (inc_outs chunks)))
                       (if forallb wf_frames bds
                        then join (bs " ") (map show_spec (inc_spec pre frs chunks)) else dash)
                       (existsb known bds)
                else bad
            | _, _, _ => bad end
        | _ => bad end
      else bad
  | _ => bad
  end.

(* a PRIORITY frame completed in the chunk before the one that completes SETTINGS is kept (fix 9ca3ef7) *)
Example run_line_ex :
  run_line (bs "J p 2.0.0.3.00000000c8;4.0.0.0.000300000064 505249202a20485454502f322e300d0a0d0a534d0d0a0d0a00000502000000000300000000c80000060400 00000000000300000064")
  = bs "NONE 3:100|00|3:0:0:201|" ++ [tab] ++ bs "NONE 3:100|00|3:0:0:201|" ++ [tab] ++ bs "0".
Proof. vm_compute. reflexivity. Qed.

Require Extraction.
Require Import ExtrOcamlBasic.
Extraction "Extract/C17_model.ml" run_line b2n n2b.
