(* Case-line interpreter for C15 (evaluated both by the extracted driver and inside Coq).
   line:  <filter configuration exactly as in EC14: A|D [P pop*] [I iop*] [N sop*] E>  then
          F <hexframe>                      one frame
          T <analyzer> <hexframe>+          a trace (analyzer = tcp|http|tls|uni|ptcp|phttp|ptls: which real
                                            analyzer the harness also runs filtered vs unfiltered; the model does not
                                            depend on it)
   F result:  quick=<src> <dst> <sp> <dp>|FAILOPEN analyzer=<src> <dst> <sp> <dp>|NONE pass=0|1
              quick    = what raw_filter extracts (the harness recovers it from the public `apply` by probing),
              analyzer = endpoints as the analyzer decodes them, pass = raw_filter::apply(frame, cfg).
              SPEC: same observation fields, pass = documented rule (C14 spec) on the analyzer's endpoints;
              `-` when the analyzer reports no endpoints (nothing can be emitted for the frame).
   T result:  adm=<i,j,..>  0-based indices of the frames that have analyzer endpoints and that apply() admits;
              SPEC: indices of the frames whose analyzer endpoints the documented rule admits.
   addr: 4:<hex8> | 6:<hex32>;  known = 0 always: no known class is left after fix 3908c86. *)
From Coq Require Import List NArith Bool.
From Coq Require Import Strings.Byte.
From HN Require Import Base.Bytes Model.Filter Model.RawFrame Spec.FilterSpec Spec.CommuteSpec Extract.EC14.
Import ListNotations.
Open Scope N_scope.

Definition show_ip (a : ip) : bytes :=
  match a with
  | V4 x => bs "4:" ++ show_hex (be_bytes 4 x)
  | V6 x => bs "6:" ++ show_hex (be_bytes 16 x)
  end.
Definition show_endpoints (e : endpoints) : bytes :=
  show_ip (e_src e) ++ sp :: show_ip (e_dst e) ++ sp :: show_N (e_sport e) ++ sp :: show_N (e_dport e).
Definition show_opt_endpoints (none : bytes) (o : option endpoints) : bytes :=
  match o with Some e => show_endpoints e | None => none end.

Definition f_line (quick analyzer : option endpoints) (pass : bool) : bytes :=
  bs "quick=" ++ show_opt_endpoints (bs "FAILOPEN") quick ++ bs " analyzer=" ++
  show_opt_endpoints (bs "NONE") analyzer ++ bs " pass=" ++ show_bool pass.

Fixpoint read_frames (ts : list bytes) : option (list bytes) :=
  match ts with
  | [] => Some []
  | t :: r => match read_hex t, read_frames r with Some f, Some fs => Some (f :: fs) | _, _ => None end
  end.

(* indices (from i) of the frames satisfying P *)
Fixpoint indices (P : bytes -> bool) (i : N) (fs : list bytes) : list bytes :=
  match fs with
  | [] => []
  | f :: r => (if P f then [show_N i] else []) ++ indices P (i + 1) r
  end.
Definition adm_line (P : bytes -> bool) (fs : list bytes) : bytes :=
  bs "adm=" ++ join (bs ",") (indices P 0 fs).

Definition model_admits (c : cfg_src) (f : bytes) : bool :=
  is_some (analyzer_endpoints f) && raw_apply (build c) f.

Definition run_line (l : bytes) : bytes :=
  match fields l with
  | m :: ts =>
      match parse_cfg ts {| st_sec := SecNone; st_p := None; st_i := None; st_n := None |} with
      | Some (st, k :: rest) =>
          let c := {| c_deny := bytes_eqb m (bs "D"); c_port := st_p st; c_ip := st_i st; c_sub := st_n st |} in
          if negb (cfg_wf c) then bad
          else if bytes_eqb k (bs "F") then
            match rest with
            | [h] =>
                match read_hex h with
                | Some f =>
                    let q := quick_info f in
                    let a := analyzer_endpoints f in
                    out3 (f_line q a (raw_apply (build c) f))
                         (match a with Some e => f_line q a (spec_passes c e) | None => bs "-" end)
                         false
                | None => bad end
            | _ => bad end
          else if bytes_eqb k (bs "T") then
            match rest with
            | _ :: hs =>
                match read_frames hs with
                | Some fs => out3 (adm_line (model_admits c) fs) (adm_line (spec_admits c) fs)
                                  false
                | None => bad end
            | _ => bad end
          else bad
      | _ => bad end
  | _ => bad end.

Example run_line_ex :
  run_line (bs "A P d:443 E F 1e0000004500002800004000400600000a0000010a0000023039005000000000000000005002ffff00000000")
  = bs "quick=4:0a000001 4:0a000002 12345 80 analyzer=4:0a000001 4:0a000002 12345 80 pass=0" ++ tab ::
    bs "quick=4:0a000001 4:0a000002 12345 80 analyzer=4:0a000001 4:0a000002 12345 80 pass=0" ++ tab :: bs "0".
Proof. vm_compute. reflexivity. Qed.

Require Extraction.
Require Import ExtrOcamlBasic.
Extraction "Extract/C15_model.ml" run_line b2n n2b.
