(* Case-line interpreter for C14 (evaluated both by the extracted driver and inside Coq).
   line:  A|D  [P pop*] [I iop*] [N sop*] E <src> <dst> <sport> <dport>
   pop:   d:<n> s:<n> dr:<a>:<b> sr:<a>:<b> dl:<n,n,..> sl:<n,n,..> any
   iop:   a:4:<hex8> a:6:<hex32> so do         sop: n:4:<hex8>/<p> n:6:<hex32>/<p> so do
   addr:  4:<hex8> | 6:<hex32> *)
From Coq Require Import List NArith Bool.
From Coq Require Import Strings.Byte.
From HN Require Import Base.Bytes Model.Filter Spec.FilterSpec.
Import ListNotations.
Open Scope N_scope.

Definition colon : byte := ":"%byte.
Definition parse_ip (fs : list bytes) : option ip :=
  match fs with
  | [v; h] => match read_hex h with
              | Some b => if bytes_eqb v (bs "4") then Some (V4 (be_N b))
                          else if bytes_eqb v (bs "6") then Some (V6 (be_N b)) else None
              | None => None end
  | _ => None end.

Fixpoint read_N_list (ls : list bytes) : option (list N) :=
  match ls with
  | [] => Some []
  | x :: r => match read_N x, read_N_list r with Some n, Some t => Some (n :: t) | _, _ => None end
  end.
Definition parse_list (t : bytes) : option (list N) :=
  match t with [] => Some [] | _ => read_N_list (split_on ","%byte t) end.

Definition parse_pop (t : bytes) : option pop :=
  match split_on colon t with
  | [k] => if bytes_eqb k (bs "any") then Some PAny else None
  | [k; a] =>
      if bytes_eqb k (bs "d") then option_map PDst (read_N a)
      else if bytes_eqb k (bs "s") then option_map PSrc (read_N a)
      else if bytes_eqb k (bs "dl") then option_map PDstList (parse_list a)
      else if bytes_eqb k (bs "sl") then option_map PSrcList (parse_list a)
      else None
  | [k; a; b] =>
      match read_N a, read_N b with
      | Some x, Some y => if bytes_eqb k (bs "dr") then Some (PDstRange x y)
                          else if bytes_eqb k (bs "sr") then Some (PSrcRange x y) else None
      | _, _ => None end
  | _ => None end.

Definition parse_iop (t : bytes) : option iop :=
  if bytes_eqb t (bs "so") then Some ISrcOnly else if bytes_eqb t (bs "do") then Some IDstOnly else
  match split_on colon t with
  | k :: r => if bytes_eqb k (bs "a") then option_map IAllow (parse_ip r) else None
  | _ => None end.

Definition parse_sop (t : bytes) : option sop :=
  if bytes_eqb t (bs "so") then Some SSrcOnly else if bytes_eqb t (bs "do") then Some SDstOnly else
  match split_on "/"%byte t with
  | [a; p] => match split_on colon a, read_N p with
              | k :: r, Some pn => if bytes_eqb k (bs "n") then option_map (fun i => SAllow i pn) (parse_ip r) else None
              | _, _ => None end
  | _ => None end.

Inductive section := SecNone | SecP | SecI | SecN.
Record pst := { st_sec : section; st_p : option (list pop); st_i : option (list iop); st_n : option (list sop) }.

Definition snoc_opt {A} (o : option (list A)) (x : A) : option (list A) :=
  match o with Some l => Some (l ++ [x]) | None => Some [x] end.

(* returns the configuration source and the tokens after E *)
Fixpoint parse_cfg (ts : list bytes) (st : pst) : option (pst * list bytes) :=
  match ts with
  | [] => None
  | t :: r =>
      if bytes_eqb t (bs "E") then Some (st, r)
      else if bytes_eqb t (bs "P") then parse_cfg r {| st_sec := SecP; st_p := Some []; st_i := st_i st; st_n := st_n st |}
      else if bytes_eqb t (bs "I") then parse_cfg r {| st_sec := SecI; st_p := st_p st; st_i := Some []; st_n := st_n st |}
      else if bytes_eqb t (bs "N") then parse_cfg r {| st_sec := SecN; st_p := st_p st; st_i := st_i st; st_n := Some [] |}
      else match st_sec st with
           | SecNone => None
           | SecP => match parse_pop t with
                     | Some o => parse_cfg r {| st_sec := SecP; st_p := snoc_opt (st_p st) o; st_i := st_i st; st_n := st_n st |}
                     | None => None end
           | SecI => match parse_iop t with
                     | Some o => parse_cfg r {| st_sec := SecI; st_p := st_p st; st_i := snoc_opt (st_i st) o; st_n := st_n st |}
                     | None => None end
           | SecN => match parse_sop t with
                     | Some o => parse_cfg r {| st_sec := SecN; st_p := st_p st; st_i := st_i st; st_n := snoc_opt (st_n st) o |}
                     | None => None end
           end
  end.

Definition bad : bytes := bs "BADCASE".

Definition run_line (l : bytes) : bytes :=
  match fields l with
  | m :: ts =>
      match parse_cfg ts {| st_sec := SecNone; st_p := None; st_i := None; st_n := None |} with
      | Some (st, [s; d; sp_; dp]) =>
          match parse_ip (split_on colon s), parse_ip (split_on colon d), read_N sp_, read_N dp with
          | Some src, Some dst, Some sport, Some dport =>
              let c := {| c_deny := bytes_eqb m (bs "D"); c_port := st_p st; c_ip := st_i st; c_sub := st_n st |} in
              if cfg_wf c && ip_wf src && ip_wf dst then
                out3 (show_bool (model_filter c src dst sport dport))
                     (show_bool (spec_filter c src dst sport dport)) false
              else bad
          | _, _, _, _ => bad end
      | _ => bad end
  | _ => bad end.

Example run_line_ex :
  run_line (bs "A P dr:8000:9000 d:443 N n:4:0a000000/8 so E 4:0a000001 4:00000001 5555 8999")
  = bs "1	1	0".
Proof. vm_compute. reflexivity. Qed.

Require Extraction.
Require Import ExtrOcamlBasic.
Extraction "Extract/C14_model.ml" run_line b2n n2b.
