(* Case-line interpreter for C03 (evaluated both by the extracted driver and inside Coq).
   line:  4 <hex>     the bytes of an IPv4 packet, handed to process::process_ipv4_packet
          6 <hex>     the bytes of an IPv6 packet, handed to process::process_ipv6_packet
          F <hex>     a link-layer frame (Ethernet / raw IP / NULL-loopback), through packet_parser::parse_packet
          (`-` stands for the empty byte string)
   result: NOPKT (pnet refuses the view: shorter than the fixed IP header) | ERR |
           syn=<sig>|- synack=<sig>|- mtu=<n>|- link=<hex of label>|-
   SPEC column: `render` of the decoded segment; `-` when the bytes are not a well-formed complete
   IPv4/IPv6 TCP segment (Spec.P0fTcp.decode4/decode6 = None).  known = Spec.P0fTcp.known.
   The MTU table is Gen/Mtu.v, regenerated from p0f.fp; the harness loads the default database. *)
From Coq Require Import List NArith Bool.
From Coq Require Import Strings.Byte.
From HN Require Import Base.Bytes Model.SigAst Model.Pnet Model.TcpExtract Spec.P0fTcp Gen.Mtu.
Import ListNotations.
Open Scope N_scope.

Definition bad : bytes := bs "BADCASE".
Definition read_hex_dash (h : bytes) : option bytes := if bytes_eqb h (bs "-") then Some [] else read_hex h.

Definition line_of (model : res tcp_out) (s : option segment) : bytes :=
  match s with
  | Some sg => out3 (show_out model) (show_out (render mtu_table sg)) (known sg model)
  | None => out3 (show_out model) (bs "-") false end.

Definition run4 (p : bytes) : bytes :=
  if blen p <? ipv4_min then out3 (bs "NOPKT") (bs "-") false
  else line_of (process_ipv4_packet mtu_table p) (decode4 p).
Definition run6 (p : bytes) : bytes :=
  if blen p <? ipv6_min then out3 (bs "NOPKT") (bs "-") false
  else line_of (process_ipv6_packet mtu_table p) (decode6 p).
Definition runF (f : bytes) : bytes :=
  line_of (process_frame mtu_table f)
          (match unframe f with FV4 p => decode4 p | FV6 p => decode6 p | FNone => None end).

Definition run_line (l : bytes) : bytes :=
  match fields l with
  | [k; h] =>
      match read_hex_dash h with
      | Some p =>
          if bytes_eqb k (bs "4") then run4 p
          else if bytes_eqb k (bs "6") then run6 p
          else if bytes_eqb k (bs "F") then runF p
          else bad
      | None => bad end
  | _ => bad end.

Require Extraction.
Require Import ExtrOcamlBasic.
Extraction "Extract/C03_model.ml" run_line b2n n2b.
