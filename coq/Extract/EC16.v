(* Case-line interpreter for C16 (evaluated by the extracted driver and inside Coq).
   line:
     Q <hex|->      raw bytes given to Http2Parser::parse_request (+ observation);   SPEC "-"
     S <hex|->      raw bytes given to Http2Parser::parse_response (+ observation);  SPEC "-"
     A <q|s> <ctl frames|-> <sid> <items|-> <framing> <trail frames|-> <hex>
                    abstract connection start: control frames, the stream id, the header block as HPACK
                    representation items, its framing, trailing frames, and the bytes the harness sent;
                    the Gallina side encodes the description itself (H2Spec) and answers BADCASE unless it
                    obtains exactly those bytes.  q = request (client preface first), s = response.
   frames : `;`-separated  <type>.<flags>.<reserved bit>.<stream>.<payload hex>          (as in EC17)
   items  : `,`-separated  U<n> | X<idx>:<name>:<value> | L<m><idx>:<name>:<value>:<hv>
                           | N<m>:<name>:<value>:<hn><hv>      (hex or -, m = i|w|n, hn/hv = 0|1 Huffman)
   framing: <padding hex|-|*>/<priority 5 octets hex|*>/<cut,cut,...|*>/<extra HEADERS flags>/<extra CONTINUATION flags>
   result (text fields: [A-Za-z0-9._/-] literally, other bytes %xx; absent = ~):
     NONE | ERR | PANIC
     request : <method> <path> auth=<a> scheme=<s> hdr=<pos>:<name>:<value>,... cookies=<pos>:<name>:<value>,...
               referer=<r> ua=<u> lang={al:<hex of the Accept-Language value>}|~ sig=<signature>
     response: <status> hdr=... sig=<signature>
   `{al:..}` is replaced by the harness `post` step with the result of the real
   http_languages::get_highest_quality_language on that value. *)
From Coq Require Import List NArith Bool.
From Coq Require Import Strings.Byte.
From HN Require Import Base.Bytes Model.H2Text Model.H2Frames Model.Hpack Model.H2Msg Spec.H2Wire Spec.H2Spec.
Import ListNotations.
Open Scope N_scope.

Definition bad : bytes := bs "BADCASE".
Definition dash : bytes := bs "-".
Definition star : bytes := bs "*".
Definition tilde : bytes := bs "~".

Definition safe_char (b : byte) : bool :=
  let n := b2n b in
  ((48 <=? n) && (n <=? 57)) || ((65 <=? n) && (n <=? 90)) || ((97 <=? n) && (n <=? 122))
  || (n =? 45) || (n =? 46) || (n =? 95) || (n =? 47).
Definition escs_byte (b : byte) : bytes := if safe_char b then [b] else "%"%byte :: show_hex [b].
Definition escs (t : bytes) : bytes := flat_map escs_byte t.
Definition escs_opt (o : option bytes) : bytes := match o with Some t => escs t | None => tilde end.

Definition hex_or_dash (t : bytes) : option bytes := if bytes_eqb t dash then Some [] else read_hex t.

Fixpoint map_opt {A B} (f : A -> option B) (l : list A) : option (list B) :=
  match l with
  | [] => Some []
  | x :: r => match f x, map_opt f r with Some y, Some t => Some (y :: t) | _, _ => None end
  end.

Definition parse_frame (t : bytes) : option (bool * frame) :=
  match split_lin "."%byte t with
  | [ty; fl; r; st; pl] =>
      match read_N ty, read_N fl, read_N r, read_N st, read_hex pl with
      | Some ty, Some fl, Some r, Some st, Some pl =>
          Some (negb (r =? 0), {| f_type := ty; f_flags := fl; f_stream := st; f_payload := pl |})
      | _, _, _, _, _ => None
      end
  | _ => None
  end.
Definition parse_frames_tok (t : bytes) : option (list (bool * frame)) :=
  if bytes_eqb t dash then Some [] else map_opt parse_frame (split_lin ";"%byte t).

Definition parse_mode (b : byte) : option mode :=
  if beqb b "i" then Some MIncr else if beqb b "w" then Some MWithout else if beqb b "n" then Some MNever else None.
Definition parse_bool (t : bytes) : option bool :=
  if bytes_eqb t (bs "0") then Some false else if bytes_eqb t (bs "1") then Some true else None.

Definition parse_item (t : bytes) : option item :=
  match t with
  | k :: rest =>
      if beqb k "U" then option_map ISize (read_N rest)
      else if beqb k "X" then
        match split_lin ":"%byte rest with
        | [i; n; v] => match read_N i, hex_or_dash n, hex_or_dash v with
                       | Some i, Some n, Some v => Some (IIndexed i n v) | _, _, _ => None end
        | _ => None end
      else if beqb k "L" then
        match rest with
        | m :: rest' =>
            match parse_mode m, split_lin ":"%byte rest' with
            | Some m, [i; n; v; hv] => match read_N i, hex_or_dash n, hex_or_dash v, parse_bool hv with
                                       | Some i, Some n, Some v, Some hv => Some (ILitIdx m i n v hv)
                                       | _, _, _, _ => None end
            | _, _ => None end
        | [] => None end
      else if beqb k "N" then
        match rest with
        | m :: rest' =>
            match parse_mode m, split_lin ":"%byte rest' with
            | Some m, [e; n; v; [hn; hv]] =>
                match e, hex_or_dash n, hex_or_dash v, parse_bool [hn], parse_bool [hv] with
                | [], Some n, Some v, Some hn, Some hv => Some (ILitNew m n v hn hv)
                | _, _, _, _, _ => None end
            | _, _ => None end
        | [] => None end
      else None
  | [] => None
  end.
Definition parse_items (t : bytes) : option (list item) :=
  if bytes_eqb t dash then Some [] else map_opt parse_item (split_lin ","%byte t).

(* fragments of a block cut at ascending positions *)
Fixpoint cut_block (block : bytes) (cuts : list N) (consumed : N) : option (list bytes) :=
  match cuts with
  | [] => Some [block]
  | c :: r =>
      if (c <? consumed) || (consumed + blen block <? c) then None
      else match cut_block (skipn (N.to_nat (c - consumed)) block) r c with
           | Some t => Some (firstn (N.to_nat (c - consumed)) block :: t)
           | None => None
           end
  end.

Definition parse_framing (t : bytes) : option (framing * list N) :=
  match split_lin "/"%byte t with
  | [pad; prio; cuts; eh; ec] =>
      let pad_o := if bytes_eqb pad star then Some None else option_map Some (hex_or_dash pad) in
      let prio_o := if bytes_eqb prio star then Some None else option_map Some (read_hex prio) in
      let cuts_o := if bytes_eqb cuts star then Some [] else map_opt read_N (split_lin ","%byte cuts) in
      match pad_o, prio_o, cuts_o, read_N eh, read_N ec with
      | Some pad, Some prio, Some cuts, Some eh, Some ec =>
          Some ({| fr_pad := pad; fr_prio := prio; fr_extra_h := eh; fr_extra_c := ec; fr_rsv := false |}, cuts)
      | _, _, _, _, _ => None
      end
  | _ => None
  end.

(* ---------------- printing ---------------- *)
Definition show_hhdr (h : hhdr) : bytes := show_N (h_pos h) ++ bs ":" ++ escs (h_name h) ++ bs ":" ++ escs_opt (h_value h).
Definition show_cookie (c : cookie) : bytes := show_N (c_pos c) ++ bs ":" ++ escs (c_name c) ++ bs ":" ++ escs_opt (c_value c).
Definition show_al (o : option bytes) : bytes :=
  match o with Some v => bs "{al:" ++ show_hex v ++ bs "}" | None => tilde end.
Definition show_req (v : req_view) : bytes :=
  escs (v_method v) ++ bs " " ++ escs (v_path v) ++ bs " auth=" ++ escs_opt (v_authority v)
  ++ bs " scheme=" ++ escs_opt (v_scheme v)
  ++ bs " hdr=" ++ join (bs ",") (map show_hhdr (v_headers v))
  ++ bs " cookies=" ++ join (bs ",") (map show_cookie (v_cookies v))
  ++ bs " referer=" ++ escs_opt (v_referer v) ++ bs " ua=" ++ escs_opt (v_user_agent v)
  ++ bs " lang=" ++ show_al (v_accept_language v) ++ bs " sig=" ++ escs (v_signature v).
Definition show_resp (w : resp_view) : bytes :=
  show_N (w_status w) ++ bs " hdr=" ++ join (bs ",") (map show_hhdr (w_headers w)) ++ bs " sig=" ++ escs (w_signature w).
Definition show_pres {A} (f : A -> bytes) (r : pres A) : bytes :=
  match r with POk a => f a | PNone => bs "NONE" | PErr => bs "ERR" | PPanic => bs "PANIC" end.
(* the property pins a report for every valid description, so a missing SPEC report prints as ERR *)
Definition show_spec {A} (f : A -> bytes) (o : option A) : bytes := match o with Some a => f a | None => bs "ERR" end.

Definition run_line (l : bytes) : bytes :=
  match fields_lin l with
  | k :: args =>
      if bytes_eqb k (bs "Q") then
        match args with
        | [h] => match hex_or_dash h with
                 | Some data => out3 (show_pres show_req (analyse_request data)) dash false
                 | None => bad end
        | _ => bad end
      else if bytes_eqb k (bs "S") then
        match args with
        | [h] => match hex_or_dash h with
                 | Some data => out3 (show_pres show_resp (analyse_response data)) dash false
                 | None => bad end
        | _ => bad end
      else if bytes_eqb k (bs "A") then
        match args with
        | [dir; ctl; sid; items; framing; trail; h] =>
            match parse_bool (if bytes_eqb dir (bs "q") then bs "1" else if bytes_eqb dir (bs "s") then bs "0" else dir),
                  parse_frames_tok ctl, read_N sid, parse_items items, parse_framing framing,
                  parse_frames_tok trail, hex_or_dash h with
            | Some is_req, Some ctl, Some sid, Some items, Some (fr, cuts), Some trail, Some data =>
                let block := hpack_encode items in
                match cut_block block cuts 0 with
                | Some frags =>
                    if bytes_eqb (connection_bytes is_req ctl sid fr frags trail) data then
                      let hs := headers_of items in
                      let valid := forallb (ctl_ok sid) ctl && forallb (trail_ok sid) trail
                                   && framing_ok fr frags && (0 <? sid) && (sid <? 2 ^ 31) && items_ok items in
                      if is_req then
                        out3 (show_pres show_req (analyse_request data))
                             (if valid && wf_request hs then show_spec show_req (spec_request hs) else dash)
                             (k_static15 items)
                      else
                        out3 (show_pres show_resp (analyse_response data))
                             (if valid && wf_response hs then show_spec show_resp (spec_response hs) else dash)
                             (k_static15 items)
                    else bad
                | None => bad
                end
            | _, _, _, _, _, _, _ => bad
            end
        | _ => bad end
      else bad
  | _ => bad
  end.

(* SETTINGS + WINDOW_UPDATE, then a request on stream 3: PADDED + PRIORITY HEADERS frame with the first 7
   octets of the block, two CONTINUATION frames; size update, Huffman, indexing, dynamic-table reference *)
Example run_line_ex :
  run_line (bs "A q 4.0.0.0.000300000064;8.0.1.0.00ef0001 3 U256,X2:3a6d6574686f64:474554,X7:3a736368656d65:6874747073,Li4:3a70617468:2f7365617263683f713d31:1,Ln1:3a617574686f72697479:612e6578616d706c65:0,Ni:782d637573746f6d:31:11,X62:782d637573746f6d:31,Lw32:636f6f6b6965:613d623b20633d64:1,Lw17:6163636570742d6c616e6775616765:64652c20656e3b713d302e35:0 000000/80000000ff/7,8/1/0 - 505249202a20485454502f322e300d0a0d0a534d0d0a0d0a00000604000000000000030000006400000408008000000000ef00010000100129000000030380000000ff3fe1018287448900000000000109000000000361000036090400000003051d849ffced007f1109612e6578616d706c654086f2b12d424f4f810fbe0f11861c11fda848240f020c64652c20656e3b713d302e35")
  = let r := bs "GET /search%3fq%3d1 auth=a.example scheme=https hdr=4:x-custom:1,5:x-custom:1,7:accept-language:de%2c%20en%3bq%3d0.5 cookies=0:a:b,1:c:d referer=~ ua=~ lang={al:64652c20656e3b713d302e35} sig=2%3ax-custom%3d%5b1%5d%2cx-custom%3d%5b1%5d%2caccept-language%3d%5bde%2c%20en%3bq%3d0.5%5d%3aHost%2cUser-Agent%2cConnection%2cAccept%2cAccept-Encoding%2cAccept-Charset%2cKeep-Alive%3a%3f%3f%3f" in
    r ++ [tab] ++ r ++ [tab] ++ bs "0".
Proof. vm_compute. reflexivity. Qed.

Require Extraction.
Require Import ExtrOcamlBasic.
Extraction "Extract/C16_model.ml" run_line b2n n2b.
