(* Case-line interpreter for C16 (evaluated by the extracted driver and inside Coq).
   line:
     Q <hex|->      raw bytes given to Http2Parser::parse_request (+ observation);   SPEC "-"
     S <hex|->      raw bytes given to Http2Parser::parse_response (+ observation);  SPEC "-"
     A <q|s> <ctl frames|-> <sid> <items|-> <framing> <trail frames|-> <hex>
                    abstract connection start: control frames, the stream id, the header block as HPACK
                    representation items, its framing, trailing frames, and the bytes the harness sent;
                    the Gallina side encodes the description itself (H2Spec) and answers BADCASE unless it
                    obtains exactly those bytes.  q = request (client preface first), s = response.
     G <cap> <conn>:<t ms>:<frame hex> ...
                    packet level: Ethernet frames in trace order through the concrete HTTP analyzer model
                    (Model/HttpAnalyzer.v, flow table of capacity <cap>) with the HTTP/1 + HTTP/2 parser pair of
                    Model/HttpH2.v (= HttpProcessors::parse_request / parse_response); one token per packet joined
                    by ';':  ERR | - | Q.<..> | R.<..> (HTTP/1, as EC09) | Q2 <request line without auth/scheme>
                    | R2 <response line>.  SPEC: the C07 property -- every packet reports what it reports when the
                    packets of its connection <conn> run alone (fresh table, same capacity); `-` outside capacity.
   frames : `;`-separated  <type>.<flags>.<reserved bit>.<stream>.<payload hex>          (as in EC17)
   items  : `,`-separated  U<n> | X<idx>:<name>:<value> | L<m><idx>:<name>:<value>:<hv>
                           | N<m>:<name>:<value>:<hn><hv>      (hex or -, m = i|w|n, hn/hv = 0|1 Huffman)
   framing: <padding hex|-|*>/<priority 5 octets hex|*>/<cut,cut,...|*>/<extra HEADERS flags>/<extra CONTINUATION flags>
   result (text fields: [A-Za-z0-9._/-] literally, other bytes %xx; absent = ~):
     NONE | ERR | PANIC
     request : <method> <path> auth=<a> scheme=<s> hdr=<pos>:<name>:<value>,... cookies=<pos>:<name>:<value>,...
               referer=<r> ua=<u> lang={al:<hex of the Accept-Language value>}|~ sig=<signature>
     response: <status> hdr=... sig=<signature>
   `{al:..}` is replaced by the harness `post` step with the result of the real
   http_languages::get_highest_quality_language on that value. *)
From Coq Require Import List NArith Bool.
From Coq Require Import Strings.Byte.
From HN Require Import Base.Bytes Base.Cache Model.H2Text Model.H2Frames Model.Hpack Model.H2Msg Model.H2Show Model.HttpAnalyzer Model.HttpH2 Spec.H2Wire Spec.H2Spec.
Import ListNotations.
Open Scope N_scope.

Definition bad : bytes := bs "BADCASE".
Definition dash : bytes := bs "-".
Definition star : bytes := bs "*".

Definition hex_or_dash (t : bytes) : option bytes := if bytes_eqb t dash then Some [] else read_hex t.

Fixpoint map_opt {A B} (f : A -> option B) (l : list A) : option (list B) :=
  match l with
  | [] => Some []
  | x :: r => match f x, map_opt f r with Some y, Some t => Some (y :: t) | _, _ => None end
  end.

Definition parse_frame (t : bytes) : option (bool * frame) :=
  match split_lin "."%byte t with
  | [ty; fl; r; st; pl] =>
      match read_N ty, read_N fl, read_N r, read_N st, read_hex pl with
      | Some ty, Some fl, Some r, Some st, Some pl =>
          Some (negb (r =? 0), {| f_type := ty; f_flags := fl; f_stream := st; f_payload := pl |})
      | _, _, _, _, _ => None
      end
  | _ => None
  end.
Definition parse_frames_tok (t : bytes) : option (list (bool * frame)) :=
  if bytes_eqb t dash then Some [] else map_opt parse_frame (split_lin ";"%byte t).

Definition parse_mode (b : byte) : option mode :=
  if beqb b "i" then Some MIncr else if beqb b "w" then Some MWithout else if beqb b "n" then Some MNever else None.
Definition parse_bool (t : bytes) : option bool :=
  if bytes_eqb t (bs "0") then Some false else if bytes_eqb t (bs "1") then Some true else None.

Definition parse_item (t : bytes) : option item :=
  match t with
  | k :: rest =>
      if beqb k "U" then option_map ISize (read_N rest)
      else if beqb k "X" then
        match split_lin ":"%byte rest with
        | [i; n; v] => match read_N i, hex_or_dash n, hex_or_dash v with
                       | Some i, Some n, Some v => Some (IIndexed i n v) | _, _, _ => None end
        | _ => None end
      else if beqb k "L" then
        match rest with
        | m :: rest' =>
            match parse_mode m, split_lin ":"%byte rest' with
            | Some m, [i; n; v; hv] => match read_N i, hex_or_dash n, hex_or_dash v, parse_bool hv with
                                       | Some i, Some n, Some v, Some hv => Some (ILitIdx m i n v hv)
                                       | _, _, _, _ => None end
            | _, _ => None end
        | [] => None end
      else if beqb k "N" then
        match rest with
        | m :: rest' =>
            match parse_mode m, split_lin ":"%byte rest' with
            | Some m, [e; n; v; [hn; hv]] =>
                match e, hex_or_dash n, hex_or_dash v, parse_bool [hn], parse_bool [hv] with
                | [], Some n, Some v, Some hn, Some hv => Some (ILitNew m n v hn hv)
                | _, _, _, _, _ => None end
            | _, _ => None end
        | [] => None end
      else None
  | [] => None
  end.
Definition parse_items (t : bytes) : option (list item) :=
  if bytes_eqb t dash then Some [] else map_opt parse_item (split_lin ","%byte t).

(* fragments of a block cut at ascending positions *)
Fixpoint cut_block (block : bytes) (cuts : list N) (consumed : N) : option (list bytes) :=
  match cuts with
  | [] => Some [block]
  | c :: r =>
      if (c <? consumed) || (consumed + blen block <? c) then None
      else match cut_block (skipn (N.to_nat (c - consumed)) block) r c with
           | Some t => Some (firstn (N.to_nat (c - consumed)) block :: t)
           | None => None
           end
  end.

Definition parse_framing (t : bytes) : option (framing * list N) :=
  match split_lin "/"%byte t with
  | [pad; prio; cuts; eh; ec] =>
      let pad_o := if bytes_eqb pad star then Some None else option_map Some (hex_or_dash pad) in
      let prio_o := if bytes_eqb prio star then Some None else option_map Some (read_hex prio) in
      let cuts_o := if bytes_eqb cuts star then Some [] else map_opt read_N (split_lin ","%byte cuts) in
      match pad_o, prio_o, cuts_o, read_N eh, read_N ec with
      | Some pad, Some prio, Some cuts, Some eh, Some ec =>
          Some ({| fr_pad := pad; fr_prio := prio; fr_extra_h := eh; fr_extra_c := ec; fr_rsv := false |}, cuts)
      | _, _, _, _, _ => None
      end
  | _ => None
  end.

(* the property pins a report for every valid description, so a missing SPEC report prints as ERR *)
Definition show_spec {A} (f : A -> bytes) (o : option A) : bytes := match o with Some a => f a | None => bs "ERR" end.

(* ---------------- kind G: packet level (helpers as in EC07) ---------------- *)
Fixpoint parse_events (ts : list bytes) : option (list (N * bytes)) :=
  match ts with
  | [] => Some []
  | t :: r =>
      match split_lin ":"%byte t, parse_events r with
      | [c; _; h], Some es =>
          match read_N c, read_hex h with
          | Some n, Some f => Some ((n, f) :: es)
          | _, _ => None end
      | _, _ => None end
  end.
Fixpoint count_N (c : N) (l : list N) : nat :=
  match l with [] => O | x :: r => if N.eqb x c then S (count_N c r) else count_N c r end.
Fixpoint nodup_N (l : list N) (seen : list N) : list N :=
  match l with
  | [] => []
  | x :: r => if existsb (N.eqb x) seen then nodup_N r seen else x :: nodup_N r (x :: seen)
  end.
Fixpoint lookup_N {A} (c : N) (t : list (N * A)) (d : A) : A :=
  match t with [] => d | (k, v) :: r => if N.eqb k c then v else lookup_N c r d end.
Fixpoint alone_in_order (table : list (N * list bytes)) (conns seen : list N) : list bytes :=
  match conns with
  | [] => []
  | c :: r => nth (count_N c seen) (lookup_N c table []) (bs "?") :: alone_in_order table r (c :: seen)
  end.
Definition http12_tokens (cap : N) (fs : list bytes) : list bytes :=
  map http12_out_line (snd (http12_run (cache_new cap) fs)).
Definition spec_alone12 (cap : N) (evs : list (N * bytes)) : bytes :=
  let conns := map fst evs in
  let table := map (fun c => (c, http12_tokens cap (map snd (filter (fun e => N.eqb (fst e) c) evs)))) (nodup_N conns []) in
  join (bs ";") (alone_in_order table conns []).

Definition run_line (l : bytes) : bytes :=
  match fields_lin l with
  | k :: args =>
      if bytes_eqb k (bs "Q") then
        match args with
        | [h] => match hex_or_dash h with
                 | Some data => out3 (show_pres show_req (analyse_request data)) dash false
                 | None => bad end
        | _ => bad end
      else if bytes_eqb k (bs "S") then
        match args with
        | [h] => match hex_or_dash h with
                 | Some data => out3 (show_pres show_resp (analyse_response data)) dash false
                 | None => bad end
        | _ => bad end
      else if bytes_eqb k (bs "G") then
        match args with
        | c :: evs =>
            match read_N c, parse_events evs with
            | Some cap, Some evs =>
                out3 (join (bs ";") (http12_tokens cap (map snd evs)))
                     (if http12_within_capacityb (cache_new cap) (map snd evs) then spec_alone12 cap evs else dash)
                     false
            | _, _ => bad end
        | [] => bad end
      else if bytes_eqb k (bs "A") then
        match args with
        | [dir; ctl; sid; items; framing; trail; h] =>
            match parse_bool (if bytes_eqb dir (bs "q") then bs "1" else if bytes_eqb dir (bs "s") then bs "0" else dir),
                  parse_frames_tok ctl, read_N sid, parse_items items, parse_framing framing,
                  parse_frames_tok trail, hex_or_dash h with
            | Some is_req, Some ctl, Some sid, Some items, Some (fr, cuts), Some trail, Some data =>
                let block := hpack_encode items in
                match cut_block block cuts 0 with
                | Some frags =>
                    if bytes_eqb (connection_bytes is_req ctl sid fr frags trail) data then
                      let hs := headers_of items in
                      let valid := forallb (ctl_ok sid) ctl && forallb (trail_ok sid) trail
                                   && framing_ok fr frags && (0 <? sid) && (sid <? 2 ^ 31) && items_ok items in
                      if is_req then
                        out3 (show_pres show_req (analyse_request data))
                             (if valid && wf_request hs then show_spec show_req (spec_request hs) else dash)
                             (k_static15 items)
                      else
                        out3 (show_pres show_resp (analyse_response data))
                             (if valid && wf_response hs then show_spec show_resp (spec_response hs) else dash)
                             (k_static15 items)
                    else bad
                | None => bad
                end
            | _, _, _, _, _, _, _ => bad
            end
        | _ => bad end
      else bad
  | _ => bad
  end.

(* SETTINGS + WINDOW_UPDATE, then a request on stream 3: PADDED + PRIORITY HEADERS frame with the first 7
   octets of the block, two CONTINUATION frames; size update, Huffman, indexing, dynamic-table reference *)
Example run_line_ex :
  run_line (bs "A q 4.0.0.0.000300000064;8.0.1.0.00ef0001 3 U256,X2:3a6d6574686f64:474554,X7:3a736368656d65:6874747073,Li4:3a70617468:2f7365617263683f713d31:1,Ln1:3a617574686f72697479:612e6578616d706c65:0,Ni:782d637573746f6d:31:11,X62:782d637573746f6d:31,Lw32:636f6f6b6965:613d623b20633d64:1,Lw17:6163636570742d6c616e6775616765:64652c20656e3b713d302e35:0 000000/80000000ff/7,8/1/0 - 505249202a20485454502f322e300d0a0d0a534d0d0a0d0a00000604000000000000030000006400000408008000000000ef00010000100129000000030380000000ff3fe1018287448900000000000109000000000361000036090400000003051d849ffced007f1109612e6578616d706c654086f2b12d424f4f810fbe0f11861c11fda848240f020c64652c20656e3b713d302e35")
  = let r := bs "GET /search%3fq%3d1 auth=a.example scheme=https hdr=4:x-custom:1,5:x-custom:1,7:accept-language:de%2c%20en%3bq%3d0.5 cookies=0:a:b,1:c:d referer=~ ua=~ lang={al:64652c20656e3b713d302e35} sig=2%3ax-custom%3d%5b1%5d%2cx-custom%3d%5b1%5d%2caccept-language%3d%5bde%2c%20en%3bq%3d0.5%5d%3aHost%2cUser-Agent%2cConnection%2cAccept%2cAccept-Encoding%2cAccept-Charset%2cKeep-Alive%3a%3f%3f%3f" in
    r ++ [tab] ++ r ++ [tab] ++ bs "0".
Proof. vm_compute. reflexivity. Qed.

(* kind G: an HTTP/2 connection start (preface, SETTINGS, PRIORITY-flagged HEADERS, Huffman + indexing) split over
   two TCP segments, interleaved with an HTTP/1.1 exchange; the HTTP/2 request is reported at its second segment *)
Example run_line_ex_G :
  run_line (bs "G 8 0:1000000:02000000000102000000000208004500003412344000400600000a0100025db8d8234e2101bb066fa972000000008002ffff00000000020405b40402010303070000 1:1000005:02000000000102000000000208004500003412344000400600000a0100035db8d8244e2200505395121b000000008002ffff00000000020405b40402010303070000 0:1000055:02000000000102000000000208004500002c12344000400600005db8d8230a01000201bb4e2150cd7c45066fa9736012ffff00000000020405b4 1:1000030:02000000000102000000000208004500002c12344000400600005db8d8240a01000300504e2269136c165395121c6012ffff00000000020405b4 0:1000086:02000000000102000000000208004500002812344000400600000a0100025db8d8234e2101bb066fa97350cd7c465010ffff00000000 1:1000083:02000000000102000000000208004500002812344000400600000a0100035db8d8244e2200505395121c69136c175010ffff00000000 0:1000111:02000000000102000000000208004500005612344000400600000a0100025db8d8234e2101bb066fa97350cd7c465018ffff00000000505249202a20485454502f322e300d0a0d0a534d0d0a0d0a00000604000000000000030000006400002101240000 1:1000132:02000000000102000000000208004500004412344000400600000a0100035db8d8244e2200505395121c69136c175018ffff00000000474554202f6920485454502f312e310d0a486f73743a20680d0a0d0a 0:1000136:02000000000102000000000208004500004b12344000400600000a0100025db8d8234e2101bb066fa9a150cd7c465018ffff00000000000180000000ff8287458263cf41871ae5f23a6ba0bf7a87aec3c65602b83f518290bf 1:1000199:02000000000102000000000208004500004612344000400600005db8d8240a01000300504e2269136c17539512385018ffff00000000485454502f312e3120323030204f4b0d0a5365727665723a20730d0a0d0a 0:1000164:02000000000102000000000208004500002812344000400600000a0100025db8d8234e2101bb066fa9c450cd7c465011ffff00000000 1:1000248:02000000000102000000000208004500002812344000400600000a0100035db8d8244e2200505395123869136c175011ffff00000000")
  = let r := bs "-;-;-;-;-;-;-;Q.474554.2f69.11.486f7374=68;Q2 GET /x hdr=4:user-agent:probe/1.0,5:accept-language:de cookies= referer=~ ua=probe/1.0 lang={al:6465} sig=2%3auser-agent%2caccept-language%3d%5bde%5d%3aHost%2cConnection%2cAccept%2cAccept-Encoding%2cAccept-Charset%2cKeep-Alive%3aprobe/1.0;R.11.200.536572766572=73;-;-" in r ++ [tab] ++ r ++ [tab] ++ bs "0".
Proof. vm_compute. reflexivity. Qed.

Require Extraction.
Require Import ExtrOcamlBasic.
Extraction "Extract/C16_model.ml" run_line b2n n2b.
