(* Text helpers for the HTTP/1.x models (C05): the std string functions the Rust code uses,
   re-modelled on byte strings (Rust String = UTF-8 bytes).  Modelled, not verified; tied to
   std by the correspondence run.  Definitions only (lemmas: Proofs/Http1TextProofs.v).

   - utf8_valid          std::str::from_utf8(..).is_ok()   (RFC 3629: no overlong forms, no
                         surrogates, <= U+10FFFF)
   - ws_len / ws_len_rev Unicode White_Space (char::is_whitespace): U+0009..000D, 0020, 0085, 00A0,
                         1680, 2000..200A, 2028, 2029, 202F, 205F, 3000, recognised on the UTF-8
                         encoding at the front / at the back of a byte string.  On valid UTF-8
                         this is exact; on the lossy decoding of arbitrary bytes as well, because
                         every pattern starts with a lead byte and U+FFFD is not white space.
   - trim_start/trim_end/trim, split_whitespace, contains, find_sub, split_crlf, split_lf,
     first_line (str::lines().next()), splitn3_sp (splitn(3, ' ')), lower_k (to_lowercase as far
     as equality with an ASCII string can tell). *)
From Coq Require Import List NArith Bool.
From Coq Require Import Strings.Byte.
From HN Require Import Base.Bytes.
Import ListNotations.
Open Scope N_scope.

Definition cr : byte := x0d.
Definition lf : byte := x0a.
Definition crlf : bytes := [cr; lf].
Definition crlf2 : bytes := [cr; lf; cr; lf].
Definition lf2 : bytes := [lf; lf].

Definition in_rng (lo hi : N) (b : byte) : bool := (lo <=? b2n b) && (b2n b <=? hi).
Definition is_cont (b : byte) : bool := in_rng 128 191 b.

(* ---------- UTF-8 validity (core::str::from_utf8) ---------- *)
Fixpoint utf8_valid (l : bytes) : bool :=
  match l with
  | [] => true
  | b0 :: r =>
      if b2n b0 <? 128 then utf8_valid r
      else if in_rng 194 223 b0 then
        match r with b1 :: r1 => is_cont b1 && utf8_valid r1 | _ => false end
      else if in_rng 224 239 b0 then
        match r with
        | b1 :: b2 :: r2 =>
            (if b2n b0 =? 224 then in_rng 160 191 b1
             else if b2n b0 =? 237 then in_rng 128 159 b1
             else is_cont b1) && is_cont b2 && utf8_valid r2
        | _ => false end
      else if in_rng 240 244 b0 then
        match r with
        | b1 :: b2 :: b3 :: r3 =>
            (if b2n b0 =? 240 then in_rng 144 191 b1
             else if b2n b0 =? 244 then in_rng 128 143 b1
             else is_cont b1) && is_cont b2 && is_cont b3 && utf8_valid r3
        | _ => false end
      else false
  end.

(* ---------- Unicode White_Space ---------- *)
Definition is_ascii_ws (b : byte) : bool := in_rng 9 13 b || (b2n b =? 32).

(* byte length of the White_Space scalar at the front of l; 0 if there is none *)
Definition ws_len (l : bytes) : nat :=
  match l with
  | [] => 0%nat
  | b0 :: r =>
      if is_ascii_ws b0 then 1%nat else
      match r with
      | [] => 0%nat
      | b1 :: r1 =>
          if (b2n b0 =? 194) && ((b2n b1 =? 133) || (b2n b1 =? 160)) then 2%nat else
          match r1 with
          | [] => 0%nat
          | b2 :: _ =>
              if (b2n b0 =? 225) && (b2n b1 =? 154) && (b2n b2 =? 128) then 3%nat
              else if (b2n b0 =? 226) && (b2n b1 =? 128)
                      && (in_rng 128 138 b2 || (b2n b2 =? 168) || (b2n b2 =? 169) || (b2n b2 =? 175)) then 3%nat
              else if (b2n b0 =? 226) && (b2n b1 =? 129) && (b2n b2 =? 159) then 3%nat
              else if (b2n b0 =? 227) && (b2n b1 =? 128) && (b2n b2 =? 128) then 3%nat
              else 0%nat
          end
      end
  end.

(* the same on a reversed string: length of the White_Space scalar at the END of (rev l) *)
Definition ws_len_rev (l : bytes) : nat :=
  match l with
  | [] => 0%nat
  | b0 :: r =>
      if is_ascii_ws b0 then 1%nat else
      match r with
      | [] => 0%nat
      | b1 :: r1 =>
          if (b2n b1 =? 194) && ((b2n b0 =? 133) || (b2n b0 =? 160)) then 2%nat else
          match r1 with
          | [] => 0%nat
          | b2 :: _ =>
              if (b2n b2 =? 225) && (b2n b1 =? 154) && (b2n b0 =? 128) then 3%nat
              else if (b2n b2 =? 226) && (b2n b1 =? 128)
                      && (in_rng 128 138 b0 || (b2n b0 =? 168) || (b2n b0 =? 169) || (b2n b0 =? 175)) then 3%nat
              else if (b2n b2 =? 226) && (b2n b1 =? 129) && (b2n b0 =? 159) then 3%nat
              else if (b2n b2 =? 227) && (b2n b1 =? 128) && (b2n b0 =? 128) then 3%nat
              else 0%nat
          end
      end
  end.

(* List.rev is quadratic; rev_fast l = rev l (List.rev_alt) *)
Definition rev_fast (l : bytes) : bytes := rev_append l [].

(* drop leading scalars recognised by wl; fuel = length of the input always suffices *)
Fixpoint strip_f (wl : bytes -> nat) (fuel : nat) (l : bytes) : bytes :=
  match fuel with
  | O => l
  | S f => match wl l with O => l | n => strip_f wl f (skipn n l) end
  end.
Definition trim_start (l : bytes) : bytes := strip_f ws_len (length l) l.
Definition trim_end (l : bytes) : bytes := rev_fast (strip_f ws_len_rev (length l) (rev_fast l)).
Definition trim (l : bytes) : bytes := trim_end (trim_start l).

(* str::split_whitespace: maximal runs of non-white-space bytes *)
Definition flush (cur : bytes) (rest : list bytes) : list bytes :=
  match cur with [] => rest | _ => rev_fast cur :: rest end.
Fixpoint split_ws_f (fuel : nat) (l cur : bytes) : list bytes :=
  match fuel with
  | O => flush cur []
  | S f =>
      match l with
      | [] => flush cur []
      | b :: r => match ws_len l with
                  | O => split_ws_f f r (b :: cur)
                  | n => flush cur (split_ws_f f (skipn n l) [])
                  end
      end
  end.
Definition split_whitespace (l : bytes) : list bytes := split_ws_f (S (length l)) l [].

(* ---------- substrings ---------- *)
Fixpoint contains (pat l : bytes) : bool :=
  starts_with pat l || match l with [] => false | _ :: r => contains pat r end.

(* position of the first occurrence (slice::windows(n).position / str::find) *)
Fixpoint find_sub (pat l : bytes) : option nat :=
  if starts_with pat l then Some O else
  match l with [] => None | _ :: r => option_map S (find_sub pat r) end.

Fixpoint find_byte (c : byte) (l : bytes) : option nat :=
  match l with
  | [] => None
  | b :: r => if beqb b c then Some O else option_map S (find_byte c r)
  end.

Definition cons_head (b : byte) (ls : list bytes) : list bytes :=
  match ls with [] => [[b]] | x :: xs => (b :: x) :: xs end.

(* str::split("\r\n"): pieces between non-overlapping occurrences, left to right; never empty list *)
Fixpoint split_crlf (l : bytes) : list bytes :=
  match l with
  | [] => [[]]
  | b :: r =>
      match r with
      | b' :: r' => if beqb b cr && beqb b' lf then [] :: split_crlf r' else cons_head b (split_crlf r)
      | [] => [[b]]
      end
  end.

(* str::split(c) for one byte *)
Fixpoint split_byte (c : byte) (l : bytes) : list bytes :=
  match l with
  | [] => [[]]
  | b :: r => if beqb b c then [] :: split_byte c r else cons_head b (split_byte c r)
  end.

(* str::lines().next().unwrap_or(""): up to the first LF, one CR before that LF removed;
   without any LF the whole text (a trailing CR stays) *)
Fixpoint before_byte (c : byte) (l : bytes) : bytes :=
  match l with [] => [] | b :: r => if beqb b c then [] else b :: before_byte c r end.
Definition strip_last_cr (l : bytes) : bytes :=
  match rev_fast l with b :: r => if beqb b cr then rev_fast r else l | [] => l end.
Definition first_line (l : bytes) : bytes :=
  match find_byte lf l with
  | Some _ => strip_last_cr (before_byte lf l)
  | None => l
  end.

Fixpoint after_byte (c : byte) (l : bytes) : option bytes :=
  match l with [] => None | b :: r => if beqb b c then Some r else after_byte c r end.
(* str::splitn(3, ' ') *)
Definition splitn3_sp (l : bytes) : list bytes :=
  match after_byte sp l with
  | None => [l]
  | Some r1 => match after_byte sp r1 with
               | None => [before_byte sp l; r1]
               | Some r2 => [before_byte sp l; before_byte sp r1; r2]
               end
  end.

(* str::trim_start_matches(pat) for a non-empty pattern; fuel = length *)
Fixpoint strip_prefixes_f (fuel : nat) (pat l : bytes) : bytes :=
  match fuel with
  | O => l
  | S f => match strip_prefix pat l with Some r => strip_prefixes_f f pat r | None => l end
  end.
Definition trim_start_matches (pat l : bytes) : bytes := strip_prefixes_f (length l) pat l.

(* ---------- to_lowercase, as far as `x.to_lowercase() == <ASCII literal>` can tell ----------
   Full Unicode lowercasing maps exactly the ASCII letters and U+212A KELVIN SIGN (e2 84 aa) to
   ASCII characters; every other scalar lowercases to something non-ASCII.  So comparing
   lower_k x with an ASCII string decides the Rust comparison exactly. *)
Definition lower_byte (b : byte) : byte := if in_rng 65 90 b then n2b (b2n b + 32) else b.
Fixpoint lower_k (l : bytes) : bytes :=
  match l with
  | [] => []
  | b0 :: r =>
      match r with
      | b1 :: b2 :: r2 =>
          if (b2n b0 =? 226) && (b2n b1 =? 132) && (b2n b2 =? 170) then "k"%byte :: lower_k r2
          else lower_byte b0 :: lower_k r
      | _ => lower_byte b0 :: lower_k r
      end
  end.
Definition eq_lower (name lit : bytes) : bool := bytes_eqb (lower_k name) lit.

Definition all_ascii_digits (l : bytes) : bool := forallb is_digit l.
Definition mem_bytes (x : bytes) (l : list bytes) : bool := existsb (bytes_eqb x) l.
