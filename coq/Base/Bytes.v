(* Byte strings, numbers <-> text.  Definitions and their small lemmas shared by every model. *)
From Coq Require Import List NArith Lia Bool.
From Coq Require Import Strings.Byte.
Import ListNotations.
Open Scope N_scope.

Arguments N.add : simpl never.
Arguments N.sub : simpl never.
Arguments N.mul : simpl never.
Arguments N.div : simpl never.
Arguments N.modulo : simpl never.
Arguments N.eqb : simpl never.
Arguments N.ltb : simpl never.
Arguments N.leb : simpl never.
Arguments N.pow : simpl never.
Arguments N.land : simpl never.
Arguments N.shiftl : simpl never.
Arguments N.shiftr : simpl never.

Definition bytes := list byte.

Definition b2n (b : byte) : N := Byte.to_N b.
Definition n2b (n : N) : byte := match Byte.of_N n with Some b => b | None => x00 end.

Lemma b2n_lt b : b2n b < 256.
Proof. unfold b2n. pose proof (Byte.to_N_bounded b). lia. Qed.

Lemma n2b_b2n b : n2b (b2n b) = b.
Proof. unfold n2b, b2n. now rewrite Byte.of_to_N. Qed.

Lemma b2n_n2b n : n < 256 -> b2n (n2b n) = n.
Proof.
  intros H. unfold n2b, b2n.
  destruct (Byte.of_N n) eqn:E.
  - now apply Byte.to_of_N.
  - apply Byte.of_N_None_iff in E. lia.
Qed.

Definition beqb (a b : byte) : bool := Byte.eqb a b.
Lemma beqb_eq a b : beqb a b = true <-> a = b.
Proof. unfold beqb. apply Byte.byte_dec_lb || (split; [apply Byte.byte_dec_bl | apply Byte.byte_dec_lb]). Qed.

Fixpoint bytes_eqb (a b : bytes) : bool :=
  match a, b with
  | [], [] => true
  | x :: a', y :: b' => beqb x y && bytes_eqb a' b'
  | _, _ => false
  end.

Lemma bytes_eqb_eq a b : bytes_eqb a b = true <-> a = b.
Proof.
  revert b; induction a as [|x a IH]; intros [|y b]; cbn; try (split; congruence).
  rewrite andb_true_iff, beqb_eq, IH. split; [intros [-> ->]; reflexivity | intros H; inversion H; auto].
Qed.

Lemma bytes_eqb_refl a : bytes_eqb a a = true.
Proof. now apply bytes_eqb_eq. Qed.

(* ---------- decimal ---------- *)
Definition digit_byte (d : N) : byte := n2b (48 + d).
Definition is_digit (b : byte) : bool := (48 <=? b2n b) && (b2n b <=? 57).
Definition digit_val (b : byte) : N := b2n b - 48.

(* most significant digit first; fuel = number of binary digits is always enough *)
Fixpoint show_N_fuel (fuel : nat) (n : N) (acc : bytes) : bytes :=
  match fuel with
  | O => acc
  | S f => let acc' := digit_byte (n mod 10) :: acc in
           if n <? 10 then acc' else show_N_fuel f (n / 10) acc'
  end.
Definition show_N (n : N) : bytes := show_N_fuel (S (N.to_nat (N.size n))) n [].

Definition read_N_digits (l : bytes) : N :=
  fold_left (fun acc b => acc * 10 + digit_val b) l 0.
Definition all_digits (l : bytes) : bool := forallb is_digit l.
Definition read_N (l : bytes) : option N :=
  match l with [] => None | _ => if all_digits l then Some (read_N_digits l) else None end.

(* ---------- hex ---------- *)
Definition hex_digit (d : N) : byte := if d <? 10 then n2b (48 + d) else n2b (87 + d).
Definition hex_val (b : byte) : option N :=
  let n := b2n b in
  if (48 <=? n) && (n <=? 57) then Some (n - 48)
  else if (97 <=? n) && (n <=? 102) then Some (n - 87)
  else if (65 <=? n) && (n <=? 70) then Some (n - 55)
  else None.
Fixpoint show_hex (l : bytes) : bytes :=
  match l with
  | [] => []
  | b :: r => hex_digit (b2n b / 16) :: hex_digit (b2n b mod 16) :: show_hex r
  end.
Fixpoint read_hex (l : bytes) : option bytes :=
  match l with
  | [] => Some []
  | a :: b :: r =>
      match hex_val a, hex_val b, read_hex r with
      | Some x, Some y, Some t => Some (n2b (x * 16 + y) :: t)
      | _, _, _ => None
      end
  | _ => None
  end.

(* big-endian number of a byte string, and back *)
Definition be_N (l : bytes) : N := fold_left (fun acc b => acc * 256 + b2n b) l 0.
Fixpoint be_bytes (len : nat) (n : N) : bytes :=
  match len with
  | O => []
  | S k => n2b ((n / 256 ^ N.of_nat k) mod 256) :: be_bytes k n
  end.

(* ---------- splitting ---------- *)
Fixpoint split_on_aux (sep : byte) (l cur : bytes) : list bytes :=
  match l with
  | [] => [rev cur]
  | b :: r => if beqb b sep then rev cur :: split_on_aux sep r [] else split_on_aux sep r (b :: cur)
  end.
Definition split_on (sep : byte) (l : bytes) : list bytes := split_on_aux sep l [].

Fixpoint join (sep : bytes) (ls : list bytes) : bytes :=
  match ls with
  | [] => []
  | [x] => x
  | x :: r => x ++ sep ++ join sep r
  end.

Definition str (s : list byte) : bytes := s.

(* ---------- byte-string literals:  bs "text" : bytes ---------- *)
Inductive bs_lit := BsLit (l : list byte).
Definition bs_of (l : list byte) : bs_lit := BsLit l.
Definition bs_to (b : bs_lit) : list byte := match b with BsLit l => l end.
Declare Scope bs_scope.
Delimit Scope bs_scope with bs.
String Notation bs_lit bs_of bs_to : bs_scope.
Definition bs (b : bs_lit) : bytes := bs_to b.
Arguments bs _%bs.

Definition sp : byte := " "%byte.
Definition tab : byte := x09.
Definition fields (l : bytes) : list bytes := filter (fun f => negb (bytes_eqb f [])) (split_on sp l).

Fixpoint starts_with (p l : bytes) : bool :=
  match p, l with
  | [], _ => true
  | x :: p', y :: l' => beqb x y && starts_with p' l'
  | _, [] => false
  end.
Fixpoint strip_prefix (p l : bytes) : option bytes :=
  match p, l with
  | [], _ => Some l
  | x :: p', y :: l' => if beqb x y then strip_prefix p' l' else None
  | _, [] => None
  end.

Definition show_bool (b : bool) : bytes := if b then bs "1" else bs "0".
(* result line of every driver:  model TAB spec TAB known *)
Definition out3 (m s : bytes) (known : bool) : bytes := m ++ tab :: s ++ tab :: show_bool known.

(* linear-time splitting (split_on reverses with the quadratic List.rev; kept for the proofs that use it) *)
Fixpoint fsplit_on_aux (sep : byte) (l cur : bytes) : list bytes :=
  match l with
  | [] => [rev_append cur []]
  | b :: r => if beqb b sep then rev_append cur [] :: fsplit_on_aux sep r [] else fsplit_on_aux sep r (b :: cur)
  end.
Definition fsplit_on (sep : byte) (l : bytes) : list bytes := fsplit_on_aux sep l [].
Definition ffields (l : bytes) : list bytes := filter (fun f => negb (bytes_eqb f [])) (fsplit_on sp l).
