(* ttl_cache 0.5.1 `TtlCache<K,V>` over linked-hash-map 0.5.6, as an insertion-ordered association
   list with a capacity (oldest entry first).  Source read:
   ~/.cargo/registry/src/*/ttl_cache-0.5.1/src/lib.rs, linked-hash-map-0.5.6/src/lib.rs.

   * `insert(k, v, ttl)`: `LinkedHashMap::insert` (an existing key has its value replaced AND its
     node detached and re-attached at the back = newest), then `if len > capacity { pop_front }`
     (the oldest entry; with capacity 0 the entry just inserted).
   * `get / get_mut / contains_key / remove` look the key up; `get_mut` hands out a reference, the
     write-back through it is `update` (value replaced in place, position unchanged).
   * Wall-clock expiry (`Instant::now() > expiration`, checked on access only, never purged by the
     operations used in huginn-net) is OUTSIDE this model: every theorem that uses the cache carries
     the assumption "no entry expires during the history".

   Definitions only; lemmas are in Proofs/CacheProofs.v. *)
From Coq Require Import List NArith Bool.
Import ListNotations.
Open Scope N_scope.

Section Cache.
  Context {K V : Type}.
  Variable keqb : K -> K -> bool.

  Record cache := mkCache { c_cap : N; c_entries : list (K * V) }.   (* oldest first *)

  Definition cache_new (cap : N) : cache := mkCache cap [].

  Fixpoint assoc_get (es : list (K * V)) (k : K) : option V :=
    match es with
    | [] => None
    | (k', v) :: r => if keqb k' k then Some v else assoc_get r k
    end.

  Fixpoint assoc_remove (es : list (K * V)) (k : K) : list (K * V) :=
    match es with
    | [] => []
    | (k', v) :: r => if keqb k' k then assoc_remove r k else (k', v) :: assoc_remove r k
    end.

  Fixpoint assoc_update (es : list (K * V)) (k : K) (v : V) : list (K * V) :=
    match es with
    | [] => []
    | (k', v') :: r => if keqb k' k then (k', v) :: r else (k', v') :: assoc_update r k v
    end.

  Definition len_N {A} (l : list A) : N := N.of_nat (length l).

  Definition cache_get (c : cache) (k : K) : option V := assoc_get (c_entries c) k.
  Definition cache_contains (c : cache) (k : K) : bool :=
    match cache_get c k with Some _ => true | None => false end.
  Definition cache_remove (c : cache) (k : K) : cache :=
    mkCache (c_cap c) (assoc_remove (c_entries c) k).
  (* write-back through the `&mut V` returned by get_mut *)
  Definition cache_update (c : cache) (k : K) (v : V) : cache :=
    mkCache (c_cap c) (assoc_update (c_entries c) k v).
  Definition cache_insert (c : cache) (k : K) (v : V) : cache :=
    let es := assoc_remove (c_entries c) k ++ [(k, v)] in
    mkCache (c_cap c) (if c_cap c <? len_N es then tl es else es).
  Definition cache_len (c : cache) : N := len_N (c_entries c).
End Cache.

(* `l.len() < k` for a small constant k without walking the whole list *)
Fixpoint shorter_than {A} (k : nat) (l : list A) : bool :=
  match k, l with
  | O, _ => false
  | S _, [] => true
  | S k', _ :: r => shorter_than k' r
  end.

(* List.rev is quadratic; the models use the linear one (equal: Proofs/CacheProofs.v frev_rev) *)
Definition frev {A} (l : list A) : list A := rev_append l [].

Arguments cache : clear implicits.
Arguments mkCache {K V}.
Arguments cache_new {K V}.
