(* Vocabulary shared by the flow model (Model/HttpFlow.v) and the stream specification
   (Spec/StreamSpec.v): an abstract TCP segment event of a numbered connection, and the per-event
   report.  Definitions only. *)
From Coq Require Import List NArith Bool.
From Coq Require Import Strings.Byte.
From HN Require Import Base.Bytes.
Import ListNotations.
Open Scope N_scope.

(* one captured TCP segment: which connection, which direction (true = sent by the endpoint that
   sent the opening SYN), the flags the analyzers read, the raw u32 sequence number, the payload *)
Record event := mkEv {
  e_conn : N; e_client : bool;
  e_syn : bool; e_fin : bool; e_rst : bool;
  e_seq : N; e_pay : bytes }.

(* what one packet makes the HTTP analyzer report *)
Inductive hout (Req Resp : Type) := ONone | OReq (r : Req) | OResp (r : Resp).
Arguments ONone {Req Resp}.
Arguments OReq {Req Resp}.
Arguments OResp {Req Resp}.

Definition two32 : N := 4294967296.
Definition two31 : N := 2147483648.
