(* Generic keyed state machines and FIFO worker pools (cores of C07, C10, C18).
   An analyzer is *keyed* when the effect of a packet is confined to the slot of its key:
   step s p = (upd s (key p) v, outputs tagged with key p)  where (v, outputs) = lstep (s (key p)) p.
   Proved here once, for every such machine:
     run_local / interleaving_invariant / isolation      (C07)
     pool_refines_seq / pool_outputs_permutation          (C10, C18: any schedule, any shard that is a
                                                           function of the key, FIFO queues)
   Closed under the global context. *)
From Coq Require Import List Bool Arith Lia Permutation.
Import ListNotations.

Section Keyed.
  Variables (P K S O : Type).
  Variable key : P -> K.
  Variable keqb : K -> K -> bool.
  Hypothesis keqb_eq : forall a b, keqb a b = true <-> a = b.

  (* local step: the slot of key p, the packet -> new slot, outputs *)
  Variable lstep : option S -> P -> option S * list O.

  Definition st := K -> option S.
  Definition upd (s : st) (k : K) (v : option S) : st :=
    fun k' => if keqb k' k then v else s k'.

  Definition step (s : st) (p : P) : st * list (K * O) :=
    let '(v, o) := lstep (s (key p)) p in (upd s (key p) v, map (fun x => (key p, x)) o).

  Fixpoint run (s : st) (tr : list P) : st * list (K * O) :=
    match tr with
    | [] => (s, [])
    | p :: tr' => let '(s1, o1) := step s p in
                  let '(s2, o2) := run s1 tr' in (s2, o1 ++ o2)
    end.

  Fixpoint lrun (v : option S) (tr : list P) : option S * list O :=
    match tr with
    | [] => (v, [])
    | p :: tr' => let '(v1, o1) := lstep v p in
                  let '(v2, o2) := lrun v1 tr' in (v2, o1 ++ o2)
    end.

  Definition fk (k : K) (tr : list P) := filter (fun p => keqb (key p) k) tr.
  Definition proj (k : K) (l : list (K * O)) : list O :=
    map snd (filter (fun x => keqb (fst x) k) l).

  Lemma keqb_refl k : keqb k k = true.
  Proof. apply keqb_eq. reflexivity. Qed.

  Lemma proj_app k a b : proj k (a ++ b) = proj k a ++ proj k b.
  Proof. unfold proj. rewrite filter_app, map_app. reflexivity. Qed.

  Lemma proj_tag_same k o : proj k (map (fun x => (k, x)) o) = o.
  Proof.
    unfold proj. induction o as [|x o IH]; cbn; [reflexivity|].
    rewrite keqb_refl. cbn. f_equal. exact IH.
  Qed.

  Lemma proj_tag_other k k' o : keqb k' k = false -> proj k (map (fun x => (k', x)) o) = [].
  Proof.
    intros Hne. unfold proj. induction o as [|x o IH]; cbn; [reflexivity|].
    rewrite Hne. exact IH.
  Qed.

  (* the outputs for key k and the final slot of k depend only on the k-subtrace *)
  Lemma run_local : forall tr s k,
    proj k (snd (run s tr)) = snd (lrun (s k) (fk k tr)) /\
    fst (run s tr) k = fst (lrun (s k) (fk k tr)).
  Proof.
    induction tr as [|p tr IH]; intros s k; cbn [run lrun fk filter].
    - split; reflexivity.
    - unfold step. destruct (lstep (s (key p)) p) as [v o] eqn:El.
      destruct (run (upd s (key p) v) tr) as [s2 o2] eqn:Er.
      specialize (IH (upd s (key p) v) k). rewrite Er in IH. cbn [fst snd] in IH |- *.
      destruct (keqb (key p) k) eqn:Ek.
      + apply keqb_eq in Ek. subst k. cbn [lrun]. rewrite El.
        unfold upd in IH. rewrite keqb_refl in IH.
        change (filter (fun p0 => keqb (key p0) (key p)) tr) with (fk (key p) tr).
        destruct (lrun v (fk (key p) tr)) as [v2 o2'] eqn:El2. cbn [fst snd] in IH |- *.
        destruct IH as [IH1 IH2]. split; [|exact IH2].
        rewrite proj_app, proj_tag_same, IH1. reflexivity.
      + assert (Hk : keqb k (key p) = false).
        { destruct (keqb k (key p)) eqn:E; [|reflexivity].
          apply keqb_eq in E. subst k. rewrite keqb_refl in Ek. discriminate. }
        unfold upd in IH. rewrite Hk in IH.
        change (filter (fun p0 => keqb (key p0) k) tr) with (fk k tr).
        destruct IH as [IH1 IH2]. split; [|exact IH2].
        rewrite proj_app, (proj_tag_other _ _ _ Ek). cbn. exact IH1.
  Qed.

  (* C07 core: any two traces with the same per-key subtraces give the same per-key results *)
  Theorem interleaving_invariant : forall tr tr' s,
    (forall k, fk k tr = fk k tr') ->
    forall k, proj k (snd (run s tr)) = proj k (snd (run s tr')).
  Proof.
    intros tr tr' s H k.
    rewrite (proj1 (run_local tr s k)), (proj1 (run_local tr' s k)), H. reflexivity.
  Qed.

  Lemma fk_idem k tr : fk k (fk k tr) = fk k tr.
  Proof.
    unfold fk. induction tr as [|p tr IH]; cbn; [reflexivity|].
    destruct (keqb (key p) k) eqn:E; cbn; [rewrite E, IH|rewrite IH]; reflexivity.
  Qed.

  (* isolation: the results of key k in an interleaved run are those of its own packets alone *)
  Corollary isolation : forall tr s k,
    proj k (snd (run s tr)) = proj k (snd (run s (fk k tr))).
  Proof.
    intros. rewrite (proj1 (run_local tr s k)), (proj1 (run_local (fk k tr) s k)), fk_idem.
    reflexivity.
  Qed.

  Lemma lrun_app : forall a b v,
    lrun v (a ++ b) =
    let '(v1, o1) := lrun v a in let '(v2, o2) := lrun v1 b in (v2, o1 ++ o2).
  Proof.
    induction a as [|p a IH]; intros b v; cbn [app lrun].
    - destruct (lrun v b); reflexivity.
    - destruct (lstep v p) as [v1 o1]. rewrite IH.
      destruct (lrun v1 a) as [v2 o2]. destruct (lrun v2 b) as [v3 o3].
      rewrite app_assoc. reflexivity.
  Qed.

  (* ---------------- worker pool ---------------- *)
  Variable shard : K -> nat.

  Inductive ev := Disp (p : P) | Work (w : nat).

  Record pst := { q : nat -> list P; ws : nat -> st; outs : list (K * O); dn : nat -> list P }.

  Definition updn {A} (f : nat -> A) (w : nat) (v : A) : nat -> A :=
    fun w' => if Nat.eqb w' w then v else f w'.

  Definition pstep (x : pst) (e : ev) : pst :=
    match e with
    | Disp p => let w := shard (key p) in
                {| q := updn (q x) w (q x w ++ [p]); ws := ws x; outs := outs x; dn := dn x |}
    | Work w => match q x w with
                | [] => x
                | p :: rest =>
                    let '(s', o) := step (ws x w) p in
                    {| q := updn (q x) w rest; ws := updn (ws x) w s';
                       outs := outs x ++ o; dn := updn (dn x) w (dn x w ++ [p]) |}
                end
    end.

  Definition dispatched (es : list ev) : list P :=
    flat_map (fun e => match e with Disp p => [p] | Work _ => [] end) es.

  Definition fw (w : nat) (tr : list P) := filter (fun p => Nat.eqb (shard (key p)) w) tr.

  Variable s0 : st.
  Definition init : pst := {| q := fun _ => []; ws := fun _ => s0; outs := []; dn := fun _ => [] |}.

  Definition Inv (x : pst) (tr : list P) : Prop :=
    (forall w, dn x w ++ q x w = fw w tr) /\
    (forall k, ws x (shard k) k = fst (lrun (s0 k) (fk k (dn x (shard k))))) /\
    (forall k, proj k (outs x) = snd (lrun (s0 k) (fk k (dn x (shard k))))).

  Lemma fw_app w a b : fw w (a ++ b) = fw w a ++ fw w b.
  Proof. unfold fw. apply filter_app. Qed.
  Lemma fk_app k a b : fk k (a ++ b) = fk k a ++ fk k b.
  Proof. unfold fk. apply filter_app. Qed.

  Lemma in_fw w p tr : In p (fw w tr) -> shard (key p) = w.
  Proof. unfold fw. intro H. apply filter_In in H. destruct H as [_ H]. apply Nat.eqb_eq. exact H. Qed.

  Lemma inv_step : forall x tr e, Inv x tr ->
    Inv (pstep x e) (tr ++ match e with Disp p => [p] | Work _ => [] end).
  Proof.
    intros x tr e (Hq & Hs & Ho). destruct e as [p|w]; cbn [pstep].
    - (* dispatch *)
      split; [|split]; cbn [q ws outs dn]; [|exact Hs|exact Ho].
      intro w. rewrite fw_app. unfold updn. cbn [fw filter].
      destruct (Nat.eqb w (shard (key p))) eqn:E.
      + apply Nat.eqb_eq in E. subst w. rewrite Nat.eqb_refl.
        rewrite app_assoc, Hq. reflexivity.
      + rewrite Nat.eqb_sym in E. rewrite E. rewrite app_nil_r. apply Hq.
    - (* work *)
      rewrite app_nil_r. destruct (q x w) as [|p rest] eqn:Eq.
      + split; [|split]; assumption.
      + assert (Hp : shard (key p) = w).
        { apply (in_fw w p tr). rewrite <- Hq, Eq. apply in_or_app. right. left. reflexivity. }
        unfold step. destruct (lstep (ws x w (key p)) p) as [v o] eqn:El.
        split; [|split]; cbn [q ws outs dn].
        * intro w'. unfold updn. destruct (Nat.eqb w' w) eqn:E.
          -- apply Nat.eqb_eq in E. subst w'. rewrite <- app_assoc. cbn [app]. rewrite <- Eq. apply Hq.
          -- apply Hq.
        * intro k. unfold updn. destruct (Nat.eqb (shard k) w) eqn:E.
          -- apply Nat.eqb_eq in E. rewrite fk_app, lrun_app. cbn [fk filter].
             destruct (keqb (key p) k) eqn:Ek.
             ++ apply keqb_eq in Ek. subst k. unfold upd. rewrite keqb_refl.
                specialize (Hs (key p)). rewrite Hp in Hs. rewrite E in *.
                destruct (lrun (s0 (key p)) (fk (key p) (dn x w))) as [v1 o1]. cbn [fst] in Hs.
                cbn [lrun]. rewrite <- Hs, El. reflexivity.
             ++ unfold upd.
                assert (Hk : keqb k (key p) = false).
                { destruct (keqb k (key p)) eqn:E2; [|reflexivity].
                  apply keqb_eq in E2. subst k. rewrite keqb_refl in Ek. discriminate. }
                rewrite Hk. specialize (Hs k). rewrite E in Hs.
                destruct (lrun (s0 k) (fk k (dn x w))) as [v1 o1]. cbn [lrun fst] in *. exact Hs.
          -- apply Hs.
        * intro k. rewrite proj_app. unfold updn. destruct (Nat.eqb (shard k) w) eqn:E.
          -- apply Nat.eqb_eq in E. rewrite fk_app, lrun_app. cbn [fk filter].
             destruct (keqb (key p) k) eqn:Ek.
             ++ apply keqb_eq in Ek. subst k. rewrite proj_tag_same.
                specialize (Hs (key p)). specialize (Ho (key p)). rewrite Hp in Hs, Ho.
                destruct (lrun (s0 (key p)) (fk (key p) (dn x w))) as [v1 o1]. cbn [fst snd] in Hs, Ho.
                cbn [lrun]. rewrite <- Hs, El. cbn [snd]. rewrite Ho, app_nil_r. reflexivity.
             ++ rewrite (proj_tag_other _ _ _ Ek). specialize (Ho k). rewrite E in Ho.
                destruct (lrun (s0 k) (fk k (dn x w))) as [v1 o1]. cbn [lrun snd] in *.
                rewrite !app_nil_r. exact Ho.
          -- assert (Ek : keqb (key p) k = false).
             { destruct (keqb (key p) k) eqn:E2; [|reflexivity].
               apply keqb_eq in E2. subst k. rewrite Hp, Nat.eqb_refl in E. discriminate. }
             rewrite (proj_tag_other _ _ _ Ek), app_nil_r. apply Ho.
  Qed.

  Lemma inv_init : Inv init [].
  Proof. split; [|split]; intros; reflexivity. Qed.

  Lemma dispatched_app a b : dispatched (a ++ b) = dispatched a ++ dispatched b.
  Proof. unfold dispatched. apply flat_map_app. Qed.

  Lemma inv_run : forall es x tr, Inv x tr -> Inv (fold_left pstep es x) (tr ++ dispatched es).
  Proof.
    induction es as [|e es IH]; intros x tr H; cbn [fold_left dispatched flat_map].
    - rewrite app_nil_r. exact H.
    - apply (inv_step x tr e) in H. apply IH in H.
      rewrite <- app_assoc in H. destruct e; exact H.
  Qed.

  Lemma fk_fw k tr : fk k (fw (shard k) tr) = fk k tr.
  Proof.
    unfold fk, fw. induction tr as [|p tr IH]; cbn; [reflexivity|].
    destruct (Nat.eqb (shard (key p)) (shard k)) eqn:E; cbn.
    - rewrite IH. reflexivity.
    - destruct (keqb (key p) k) eqn:Ek; [|exact IH].
      apply keqb_eq in Ek. subst k. rewrite Nat.eqb_refl in E. discriminate.
  Qed.

  (* C10 core: any schedule that ends with empty queues delivers, per key, exactly the
     sequential results of the dispatched trace, in order *)
  Theorem pool_refines_seq : forall es,
    let x := fold_left pstep es init in
    (forall w, q x w = []) ->
    forall k, proj k (outs x) = proj k (snd (run s0 (dispatched es))).
  Proof.
    intros es x Hempty k.
    pose proof (inv_run es init [] inv_init) as (Hq & _ & Ho). cbn [app] in *. fold x in Hq, Ho.
    rewrite Ho. specialize (Hq (shard k)). rewrite Hempty, app_nil_r in Hq. rewrite Hq, fk_fw.
    symmetry. apply (proj1 (run_local _ _ _)).
  Qed.

  (* ---- multiset form: equal per-key projections for every key => permutation ---- *)
  Fixpoint remove_first (k : K) (l : list (K * O)) : list (K * O) :=
    match l with
    | [] => []
    | x :: r => if keqb (fst x) k then r else x :: remove_first k r
    end.
  Fixpoint first_of (k : K) (l : list (K * O)) : option O :=
    match l with
    | [] => None
    | x :: r => if keqb (fst x) k then Some (snd x) else first_of k r
    end.

  Lemma proj_first k l : first_of k l = hd_error (proj k l).
  Proof.
    unfold proj. induction l as [|x l IH]; cbn; [reflexivity|].
    destruct (keqb (fst x) k); cbn; [reflexivity|exact IH].
  Qed.

  Lemma proj_remove_same k l : proj k (remove_first k l) = tl (proj k l).
  Proof.
    unfold proj. induction l as [|x l IH]; cbn; [reflexivity|].
    destruct (keqb (fst x) k) eqn:E; cbn; [reflexivity|]. rewrite E. exact IH.
  Qed.

  Lemma proj_remove_other k k' l : keqb k' k = false -> proj k' (remove_first k l) = proj k' l.
  Proof.
    intro Hne. unfold proj. induction l as [|x l IH]; cbn; [reflexivity|].
    destruct (keqb (fst x) k) eqn:E; cbn.
    - apply keqb_eq in E. destruct (keqb (fst x) k') eqn:E2; [|reflexivity].
      apply keqb_eq in E2. rewrite E in E2. subst k'. rewrite keqb_refl in Hne. discriminate.
    - destruct (keqb (fst x) k'); cbn; [f_equal|]; exact IH.
  Qed.

  Lemma perm_remove_first k o l : first_of k l = Some o -> Permutation ((k, o) :: remove_first k l) l.
  Proof.
    induction l as [|x l IH]; cbn; [discriminate|].
    destruct (keqb (fst x) k) eqn:E.
    - intro H. injection H as <-. apply keqb_eq in E. destruct x as [xk xo]. cbn in *. subst xk. apply Permutation_refl.
    - intro H. apply IH in H. eapply perm_trans; [apply perm_swap|]. apply perm_skip. exact H.
  Qed.

  Theorem proj_eq_permutation : forall a b,
    (forall k, proj k a = proj k b) -> Permutation a b.
  Proof.
    induction a as [|[k o] a IH]; intros b H.
    - destruct b as [|[k o] b]; [constructor|]. specialize (H k). unfold proj in H. cbn in H.
      rewrite keqb_refl in H. discriminate.
    - assert (Hf : first_of k b = Some o).
      { rewrite proj_first, <- H. unfold proj. cbn. rewrite keqb_refl. reflexivity. }
      eapply perm_trans; [|apply (perm_remove_first k o b Hf)].
      apply perm_skip. apply IH. intro k'.
      destruct (keqb k' k) eqn:E.
      + apply keqb_eq in E. subst k'. rewrite proj_remove_same, <- H. unfold proj. cbn. rewrite keqb_refl. reflexivity.
      + rewrite (proj_remove_other k k' b E), <- H. unfold proj. cbn.
        assert (E' : keqb k k' = false).
        { destruct (keqb k k') eqn:E2; [|reflexivity]. apply keqb_eq in E2. subst k'. rewrite keqb_refl in E. discriminate. }
        rewrite E'. reflexivity.
  Qed.

  (* C10: the pool's results are, as a multiset, exactly the sequential results, and each key's
     results keep their order *)
  Corollary pool_outputs_permutation : forall es,
    let x := fold_left pstep es init in
    (forall w, q x w = []) ->
    Permutation (outs x) (snd (run s0 (dispatched es))).
  Proof. intros es x H. apply proj_eq_permutation. apply pool_refines_seq. exact H. Qed.
End Keyed.
