#!/usr/bin/env python3
"""Prints the per-property status table of DESIGN.md section 0.4 from MANIFEST.json, known_findings.json and evidence/*.json"""
import json, os
V = os.path.dirname(os.path.dirname(os.path.abspath(__file__)))
m = json.load(open(os.path.join(V, 'MANIFEST.json')))
k = json.load(open(os.path.join(V, 'known_findings.json')))['findings']
print('| prop | property theorems (coq/Props/Cxx.v) | lemmas in closure | cases in the committed evidence (tier) | open findings | repaired (fix: commit) |')
print('|---|---|---|---|---|---|')
for c in sorted(m['checks'], key=lambda c: c['property_id']):
    p = c['property_id']
    ev = json.load(open(os.path.join(V, 'evidence', p + '.json')))
    th = ev['coverage'].get('property_theorems', [])
    main = [t for t in th if 'refuted' not in t.lower() and 'example' not in t.lower() and 'satisfiable' not in t.lower() and 'nonvacuous' not in t.lower()]
    opn = [f['id'] for f in k if f['property'] == p and f['status'] == 'open']
    fx = ['%s (%s)' % (f['id'], f['commit']) for f in k if f['property'] == p and f['status'] == 'fixed']
    print('| %s | %d (%s%s) | %d | %d (%s) | %s | %s |' % (p, len(th), ', '.join(main[:6]), ', ...' if len(main) > 6 else '', ev['coverage']['obligations'], ev['coverage']['evaluations'], ev['tier'], ', '.join(opn) or '-', ', '.join(fx) or '-'))
for x in m.get('not_applicable', []):
    print('| %s | not yet claimed: %s | | | | |' % (x['property_id'], x['reason']))
