#!/usr/bin/env python3
"""Rewrites the two generated tables of DESIGN.md (0.1 seeded changes, 0.4 per-property status) in place."""
import os, subprocess, sys
V = os.path.dirname(os.path.dirname(os.path.abspath(__file__)))
p = os.path.join(V, 'DESIGN.md')
lines = open(p).read().split('\n')
def replace(head, tool):
    new = subprocess.run([sys.executable, os.path.join(V, 'tools', tool)], capture_output=True, text=True, check=True).stdout.rstrip('\n').split('\n')
    i = next(k for k, l in enumerate(lines) if l.startswith(head))
    j = i
    while j < len(lines) and lines[j].startswith('|'):
        j += 1
    lines[i:j] = new
replace('| seeded change |', 'seed_table.py')
replace('| prop |', 'status_table.py')
open(p, 'w').write('\n'.join(lines))
