#!/bin/bash
# usage: tools/refac_lane.sh <lane-number> <jobs-file>      jobs-file lines: <patch.diff> <name> <Cxx> [Cxx ...]
# False-alarm test: applies a behaviour-preserving rewrite to a lane-private worktree of /repo and runs the listed
# checks inside a private mount namespace (see tools/seed_lane.sh). Every check must stay OK.
set -u
LANE=$1; JOBS=$2; L=/tmp/lane_$LANE
export CARGO_NET_OFFLINE=true
mkdir -p $L /tmp/refac_res
if [ ! -d $L/repo ]; then git -C /repo worktree add -q --detach $L/repo HEAD || exit 2; fi
(cd $L/repo && git reset -q --hard && git checkout -q --detach $(git -C /repo rev-parse HEAD)) || exit 2
rsync -a --delete --exclude .git /verif/ $L/verif/
while read -r PATCH NAME CHECKS; do
  [ -z "${PATCH:-}" ] && continue
  cd $L/repo; git reset -q --hard HEAD; git clean -fdq -e target
  git apply $PATCH || { echo "RESULT $NAME PATCH-DOES-NOT-APPLY"; continue; }
  res=""
  for p in $CHECKS; do
    out=$(unshare -m bash -c "mount --bind $L/repo /repo && mount --bind $L/verif /verif && cd /verif && bin/check $p 2>&1 | grep -E '^(VIOLATION|C[0-9][0-9]:)' | tail -3")
    v=$(echo "$out" | grep -c "^VIOLATION"); ok=$(echo "$out" | tail -1 | grep -c " OK$")
    res="$res $p:$([ $v = 0 ] && [ $ok = 1 ] && echo ok || echo ALARM)"
    [ $v != 0 ] || [ $ok != 1 ] && echo "$out" | cut -c1-600 > /tmp/refac_res/${NAME}_$p.txt
  done
  cd $L/repo; git reset -q --hard HEAD
  echo "RESULT $NAME $res"
done < $JOBS
