#!/usr/bin/env python3
"""Regenerate coq/Gen/*.v from /repo's current working tree.  Every tools/gen/*.py is a
generator module with a main(repo, out_dir) function; it must fail (raise) when it cannot find
its table in the source (fail closed: a broken tie, never a silently stale model)."""
import importlib.util, os, sys, traceback

HERE = os.path.dirname(os.path.abspath(__file__))
VERIF = os.path.dirname(HERE)
OUT = os.path.join(VERIF, 'coq', 'Gen')
REPO = os.environ.get('VERIF_REPO', '/repo')


def write_if_changed(path, text):
    old = open(path).read() if os.path.exists(path) else None
    if old != text:
        with open(path, 'w') as f:
            f.write(text)
        return True
    return False


def coq_str(s):
    return '"' + s.replace('"', '""') + '"'


def main():
    os.makedirs(OUT, exist_ok=True)
    rc = 0
    gdir = os.path.join(HERE, 'gen')
    for fn in sorted(os.listdir(gdir)) if os.path.isdir(gdir) else []:
        if not fn.endswith('.py'):
            continue
        spec = importlib.util.spec_from_file_location(fn[:-3], os.path.join(gdir, fn))
        mod = importlib.util.module_from_spec(spec)
        try:
            spec.loader.exec_module(mod)
            mod.main(REPO, OUT)
        except Exception:
            traceback.print_exc()
            print('gen_data: generator %s FAILED' % fn)
            rc = 1
    return rc


if __name__ == '__main__':
    sys.exit(main())
