#!/bin/bash
# usage: tools/seed_lane.sh <lane-number> <jobs-file>
#   jobs-file lines:  <src dir> <Cxx> <name> <crate dir of the demo> [other Cxx ...]
# Verifies seeded changes without touching /repo or /verif: each lane owns a git worktree of /repo and a copy of
# /verif under /tmp/lane_<n>/ and runs the checks inside a private mount namespace in which those two directories
# are bind-mounted over /repo and /verif (so the registered commands run unmodified, path dependencies included).
# Results: /tmp/seed_res/<name>/{patch.diff,demo.rs,notes.md,meta.json,log.txt}; copy them to /verif/seeded/ afterwards.
set -u
LANE=$1; JOBS=$2
L=/tmp/lane_$LANE
export CARGO_NET_OFFLINE=true
mkdir -p $L /tmp/seed_res
if [ ! -d $L/repo ]; then git -C /repo worktree add -q --detach $L/repo HEAD || exit 2; fi
(cd $L/repo && git reset -q --hard && git checkout -q --detach $(git -C /repo rev-parse HEAD)) || exit 2
rsync -a --delete --exclude .git /verif/ $L/verif/
while read -r SRC PID NAME CRATE OTHERS; do
  [ -z "${SRC:-}" ] && continue
  OUT=/tmp/seed_res/$NAME; mkdir -p $OUT
  {
  cd $L/repo; git reset -q --hard HEAD; git clean -fdq -e target
  cp $SRC/demo.rs $L/repo/$CRATE/tests/seed_demo.rs
  feat=""; grep -q "verif-hooks" $SRC/notes.md 2>/dev/null && [ "$CRATE" = huginn-net-tcp ] && feat="--features verif-hooks"
  demo_without=$(cargo test --offline -p $CRATE $feat --test seed_demo 2>&1 | grep -E "^test result" | tail -1)
  git apply $SRC/patch.diff 2>/dev/null || git apply --3way $SRC/patch.diff || { echo "PATCH DOES NOT APPLY"; continue; }
  demo_with=$(cargo test --offline -p $CRATE $feat --test seed_demo 2>&1 | grep -E "^test result|error(\[|:)" | tail -2 | tr '\n' ' ')
  rm $L/repo/$CRATE/tests/seed_demo.rs
  suite=$(cargo nextest run --workspace --no-fail-fast --offline 2>&1 | grep -E "Summary" | tail -1)
  echo "demo without change: $demo_without"
  echo "demo with change   : $demo_with"
  echo "suite with change  : $suite"
  results=""
  for p in $PID $OTHERS; do
    out=$(unshare -m bash -c "mount --bind $L/repo /repo && mount --bind $L/verif /verif && cd /verif && bin/check $p 2>&1 | grep -E '^(VIOLATION|KNOWN-FINDING|C[0-9][0-9]:)' | tail -4")
    v=$(echo "$out" | grep -c "^VIOLATION")
    echo "--- bin/check $p: violation_lines=$v"
    echo "$out" | cut -c1-600
    results="$results $p:$v"
    rp=$(echo "$out" | grep "^VIOLATION" | head -1 | sed 's/.*replay=\([^ ]*\).*/\1/')
    [ -n "$rp" ] && [ -f "$L/verif/${rp#/verif/}" ] && head -c 3000 "$L/verif/${rp#/verif/}" > $OUT/replay_$p.txt
  done
  cd $L/repo; git reset -q --hard HEAD
  cp $SRC/patch.diff $SRC/demo.rs $SRC/notes.md $OUT/ 2>/dev/null
  python3 - "$OUT" "$PID" "$NAME" "$CRATE" "$demo_without" "$demo_with" "$suite" "$results" <<'PY'
import json,sys
out,pid,name,crate,dw,dc,suite,results=sys.argv[1:9]
json.dump({"breaks_property":pid,"name":name,"demo_crate":crate,
 "needs_to_manifest":"see notes.md (written by the independent author of the change)",
 "verified_in_scratch_worktree":{"demo_without_change":dw,"demo_with_change":dc,"existing_suite_with_change":suite},
 "checks_run_against_it":{r.split(':')[0]:("VIOLATION reported" if r.split(':')[1]!='0' else "not detected") for r in results.split()},
 "commands":["git -C /repo apply patch.diff; bin/check %s; git -C /repo checkout -- ."%pid]},open(out+'/meta.json','w'),indent=1)
PY
  echo "RESULT $NAME $results"
  } > $OUT/log.txt 2>&1
  tail -1 $OUT/log.txt
done < $JOBS
