"""Reading Rust sources for the table generators: comments are removed (outside string and char literals) so that a
comment next to a literal, or a reflowed table, does not change what is read."""


def strip_rust_comments(src):
    out, i, n = [], 0, len(src)
    while i < n:
        c = src[i]
        if c == '"':                      # string literal (also b"..."): copy verbatim
            j = i + 1
            while j < n and src[j] != '"':
                j += 2 if src[j] == '\\' else 1
            out.append(src[i:j + 1]); i = j + 1
        elif c == '/' and src[i:i + 2] == '//':
            while i < n and src[i] != '\n':
                i += 1
        elif c == '/' and src[i:i + 2] == '/*':
            depth, i = 1, i + 2
            while i < n and depth:
                if src[i:i + 2] == '/*':
                    depth += 1; i += 2
                elif src[i:i + 2] == '*/':
                    depth -= 1; i += 2
                else:
                    i += 1
            out.append(' ')
        else:
            out.append(c); i += 1
    return ''.join(out)


def read_rs(path):
    return strip_rust_comments(open(path, encoding='utf-8').read())
