#!/usr/bin/env python3
"""Prints the markdown table of seeded changes (DESIGN.md section 0.1) from seeded/*/meta.json + seeded/needs.json"""
import json, os
V = os.path.dirname(os.path.dirname(os.path.abspath(__file__)))
needs = json.load(open(os.path.join(V, 'seeded', 'needs.json')))
print('| seeded change | what it does | needs, to manifest | checks run -> verdict now | first run |')
print('|---|---|---|---|---|')
for n in sorted(os.listdir(os.path.join(V, 'seeded'))):
    mp = os.path.join(V, 'seeded', n, 'meta.json')
    if not os.path.exists(mp):
        continue
    m = json.load(open(mp))
    what, need, first = needs.get(n, ['', '', ''])
    res = '; '.join('%s: %s' % (k, v) for k, v in m['checks_run_against_it'].items())
    print('| `%s` | %s | %s | %s | %s |' % (n, what, need, res, first))
