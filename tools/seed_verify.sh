#!/bin/bash
# usage: tools/seed_verify.sh <src dir with patch.diff demo.rs notes.md> <Cxx> <name> <crate dir for the demo test> [other Cxx to run too ...]
# 1. scratch worktree: change compiles, existing suite unchanged, demo fails with / passes without the change
# 2. /repo: apply, run bin/check for the property (and neighbours), undo
# 3. record under /verif/seeded/<name>/
set -u
SRC=$1; PID=$2; NAME=$3; CRATE=$4; shift 4; OTHERS="$@"
WT=/tmp/sv_$NAME
OUT=/verif/seeded/$NAME
mkdir -p $OUT
git -C /repo worktree remove --force $WT 2>/dev/null
git -C /repo worktree add -q --detach $WT HEAD || exit 2
cd $WT
export CARGO_NET_OFFLINE=true
cp $SRC/demo.rs $WT/$CRATE/tests/seed_demo.rs
demo_without=$(cargo test --offline -p $CRATE --test seed_demo 2>&1 | grep -E "^test result" | tail -1)
git apply $SRC/patch.diff 2>/dev/null || git apply --3way $SRC/patch.diff || { echo "PATCH DOES NOT APPLY"; exit 3; }
demo_with=$(cargo test --offline -p $CRATE --test seed_demo 2>&1 | grep -E "^test result|error(\[|:)" | tail -2 | tr '\n' ' ')
rm $WT/$CRATE/tests/seed_demo.rs
suite=$(cargo nextest run --workspace --no-fail-fast --offline 2>&1 | grep -E "Summary" | tail -1)
cd /verif
git -C /repo worktree remove --force $WT
echo "demo without change: $demo_without"
echo "demo with change   : $demo_with"
echo "suite with change  : $suite"
# --- against the checks ---
git -C /repo apply $SRC/patch.diff 2>/dev/null || git -C /repo apply --3way $SRC/patch.diff || exit 4
results=""
for p in $PID $OTHERS; do
  out=$(bin/check $p 2>&1 | tail -3)
  rc=$?
  v=$(echo "$out" | grep -c "^VIOLATION")
  echo "--- bin/check $p: violation_lines=$v"
  echo "$out" | cut -c1-700
  results="$results $p:$v"
done
git -C /repo reset -q --hard HEAD
git -C /repo status --short | head -3
cp $SRC/patch.diff $SRC/demo.rs $SRC/notes.md $OUT/ 2>/dev/null
python3 - "$OUT" "$PID" "$NAME" "$CRATE" "$demo_without" "$demo_with" "$suite" "$results" <<'PY'
import json,sys
out,pid,name,crate,dw,dc,suite,results=sys.argv[1:9]
json.dump({"breaks_property":pid,"name":name,"demo_crate":crate,
 "needs_to_manifest":"see notes.md (written by the independent author of the change)",
 "verified_in_scratch_worktree":{"demo_without_change":dw,"demo_with_change":dc,"existing_suite_with_change":suite},
 "checks_run_against_it":{r.split(':')[0]:("VIOLATION reported" if r.split(':')[1]!='0' else "not detected") for r in results.split()},
 "commands":["git -C /repo apply patch.diff; bin/check %s; git -C /repo reset -q --hard HEAD"%pid]},open(out+'/meta.json','w'),indent=1)
PY
# refresh the evidence files on the restored tree (a red run must never be the committed evidence)
for p in $PID $OTHERS; do bin/check $p > /dev/null 2>&1; done
