//! Frame builders (Ethernet / IPv4 / IPv6 / TCP) and pcap reading shared by the harness crates.
use std::net::IpAddr;

pub const SYN: u8 = 0x02;
pub const ACK: u8 = 0x10;
pub const PSH: u8 = 0x08;
pub const FIN: u8 = 0x01;
pub const RST: u8 = 0x04;

#[derive(Clone, Debug)]
pub struct Tcp {
    pub sport: u16, pub dport: u16, pub seq: u32, pub ack: u32, pub flags: u8, pub ns: bool,
    pub window: u16, pub urg: u16, pub options: Vec<u8>, pub payload: Vec<u8>,
}
impl Tcp {
    pub fn new(sport: u16, dport: u16, flags: u8) -> Self {
        Tcp { sport, dport, seq: 1000, ack: 0, flags, ns: false, window: 65535, urg: 0, options: vec![], payload: vec![] }
    }
    /// header (options padded with zeros to a multiple of 4) + payload; checksum left zero
    pub fn bytes(&self) -> Vec<u8> {
        let mut opts = self.options.clone();
        while opts.len() % 4 != 0 { opts.push(0); }
        let doff = (5 + opts.len() / 4) as u8;
        let mut b = Vec::with_capacity(20 + opts.len() + self.payload.len());
        b.extend_from_slice(&self.sport.to_be_bytes());
        b.extend_from_slice(&self.dport.to_be_bytes());
        b.extend_from_slice(&self.seq.to_be_bytes());
        b.extend_from_slice(&self.ack.to_be_bytes());
        b.push((doff << 4) | (self.ns as u8));
        b.push(self.flags);
        b.extend_from_slice(&self.window.to_be_bytes());
        b.extend_from_slice(&[0, 0]);
        b.extend_from_slice(&self.urg.to_be_bytes());
        b.extend_from_slice(&opts);
        b.extend_from_slice(&self.payload);
        b
    }
}

pub fn opt_mss(v: u16) -> Vec<u8> { vec![2, 4, (v >> 8) as u8, v as u8] }
pub fn opt_ws(v: u8) -> Vec<u8> { vec![3, 3, v] }
pub fn opt_sackok() -> Vec<u8> { vec![4, 2] }
pub fn opt_nop() -> Vec<u8> { vec![1] }
pub fn opt_eol() -> Vec<u8> { vec![0] }
pub fn opt_ts(val: u32, ecr: u32) -> Vec<u8> { let mut v = vec![8, 10]; v.extend_from_slice(&val.to_be_bytes()); v.extend_from_slice(&ecr.to_be_bytes()); v }

#[derive(Clone, Debug)]
pub struct Ip4 { pub src: [u8; 4], pub dst: [u8; 4], pub ttl: u8, pub id: u16, pub df: bool, pub mbz: bool, pub mf: bool, pub frag_off: u16, pub tos: u8, pub proto: u8, pub options: Vec<u8> }
impl Ip4 {
    pub fn new(src: [u8; 4], dst: [u8; 4]) -> Self { Ip4 { src, dst, ttl: 64, id: 0x1234, df: true, mbz: false, mf: false, frag_off: 0, tos: 0, proto: 6, options: vec![] } }
    pub fn bytes(&self, payload: &[u8]) -> Vec<u8> {
        let mut opts = self.options.clone();
        while opts.len() % 4 != 0 { opts.push(0); }
        let ihl = (5 + opts.len() / 4) as u8;
        let total = 20 + opts.len() + payload.len();
        let mut b = vec![0x40 | ihl, self.tos];
        b.extend_from_slice(&(total as u16).to_be_bytes());
        b.extend_from_slice(&self.id.to_be_bytes());
        let fl: u16 = ((self.mbz as u16) << 15) | ((self.df as u16) << 14) | ((self.mf as u16) << 13) | (self.frag_off & 0x1fff);
        b.extend_from_slice(&fl.to_be_bytes());
        b.push(self.ttl); b.push(self.proto); b.extend_from_slice(&[0, 0]);
        b.extend_from_slice(&self.src); b.extend_from_slice(&self.dst);
        b.extend_from_slice(&opts);
        b.extend_from_slice(payload);
        b
    }
}
#[derive(Clone, Debug)]
pub struct Ip6 { pub src: [u8; 16], pub dst: [u8; 16], pub hop: u8, pub flow: u32, pub tc: u8, pub next: u8 }
impl Ip6 {
    pub fn new(src: [u8; 16], dst: [u8; 16]) -> Self { Ip6 { src, dst, hop: 64, flow: 0, tc: 0, next: 6 } }
    pub fn bytes(&self, payload: &[u8]) -> Vec<u8> {
        let w: u32 = (6u32 << 28) | ((self.tc as u32) << 20) | (self.flow & 0xfffff);
        let mut b = w.to_be_bytes().to_vec();
        b.extend_from_slice(&(payload.len() as u16).to_be_bytes());
        b.push(self.next); b.push(self.hop);
        b.extend_from_slice(&self.src); b.extend_from_slice(&self.dst);
        b.extend_from_slice(payload);
        b
    }
}
pub fn ether(ethertype: u16, payload: &[u8]) -> Vec<u8> {
    let mut b = vec![0x02, 0, 0, 0, 0, 0x01, 0x02, 0, 0, 0, 0, 0x02];
    b.extend_from_slice(&ethertype.to_be_bytes());
    b.extend_from_slice(payload);
    b
}
pub fn ether4(ip: &Ip4, tcp: &Tcp) -> Vec<u8> { ether(0x0800, &ip.bytes(&tcp.bytes())) }
pub fn ether6(ip: &Ip6, tcp: &Tcp) -> Vec<u8> { ether(0x86dd, &ip.bytes(&tcp.bytes())) }

pub fn read_pcap(path: &str) -> Vec<Vec<u8>> {
    let f = std::fs::File::open(path).expect("pcap");
    let mut r = pcap_file::pcap::PcapReader::new(f).expect("pcap reader");
    let mut v = Vec::new();
    while let Some(Ok(p)) = r.next_packet() { v.push(p.data.to_vec()); }
    v
}
pub fn write_pcap(path: &str, frames: &[Vec<u8>]) {
    use pcap_file::pcap::{PcapPacket, PcapWriter};
    let f = std::fs::File::create(path).expect("create pcap");
    let mut w = PcapWriter::new(f).expect("pcap writer");
    for (i, fr) in frames.iter().enumerate() {
        let p = PcapPacket::new(std::time::Duration::from_millis(i as u64), fr.len() as u32, fr);
        w.write_packet(&p).expect("write");
    }
}
pub fn ip_str(a: &IpAddr) -> String { a.to_string() }
