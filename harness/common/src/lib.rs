//! Shared harness plumbing: deterministic PRNG, hex, frame builders and the gen/run command line.
pub mod pkt;
use std::io::{BufRead, Write};
use std::panic::{catch_unwind, AssertUnwindSafe};

/// SplitMix64: every random choice of a run derives from one seed.
#[derive(Clone)]
pub struct Rng(pub u64);
impl Rng {
    pub fn new(seed: u64) -> Self { Rng(seed ^ 0x9E37_79B9_7F4A_7C15) }
    pub fn next(&mut self) -> u64 {
        self.0 = self.0.wrapping_add(0x9E37_79B9_7F4A_7C15);
        let mut z = self.0;
        z = (z ^ (z >> 30)).wrapping_mul(0xBF58_476D_1CE4_E5B9);
        z = (z ^ (z >> 27)).wrapping_mul(0x94D0_49BB_1331_11EB);
        z ^ (z >> 31)
    }
    pub fn below(&mut self, n: u64) -> u64 { if n == 0 { 0 } else { self.next() % n } }
    pub fn range(&mut self, lo: u64, hi: u64) -> u64 { lo + self.below(hi - lo + 1) }
    pub fn chance(&mut self, num: u64, den: u64) -> bool { self.below(den) < num }
    pub fn pick<'a, T>(&mut self, xs: &'a [T]) -> &'a T { &xs[self.below(xs.len() as u64) as usize] }
    pub fn bytes(&mut self, n: usize) -> Vec<u8> { (0..n).map(|_| self.next() as u8).collect() }
    pub fn shuffle<T>(&mut self, xs: &mut [T]) {
        for i in (1..xs.len()).rev() { let j = self.below(i as u64 + 1) as usize; xs.swap(i, j); }
    }
    pub fn fork(&mut self) -> Rng { Rng::new(self.next()) }
}

pub fn hex(b: &[u8]) -> String {
    let mut s = String::with_capacity(b.len() * 2);
    for x in b { s.push_str(&format!("{:02x}", x)); }
    s
}
pub fn unhex(s: &str) -> Vec<u8> {
    let s = s.as_bytes();
    let v = |c: u8| -> u8 { match c { b'0'..=b'9' => c - b'0', b'a'..=b'f' => c - b'a' + 10, b'A'..=b'F' => c - b'A' + 10, _ => panic!("bad hex") } };
    s.chunks(2).map(|p| v(p[0]) * 16 + v(p[1])).collect()
}
/// "-" stands for the empty byte string in case lines
pub fn hex_or_dash(b: &[u8]) -> String { if b.is_empty() { "-".into() } else { hex(b) } }
pub fn unhex_or_dash(s: &str) -> Vec<u8> { if s == "-" { vec![] } else { unhex(s) } }

pub struct Tier { pub thorough: bool }
impl Tier { pub fn scale(&self, quick: usize, thorough: usize) -> usize { if self.thorough { thorough } else { quick } } }

/// `gen <seed> <quick|thorough>` prints case lines; `run` maps case lines on stdin to result lines
/// (order preserved, 16 threads, a panic becomes the line PANIC).
pub fn main_cli(gen: fn(&mut Rng, &Tier, &mut Vec<String>), run: fn(&str) -> String) {
    main_cli_post(gen, run, |_, m| m.to_string())
}

/// Same, plus `post <cases-file>`: maps MODEL result lines on stdin (paired with the case lines of the
/// file) to final lines.  Used where the model leaves a step to a real library (e.g. prints the bytes that
/// are hashed and the harness applies the real DefaultHasher / sha2).
pub fn main_cli_post(gen: fn(&mut Rng, &Tier, &mut Vec<String>), run: fn(&str) -> String, post: fn(&str, &str) -> String) {
    let args: Vec<String> = std::env::args().collect();
    match args.get(1).map(|s| s.as_str()) {
        Some("gen") => {
            let seed: u64 = args.get(2).and_then(|s| s.parse().ok()).unwrap_or(1);
            let tier = Tier { thorough: args.get(3).map(|s| s == "thorough").unwrap_or(false) };
            let mut out = Vec::new();
            gen(&mut Rng::new(seed), &tier, &mut out);
            let stdout = std::io::stdout();
            let mut w = std::io::BufWriter::new(stdout.lock());
            for l in out { writeln!(w, "{}", l).unwrap(); }
        }
        Some("run") => {
            std::panic::set_hook(Box::new(|_| {}));
            let threads: usize = std::env::var("HNV_THREADS").ok().and_then(|s| s.parse().ok()).unwrap_or(16);
            let lines: Vec<String> = std::io::stdin().lock().lines().map(|l| l.unwrap()).collect();
            let n = lines.len();
            let chunk = (n + threads - 1) / threads.max(1);
            let mut results: Vec<String> = vec![String::new(); n];
            if n > 0 {
                std::thread::scope(|s| {
                    for (ls, rs) in lines.chunks(chunk.max(1)).zip(results.chunks_mut(chunk.max(1))) {
                        s.spawn(move || {
                            for (l, r) in ls.iter().zip(rs.iter_mut()) {
                                *r = match catch_unwind(AssertUnwindSafe(|| run(l))) { Ok(x) => x, Err(_) => "PANIC".to_string() };
                            }
                        });
                    }
                });
            }
            let stdout = std::io::stdout();
            let mut w = std::io::BufWriter::new(stdout.lock());
            for r in results { writeln!(w, "{}", r.replace('\n', "\\n")).unwrap(); }
        }
        Some("post") => {
            let cases: Vec<String> = std::fs::read_to_string(&args[2]).unwrap().lines().map(|s| s.to_string()).collect();
            let stdout = std::io::stdout();
            let mut w = std::io::BufWriter::new(stdout.lock());
            for (i, l) in std::io::stdin().lock().lines().enumerate() {
                let l = l.unwrap();
                writeln!(w, "{}", post(cases.get(i).map(|s| s.as_str()).unwrap_or(""), &l)).unwrap();
            }
        }
        _ => { eprintln!("usage: gen <seed> <tier> | run | post <cases-file>"); std::process::exit(2); }
    }
}
