//! Case generators for C01 (every random choice from the given Rng).
use crate::*;
use hnv_common::pkt::*;

/// the generators record verdicts of the real code; a panic there (a defect under test) must not stop the generation
fn guarded<T>(default: T, f: impl FnOnce() -> T) -> T {
    std::panic::catch_unwind(std::panic::AssertUnwindSafe(f)).unwrap_or(default)
}
fn frames_of(r: &mut Rng, kind: u64, v6: bool, id: u64) -> Vec<Vec<u8>> {
    connection(r, &ConnSpec::new(kind, v6, id), CLOCK).into_iter().map(|f| f.0).collect()
}
/// the probe connection used for `E p?` cases (fixed)
pub fn default_probe(entry: &str) -> Vec<Vec<u8>> {
    let kind = match entry { "pt" => 2, "pl" => 1, _ => 0 };
    frames_of(&mut Rng::new(4242), kind, false, 7777)
}
fn join_hex(v: &[Vec<u8>]) -> String { if v.is_empty() { "-".into() } else { v.iter().map(|x| hex_or_dash(x)).collect::<Vec<_>>().join(";") } }

// ------------------------------------------------------------------ O
const FLAGS: [u8; 12] = [0x02, 0x12, 0x10, 0x18, 0x11, 0x04, 0x14, 0x00, 0x03, 0x06, 0xc2, 0x29];
const WINDOWS: [u16; 10] = [0, 1, 1024, 5840, 8192, 14600, 29200, 64240, 65535, 2920];
fn filler_prefix(r: &mut Rng, p: usize) -> Vec<u8> {
    // well-formed options adding up to exactly p bytes
    let mut v = Vec::new();
    while v.len() < p {
        let left = p - v.len();
        let c = r.below(5);
        if c == 0 && left >= 4 { v.extend(opt_mss(1460)); }
        else if c == 1 && left >= 10 { v.extend(opt_ts(r.next() as u32, 0)); }
        else if c == 2 && left >= 3 { v.extend(opt_ws(7)); }
        else if c == 3 && left >= 2 { v.extend(opt_sackok()); }
        else { v.push(1); }
    }
    v
}
fn random_options(r: &mut Rng) -> Vec<u8> {
    let mut v: Vec<u8> = Vec::new();
    let n = 1 + r.below(8);
    for _ in 0..n {
        let kind = if r.chance(4, 5) { *r.pick(&[0u8, 1, 2, 3, 4, 5, 8]) } else { r.next() as u8 };
        let right: u8 = match kind { 2 => 4, 3 => 3, 4 => 2, 8 => 10, 5 => 10, _ => 2 + r.below(6) as u8 };
        let len: u8 = match r.below(6) { 0 => r.next() as u8, 1 => right.wrapping_sub(1), 2 => right.wrapping_add(1), 3 => *r.pick(&[0u8, 1, 2, 255]), _ => right };
        v.push(kind);
        if kind > 1 || r.chance(1, 20) {
            v.push(len);
            let body = (len as usize).saturating_sub(2).min(12);
            let zero = r.chance(1, 4);
            for _ in 0..body { v.push(if zero { 0 } else { r.next() as u8 }); }
        }
    }
    if r.chance(1, 3) { let k = r.below(v.len() as u64 + 1) as usize; v.truncate(k); }
    v.truncate(40);
    v
}
fn gen_opts(r: &mut Rng, tier: &Tier, out: &mut Vec<String>) {
    // exhaustive: every (kind, length) pair at position 0 followed by one filler byte, SYN and SYN+ACK
    for k in 0..256u32 { for l in 0..256u32 { for fl in [0x02u8, 0x12] {
        out.push(format!("O {:02x}{:02x}{:02x} {:02x} {}", k, l, r.next() as u8, fl, r.pick(&WINDOWS)));
    } } }
    if tier.thorough {
        // ... followed by 0, 2, 3 further bytes, and deep in a 40-byte option area
        for k in 0..256u32 { for l in 0..256u32 {
            for tail in [0usize, 2, 3] { for fl in [0x02u8, 0x12] {
                let mut o = vec![k as u8, l as u8]; o.extend(r.bytes(tail));
                out.push(format!("O {} {:02x} {}", hex(&o), fl, r.pick(&WINDOWS)));
            } }
            for pos in [17usize, 36, 37, 38, 39] {
                let mut o = filler_prefix(r, pos); o.push(k as u8);
                if o.len() < 40 { o.push(l as u8); }
                let room = 40 - o.len();
                let nx = room.min(r.below(4) as usize); let extra = r.bytes(nx);
                o.extend(extra);
                out.push(format!("O {} {:02x} {}", hex(&o), if (k + l) % 2 == 0 { 0x02 } else { 0x12 }, r.pick(&WINDOWS)));
            }
        } }
    } else {
        // stratified slice of the deep positions
        for _ in 0..20000 {
            let pos = *r.pick(&[1usize, 4, 17, 36, 37, 38, 39]);
            let mut o = filler_prefix(r, pos); o.push(r.next() as u8);
            if o.len() < 40 { let rb = r.next() as u8; o.push(*r.pick(&[0u8, 1, 2, 3, 4, 9, 10, 11, 255, rb])); }
            let room = 40 - o.len();
            let nx = room.min(r.below(4) as usize); let extra = r.bytes(nx);
            o.extend(extra);
            out.push(format!("O {} {:02x} {}", hex(&o), r.pick(&[0x02u8, 0x12]), r.pick(&WINDOWS)));
        }
    }
    for _ in 0..tier.scale(6000, 60000) {
        let o = random_options(r);
        out.push(format!("O {} {:02x} {}", hex_or_dash(&o), if r.chance(3, 4) { *r.pick(&FLAGS) } else { r.next() as u8 }, if r.chance(1, 2) { *r.pick(&WINDOWS) } else { r.next() as u16 }));
    }
    // every flags byte on a plain option block
    for fl in 0..256u32 { out.push(format!("O 020405b40402080a000000000000000101030307 {:02x} 29200", fl)); }
}

// ------------------------------------------------------------------ W, P6
fn gen_win(r: &mut Rng, tier: &Tier, out: &mut Vec<String>) {
    let ws: [u32; 22] = [0, 1, 255, 256, 512, 1024, 1400, 1448, 1460, 2800, 2896, 2920, 4096, 5840, 14480, 14600, 29200, 64240, 65160, 65280, 65535, 3000];
    let ms: [u32; 14] = [0, 1, 12, 13, 99, 100, 101, 112, 536, 1400, 1448, 1460, 65495, 65535];
    let hs: [u32; 6] = [0, 5, 6, 20, 40, 65535];
    for w in ws { for m in ms { for h in hs { for t in 0..2 { for v in [4, 6] { out.push(format!("W {} {} {} {} {}", w, m, h, t, v)); } } } } }
    for _ in 0..tier.scale(3000, 60000) {
        let m = if r.chance(1, 2) { 100 + r.below(1500) as u32 } else { r.next() as u16 as u32 };
        let w = if r.chance(1, 2) { ((m as u64 * r.below(70)) % 65536) as u32 } else { r.next() as u16 as u32 };
        out.push(format!("W {} {} {} {} {}", w, m, r.pick(&hs), r.below(2), r.pick(&[4, 6])));
    }
}
fn gen_p6(r: &mut Rng, tier: &Tier, out: &mut Vec<String>) {
    for nh in [0u8, 6, 43, 44, 60, 17, 255] { for plen in [0usize, 1, 2, 3, 8, 24] { for lie in 0..5 { for h in [0u8, 1, 30, 31, 32, 255] {
        let mut payload = r.bytes(plen);
        if plen > 1 { payload[1] = h; }
        let decl: u16 = match lie { 0 => 0, 1 => 1, 2 => plen as u16, 3 => plen as u16 + 1, _ => 65535 };
        let mut p = vec![0x60, 0, 0, 0, (decl >> 8) as u8, decl as u8, nh, 64];
        p.extend(r.bytes(32)); p.extend(payload);
        out.push(format!("P6 {}", hex(&p)));
        if plen <= 1 { break; }
    } } } }
    for _ in 0..tier.scale(300, 5000) { let n = 40 + r.below(40) as usize; out.push(format!("P6 {}", hex(&r.bytes(n)))); }
}

// ------------------------------------------------------------------ R
fn r_case(chunks: &[Vec<u8>]) -> String {
    // the outcome letters are recorded with the real reader (what parse_tls_client_hello answered)
    let mut rd = huginn_net_tls::tls_client_hello_reader::TlsClientHelloReader::new();
    let mut toks = vec!["R".to_string()];
    for c in chunks {
        let o = guarded('e', std::panic::AssertUnwindSafe(|| match rd.add_bytes(c) { Ok(Some(_)) => 's', Ok(None) => 'n', Err(_) => 'e' }));
        toks.push(format!("{}:{}", hex_or_dash(c), o));
    }
    toks.join(" ")
}
fn cut(r: &mut Rng, b: &[u8], max_chunks: u64) -> Vec<Vec<u8>> {
    let n = 1 + r.below(max_chunks) as usize;
    let mut cuts: Vec<usize> = (0..n - 1).map(|_| r.below(b.len() as u64 + 1) as usize).collect();
    cuts.push(0); cuts.push(b.len()); cuts.sort();
    cuts.windows(2).map(|w| b[w[0]..w[1]].to_vec()).collect()
}
pub fn hello_lies(r: &mut Rng, h: &[u8]) -> Vec<Vec<u8>> {
    let l = h.len() - 5;
    let mut v = Vec::new();
    for rl in [0usize, 1, 2, 4, 5, l - 1, l, l + 1, l + 7, 16384, 16385, 16640, 16641, 65530, 65531, 65532, 65535] {
        let mut x = h.to_vec(); x[3] = (rl >> 8) as u8; x[4] = rl as u8; v.push(x);
    }
    let hl = l - 4;
    for hv in [0usize, 1, hl - 1, hl + 1, 0xffff, 0xffffff] {
        let mut x = h.to_vec(); x[6] = (hv >> 16) as u8; x[7] = (hv >> 8) as u8; x[8] = hv as u8; v.push(x);
    }
    for (off, vals) in [(0usize, vec![0x17u8, 0x15, 0x14, 0x00, 0xff]), (5, vec![0, 2, 11, 0xff]), (43, vec![1, 31, 32, 33, 255])] {
        for b in vals { let mut x = h.to_vec(); if off < x.len() { x[off] = b; } v.push(x); }
    }
    for _ in 0..6 { let mut x = h.to_vec(); let i = r.below(x.len() as u64) as usize; x[i] ^= 1 << r.below(8); v.push(x); }
    v
}
fn gen_reader(r: &mut Rng, tier: &Tier, out: &mut Vec<String>) {
    let tls12: Vec<u8> = { let f = &pcaps()[3][0]; let ip = 14; let ihl = (f[ip] & 15) as usize * 4; let doff = (f[ip + ihl + 12] >> 4) as usize * 4; f[ip + ihl + doff..].to_vec() };
    for round in 0..tier.scale(12, 80) {
        let h = if round % 4 == 3 { tls12.clone() } else { client_hello(r) };
        // every split in two, a sample of 3..5-chunk splits, with and without trailing bytes
        let step = if tier.thorough { 1 } else { 7 };
        for i in (0..=h.len()).step_by(step) { out.push(r_case(&[h[..i].to_vec(), h[i..].to_vec()])); }
        for _ in 0..20 {
            let mut b = h.clone();
            match r.below(4) { 0 => { let k = 1 + r.below(30) as usize; b.extend(r.bytes(k)) } 1 => b.extend(client_hello(r)), 2 => { let k = r.below(6) as usize; let mut p = r.bytes(k); p.extend(b); b = p; } _ => {} }
            out.push(r_case(&cut(r, &b, 5)));
        }
        for x in hello_lies(r, &h) {
            out.push(r_case(&[x.clone()]));
            out.push(r_case(&cut(r, &x, 4)));
            let mut y = x.clone(); y.extend(r.bytes(40)); out.push(r_case(&cut(r, &y, 3)));
        }
        out.push(r_case(&[h.clone(), h.clone(), r.bytes(9)]));
    }
    for _ in 0..tier.scale(400, 4000) { let n = r.below(40) as usize; let b = r.bytes(n); out.push(r_case(&cut(r, &b, 4))); }
    for _ in 0..tier.scale(200, 2000) {
        // handshake-typed random records of a declared small length
        let n = r.below(30) as usize; let decl = r.below(40) as u16;
        let mut b = vec![0x16, 3, r.below(4) as u8, (decl >> 8) as u8, decl as u8]; b.extend(r.bytes(n));
        out.push(r_case(&cut(r, &b, 3)));
    }
    // the 64 KiB limit: needed = record_len + 5 around 65536
    for rl in [65530usize, 65531, 65532, 65535] {
        for extra in [0usize, 1] {
            let mut b = vec![0x16, 3, 1, (rl >> 8) as u8, rl as u8]; b.extend(vec![0u8; rl + extra]);
            out.push(r_case(&[b[..5].to_vec(), b[5..].to_vec()]));
            if tier.thorough { out.push(r_case(&[b.clone()])); let k = b.len() - 1; out.push(r_case(&[b[..k].to_vec(), b[k..].to_vec()])); }
        }
    }
}

// ------------------------------------------------------------------ F, S
pub fn h2f(ty: u8, flags: u8, stream: u32, payload: &[u8], declared: Option<u32>) -> Vec<u8> {
    let l = declared.unwrap_or(payload.len() as u32);
    let mut f = vec![(l >> 16) as u8, (l >> 8) as u8, l as u8, ty, flags];
    f.extend_from_slice(&stream.to_be_bytes()); f.extend_from_slice(payload); f
}
fn random_frame(r: &mut Rng) -> Vec<u8> {
    let ty = if r.chance(5, 6) { r.below(10) as u8 } else { r.next() as u8 };
    let n = match ty { 4 => *r.pick(&[0usize, 5, 6, 7, 12, 18, 36]), 8 => *r.pick(&[0usize, 3, 4, 5]), 2 => *r.pick(&[0usize, 4, 5, 6]), _ => r.below(24) as usize };
    let stream = match r.below(4) { 0 => 0, 1 => 1, 2 => r.next() as u32, _ => 0x8000_0000 | r.below(9) as u32 };
    h2f(ty, r.next() as u8, stream, &r.bytes(n), None)
}
fn gen_h2(r: &mut Rng, tier: &Tier, out: &mut Vec<String>) {
    for _ in 0..tier.scale(3000, 30000) {
        let mut b = Vec::new();
        if r.chance(1, 10) { b.extend_from_slice(b"PRI * HTTP/2.0\r\n\r\nSM\r\n\r\n"); }
        for _ in 0..1 + r.below(6) { b.extend(random_frame(r)); }
        if r.chance(1, 3) { let k = r.below(b.len() as u64 + 1) as usize; b.truncate(k); }
        if r.chance(1, 6) { let k = r.below(12) as usize; b.extend(r.bytes(k)); }
        out.push(format!("F {}", hex_or_dash(&b)));
    }
    // every prefix of a valid connection start
    for v in 0..4 { let b = h2_request(v)[24..].to_vec(); for i in 0..=b.len() { out.push(format!("F {}", hex_or_dash(&b[..i]))); } }
    // declared-length lies around 0, 9, 16383, 16384, 16385, 2^24-1 with as many bytes as declared, one less, nine less
    for decl in [0u32, 1, 8, 9, 10, 16383, 16384, 16385, 16386, 0xffff, 0xffffff] {
        for have in [decl as usize, (decl as usize).saturating_sub(1), (decl as usize).saturating_sub(9), (decl as usize) + 1, 0, 20] {
            if have > 17000 && !(tier.thorough && have < 70000) { continue; }
            let mut b = h2f(*r.pick(&[0u8, 1, 4]), 0, 1, &vec![0x41u8; have], Some(decl));
            b.extend(h2f(8, 0, 0, &[0, 0, 1, 0], None));
            out.push(format!("F {}", hex(&b)));
        }
    }
    for n in 0..9usize { out.push(format!("F {}", hex_or_dash(&r.bytes(n)))); }
    // incremental extractor: chunkings of connection starts (with / without preface, SETTINGS first or late, empty SETTINGS)
    for _ in 0..tier.scale(1500, 15000) {
        let mut b: Vec<u8> = Vec::new();
        if r.chance(2, 3) { b.extend_from_slice(b"PRI * HTTP/2.0\r\n\r\nSM\r\n\r\n"); }
        if r.chance(1, 12) { let k = r.below(24) as usize; b.truncate(k); }
        for _ in 0..r.below(3) { b.extend(random_frame(r)); }
        match r.below(5) { 0 => {} 1 => b.extend(h2f(4, 0, 0, &[], None)), 2 => b.extend(h2f(4, 0, 1, &[0, 3, 0, 0, 0, 100], None)), _ => { let n = 6 * (1 + r.below(3) as usize); b.extend(h2f(4, 0, 0, &r.bytes(n), None)) } }
        for _ in 0..r.below(3) { b.extend(random_frame(r)); }
        if r.chance(1, 2) { b.extend(h2_request(r.below(4))[24..].to_vec()); }
        if r.chance(1, 4) { let k = r.below(b.len() as u64 + 1) as usize; b.truncate(k); }
        let cs = cut(r, &b, 5);
        out.push(format!("K {}", cs.iter().map(|c| hex_or_dash(c)).collect::<Vec<_>>().join(" ")));
    }
    // settings / window-update / priority payloads of every length 0..13 (and a few longer)
    for n in (0..=13usize).chain([17, 18, 19, 24, 60, 61]) {
        for _ in 0..tier.scale(12, 100) {
            let mut p = r.bytes(n);
            if r.chance(1, 2) { for c in p.chunks_mut(6) { c[0] = 0; if c.len() > 1 { c[1] = r.below(11) as u8; } } }
            out.push(format!("S {}", hex_or_dash(&p)));
            out.push(format!("F {}", hex(&h2f(4, 0, 0, &p, None))));
        }
    }
}

// ------------------------------------------------------------------ X and frame-level E
fn ihl_lies(r: &mut Rng, out: &mut Vec<Vec<u8>>) {
    let mut t = Tcp::new(40000, 443, SYN); t.options = [opt_mss(1460), opt_sackok(), opt_ts(77, 0), opt_nop(), opt_ws(7)].concat();
    let tcp = t.bytes();
    for ihl in 0..16u8 { for tl in [0usize, 1, 19, 20, 39, 40, 59, 60, 61, 65535, 7777] {
        for keep in [20usize + tcp.len(), 20, 24, (ihl as usize * 4).max(20) + 3, (ihl as usize * 4).max(20) + 4, 64, 19] {
            let ip = Ip4::new([10, 9, 8, 7], [10, 9, 8, 6]);
            let mut b = ip.bytes(&tcp);
            b.extend(r.bytes(44));
            b[0] = 0x40 | ihl;
            let tl = if tl == 7777 { b.len() } else { tl };
            b[2] = (tl >> 8) as u8; b[3] = tl as u8;
            b.truncate(keep);
            out.push(ether(0x0800, &b));
            if keep == 64 { out.push(b.clone()); let mut n = vec![2, 0, 0, 0]; n.extend(&b); out.push(n); }
        }
    } }
}
fn ip6_lies(r: &mut Rng, out: &mut Vec<Vec<u8>>) {
    let t = Tcp::new(40000, 443, SYN).bytes();
    let mut s = [0u8; 16]; s[0] = 0x20; s[15] = 1; let mut d = [0u8; 16]; d[0] = 0x20; d[15] = 2;
    for nh in [6u8, 0, 44, 17] { for pl in [0usize, 1, 19, 20, 21, 65535] { for keep in [39usize, 40, 41, 43, 44, 45, 60, 61] {
        let mut ip = Ip6::new(s, d); ip.next = nh; ip.flow = r.below(3) as u32;
        let mut b = ip.bytes(&t); b[4] = (pl >> 8) as u8; b[5] = pl as u8; b.truncate(keep);
        out.push(ether(0x86dd, &b)); out.push(b.clone());
        let mut n = vec![30, 0, 0, 0]; n.extend(&b); out.push(n);
    } } }
}
fn gen_x(r: &mut Rng, tier: &Tier, out: &mut Vec<String>) {
    let mut fr: Vec<Vec<u8>> = Vec::new();
    ihl_lies(r, &mut fr); ip6_lies(r, &mut fr);
    for p in pcaps().iter() { for f in p.iter() { let mut x = f.clone(); x.truncate(90); fr.push(x); } }
    for id in 0..4 { for f in frames_of(r, id % 4, id % 2 == 1, 100 + id) { let mut x = f.clone(); x.truncate(100); fr.push(x.clone()); if x.len() > 14 { fr.push(x[14..].to_vec()); } } }
    // every truncation and the header bit flips of a SYN over IPv4 and over IPv6
    for v6 in [false, true] {
        let f = frames_of(r, 2, v6, 300)[0].clone();
        for i in 0..=f.len() { fr.push(f[..i].to_vec()); }
        for bit in 0..(f.len().min(60) * 8) { let mut x = f.clone(); x[bit / 8] ^= 0x80 >> (bit % 8); fr.push(x); }
    }
    for _ in 0..tier.scale(1500, 20000) {
        let n = r.below(70) as usize; let mut b = r.bytes(n);
        if n > 14 && r.chance(2, 3) { b[12] = 0x08; b[13] = 0; if r.chance(2, 3) { b[14] = 0x40 | r.below(16) as u8; if n > 23 { b[23] = 6; } } }
        if n > 14 && r.chance(1, 6) { b[12] = 0x86; b[13] = 0xdd; b[14] = 0x60; if n > 20 { b[20] = 6; } }
        fr.push(b);
    }
    // NULL/loopback signatures (0x1e 00) for the link-layer step
    for v in [0x45u8, 0x60, 0x4f, 0x00, 0x70] { for n in [3usize, 4, 5, 23, 24, 25, 43, 44, 45, 60] {
        let mut b = vec![0x1e, 0, 0, 0, v]; b.extend(r.bytes(60)); b.truncate(n); fr.push(b);
    } }
    for f in &fr { out.push(format!("X {}", hex_or_dash(f))); }
    for f in &fr { out.push(format!("L {}", hex_or_dash(f))); }
}
const FRAME_ENTRIES: [&str; 6] = ["u", "t", "l", "h", "rf", "hs"];
fn gen_entry_frames(r: &mut Rng, tier: &Tier, out: &mut Vec<String>) {
    // truncations and single-bit flips of the bundled captures (by reference)
    for (pi, p) in pcaps().iter().enumerate() { for (fi, f) in p.iter().enumerate() {
        let n = f.len();
        let cuts: Vec<usize> = if tier.thorough { (0..n).collect() } else {
            let mut c: Vec<usize> = (0..n.min(if fi < 6 { 96 } else { 0 })).collect();
            for _ in 0..6 { c.push(r.below(n as u64) as usize); } c };
        for t in cuts { for e in FRAME_ENTRIES { if tier.thorough || r.chance(1, 2) { out.push(format!("E {} @{}.{}.t{}", e, pi, fi, t)); } } }
        let bits: Vec<usize> = if tier.thorough { (0..n * 8).collect() } else {
            let mut c: Vec<usize> = if fi < 4 { (0..n.min(74) * 8).collect() } else { vec![] };
            for _ in 0..24 { c.push(r.below(n as u64 * 8) as usize); } c };
        for b in bits {
            if tier.thorough { for e in ["u", "t", "l", "h"] { out.push(format!("E {} @{}.{}.b{}", e, pi, fi, b)); } }
            else { out.push(format!("E {} @{}.{}.b{}", r.pick(&FRAME_ENTRIES), pi, fi, b)); }
        }
        for e in FRAME_ENTRIES { out.push(format!("E {} @{}.{}", e, pi, fi)); }
    } }
    let mut fr: Vec<Vec<u8>> = Vec::new();
    ihl_lies(r, &mut fr); ip6_lies(r, &mut fr);
    for _ in 0..tier.scale(600, 6000) { let n = r.below(100) as usize; fr.push(r.bytes(n)); }
    for f in &fr { for e in FRAME_ENTRIES { if tier.thorough || r.chance(1, 3) { out.push(format!("E {} {}", e, hex_or_dash(f))); } } }
    // TCP option sweep through the whole per-packet paths (Ethernet frame, every analyzer)
    for _ in 0..tier.scale(1500, 15000) {
        let mut t = Tcp::new(40000 + r.below(100) as u16, *r.pick(&[80u16, 443]), *r.pick(&[SYN, SYN | ACK, ACK | PSH]));
        t.options = random_options(r);
        if r.chance(1, 3) { t.payload = r.bytes(20); }
        let f = ether4(&Ip4::new([10, 7, r.below(250) as u8, 1], [10, 7, 0, 2]), &t);
        out.push(format!("E {} {}", r.pick(&["u", "t", "l", "h"]), hex(&f)));
    }
    // worker pools: dispatch (hash + queue), worker (raw filter + analysis), then liveness by a probe connection
    for e in ["pt", "pl", "ph"] {
        for _ in 0..tier.scale(14, 140) {
            let d = match r.below(4) {
                0 => { let p = r.below(4) as usize; let f = r.below(pcaps()[p].len() as u64) as usize; let n = pcaps()[p][f].len(); format!("@{}.{}.t{}", p, f, r.below(n as u64)) }
                1 => { let p = r.below(4) as usize; let f = r.below(pcaps()[p].len() as u64) as usize; let n = pcaps()[p][f].len(); format!("@{}.{}.b{}", p, f, r.below(n as u64 * 8)) }
                2 => { let v: &Vec<u8> = r.pick(&fr[..]); hex_or_dash(v) }
                _ => { let mut t = Tcp::new(1234, 80, SYN); t.options = random_options(r); hex(&ether4(&Ip4::new([10, 7, 7, 7], [10, 7, 0, 2]), &t)) }
            };
            out.push(format!("E {} {}", e, d));
        }
    }
}

// ------------------------------------------------------------------ byte-stream / text entry points
fn http1_samples(r: &mut Rng) -> Vec<Vec<u8>> {
    let mut v: Vec<Vec<u8>> = Vec::new();
    let base = b"GET /index.html?x=1 HTTP/1.1\r\nHost: example.org\r\nUser-Agent: curl/7.68.0\r\nAccept: */*\r\nAccept-Language: en-US,en;q=0.8,de;q=0.3\r\nCookie: a=1; b=2\r\nReferer: http://a/\r\n\r\n".to_vec();
    let resp = b"HTTP/1.1 200 OK\r\nServer: nginx/1.18.0\r\nContent-Type: text/html\r\nContent-Length: 5\r\n\r\nhello".to_vec();
    for b in [&base, &resp] {
        for i in 0..=b.len() { v.push(b[..i].to_vec()); }
        for _ in 0..40 { let mut x = b.clone(); let i = r.below(x.len() as u64) as usize; x[i] = *r.pick(&[0u8, 0xff, 0x80, b'\r', b'\n', b':', b' ', b';', b'=', b',']); v.push(x); }
    }
    let mut many = b"GET / HTTP/1.1\r\n".to_vec(); for i in 0..130 { many.extend(format!("X-H{}: v\r\n", i).bytes()); } many.extend(b"\r\n"); v.push(many);
    let mut long = b"GET /".to_vec(); long.extend(vec![b'a'; 9000]); long.extend(b" HTTP/1.1\r\nHost: a\r\n\r\n"); v.push(long);
    let mut longh = b"GET / HTTP/1.1\r\nHost: ".to_vec(); longh.extend(vec![b'b'; 9000]); longh.extend(b"\r\n\r\n"); v.push(longh);
    for q in ["q=", "q=1.", "q=abc", "q=1e400", "q=-1", "q=nan", "q=inf", ";;;", "en;q=0.5;q=0.7", ",,,", "*"] {
        v.push(format!("GET / HTTP/1.1\r\nHost: a\r\nAccept-Language: en-US;{},fr\r\n\r\n", q).into_bytes());
    }
    for m in ["GET", "POST", "", " ", "G\u{e9}T", "PRI"] { for ver in ["HTTP/1.1", "HTTP/1.0", "HTTP/2.0", "HTTP/9.9", "", "HTTP/1.", "http/1.1"] {
        v.push(format!("{} / {}\r\nHost: a\r\n\r\n", m, ver).into_bytes());
        v.push(format!("{} 200 OK\r\nServer: a\r\n\r\n", ver).into_bytes());
    } }
    for st in ["", "0", "99", "1000", "65536", "4294967296", "-1", "2 0", "abc"] { v.push(format!("HTTP/1.1 {} OK\r\nServer: a\r\n\r\n", st).into_bytes()); }
    for _ in 0..60 { let n = r.below(60) as usize; v.push(r.bytes(n)); }
    v
}
fn h2_samples(r: &mut Rng, big: bool) -> Vec<Vec<u8>> {
    let mut v: Vec<Vec<u8>> = Vec::new();
    for variant in 0..4 {
        let b = h2_request(variant);
        for i in 0..=b.len() { v.push(b[..i].to_vec()); }
        for _ in 0..80 { let mut x = b.clone(); let i = r.below(x.len() as u64) as usize; x[i] ^= 1 << r.below(8); v.push(x); }
        for bit in 24 * 8..(24 + 9 + 6 + 9) * 8 { let mut x = b.clone(); x[bit / 8] ^= 0x80 >> (bit % 8); v.push(x); }
    }
    let pre = b"PRI * HTTP/2.0\r\n\r\nSM\r\n\r\n".to_vec();
    // HEADERS frames with padding / priority flags and lying pad lengths, CONTINUATION, server side
    for flags in [0x04u8, 0x05, 0x0c, 0x0d, 0x24, 0x25, 0x2c, 0x2d, 0x00, 0x01] { for pad in [0u8, 1, 5, 200, 255] { for plen in [0usize, 1, 4, 5, 6, 9] {
        let mut p = vec![pad]; p.extend(r.bytes(plen)); p.extend([0x82, 0x86, 0x84, 0x41, 0x01, b'a']);
        let mut b = pre.clone(); b.extend(h2f(4, 0, 0, &[], None)); b.extend(h2f(1, flags, 1, &p, None));
        if flags & 4 == 0 { b.extend(h2f(9, 4, 1, &[0x82], None)); }
        v.push(b.clone()); v.push(b[24..].to_vec());
    } } }
    for decl in [0u32, 9, 16383, 16384, 16385, 0xffffff] {
        let have = if big { decl as usize } else { (decl as usize).min(40) };
        if have > 70000 { continue; }
        let mut b = pre.clone(); b.extend(h2f(4, 0, 0, &[0, 3, 0, 0, 0, 100], None)); b.extend(h2f(1, 5, 1, &vec![0x82u8; have], Some(decl)));
        v.push(b);
    }
    // HPACK corner cases: size updates, out-of-range indices, huge integers, bad Huffman, truncated strings
    for blk in [vec![0x20u8], vec![0x3f, 0xe1, 0x1f], vec![0x3f, 0xff, 0xff, 0xff, 0xff, 0x0f], vec![0xff, 0xff, 0xff, 0xff, 0xff, 0xff, 0xff, 0xff, 0xff, 0xff, 0x7f],
                vec![0x80], vec![0xbe], vec![0xfe], vec![0x40, 0x85, 0xff, 0xff, 0xff, 0xff, 0xff, 0x01, b'x'], vec![0x40, 0x7f, 0xff, 0xff, 0xff, 0x7f], vec![0x00, 0x05, b'a'],
                vec![0x40, 0x03, b'x', b'-', b'a', 0x81, 0xff], vec![0x82, 0x86, 0x84, 0x41, 0x8c, 0xf1, 0xe3, 0xc2, 0xe5, 0xf2, 0x3a, 0x6b, 0xa0, 0xab, 0x90, 0xf4, 0xff]] {
        let mut b = pre.clone(); b.extend(h2f(4, 0, 0, &[], None)); b.extend(h2f(1, 5, 1, &blk, None)); v.push(b.clone());
        let mut c = h2f(4, 0, 0, &[], None); c.extend(h2f(1, 4, 1, &[&[0x88u8][..], &blk[..]].concat(), None)); v.push(c);
    }
    for _ in 0..60 { let n = r.below(80) as usize; let mut b = pre.clone(); b.extend(r.bytes(n)); v.push(b); }
    v
}
fn db_samples(r: &mut Rng, n: usize) -> Vec<Vec<u8>> {
    let good: [&str; 22] = ["classes = win,unix,other", "[mtu]", "label = Ethernet or modem", "sig = 1500", "[tcp:request]", "label = s:unix:Linux:3.x",
        "sys = @unix", "sig = *:64:0:*:mss*10,6:mss,sok,ts,nop,ws:df,id+:0", "sig = 4:128:0:1460:8192,0:mss,nop,nop,sok:df,id+:0", "[tcp:response]", "label = g:win:Windows:7",
        "sig = 4:64+0:0:*:65535,*:mss,nop,ws,sok,ts,eol+1::0", "[http:request]", "ua_os = Linux,Windows=[Windows NT],Mac OS X", "label = s:!:Chrome:11 or newer",
        "sig = 1:Host,Connection=[keep-alive],User-Agent,Accept=[*/*],?Referer:Accept-Charset,Keep-Alive:Chrome/", "[http:response]", "label = s:!:Apache:2.x",
        "sig = 1:Date,Server,?Last-Modified,Content-Type:Connection,Keep-Alive:Apache", "; comment", "", "  "];
    let junk: [&str; 26] = ["sig = ", "sig", "=", "label = ", "label = s:unix", "label = x:y:z:w:v", "[", "]", "[]", "[tcp", "[tcp:]", "[:request]", "[mtu:request]", "classes", "classes = ",
        "ua_os", "ua_os = =[", "sig = 4:64:0:1460:mss*300,0:mss:df:0", "sig = 4:999:0:*:*,*:::0", "sig = *:64:0:*:*,*:?300,eol+300:df:0", "sig = 4:64:0:*:%0,0:mss::0", "sig = 65536",
        "sig = 1:Host=[", "sig = 9:::", "sig = 1:?:?:?", "\u{feff}[mtu]"];
    let mut v = Vec::new();
    for _ in 0..n {
        let mut t: Vec<u8> = Vec::new();
        let lines = 1 + r.below(14);
        for _ in 0..lines {
            let l: &str = if r.chance(3, 4) { *r.pick(&good[..]) } else { *r.pick(&junk[..]) };
            let mut lb = l.as_bytes().to_vec();
            match r.below(12) { 0 => { let i = r.below(lb.len() as u64 + 1) as usize; lb.insert(i, *r.pick(&[0xffu8, 0x80, 0, b'=', b':', b',', b'[', b']', b'+', b'*', b'%'])); } 1 => { let k = r.below(lb.len() as u64 + 1) as usize; lb.truncate(k); } _ => {} }
            t.extend(lb);
            t.extend(match r.below(8) { 0 => &b"\r\n"[..], 1 => &b"\r"[..], 2 => &b""[..], _ => &b"\n"[..] });
        }
        v.push(t);
    }
    v
}
fn gen_entry_streams(r: &mut Rng, tier: &Tier, out: &mut Vec<String>) {
    // TLS records
    let mut tls: Vec<Vec<u8>> = Vec::new();
    for _ in 0..tier.scale(3, 12) {
        let h = client_hello(r);
        for x in hello_lies(r, &h) { tls.push(x.clone()); let mut y = x; y.extend(vec![0u8; 64]); tls.push(y); }
        let step = if tier.thorough { 1 } else { 5 };
        for i in (0..=h.len()).step_by(step) { tls.push(h[..i].to_vec()); }
        for bit in (0..h.len() * 8).step_by(if tier.thorough { 1 } else { 13 }) { let mut x = h.clone(); x[bit / 8] ^= 0x80 >> (bit % 8); tls.push(x); }
        // lying inner lengths: session id, cipher list, compression, extensions, one extension
        for (off, w) in [(43usize, 1usize), (44, 2), (44 + 2 + 2 * 3, 1)] { for val in [0usize, 1, 3, 255, 0xffff] {
            let mut x = h.clone(); if w == 1 { x[off] = val as u8; } else { x[off] = (val >> 8) as u8; x[off + 1] = val as u8; } tls.push(x);
        } }
    }
    for rl in [16384usize, 16385, 16640, 16641] { let mut b = vec![0x16, 3, 1, (rl >> 8) as u8, rl as u8, 1, 0, (rl >> 8) as u8, (rl - 4) as u8]; b.extend(vec![0u8; rl - 4]); tls.push(b); }
    for _ in 0..tier.scale(200, 2000) { let n = r.below(60) as usize; let mut b = r.bytes(n); if n > 0 && r.chance(1, 2) { b[0] = 0x16; } tls.push(b); }
    for b in &tls { out.push(format!("E ch {}", hex_or_dash(b))); out.push(format!("E rd {}", hex_or_dash(b))); }
    // HTTP/2 and HTTP/1
    for b in h2_samples(r, tier.thorough) {
        let e: &[&str] = if tier.thorough { &["ak", "h2x", "fs", "q2", "s2", "q1", "s1"] } else { &["ak", "h2x", "q2", "q1"] };
        for x in e { out.push(format!("E {} {}", x, hex_or_dash(&b))); }
        if !tier.thorough { out.push(format!("E {} {}", r.pick(&["fs", "s2", "s1"]), hex_or_dash(&b))); }
    }
    for b in http1_samples(r) { for x in ["q1", "s1"] { out.push(format!("E {} {}", x, hex_or_dash(&b))); } }
    for b in db_samples(r, tier.scale(1500, 15000)) { out.push(format!("E db {}", hex_or_dash(&b))); }
    let bundled = std::fs::read("/repo/huginn-net-db/config/p0f.fp").unwrap_or_default();
    if !bundled.is_empty() {
        out.push(format!("E db {}", hex(&bundled)));
        for _ in 0..tier.scale(4, 40) { let mut x = bundled.clone(); let i = r.below(x.len() as u64) as usize; match r.below(3) { 0 => x.truncate(i), 1 => x[i] = 0xff, _ => { x[i] = b'\n'; } } out.push(format!("E db {}", hex_or_dash(&x))); }
    }
}

// ------------------------------------------------------------------ H
fn junk_frame(r: &mut Rng, lies: &[Vec<u8>]) -> String {
    match r.below(7) {
        0 | 1 => { let p = r.below(4) as usize; let f = r.below(pcaps()[p].len() as u64) as usize; let n = pcaps()[p][f].len(); format!("@{}.{}.t{}", p, f, r.below(n as u64)) }
        2 | 3 => { let p = r.below(4) as usize; let f = r.below(pcaps()[p].len() as u64) as usize; let n = pcaps()[p][f].len(); format!("@{}.{}.b{}", p, f, r.below(n as u64 * 8)) }
        4 => { let v: &Vec<u8> = r.pick(lies); hex_or_dash(v) }
        5 => { let n = r.below(90) as usize; hex_or_dash(&r.bytes(n)) }
        _ => {
            // a frame of some other generated connection (ids below 5000), possibly corrupted
            let (k, v6, id) = (r.below(4), r.chance(1, 3), r.below(4000));
            let fs = frames_of(r, k, v6, id);
            let mut f = r.pick(&fs[..]).clone();
            match r.below(3) { 0 => { let i = r.below(f.len() as u64) as usize; f[i] ^= 1 << r.below(8); } 1 => { let k = r.below(f.len() as u64) as usize; f.truncate(k); } _ => {} }
            hex_or_dash(&f)
        }
    }
}
fn gen_hist(r: &mut Rng, tier: &Tier, out: &mut Vec<String>) {
    let mut lies: Vec<Vec<u8>> = Vec::new();
    ihl_lies(r, &mut lies); ip6_lies(r, &mut lies);
    let mut n_id = 5000u64;
    for (e, count) in [("u", tier.scale(120, 1200)), ("t", tier.scale(120, 1200)), ("l", tier.scale(120, 1200)), ("h", tier.scale(120, 1200)), ("pt", tier.scale(8, 80)), ("pl", tier.scale(8, 80)), ("ph", tier.scale(8, 80))] {
        for _ in 0..count {
            let n = 1 + r.below(30) as usize;
            let junk: Vec<String> = (0..n).map(|_| junk_frame(r, &lies)).collect();
            let kind = match e { "t" | "pt" => 2, "l" | "pl" => 1, "h" | "ph" => *r.pick(&[0u64, 0, 3]), _ => r.below(4) };
            // a probe must make a fresh analyzer report something (cflow may cut a ClientHello below the 5-byte record header)
            let mut probe;
            loop {
                n_id += 1;
                let v6 = r.chance(1, 4);
                probe = frames_of(r, kind, v6, n_id);
                let k = match e { "t" | "pt" => Kind::Tcp, "l" | "pl" => Kind::Tls, "h" | "ph" => Kind::Http, _ => Kind::Unified };
                let mut a = Seq::new(k, db(), 1000);
                if guarded(true, std::panic::AssertUnwindSafe(|| probe.iter().enumerate().any(|(i, f)| !a.packet(f, CLOCK + 1000 + 50 * i as u64).is_empty()))) { break; }
            }
            out.push(format!("H {} {} | {}", e, junk.join(";"), join_hex(&probe)));
        }
    }
    // one HttpProcessors instance: junk byte streams, then a valid request / response
    let h2: Vec<Vec<u8>> = h2_samples(r, false);
    let h1: Vec<Vec<u8>> = http1_samples(r);
    for _ in 0..tier.scale(300, 3000) {
        let n = 1 + r.below(12) as usize;
        let junk: Vec<Vec<u8>> = (0..n).map(|_| if r.chance(2, 3) { r.pick(&h2).clone() } else { r.pick(&h1).clone() }).collect();
        if r.chance(2, 3) {
            let probe = if r.chance(2, 3) { h2_request(r.below(4)) } else { b"GET /p HTTP/1.1\r\nHost: probe.example\r\nUser-Agent: curl/7.68.0\r\nAccept: */*\r\n\r\n".to_vec() };
            out.push(format!("H hp {} | {}", join_hex(&junk), hex(&probe)));
        } else {
            out.push(format!("H hr {} | {}", join_hex(&junk), hex(b"HTTP/1.1 200 OK\r\nServer: nginx/1.18.0\r\nContent-Type: text/html\r\nContent-Length: 0\r\n\r\n")));
        }
    }
}

// ------------------------------------------------------------------ HPACK state poisoning histories
fn hp_insert(name: &[u8], val: &[u8]) -> Vec<u8> { [&[0x40u8, name.len() as u8][..], name, &[val.len() as u8][..], val].concat() }
/// header-block prefixes that change decoder state (table size, table contents) and decode fine
fn hp_mutations(r: &mut Rng) -> Vec<u8> {
    let mut v = Vec::new();
    match r.below(12) {
        0 | 1 | 2 => v.push(0x20),                                   // size update to 0
        3 => v.push(0x21),                                           // to 1
        4 => v.extend([0x3f, 0x01]),                                 // to 32
        5 => v.extend([0x3f, 0x0a]),                                 // to 41: no entry fits (32 + name + value)
        6 => v.extend([0x3f, 0x0b + r.below(20) as u8]),             // just enough for one small entry
        7 => { v.push(0x20); v.extend([0x3f, 0xe1, 0x1f]); }         // to 0 then back to 4096
        8 => { for i in 0..1 + r.below(4) { v.extend(hp_insert(format!("x-j{}", i).as_bytes(), b"junk")); } }
        9 => { v.extend(hp_insert(b"x-a", b"1")); v.push(0x20); }
        10 => { v.push(0x20); v.extend(hp_insert(b"x-a", b"1")); }
        _ => {}
    }
    v
}
/// suffixes on which the HPACK decoder fails
fn hp_failures(r: &mut Rng) -> Vec<u8> {
    match r.below(16) {
        0 => vec![0x7f],                                             // truncated integer (literal, name index)
        1 => vec![0xff],                                             // truncated integer (indexed)
        2 => vec![0x3f],                                             // truncated size update
        3 => { let mut v = vec![0x40, 0x0a]; v.extend(b"custom-key"); v.push(0x0d); v.extend(b"custom-val"); v } // truncated value
        4 => vec![0x00, 0x05, b'a'],                                 // truncated name
        5 => vec![0x40, 0x03, b'x', b'-', b'a', 0x81, 0xff],         // Huffman: 8 bits of padding
        6 => vec![0x40, 0x03, b'x', b'-', b'a', 0x84, 0xff, 0xff, 0xff, 0xff], // Huffman: EOS in the string
        7 => vec![0x40, 0x03, b'x', b'-', b'a', 0x81, 0x00],         // Huffman: padding not all ones
        8 => vec![0xbe],                                             // index 62 with an empty table
        9 => vec![0xfe],                                             // index 126
        10 => vec![0x80],                                            // index 0
        11 => vec![0xff, 0xff, 0xff, 0xff, 0xff, 0xff, 0xff, 0xff, 0xff, 0xff, 0x7f], // oversize integer
        12 => vec![0x40, 0x7f, 0xff, 0xff, 0xff, 0x7f],              // oversize string length
        13 => vec![0x7e, 0x01],                                      // literal with name index 62 (out of range), value cut
        14 => vec![0x0f, 0xff, 0x01, 0x01, b'a'],                    // literal without indexing, name index out of range
        _ => vec![0x1f],                                             // truncated integer (never indexed)
    }
}
/// a request / response that changes HPACK decoder state and then fails to decode (or fails at frame level after a good block)
fn h2_poison(r: &mut Rng, response: bool) -> Vec<u8> {
    let mut block = hp_mutations(r);
    if r.chance(2, 3) { if response { block.push(0x88); } else { block.extend([0x82, 0x86, 0x84]); } }
    if r.chance(1, 3) { block.extend(hp_mutations(r)); }
    let mut b: Vec<u8> = if response { Vec::new() } else { b"PRI * HTTP/2.0\r\n\r\nSM\r\n\r\n".to_vec() };
    if r.chance(3, 4) { b.extend(h2f(4, 0, 0, if r.chance(1, 2) { &[] } else { &[0, 3, 0, 0, 0, 100] }, None)); }
    let sid = if response { 1 } else { 1 + 2 * r.below(3) as u32 };
    match r.below(8) {
        0 => { // the block decodes; a second HEADERS frame on the stream fails at frame level (PADDED without pad length)
            b.extend(h2f(1, 0x4, sid, &block, None)); b.extend(h2f(1, 0x0d, sid, &[], None)); }
        1 => { // the block decodes; trailers with a pad length larger than the frame
            b.extend(h2f(1, 0x4, sid, &block, None)); b.extend(h2f(1, 0x0d, sid, &[200, 0x82], None)); }
        2 => { // split over HEADERS + CONTINUATION
            block.extend(hp_failures(r)); let k = r.below(block.len() as u64 + 1) as usize;
            b.extend(h2f(1, 0x1, sid, &block[..k], None)); b.extend(h2f(9, 0x4, sid, &block[k..], None)); }
        3 => { // priority fields in front of the block
            block.extend(hp_failures(r)); let mut p = vec![0, 0, 0, 0, 16]; p.extend(&block); b.extend(h2f(1, 0x25, sid, &p, None)); }
        _ => { block.extend(hp_failures(r)); b.extend(h2f(1, 0x5, sid, &block, None)); }
    }
    b
}
/// well-formed messages that depend on a clean decoder: they insert entries and refer back to them
fn h2_probe(r: &mut Rng, response: bool) -> Vec<u8> {
    let mut block: Vec<u8> = Vec::new();
    if response { block.push(0x88); block.extend([0x76, 0x05]); block.extend(b"nginx"); }
    else { block.extend([0x82, 0x87, 0x84, 0x41, 0x0b]); block.extend(b"example.com"); }
    match r.below(4) {
        0 => { block.extend(hp_insert(b"x-foo", b"bar")); block.push(0xbe); }
        1 => { block.extend(hp_insert(b"x-foo", b"bar")); block.extend(hp_insert(b"x-baz", b"qux")); block.extend([0xbe, 0xbf]); }
        2 => { block.extend(hp_insert(b"x-big", &vec![b'v'; 100])); block.push(0xbe); }
        _ => { block.extend(hp_insert(b"x-foo", b"bar")); block.extend([0x7e, 0x03]); block.extend(b"two"); block.push(0xbe); } // name taken from index 62
    }
    let mut b: Vec<u8> = if response { Vec::new() } else { b"PRI * HTTP/2.0\r\n\r\nSM\r\n\r\n".to_vec() };
    b.extend(h2f(4, 0, 0, &[0, 3, 0, 0, 0, 100], None));
    b.extend(h2f(1, 0x5, 1, &block, None));
    b
}
/// one TCP connection carrying the given client and server bytes (addresses 10.2.x.y <-> 93.184.217.z derived from id)
pub fn conn_frames(r: &mut Rng, id: u64, v6: bool, sport: u16, client: &[u8], server: &[u8]) -> Vec<Vec<u8>> {
    let cport = 30000 + (id % 20000) as u16;
    let c4 = [10, 2, (id / 200 % 250) as u8, 1 + (id % 200) as u8]; let s4 = [93, 184, 217, 1 + (id % 200) as u8];
    let mut c6 = [0u8; 16]; c6[0] = 0x20; c6[1] = 2; c6[13] = (id / 50000) as u8; c6[14] = (id / 200 % 250) as u8; c6[15] = 1 + (id % 200) as u8;
    let mut s6 = [0u8; 16]; s6[0] = 0x20; s6[1] = 2; s6[7] = 7; s6[15] = 3;
    let isn_c = 1000 + r.below(1 << 30) as u32; let isn_s = 1000 + r.below(1 << 30) as u32;
    let mk = |from_client: bool, t: Tcp| -> Vec<u8> {
        if v6 { let ip = if from_client { Ip6::new(c6, s6) } else { Ip6::new(s6, c6) }; ether6(&ip, &t) }
        else { let ip = if from_client { Ip4::new(c4, s4) } else { Ip4::new(s4, c4) }; ether4(&ip, &t) }
    };
    let mut out = Vec::new();
    let mut syn = Tcp::new(cport, sport, SYN); syn.seq = isn_c; syn.options = [opt_mss(1460), opt_sackok(), opt_ts(1000, 0), opt_nop(), opt_ws(7)].concat();
    out.push(mk(true, syn));
    let mut sa = Tcp::new(sport, cport, SYN | ACK); sa.seq = isn_s; sa.ack = isn_c.wrapping_add(1); sa.options = [opt_mss(1460), opt_sackok(), opt_ts(5000, 1000), opt_nop(), opt_ws(7)].concat();
    out.push(mk(false, sa));
    let mut ack = Tcp::new(cport, sport, ACK); ack.seq = isn_c.wrapping_add(1); ack.ack = isn_s.wrapping_add(1);
    out.push(mk(true, ack));
    for (from_client, bytes) in [(true, client), (false, server)] {
        if bytes.is_empty() { continue; }
        let mut cuts = vec![0usize, bytes.len()];
        // a cut, never inside the first 5 bytes (the TLS analyzer needs the record header in the first segment)
        if bytes.len() > 12 && r.chance(1, 3) { cuts.push(5 + r.below(bytes.len() as u64 - 5) as usize); }
        cuts.sort(); cuts.dedup();
        for w in cuts.windows(2) {
            let (sp, dp, seq, ackn) = if from_client { (cport, sport, isn_c, isn_s) } else { (sport, cport, isn_s, isn_c) };
            let mut d = Tcp::new(sp, dp, PSH | ACK); d.seq = seq.wrapping_add(1 + w[0] as u32); d.ack = ackn.wrapping_add(1); d.payload = bytes[w[0]..w[1]].to_vec();
            out.push(mk(from_client, d));
        }
    }
    let mut fin = Tcp::new(cport, sport, FIN | ACK); fin.seq = isn_c.wrapping_add(1 + client.len() as u32); fin.ack = isn_s.wrapping_add(1);
    out.push(mk(true, fin));
    out
}
fn gen_hist_state(r: &mut Rng, tier: &Tier, out: &mut Vec<String>) {
    let h1: Vec<Vec<u8>> = http1_samples(r);
    let h2: Vec<Vec<u8>> = h2_samples(r, false);
    // parser-level instances: Http2Parser (p2), Http2Processor (pc), HttpProcessors (hp); the item right before the probes is a
    // poison (a later successful parse would clean up after it), probes in both directions
    for e in ["p2", "pc", "hp"] {
        for i in 0..tier.scale(260, 2600) {
            let n = r.below(5) as usize;
            let mut junk: Vec<Vec<u8>> = (0..n).map(|_| match r.below(5) { 0 => r.pick(&h1[..]).clone(), 1 => r.pick(&h2[..]).clone(), 2 => { let d = r.chance(1, 2); h2_probe(r, d) } _ => { let d = r.chance(1, 3); h2_poison(r, d) } }).collect();
            junk.push(h2_poison(r, i % 3 == 2));
            let probes = match r.below(3) { 0 => vec![h2_probe(r, false)], 1 => vec![h2_probe(r, true)], _ => vec![h2_probe(r, false), h2_probe(r, true)] };
            out.push(format!("H {} {} | {}", e, join_hex(&junk), join_hex(&probes)));
        }
    }
    // packet level: connections carrying the poisons (request side, response side, or both), then a probe connection
    // with a request AND a response that need a clean decoder; also failed TLS / HTTP/1 connections in front of TLS / HTTP/1 probes
    let mut id = 100_000u64;
    for (e, count) in [("h", tier.scale(150, 1500)), ("u", tier.scale(90, 900)), ("ph", tier.scale(10, 100)), ("l", tier.scale(60, 600)), ("pl", tier.scale(4, 40))] {
        for _ in 0..count {
            let mut junk: Vec<Vec<u8>> = Vec::new();
            let nconn = 1 + r.below(3);
            let tls = e == "l" || e == "pl";
            for k in 0..nconn {
                id += 1;
                let last = k + 1 == nconn;
                let (sport, c, s): (u16, Vec<u8>, Vec<u8>) = if tls {
                    let h = client_hello(r); let lies = hello_lies(r, &h); (443, r.pick(&lies[..]).clone(), Vec::new())
                } else if last || r.chance(2, 3) {
                    match r.below(3) { 0 => (80, h2_poison(r, false), Vec::new()), 1 => (80, h2_probe(r, false), h2_poison(r, true)), _ => (80, h2_poison(r, false), h2_poison(r, true)) }
                } else { (80, r.pick(&h1[..]).clone(), r.pick(&h1[..]).clone()) };
                let v6 = r.chance(1, 5);
                junk.extend(conn_frames(r, id, v6, sport, &c, &s));
                if r.chance(1, 4) { let n = r.below(60) as usize; junk.push(r.bytes(n)); }
            }
            id += 1;
            let v6 = r.chance(1, 5);
            let probe = if tls { let h = client_hello(r); conn_frames(r, id, v6, 443, &h, &[]) }
                        else if r.chance(5, 6) { let (q, s) = (h2_probe(r, false), h2_probe(r, true)); conn_frames(r, id, v6, 80, &q, &s) }
                        else { conn_frames(r, id, v6, 80, b"GET /p HTTP/1.1\r\nHost: probe.example\r\nUser-Agent: curl/7.68.0\r\nAccept: */*\r\n\r\n", b"HTTP/1.1 200 OK\r\nServer: nginx/1.18.0\r\nContent-Length: 0\r\n\r\n") };
            out.push(format!("H {} {} | {}", e, join_hex(&junk), join_hex(&probe)));
        }
    }
}

// ------------------------------------------------------------------ TLS poisoning histories on ONE 4-tuple
/// offsets of the length / type fields of a ClientHello record (record header excluded: its length stays consistent)
fn hello_length_fields(h: &[u8]) -> Vec<usize> {
    let mut v = vec![5usize, 6, 7, 8, 43];                      // handshake type, 24-bit length, session-id length
    let sid = h[43] as usize;
    let mut p = 44 + sid;                                          // cipher-suites length
    if p + 2 > h.len() { return v; }
    v.extend([p, p + 1]);
    p += 2 + (((h[p] as usize) << 8) | h[p + 1] as usize);
    if p >= h.len() { return v; }
    v.push(p);                                                     // compression methods length
    p += 1 + h[p] as usize;
    if p + 2 > h.len() { return v; }
    v.extend([p, p + 1]);                                          // extensions length
    p += 2;
    while p + 4 <= h.len() {                                       // each extension: its length and the first inner length bytes
        v.extend([p + 2, p + 3]);
        let l = ((h[p + 2] as usize) << 8) | h[p + 3] as usize;
        if l > 0 && p + 4 < h.len() { v.push(p + 4); if l > 1 && p + 5 < h.len() { v.push(p + 5); } }
        p += 4 + l;
    }
    v.retain(|&i| i < h.len());
    v
}
/// a complete record (header intact, length consistent) whose body is damaged, mostly in a length field
fn damaged_hello(r: &mut Rng, h: &[u8]) -> Vec<u8> {
    let mut x = h.to_vec();
    let fields = hello_length_fields(h);
    let n = if r.chance(1, 5) { 2 } else { 1 };
    for _ in 0..n {
        let i = if r.chance(5, 6) { *r.pick(&fields[..]) } else { 5 + r.below(x.len() as u64 - 5) as usize };
        match r.below(8) { 0 => x[i] ^= 0x01, 1 => x[i] ^= 0x80, 2 => x[i] ^= 0xff, 3 => x[i] = 0, 4 => x[i] = 0xff, 5 => x[i] = x[i].wrapping_add(1), 6 => x[i] = x[i].wrapping_sub(1), _ => x[i] ^= 1 << r.below(8) }
    }
    x
}
/// T line: the parser-outcome letters are recorded by running real readers under the documented flow discipline
/// (reader created when the gate accepts, dropped on a signature and on an error)
fn t_case(kind: &str, segs: &[(u64, Vec<u8>)]) -> String {
    use huginn_net_tls::tls_client_hello_reader::TlsClientHelloReader;
    let mut flows: std::collections::HashMap<u64, TlsClientHelloReader> = std::collections::HashMap::new();
    let mut toks = vec![kind.to_string()];
    for (f, p) in segs {
        let mut o = 'n';
        if !p.is_empty() && (flows.contains_key(f) || guarded(false, || huginn_net_tls::tls_process::is_tls_traffic(p))) {
            let rd = flows.entry(*f).or_insert_with(TlsClientHelloReader::new);
            match guarded(Err(()), std::panic::AssertUnwindSafe(|| rd.add_bytes(p).map_err(|_| ()))) { Ok(Some(_)) => { o = 's'; flows.remove(f); } Ok(None) => {} Err(_) => { o = 'e'; flows.remove(f); } }
        }
        toks.push(format!("{}:{}:{}", f, hex_or_dash(p), o));
    }
    toks.join(" ")
}
fn split2(r: &mut Rng, b: &[u8]) -> Vec<Vec<u8>> { if b.len() > 12 && r.chance(1, 3) { let k = 5 + r.below(b.len() as u64 - 5) as usize; vec![b[..k].to_vec(), b[k..].to_vec()] } else { vec![b.to_vec()] } }
fn gen_tls_flow(r: &mut Rng, tier: &Tier, out: &mut Vec<String>) {
    let tls12: Vec<u8> = { let f = &pcaps()[3][0]; let ip = 14; let ihl = (f[ip] & 15) as usize * 4; let doff = (f[ip + ihl + 12] >> 4) as usize * 4; f[ip + ihl + doff..].to_vec() };
    let mut fid = 0u64;
    let build = |r: &mut Rng, fid: &mut u64| -> (Vec<(u64, Vec<u8>)>, Vec<u8>, u64, u64) {
        let h = if r.chance(1, 6) { tls12.clone() } else { client_hello(r) };
        *fid += 2; let (f, g) = (*fid, *fid + 1);
        let mut segs: Vec<(u64, Vec<u8>)> = Vec::new();
        if r.chance(1, 4) { let h0 = client_hello(r); segs.push((g + 1000, h0)); }                 // an unrelated flow first
        let nd = 1 + r.below(3);
        for k in 0..nd {                                                                            // 1..3 damaged records on F
            let mut d = damaged_hello(r, &h);
            // mostly end on a record the real parser rejects (complete, header intact, Err): the case the flow must survive
            if k + 1 == nd && r.chance(2, 3) { for _ in 0..30 { if guarded(true, || huginn_net_tls::tls_process::parse_tls_client_hello(&d).is_err()) { break; } d = damaged_hello(r, &h); } }
            for c in split2(r, &d) { segs.push((f, c)); }
            if r.chance(1, 6) { let n = r.below(30) as usize; segs.push((g + 2000, r.bytes(n))); }
        }
        (segs, h, f, g)
    };
    // T: model of the flow table vs the real analyzer, per segment
    for i in 0..tier.scale(900, 9000) {
        let (mut segs, h, f, g) = build(r, &mut fid);
        for c in split2(r, &h) { segs.push((f, c)); }                                               // the valid hello on the SAME 4-tuple
        let h2 = client_hello(r); segs.push((g, h2));                                               // and one on another flow
        if r.chance(1, 4) { segs.push((f, h.clone())); }                                            // the same 4-tuple once more
        out.push(t_case(if i % 30 == 0 { "TP" } else { "T" }, &segs));
    }
    // H: the same histories against a fresh instance, sequential TLS analyzer, unified analyzer, one-worker TLS pool
    for (e, count) in [("l", tier.scale(200, 2000)), ("u", tier.scale(40, 400)), ("pl1", tier.scale(24, 240))] {
        for _ in 0..count {
            let (segs, h, f, g) = build(r, &mut fid);
            let junk: Vec<Vec<u8>> = segs.iter().map(|(fl, p)| tls_seg_frame(*fl, p)).collect();
            let mut probe: Vec<Vec<u8>> = split2(r, &h).iter().map(|c| tls_seg_frame(f, c)).collect();
            let h2 = client_hello(r); probe.push(tls_seg_frame(g, &h2));
            out.push(format!("H {} {} | {}", e, join_hex(&junk), join_hex(&probe)));
        }
    }
}

// ------------------------------------------------------------------ non-handshake records in front of a ClientHello
/// a record of the given type whose declared length is `decl`, with `have` body bytes present
fn plain_record(r: &mut Rng, ty: u8, decl: usize, have: usize) -> Vec<u8> {
    let mut v = vec![ty, 3, *r.pick(&[1u8, 3]), (decl >> 8) as u8, decl as u8];
    v.extend(r.bytes(have));
    v
}
/// records of types 0x14 / 0x15 / 0x17 / garbage, declared lengths smaller than, equal to and larger than the hello's
fn prefix_records(r: &mut Rng, hello_len: usize) -> Vec<Vec<u8>> {
    let l = hello_len - 5;
    let mut v = Vec::new();
    for ty in [0x14u8, 0x15, 0x17, 0x00, 0xff, 0x18] {
        for decl in [0usize, 1, 2, 20, l - 1, l, l + 1, 2 * l, 16384, 65535] {
            let have = match r.below(3) { 0 => decl.min(400), 1 => r.below(40) as usize, _ => decl.min(30) };
            v.push(plain_record(r, ty, decl, have));
        }
    }
    v
}
/// complete handshake records that are not a ClientHello (the reader answers Ok(None) and the flow stays)
fn other_handshakes(r: &mut Rng) -> Vec<Vec<u8>> {
    let mut sh = vec![0x16, 3, 3, 0, 42, 2, 0, 0, 38, 3, 3]; sh.extend(r.bytes(32)); sh.extend([0, 0x13, 0x01, 0]);     // ServerHello, no extensions
    vec![vec![0x16, 3, 3, 0, 4, 0, 0, 0, 0],                  // HelloRequest
         vec![0x16, 3, 3, 0, 4, 14, 0, 0, 0],                 // ServerHelloDone
         sh]
}
fn gen_stale(r: &mut Rng, tier: &Tier, out: &mut Vec<String>) {
    let mut fid = 500_000u64;
    for round in 0..tier.scale(6, 40) {
        let h = client_hello(r);
        let pres = prefix_records(r, h.len());
        let others = other_handshakes(r);
        for (i, p) in pres.iter().enumerate() {
            // reader level: [non-handshake record] then the valid hello on the SAME reader, whole or in two chunks
            let mut chunks = vec![p.clone()];
            if r.chance(1, 4) { chunks.push(r.pick(&pres[..]).clone()); }
            chunks.extend(split2(r, &h));
            out.push(r_case(&chunks));
            if !tier.thorough && round > 1 && i % 3 != 0 { continue; }
            // flow level: a handshake record that is not a ClientHello opens the flow, then the non-handshake record, then the hello;
            // and the same hello on another flow
            fid += 2;
            let (f, g) = (fid, fid + 1);
            let mut segs: Vec<(u64, Vec<u8>)> = Vec::new();
            if r.chance(4, 5) { segs.push((f, r.pick(&others[..]).clone())); }
            segs.push((f, p.clone()));
            if r.chance(1, 5) { segs.push((f, r.pick(&pres[..]).clone())); }
            let cut = segs.len();
            for c in split2(r, &h) { segs.push((f, c)); }
            segs.push((g, h.clone()));
            out.push(t_case(if i % 20 == 0 { "TP" } else { "T" }, &segs));
            if i % 6 == 0 {
                let e = if i % 12 == 0 { "l" } else { "pl1" };
                // junk = everything before the ClientHello on F
                let junk: Vec<Vec<u8>> = segs[..cut].iter().map(|(fl, p)| tls_seg_frame(*fl, p)).collect();
                let probe: Vec<Vec<u8>> = segs[cut..].iter().map(|(fl, p)| tls_seg_frame(*fl, p)).collect();
                if !junk.is_empty() && (e == "l" || i % 60 == 6) { out.push(format!("H {} {} | {}", e, join_hex(&junk), join_hex(&probe))); }
            }
        }
    }
}

// ------------------------------------------------------------------ HTTP/1 line-structure grammar (direct entry points)
fn j_case(kind: &str, d: &[u8]) -> String {
    // verdict of the real parser, recorded for the model (which decides N itself and E for an empty first line)
    let (a, _) = guarded(('E', None), || http1_direct(kind == "q", d));
    format!("J {} {} {}", kind, hex_or_dash(d), match a { 'S' => 's', 'N' => 'n', _ => 'e' })
}
fn gen_http1_lines(r: &mut Rng, tier: &Tier, out: &mut Vec<String>) {
    let eols: [&[u8]; 3] = [b"\r\n", b"\n", b"\r"];
    // every sequence of 0..3 leading empty lines over {CRLF, LF, CR}
    let mut leads: Vec<Vec<u8>> = vec![vec![]];
    let mut level: Vec<Vec<u8>> = vec![vec![]];
    for _ in 0..3 { let mut next = Vec::new(); for l in &level { for e in eols { let mut x = l.clone(); x.extend_from_slice(e); next.push(x); } } leads.extend(next.iter().cloned()); level = next; }
    let starts_q: [&[u8]; 9] = [b"GET / HTTP/1.1", b"POST /a?b=c HTTP/1.0", b"", b" ", b"GET /", b"GET / HTTP/9.9", b"FOO / HTTP/1.1", b"GET  /  HTTP/1.1", b"HTTP/1.1 200 OK"];
    let starts_s: [&[u8]; 9] = [b"HTTP/1.1 200 OK", b"HTTP/1.0 404 Not Found", b"", b" ", b"HTTP/1.1", b"HTTP/1.1 abc", b"HTTP/2.0 200", b"HTTP/1.1 200", b"GET / HTTP/1.1"];
    let hdrs: [&[u8]; 10] = [b"Host: a", b"X: y", b"", b"NoColon", b": v", b" folded", b"A:", b"Server: nginx", b"Content-Length: 0", b"Cookie: a=1; b"];
    // exhaustive: lead x start line x line terminator x (0..2 header lines incl. an empty one in an odd place) x terminating blank line or not
    for (kind, starts) in [("q", &starts_q), ("s", &starts_s)] {
        for lead in &leads { for st in starts.iter() { for eol in eols { for hv in 0..4 { for term in [true, false] {
            let mut d = lead.clone();
            d.extend_from_slice(st); d.extend_from_slice(eol);
            let hs: Vec<&[u8]> = match hv { 0 => vec![], 1 => vec![hdrs[0]], 2 => vec![hdrs[0], hdrs[2], hdrs[1]], _ => vec![hdrs[3], hdrs[1]] };
            for h in hs { d.extend_from_slice(h); d.extend_from_slice(eol); }
            if term { d.extend_from_slice(eol); }
            if tier.thorough || lead.len() <= 4 || r.chance(1, 3) { out.push(j_case(kind, &d)); }
            if r.chance(1, 12) { out.push(format!("E d1 {}", hex_or_dash(&d))); out.push(format!("E {} {}", if kind == "q" { "q1" } else { "s1" }, hex_or_dash(&d))); }
        } } } } }
    }
    // random sentences of the grammar: mixed terminators per line, empty lines anywhere, optional body, the same prefixed to valid messages
    let valid_q = b"GET /index.html HTTP/1.1\r\nHost: example.org\r\nUser-Agent: curl/7.68.0\r\nAccept: */*\r\n\r\n".to_vec();
    let valid_s = b"HTTP/1.1 200 OK\r\nServer: nginx/1.18.0\r\nContent-Length: 5\r\n\r\nhello".to_vec();
    for _ in 0..tier.scale(3000, 30000) {
        let kind = if r.chance(1, 2) { "q" } else { "s" };
        let mut d: Vec<u8> = Vec::new();
        for _ in 0..r.below(4) { d.extend_from_slice(*r.pick(&eols)); }
        if r.chance(1, 3) { d.extend_from_slice(if kind == "q" { &valid_q } else { &valid_s }); }
        else {
            let st: &[u8] = if kind == "q" { *r.pick(&starts_q) } else { *r.pick(&starts_s) };
            if r.chance(5, 6) { d.extend_from_slice(st); d.extend_from_slice(*r.pick(&eols)); }
            for _ in 0..r.below(5) { d.extend_from_slice(*r.pick(&hdrs)); d.extend_from_slice(*r.pick(&eols)); }
            if r.chance(2, 3) { d.extend_from_slice(*r.pick(&eols)); }
            if r.chance(1, 4) { d.extend_from_slice(b"body\n\nmore"); }
        }
        if r.chance(1, 10) { let k = r.below(d.len() as u64 + 1) as usize; d.truncate(k); }
        out.push(j_case(kind, &d));
        if r.chance(1, 6) { let mut x = d.clone(); if !x.is_empty() { let i = r.below(x.len() as u64) as usize; x[i] = *r.pick(&[0xffu8, 0x80, 0xc3, 0]); } out.push(format!("E d1 {}", hex_or_dash(&x))); }
    }
    for b in http1_samples(r) { out.push(format!("E d1 {}", hex_or_dash(&b))); }
    // HTTP/2 direct entry points behind leading garbage
    for variant in 0..5 { let v = h2_request(variant); for lead in leads.iter().take(13) { for junk in [&b""[..], &b"\0"[..], &b"PRI"[..], &b"PRI * HTTP/2.0\r\n"[..]] {
        let mut d = lead.clone(); d.extend_from_slice(junk); d.extend_from_slice(&v);
        out.push(format!("E d2 {}", hex(&d)));
        let mut e = lead.clone(); e.extend_from_slice(junk); e.extend_from_slice(&v[24..]);
        out.push(format!("E d2 {}", hex(&e)));
    } } }
    for b in h2_samples(r, false).iter().take(tier.scale(400, 4000)) { out.push(format!("E d2 {}", hex_or_dash(b))); }
}

// ------------------------------------------------------------------ inputs at the 64 KiB bounds
fn gen_big(r: &mut Rng, tier: &Tier, out: &mut Vec<String>) {
    let mut streams: Vec<Vec<u8>> = Vec::new();
    let mut hdrs = b"GET / HTTP/1.1\r\nHost: a\r\n".to_vec(); while hdrs.len() < 65000 { hdrs.extend(format!("X-{}: {}\r\n", hdrs.len(), r.below(1000)).bytes()); } hdrs.extend(b"\r\n");
    streams.push(hdrs);
    let mut h2 = b"PRI * HTTP/2.0\r\n\r\nSM\r\n\r\n".to_vec(); while h2.len() < 65000 { let n = r.below(40) as usize; let f = h2f(r.below(10) as u8, r.next() as u8, r.below(3) as u32, &r.bytes(n), None); h2.extend(f); }
    streams.push(h2.clone()); streams.push(h2[24..].to_vec());
    let mut settings = h2f(4, 0, 0, &r.bytes(16380), None); settings.extend(h2f(1, 5, 1, &[0x82, 0x86, 0x84], None)); streams.push(settings);
    let mut recs: Vec<u8> = Vec::new(); while recs.len() < 65000 { let n = r.below(300) as usize; recs.extend([0x16, 3, 3, (n >> 8) as u8, n as u8]); recs.extend(r.bytes(n)); }
    streams.push(recs);
    let h = client_hello(r); let mut padded = h.clone(); padded.extend(vec![0u8; 65535 - h.len()]); streams.push(padded);
    let mut one = vec![0x16, 3, 1, 0xff, 0xff, 1, 0, 0xff, 0xfb, 3, 3]; one.extend(r.bytes(65529)); streams.push(one);
    streams.push(r.bytes(65535));
    streams.push(vec![b'\n'; 65535]);
    streams.push(vec![0xffu8; 65535]);
    let n = if tier.thorough { streams.len() } else { 6 };
    for (i, b) in streams.iter().enumerate() {
        if i >= n && !r.chance(1, 3) { continue; }
        for e in ["q1", "s1", "q2", "s2", "ak", "h2x", "fs", "ch", "rd", "db"] { if tier.thorough || r.chance(1, 2) { out.push(format!("E {} {}", e, hex(b))); } }
        // the same bytes as the payload of one maximal IPv4 segment, to every per-packet path
        let mut t = Tcp::new(40001, *r.pick(&[80u16, 443]), ACK | PSH); t.payload = b[..b.len().min(65535 - 40)].to_vec();
        let ip = Ip4::new([10, 8, 8, 8], [10, 8, 8, 9]);
        let f = ether4(&ip, &t);
        for e in ["u", "t", "l", "h"] { if tier.thorough || r.chance(1, 2) { out.push(format!("E {} {}", e, hex(&f))); } }
        out.push(format!("X {}", hex(&f)));
    }
}

pub fn gen(r: &mut Rng, tier: &Tier, out: &mut Vec<String>) {
    gen_big(r, tier, out);
    gen_opts(r, tier, out);
    gen_win(r, tier, out);
    gen_p6(r, tier, out);
    gen_reader(r, tier, out);
    gen_h2(r, tier, out);
    gen_x(r, tier, out);
    gen_entry_frames(r, tier, out);
    gen_entry_streams(r, tier, out);
    gen_hist(r, tier, out);
    gen_hist_state(r, tier, out);
    gen_tls_flow(r, tier, out);
    gen_http1_lines(r, tier, out);
    gen_stale(r, tier, out);
}
