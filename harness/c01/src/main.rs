//! C01 harness: totality of every public analysis entry point (no panic, no hang, no poisoning).
//! Case grammar: see coq/Extract/EC01.v.  Every IMPL call runs in a helper thread under a watchdog:
//! PANIC when the thread dies, HANG when it has not finished after 2 s (confirmed by a further 8 s of
//! grace so that scheduler starvation is not reported as a hang).  `run` itself is a parent process that
//! feeds the cases to worker subprocesses, so that ABORT (stack overflow, allocation failure, abort) is
//! observed per case as well (see the end of this file).
//! Data tokens are hex ("-" = empty) or a reference into the bundled captures:
//!   @<pcap>.<frame>  |  @<pcap>.<frame>.t<len> (truncated to len bytes)  |  @<pcap>.<frame>.b<bit> (bit flipped)
mod gen;
use cflow::*;
use hnv_common::*;
use huginn_net_db::Database;
use std::collections::hash_map::DefaultHasher;
use std::hash::{Hash, Hasher};
use std::str::FromStr;
use std::sync::{mpsc, Arc, OnceLock};
use std::time::Duration;

pub const CLOCK: u64 = 1_700_000_000_000;
pub const PCAPS: [&str; 4] = ["/repo/pcap/http-simple-get.pcap", "/repo/pcap/macos_tcp_flags.pcap", "/repo/pcap/tls-alpn-h2.pcap", "/repo/pcap/tls12.pcap"];
pub const HASH_N: usize = 1_000_003;

pub fn db() -> &'static Arc<Database> {
    static D: OnceLock<Arc<Database>> = OnceLock::new();
    D.get_or_init(|| Arc::new(Database::load_default().expect("db")))
}
pub fn pcaps() -> &'static Vec<Vec<Vec<u8>>> {
    static P: OnceLock<Vec<Vec<Vec<u8>>>> = OnceLock::new();
    P.get_or_init(|| PCAPS.iter().map(|p| hnv_common::pkt::read_pcap(p)).collect())
}

pub fn data(tok: &str) -> Vec<u8> {
    if let Some(r) = tok.strip_prefix('@') {
        let parts: Vec<&str> = r.split('.').collect();
        let p: usize = parts[0].parse().unwrap();
        let f: usize = parts[1].parse().unwrap();
        let mut d = pcaps()[p][f].clone();
        if let Some(m) = parts.get(2) {
            let n: usize = m[1..].parse().unwrap();
            if m.starts_with('t') { d.truncate(n); } else { d[n / 8] ^= 0x80 >> (n % 8); }
        }
        d
    } else {
        unhex_or_dash(tok)
    }
}
fn data_list(tok: &str) -> Vec<Vec<u8>> { if tok == "-" { vec![] } else { tok.split(';').map(data).collect() } }

fn watchdog<F: FnOnce() -> String + Send + 'static>(f: F) -> String {
    let (tx, rx) = mpsc::channel();
    let h = std::thread::Builder::new().stack_size(16 << 20).spawn(move || { let r = f(); let _ = tx.send(r); });
    if h.is_err() { return "NOTHREAD".into(); }
    match rx.recv_timeout(Duration::from_secs(2)) {
        Ok(s) => s,
        Err(mpsc::RecvTimeoutError::Disconnected) => "PANIC".into(),
        Err(mpsc::RecvTimeoutError::Timeout) => match rx.recv_timeout(Duration::from_secs(8)) {
            Ok(s) => s,
            Err(mpsc::RecvTimeoutError::Disconnected) => "PANIC".into(),
            Err(mpsc::RecvTimeoutError::Timeout) => "HANG".into(),
        },
    }
}

// ---------------------------------------------------------------- O: option walk through process_tcp_ipv4
pub fn seg_v4(opts: &[u8], flags: u8, window: u16) -> Vec<u8> {
    let doff = 5 + (opts.len() + 3) / 4;
    let total = 40 + opts.len();
    let mut b = vec![0x45, 0, (total >> 8) as u8, total as u8, 0x12, 0x34, 0x40, 0, 64, 6, 0, 0, 10, 0, 0, 1, 10, 0, 0, 2];
    b.extend_from_slice(&40000u16.to_be_bytes());
    b.extend_from_slice(&80u16.to_be_bytes());
    b.extend_from_slice(&1000u32.to_be_bytes());
    b.extend_from_slice(&(if flags & 0x10 != 0 { 1u32 } else { 0 }).to_be_bytes());
    b.push((doff as u8) << 4);
    b.push(flags);
    b.extend_from_slice(&window.to_be_bytes());
    b.extend_from_slice(&[0, 0, 0, 0]);
    b.extend_from_slice(opts);
    b
}
fn list(v: Vec<String>) -> String { if v.is_empty() { "-".into() } else { v.join(",") } }
fn optn<T: std::fmt::Display>(o: Option<T>) -> String { o.map(|x| x.to_string()).unwrap_or_else(|| "-".into()) }
fn wsize_text(w: &huginn_net_db::tcp::WindowSize) -> String {
    use huginn_net_db::tcp::WindowSize::*;
    match w { Mss(n) => format!("mss*{}", n), Mtu(n) => format!("mtu*{}", n), Value(n) => format!("v{}", n), Mod(n) => format!("mod{}", n), Any => "any".into() }
}
fn run_o(opts: &[u8], flags: u8, window: u16) -> String {
    use huginn_net_db::tcp::{Quirk, TcpOption};
    let b = seg_v4(opts, flags, window);
    let pkt = pnet::packet::ipv4::Ipv4Packet::new(&b).expect("ipv4 view");
    let mut tr = ttl_cache::TtlCache::new(10);
    match huginn_net_tcp::tcp_process::process_tcp_ipv4(&pkt, &mut tr) {
        Err(_) => "ERR".into(),
        Ok(p) => {
            let mtu = p.mtu.as_ref().map(|m| m.value);
            let o = match p.tcp_request.or(p.tcp_response) { Some(o) => o.matching, None => return "RET nothing".into() };
            let lay: Vec<String> = o.olayout.iter().map(|x| match x {
                TcpOption::Eol(n) => format!("eol+{}", n), TcpOption::Nop => "nop".into(), TcpOption::Mss => "mss".into(), TcpOption::Ws => "ws".into(),
                TcpOption::Sok => "sok".into(), TcpOption::Sack => "sack".into(), TcpOption::TS => "ts".into(), TcpOption::Unknown(n) => format!("?{}", n),
            }).collect();
            let q: Vec<String> = o.quirks.iter().filter_map(|x| match x {
                Quirk::TrailinigNonZero => Some("opt+".to_string()), Quirk::ExcessiveWindowScaling => Some("exws".into()),
                Quirk::OwnTimestampZero => Some("ts1-".into()), Quirk::PeerTimestampNonZero => Some("ts2+".into()), _ => None,
            }).collect();
            format!("RET lay={} mss={} ws={} q={} win={} mtu={}", list(lay), optn(o.mss), optn(o.wscale), list(q), wsize_text(&o.wsize), optn(mtu))
        }
    }
}

// ---------------------------------------------------------------- R: ClientHello reader
fn run_r(chunks: &[&str]) -> String {
    let mut rd = huginn_net_tls::tls_client_hello_reader::TlsClientHelloReader::new();
    let mut out = vec!["RET".to_string()];
    for c in chunks {
        let bytes = data(c.split(':').next().unwrap());
        let k = match rd.add_bytes(&bytes) { Ok(Some(_)) => 'S', Ok(None) => 'N', Err(_) => 'E' };
        out.push(format!("{}:{}", k, rd.buffer_len()));
    }
    out.join(" ")
}

// ---------------------------------------------------------------- T: TCP segments through one TLS analyzer instance
/// PSH|ACK data segment of flow `f`: 10.3.x.y:(41000 + f % 20000) -> 93.184.218.1:443
pub fn tls_seg_frame(f: u64, payload: &[u8]) -> Vec<u8> {
    use hnv_common::pkt::*;
    let mut t = Tcp::new(41000 + (f % 20000) as u16, 443, ACK | PSH);
    t.seq = 5000; t.ack = 9000; t.payload = payload.to_vec();
    ether4(&Ip4::new([10, 3, (f / 200 % 250) as u8, 1 + (f % 200) as u8], [93, 184, 218, 1]), &t)
}
fn run_t(segs: &[&str], pool: bool) -> String {
    let frames: Vec<Vec<u8>> = segs.iter().map(|s| { let mut it = s.split(':'); let f: u64 = it.next().unwrap().parse().unwrap(); tls_seg_frame(f, &data(it.next().unwrap())) }).collect();
    let mut a = Seq::new(Kind::Tls, db(), 1000);
    let texts: Vec<String> = frames.iter().map(|f| a.packet(f, CLOCK)).collect();
    let mut out = vec!["RET".to_string()];
    for t in &texts { out.push(if t.is_empty() { "-".into() } else { "S".into() }); }
    let mut s = out.join(" ");
    if pool {
        match pool_texts("pl1", &frames) {
            Ok(mut got) => { let mut want: Vec<String> = texts.iter().filter(|t| !t.is_empty()).cloned().collect(); got.sort(); want.sort();
                             if got != want { s.push_str(&format!("\t!pool: the one-worker TLS pool reports {} results for these segments, the sequential analyzer {}", got.len(), want.len())); } }
            Err(e) => s.push_str(&format!("\t!pool: {}", e)),
        }
    }
    s
}

// ---------------------------------------------------------------- J: direct HTTP/1 byte-stream entry points
fn cls<T, E>(r: &Result<Option<T>, E>) -> char { match r { Ok(Some(_)) => 'S', Ok(None) => 'N', Err(_) => 'E' } }
/// Http1Parser, Http1Processor and parse_http1_* on the same bytes; they must agree on Some / None / Err
pub fn http1_direct(request: bool, d: &[u8]) -> (char, Option<String>) {
    use huginn_net_http::http_common::HttpProcessor;
    let parser = huginn_net_http::http1_parser::Http1Parser::new();
    let proc_ = huginn_net_http::Http1Processor::new();
    let (a, b, c) = if request {
        (cls(&parser.parse_request(d)), cls(&proc_.process_request(d)), cls(&huginn_net_http::http1_process::parse_http1_request(d, &parser)))
    } else {
        (cls(&parser.parse_response(d)), cls(&proc_.process_response(d)), cls(&huginn_net_http::http1_process::parse_http1_response(d, &parser)))
    };
    let _ = (proc_.can_process_request(d), proc_.can_process_response(d), proc_.has_complete_data(d));
    let msg = if a != b || a != c { Some(format!("the direct HTTP/1 entry points disagree: Http1Parser {} Http1Processor {} parse_http1_* {}", a, b, c)) } else { None };
    (a, msg)
}
fn run_j(kind: &str, d: &[u8]) -> String {
    let (a, msg) = http1_direct(kind == "q", d);
    let mut s = format!("RET {}", a);
    if let Some(m) = msg { s.push_str(&format!("\t!{}", m)); }
    s
}

// ---------------------------------------------------------------- F / S: HTTP/2 frame splitter and payload parsers
fn ftype_num(t: &huginn_net_http::Http2FrameType) -> u8 {
    use huginn_net_http::Http2FrameType::*;
    match t { Data => 0, Headers => 1, Priority => 2, RstStream => 3, Settings => 4, PushPromise => 5, Ping => 6, GoAway => 7, WindowUpdate => 8, Continuation => 9, Unknown(b) => *b }
}
fn setting_num(s: &huginn_net_http::SettingId) -> u16 {
    use huginn_net_http::SettingId::*;
    match s { HeaderTableSize => 1, EnablePush => 2, MaxConcurrentStreams => 3, InitialWindowSize => 4, MaxFrameSize => 5, MaxHeaderListSize => 6, NoRfc7540Priorities => 9, Unknown(n) => *n }
}
fn settings_text(p: &[u8]) -> String {
    let v: Vec<String> = huginn_net_http::akamai_extractor::parse_settings_payload(p).iter().map(|s| format!("{}:{}", setting_num(&s.id), s.value)).collect();
    if v.is_empty() { "-".into() } else { v.join("/") }
}
fn wu_text(p: &[u8]) -> String { optn(huginn_net_http::akamai_extractor::parse_window_update_payload(p)) }
fn prio_text(sid: u32, p: &[u8]) -> String {
    match huginn_net_http::akamai_extractor::parse_priority_payload(sid, p) { Some(x) => format!("{}:{}:{}", x.exclusive as u8, x.depends_on, x.weight), None => "-".into() }
}
fn run_f(d: &[u8]) -> String {
    let parser = huginn_net_http::Http2Parser::new();
    match parser.parse_frames_with_offset(d) {
        Err(_) => "ERR".into(),
        Ok((frames, n)) => {
            let mut out = vec![format!("RET n={}", n)];
            for f in &frames {
                let t = ftype_num(&f.frame_type);
                let extra = match t { 4 => format!("=s{}", settings_text(&f.payload)), 8 => format!("=w{}", wu_text(&f.payload)), 2 => format!("=p{}", prio_text(f.stream_id, &f.payload)), _ => String::new() };
                out.push(format!("{},{},{},{}{}", t, f.flags, f.stream_id, f.payload.len(), extra));
            }
            out.join(" ")
        }
    }
}
fn run_s(d: &[u8]) -> String { format!("RET s={} w={} p={}", settings_text(d), wu_text(d), prio_text(7, d)) }

// ---------------------------------------------------------------- X: raw filter tuple (recovered through the public
// `apply` by adaptive probing with port ranges / subnets) and the three dispatch hashes
macro_rules! raw_tuple {
    ($krate:ident, $d:expr) => {{
        use $krate::{FilterConfig, FilterMode, PortFilter, SubnetFilter};
        let d: &[u8] = $d;
        let none = FilterConfig::new().mode(FilterMode::Allow).with_port_filter(PortFilter::new().destination_range(0..0));
        if $krate::raw_filter::apply(d, &none) { "FAILOPEN".to_string() } else {
            let port = |dst: bool| -> u32 {
                let (mut lo, mut hi) = (0u32, 65536u32); // port in [lo, hi)
                while hi - lo > 1 {
                    let mid = (lo + hi) / 2;
                    // ranges are half-open u16 ranges: [lo, mid) is expressible because mid <= 65535 here
                    let pf = if dst { PortFilter::new().destination_range(lo as u16..mid as u16) } else { PortFilter::new().source_range(lo as u16..mid as u16) };
                    let cfg = FilterConfig::new().mode(FilterMode::Allow).with_port_filter(pf);
                    if $krate::raw_filter::apply(d, &cfg) { hi = mid; } else { lo = mid; }
                }
                lo
            };
            let v4cfg = FilterConfig::new().mode(FilterMode::Allow).with_subnet_filter(SubnetFilter::new().source_only().allow("0.0.0.0/0").unwrap());
            let v4 = $krate::raw_filter::apply(d, &v4cfg);
            let addr = |dst: bool| -> String {
                let bits = if v4 { 32 } else { 128 };
                let mut a = vec![0u8; bits / 8];
                for i in 0..bits {
                    // candidate: known prefix, bit i = 0
                    let cidr = if v4 { format!("{}/{}", std::net::Ipv4Addr::new(a[0], a[1], a[2], a[3]), i + 1) }
                               else { let mut x = [0u8; 16]; x.copy_from_slice(&a); format!("{}/{}", std::net::Ipv6Addr::from(x), i + 1) };
                    let sf = SubnetFilter::new().allow(&cidr).unwrap();
                    let sf = if dst { sf.destination_only() } else { sf.source_only() };
                    let cfg = FilterConfig::new().mode(FilterMode::Allow).with_subnet_filter(sf);
                    if !$krate::raw_filter::apply(d, &cfg) { a[i / 8] |= 0x80 >> (i % 8); }
                }
                hex(&a)
            };
            format!("{}>{}:{}:{}", addr(false), addr(true), port(false), port(true))
        }
    }};
}
fn run_x(d: &[u8]) -> String {
    let a = raw_tuple!(huginn_net_tcp, d);
    let b = raw_tuple!(huginn_net_tls, d);
    let c = raw_tuple!(huginn_net_http, d);
    let t = huginn_net_tcp::packet_hash::hash_source_ip(d);
    let l = huginn_net_tls::packet_hash::hash_flow(d, HASH_N);
    let h = huginn_net_http::packet_hash::hash_flow(d, HASH_N);
    let mut s = format!("RET f={} t={} l={} h={}", a, t, l.map(|x| x.to_string()).unwrap_or_else(|| "NONE".into()), h);
    if a != b || a != c { s.push_str(&format!("\t!raw_filter copies disagree: tcp={} tls={} http={}", a, b, c)); }
    s
}

// ---------------------------------------------------------------- L: link-layer step (four copies of packet_parser.rs)
macro_rules! link_text {
    ($krate:ident, $d:expr, $len:expr) => {{
        use $krate::packet_parser::{detect_datalink_format, parse_packet, DatalinkFormat, IpPacket};
        let d: &[u8] = $d;
        let p = match parse_packet(d) { IpPacket::Ipv4(x) => { let n: usize = $len(&x); format!("4@{}+{}", d.len() - n, n) } IpPacket::Ipv6(x) => { let n: usize = $len(&x); format!("6@{}+{}", d.len() - n, n) } IpPacket::None => "none".to_string() };
        let f = match detect_datalink_format(d) { Some(DatalinkFormat::Ethernet) => "eth", Some(DatalinkFormat::RawIp) => "raw", Some(DatalinkFormat::Null) => "null", None => "none" };
        format!("p={} d={}", p, f)
    }};
}
fn run_l(d: &[u8]) -> String {
    use pnet::packet::Packet;
    let a = link_text!(huginn_net_tcp, d, |x: &dyn Packet| x.packet().len());
    let b = link_text!(huginn_net_tls, d, |x: &dyn Packet| x.packet().len());
    let c = link_text!(huginn_net_http, d, |x: &dyn Packet| x.packet().len());
    let u = link_text!(huginn_net, d, |x: &&[u8]| x.len());
    let mut s = format!("RET {}", a);
    if a != b || a != c || a != u { s.push_str(&format!("\t!packet_parser copies disagree: tcp={} tls={} http={} unified={}", a, b, c, u)); }
    s
}

// ---------------------------------------------------------------- E: whole entry points (totality only)
macro_rules! pass_all_filter {
    ($krate:ident) => {{
        use $krate::{FilterConfig, FilterMode, SubnetFilter};
        FilterConfig::new().mode(FilterMode::Allow)
            .with_subnet_filter(SubnetFilter::new().allow("0.0.0.0/0").unwrap().allow("::/0").unwrap())
    }};
}
fn entry_call(entry: &str, d: &[u8]) -> String {
    match entry {
        "u" | "t" | "l" | "h" => { let mut a = Seq::new(Kind::from(entry), db(), 1000); let _ = a.packet(d, CLOCK); }
        "rf" => {
            let _ = huginn_net_tcp::raw_filter::apply(d, &pass_all_filter!(huginn_net_tcp));
            let _ = huginn_net_tls::raw_filter::apply(d, &pass_all_filter!(huginn_net_tls));
            let _ = huginn_net_http::raw_filter::apply(d, &pass_all_filter!(huginn_net_http));
        }
        "hs" => {
            let _ = huginn_net_tcp::packet_hash::hash_source_ip(d);
            for n in [0usize, 1, 7] { let _ = huginn_net_tls::packet_hash::hash_flow(d, n); let _ = huginn_net_http::packet_hash::hash_flow(d, n); }
        }
        "ch" => { let _ = huginn_net_tls::tls_process::parse_tls_client_hello(d); }
        "rd" => {
            let mut r = huginn_net_tls::tls_client_hello_reader::TlsClientHelloReader::new();
            let _ = r.add_bytes(d);
            let mut r2 = huginn_net_tls::tls_client_hello_reader::TlsClientHelloReader::new();
            let (a, b) = d.split_at(d.len() / 2);
            let _ = r2.add_bytes(a); let _ = r2.add_bytes(b); let _ = r2.add_bytes(d);
        }
        "ak" => { let _ = huginn_net_http::akamai_extractor::extract_akamai_fingerprint_from_bytes(d); }
        "h2x" => {
            let mut x = huginn_net_http::Http2FingerprintExtractor::new();
            let _ = x.add_bytes(d);
            let mut y = huginn_net_http::Http2FingerprintExtractor::new();
            let (a, b) = d.split_at(d.len() / 2);
            let _ = y.add_bytes(a); let _ = y.add_bytes(b); let _ = y.add_bytes(d);
        }
        "fs" => { let p = huginn_net_http::Http2Parser::new(); let _ = p.parse_frames_skip_preface(d); let _ = p.parse_frames(d); }
        "q2" => { let _ = huginn_net_http::Http2Parser::new().parse_request(d); }
        "s2" => { let _ = huginn_net_http::Http2Parser::new().parse_response(d); }
        "q1" => { let _ = huginn_net_http::http_process::HttpProcessors::new().parse_request(d); }
        "s1" => { let _ = huginn_net_http::http_process::HttpProcessors::new().parse_response(d); }
        "d1" => { let _ = http1_direct(true, d); let _ = http1_direct(false, d); }
        "d2" => {
            use huginn_net_http::http_common::HttpProcessor;
            let p = huginn_net_http::Http2Processor::new();
            let _ = (p.can_process_request(d), p.can_process_response(d), p.has_complete_data(d));
            let _ = p.process_request(d); let _ = p.process_response(d);
            let parser = huginn_net_http::Http2Parser::new();
            let _ = huginn_net_http::parse_http2_request(d, &parser);
            let _ = parser.parse_frames_skip_preface(d);
            let _ = huginn_net_http::http2_parser::is_http2_traffic(d);
        }
        "db" => { let _ = Database::from_str(&String::from_utf8_lossy(d)); }
        "pt" | "pl" | "ph" => { return history(entry, &[d.to_vec()], &gen::default_probe(entry)); }
        _ => return "BADENTRY".into(),
    }
    "RET".into()
}

// ---------------------------------------------------------------- H: history then probe on one instance
fn collect<T>(rx: &mpsc::Receiver<T>, queues_empty: &dyn Fn() -> bool, text: &dyn Fn(&T) -> String) -> Vec<String> {
    let mut out = Vec::new();
    let mut quiet = 0;
    let t0 = std::time::Instant::now();
    loop {
        match rx.recv_timeout(Duration::from_millis(30)) {
            Ok(x) => { let s = text(&x); if !s.is_empty() { out.push(s); } quiet = 0; }
            Err(_) => { if queues_empty() { quiet += 1; if quiet >= 4 { break; } } }
        }
        if t0.elapsed() > Duration::from_secs(6) { out.push("<queues never drained>".into()); break; }
    }
    out
}
/// all frames through one real pool with a pass-everything filter; Err when a dispatch is refused
fn pool_texts(entry: &str, frames: &[Vec<u8>]) -> Result<Vec<String>, String> {
    huginn_net_tcp::uptime::verif_hooks::set_frozen_clock(Some(CLOCK));
    match entry {
        "pt" => {
            let (tx, rx) = mpsc::channel();
            let pool = huginn_net_tcp::WorkerPool::new(2, 4096, 1, 1, tx, Some(db().clone()), 1000, Some(pass_all_filter!(huginn_net_tcp))).map_err(|e| e.to_string())?;
            for (i, f) in frames.iter().enumerate() { if let huginn_net_tcp::DispatchResult::Dropped = pool.dispatch(f.clone()) { pool.shutdown(); return Err(format!("dispatch {} refused", i)); } }
            let r = collect(&rx, &|| pool.stats().workers.iter().all(|w| w.queue_size == 0), &|x| tcp_text(x));
            let alive = !matches!(pool.dispatch(vec![0u8; 4]), huginn_net_tcp::DispatchResult::Dropped);
            pool.shutdown();
            if alive { Ok(r) } else { Err("a worker is gone after the trace".into()) }
        }
        "ph" => {
            let (tx, rx) = mpsc::channel();
            let pool = huginn_net_http::WorkerPool::new(1, 4096, 1, 1, tx, Some(db().clone()), 1000, Some(pass_all_filter!(huginn_net_http))).map_err(|e| e.to_string())?;
            for (i, f) in frames.iter().enumerate() { if let huginn_net_http::DispatchResult::Dropped = pool.dispatch(f.clone()) { pool.shutdown(); return Err(format!("dispatch {} refused", i)); } }
            let r = collect(&rx, &|| pool.stats().workers.iter().all(|w| w.queue_size == 0), &|x| http_text(x));
            let alive = !matches!(pool.dispatch(vec![0u8; 4]), huginn_net_http::DispatchResult::Dropped);
            pool.shutdown();
            if alive { Ok(r) } else { Err("a worker is gone after the trace".into()) }
        }
        _ => {
            let (tx, rx) = mpsc::channel();
            let pool = huginn_net_tls::WorkerPool::new(if entry == "pl1" { 1 } else { 2 }, 4096, 1, 1, tx, 1000, Some(pass_all_filter!(huginn_net_tls))).map_err(|e| e.to_string())?;
            // the TLS dispatcher answers Dropped for frames from which no flow can be read: that is a return value, not a refusal
            for f in frames.iter() { let _ = pool.dispatch(f.clone()); }
            let r = collect(&rx, &|| pool.stats().workers.iter().all(|w| w.queue_size == 0), &|x| tls_text(x));
            pool.shutdown();
            Ok(r)
        }
    }
}
fn history(entry: &str, junk: &[Vec<u8>], probe: &[Vec<u8>]) -> String {
    let mut out = "RET".to_string();
    match entry {
        "u" | "t" | "l" | "h" => {
            let kind = Kind::from(entry);
            let mut a = Seq::new(kind, db(), 1000);
            for j in junk { let _ = a.packet(j, CLOCK); }
            let got: Vec<String> = probe.iter().enumerate().map(|(i, f)| a.packet(f, CLOCK + 1000 + 50 * i as u64)).collect();
            let mut b = Seq::new(kind, db(), 1000);
            let want: Vec<String> = probe.iter().enumerate().map(|(i, f)| b.packet(f, CLOCK + 1000 + 50 * i as u64)).collect();
            if want.iter().all(|s| s.is_empty()) { out.push_str("\t!vacuous probe: a fresh instance reports nothing for it"); }
            if got != want {
                let i = (0..want.len()).find(|&i| got[i] != want[i]).unwrap_or(0);
                out.push_str(&format!("\t!poisoned: probe packet {} after the history reports {:?}, a fresh instance reports {:?}", i, got[i].chars().take(200).collect::<String>(), want[i].chars().take(200).collect::<String>()));
            }
        }
        // one parser-level instance, both directions: every junk item goes through the request AND the response entry
        // (either may leave decoder state behind), every probe is evaluated by both and compared with a fresh instance.
        //   p2 = Http2Parser::parse_request/parse_response, pc = Http2Processor::process_request/process_response,
        //   hp = HttpProcessors::parse_request/parse_response (hr: kept as an alias)
        "p2" | "pc" | "hp" | "hr" => {
            use huginn_net_http::http_common::HttpProcessor;
            fn res<T: std::fmt::Debug, E>(r: Result<Option<T>, E>) -> String { match r { Ok(Some(x)) => scrub(&format!("{:?}", x)), Ok(None) => "none".into(), Err(_) => "err".into() } }
            fn opt<T: std::fmt::Debug>(r: Option<T>) -> String { match r { Some(x) => scrub(&format!("{:?}", x)), None => "none".into() } }
            let run = |junk: &[Vec<u8>], probe: &[Vec<u8>]| -> Vec<String> {
                match entry {
                    "p2" => { let p = huginn_net_http::Http2Parser::new(); let f = |d: &[u8]| format!("Q:{} S:{}", res(p.parse_request(d)), res(p.parse_response(d)));
                              for j in junk { let _ = f(j); } probe.iter().map(|d| f(d)).collect() }
                    "pc" => { let p = huginn_net_http::Http2Processor::new(); let f = |d: &[u8]| format!("Q:{} S:{}", res(p.process_request(d)), res(p.process_response(d)));
                              for j in junk { let _ = f(j); } probe.iter().map(|d| f(d)).collect() }
                    _ => { let p = huginn_net_http::http_process::HttpProcessors::new(); let f = |d: &[u8]| format!("Q:{} S:{}", opt(p.parse_request(d)), opt(p.parse_response(d)));
                           for j in junk { let _ = f(j); } probe.iter().map(|d| f(d)).collect() }
                }
            };
            let got = run(junk, probe);
            let want = run(&[], probe);
            let reports = |s: &String| s.contains("Q:Http2Request") || s.contains("Q:Observable") || s.contains("S:Http2Response") || s.contains("S:Observable");
            if !want.iter().any(reports) { out.push_str("\t!vacuous probe: a fresh instance reports nothing for it"); }
            if got != want {
                let i = (0..want.len()).find(|&i| got[i] != want[i]).unwrap_or(0);
                out.push_str(&format!("\t!poisoned: after the history probe {} parses to {:?}, on a fresh instance to {:?}", i, got[i].chars().take(160).collect::<String>(), want[i].chars().take(160).collect::<String>()));
            }
        }
        "pt" | "pl" | "pl1" | "ph" => {
            let all: Vec<Vec<u8>> = junk.iter().chain(probe.iter()).cloned().collect();
            let hist = match pool_texts(entry, &all) { Ok(r) => r, Err(e) => { out.push_str(&format!("\t!pool: {}", e)); return out; } };
            let fresh = match pool_texts(entry, probe) { Ok(r) => r, Err(e) => { out.push_str(&format!("\t!pool (fresh): {}", e)); return out; } };
            if fresh.is_empty() { out.push_str("\t!vacuous probe: a fresh pool reports nothing for it"); }
            let mut rest = hist.clone();
            for f in &fresh {
                match rest.iter().position(|x| x == f) { Some(i) => { rest.swap_remove(i); } None => { out.push_str(&format!("\t!poisoned: a fresh pool reports {:?} for the probe, the pool that saw the history does not ({} results)", f.chars().take(160).collect::<String>(), hist.len())); break; } }
            }
        }
        _ => return "BADENTRY".into(),
    }
    out
}

fn run_inner(line: &str) -> String {
    let toks: Vec<&str> = line.split_whitespace().collect();
    match toks[0] {
        "O" => run_o(&data(toks[1]), u8::from_str_radix(toks[2], 16).unwrap(), toks[3].parse().unwrap()),
        "W" => {
            let v = if toks[5] == "6" { huginn_net_db::tcp::IpVersion::V6 } else { huginn_net_db::tcp::IpVersion::V4 };
            let w = huginn_net_tcp::window_size::detect_win_multiplicator(toks[1].parse().unwrap(), toks[2].parse().unwrap(), toks[3].parse().unwrap(), toks[4] == "1", &v);
            format!("RET {}", wsize_text(&w))
        }
        "P6" => {
            let d = data(toks[1]);
            let p = pnet::packet::ipv6::Ipv6Packet::new(&d).expect("ipv6 view");
            format!("RET {}", huginn_net_tcp::ip_options::IpOptions::calculate_ipv6_length(&p))
        }
        "R" => run_r(&toks[1..]),
        "T" => run_t(&toks[1..], false),
        "TP" => run_t(&toks[1..], true),
        "J" => run_j(toks[1], &data(toks[2])),
        "K" => {
            let mut x = huginn_net_http::Http2FingerprintExtractor::new();
            let mut out = vec!["RET".to_string()];
            for c in &toks[1..] { out.push(match x.add_bytes(&data(c)) { Ok(Some(_)) => "S", Ok(None) => "N", Err(_) => "E" }.to_string()); }
            out.join(" ")
        }
        "F" => run_f(&data(toks[1])),
        "S" => run_s(&data(toks[1])),
        "X" => run_x(&data(toks[1])),
        "L" => run_l(&data(toks[1])),
        "E" => entry_call(toks[1], &data(toks[2])),
        "H" => history(toks[1], &data_list(toks[2]), &data_list(toks[4])),
        _ => "BADKIND".into(),
    }
}
fn run(line: &str) -> String {
    let l = line.to_string();
    watchdog(move || run_inner(&l))
}

// ---------------------------------------------------------------- post: steps the model leaves to std's DefaultHasher
//   {b:<hex>}  hash of the byte slice          {bm:<hex>}  the same modulo HASH_N
//   {f:<hex a>:<hex b>:<p1>:<p2>}  a.hash, b.hash, p1.hash (u16), p2.hash (u16), modulo HASH_N
fn hash_bytes(b: &[u8]) -> usize { let mut h = DefaultHasher::new(); b.hash(&mut h); h.finish() as usize }
fn post(_case: &str, line: &str) -> String {
    let mut out = String::new();
    let mut rest = line;
    while let Some(i) = rest.find('{') {
        out.push_str(&rest[..i]);
        let j = match rest[i..].find('}') { Some(j) => i + j, None => { out.push_str(&rest[i..]); return out; } };
        let body = &rest[i + 1..j];
        let parts: Vec<&str> = body.split(':').collect();
        let v = match parts[0] {
            "b" => hash_bytes(&unhex_or_dash(if parts[1].is_empty() { "-" } else { parts[1] })),
            "bm" => hash_bytes(&unhex_or_dash(if parts[1].is_empty() { "-" } else { parts[1] })) % HASH_N,
            "f" => {
                let mut h = DefaultHasher::new();
                unhex(parts[1]).as_slice().hash(&mut h); unhex(parts[2]).as_slice().hash(&mut h);
                parts[3].parse::<u16>().unwrap().hash(&mut h); parts[4].parse::<u16>().unwrap().hash(&mut h);
                (h.finish() as usize) % HASH_N
            }
            _ => { out.push_str(&rest[i..=j]); rest = &rest[j + 1..]; continue; }
        };
        out.push_str(&v.to_string());
        rest = &rest[j + 1..];
    }
    out.push_str(rest);
    out
}

// ---------------------------------------------------------------- process isolation of `run`
// `run` = a parent that feeds case lines to worker subprocesses (`worker`), one line at a time.  Inside a worker every
// case runs under the thread watchdog above (PANIC / HANG).  What no in-process guard can catch is caught by the parent:
// ABORT = the worker process died on the case (stack overflow, allocation failure, process::abort, OOM kill),
// HANG  = no answer within 20 s (worker killed).
// Memory ceiling: a worker's address space is capped at 2 GiB (malloc arenas limited to 2 so that short-lived threads
// do not eat it), so a runaway allocation ends the worker quickly, not the machine.
// A HANG / ABORT is confirmed by a second attempt in a fresh worker before it is reported.
// Hang budget: every confirmed HANG / ABORT line carries the impl-level oracle message `!hang: <case>` (the replay then names the
// input); after HNV_HANG_BUDGET (default 8) such cases nothing more is executed and every remaining case gets the line
// `SKIPPED hang-budget-exhausted` -- one line per case in every situation, and a systematic hang costs minutes, not hours.
const WORKER_AS_LIMIT: u64 = 2 << 30;
fn worker_main() {
    use std::io::{BufRead, Write};
    std::panic::set_hook(Box::new(|_| {}));
    unsafe {
        let lim = libc::rlimit { rlim_cur: WORKER_AS_LIMIT, rlim_max: WORKER_AS_LIMIT };
        libc::setrlimit(libc::RLIMIT_AS, &lim);
    }
    let stdin = std::io::stdin();
    let stdout = std::io::stdout();
    for l in stdin.lock().lines() {
        let l = match l { Ok(l) => l, Err(_) => break };
        let r = run(&l).replace('\n', "\\n");
        let mut o = stdout.lock();
        if writeln!(o, "{}", r).is_err() || o.flush().is_err() { break; }
        if r.starts_with("HANG") { std::process::exit(0); } // a leaked spinning thread: start over in a new process
    }
}
struct Worker { proc: std::process::Child, stdin: Option<std::process::ChildStdin>, rx: mpsc::Receiver<String> }
fn spawn_worker() -> Worker {
    use std::io::BufRead;
    use std::process::{Command, Stdio};
    let exe = std::env::current_exe().expect("exe");
    let mut proc = Command::new(exe).arg("worker").env("MALLOC_ARENA_MAX", "2").stdin(Stdio::piped()).stdout(Stdio::piped()).stderr(Stdio::null()).spawn().expect("spawn worker");
    let out = proc.stdout.take().expect("stdout");
    let stdin = proc.stdin.take();
    let (tx, rx) = mpsc::channel();
    std::thread::spawn(move || { for l in std::io::BufReader::new(out).lines() { match l { Ok(l) => { if tx.send(l).is_err() { break; } } Err(_) => break } } });
    Worker { proc, stdin, rx }
}
fn parent_run() {
    use std::io::{BufRead, Write};
    use std::sync::atomic::{AtomicUsize, Ordering};
    let threads: usize = std::env::var("HNV_THREADS").ok().and_then(|s| s.parse().ok()).unwrap_or(16).max(1);
    let budget: usize = std::env::var("HNV_HANG_BUDGET").ok().and_then(|s| s.parse().ok()).unwrap_or(8).max(1);
    let spent = AtomicUsize::new(0);
    let lines: Vec<String> = std::io::stdin().lock().lines().map(|l| l.unwrap()).collect();
    let n = lines.len();
    let mut results: Vec<String> = vec![String::new(); n];
    if n > 0 {
        let (spent, lines) = (&spent, &lines);
        // one attempt of one case in worker `w`; on HANG / ABORT the worker is replaced
        fn attempt(w: &mut Worker, l: &str) -> String {
            use std::io::Write;
            let mut sent = match w.stdin.as_mut() { Some(si) => writeln!(si, "{}", l).and_then(|_| si.flush()).is_ok(), None => false };
            if !sent { // the worker was already gone (it exits after reporting a HANG): start a new one and send again
                let _ = w.proc.kill(); let _ = w.proc.wait(); *w = spawn_worker();
                sent = match w.stdin.as_mut() { Some(si) => writeln!(si, "{}", l).and_then(|_| si.flush()).is_ok(), None => false };
            }
            let res = if !sent { "ABORT".to_string() } else {
                match w.rx.recv_timeout(Duration::from_secs(20)) {
                    Ok(x) => x,
                    Err(mpsc::RecvTimeoutError::Timeout) => "HANG".to_string(),
                    Err(mpsc::RecvTimeoutError::Disconnected) => "ABORT".to_string(),
                }
            };
            if res.starts_with("HANG") || res == "ABORT" { let _ = w.proc.kill(); let _ = w.proc.wait(); *w = spawn_worker(); }
            res
        }
        // cases are dealt round-robin so that the expensive kinds (pools, histories), which the generator emits together,
        // are spread over all workers
        let parts: Vec<Vec<(usize, String)>> = std::thread::scope(|s| {
            let hs: Vec<_> = (0..threads.min(n)).map(|k| s.spawn(move || {
                let mut w = spawn_worker();
                let mut out: Vec<(usize, String)> = Vec::new();
                let mut i = k;
                while i < n {
                    let l = &lines[i];
                    if spent.load(Ordering::SeqCst) >= budget { out.push((i, "SKIPPED hang-budget-exhausted".to_string())); i += threads; continue; }
                    let mut res = attempt(&mut w, l);
                    if res.starts_with("HANG") || res == "ABORT" {
                        // confirm in a fresh worker: a real hang / crash is deterministic, a stalled machine is not
                        let again = attempt(&mut w, l);
                        if again.starts_with("HANG") || again == "ABORT" {
                            spent.fetch_add(1, Ordering::SeqCst);
                            let what = if again == "ABORT" { "the worker process died (allocation failure / stack overflow / abort), twice, on" } else { "no result within the watchdog limits, twice, for" };
                            res = format!("{}\t!hang: {} the input {}", again.split('\t').next().unwrap_or("HANG"), what, l.chars().take(400).collect::<String>());
                        } else { res = again; }
                    }
                    out.push((i, res));
                    i += threads;
                }
                w.stdin = None;
                let _ = w.proc.wait();
                out
            })).collect();
            hs.into_iter().map(|h| h.join().expect("driver thread")).collect()
        });
        for p in parts { for (i, r) in p { results[i] = r; } }
    }
    let stdout = std::io::stdout();
    let mut o = std::io::BufWriter::new(stdout.lock());
    for r in results { writeln!(o, "{}", r).unwrap(); }
}

fn main() {
    match std::env::args().nth(1).as_deref() {
        Some("run") => parent_run(),
        Some("worker") => worker_main(),
        Some("gen") => { std::panic::set_hook(Box::new(|_| {})); main_cli_post(gen::gen, run, post) } // verdicts of the real code are recorded under catch_unwind
        _ => main_cli_post(gen::gen, run, post),
    }
}
