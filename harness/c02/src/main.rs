//! C02 harness: `FingerprintCollection::new(entries).find_best_match(obs)` through the public API of
//! huginn-net-db and the thin `SignatureMatcher::matching_by_*` wrappers of huginn-net-tcp / huginn-net-http,
//! plus — on the IMPL side — a brute-force scan of `entries` with the real `calculate_distance`
//! (direct oracle: `!index-vs-scan`).  Line grammar: coq/Extract/EC02.v.
use hnv_common::*;
use huginn_net_db::db::FingerprintCollection;
use huginn_net_db::db_matching_trait::{DatabaseSignature, FingerprintDb, ObservedFingerprint};
use huginn_net_db::http::{self, Header, Version};
use huginn_net_db::observable_signals::{HttpRequestObservation, HttpResponseObservation, TcpObservation};
use huginn_net_db::tcp::{self, IpVersion, PayloadSize, TcpOption, WindowSize};
use huginn_net_db::{Database, Label, Type};
#[path = "../../c12/src/sigtext.rs"]
mod sigtext;
use sigtext::*;

fn label(i: usize) -> Label { Label { ty: if i % 3 == 0 { Type::Generic } else { Type::Specified }, class: None, name: format!("l{}", i), flavor: None } }
/// compact forms (grammar: coq/Extract/EC02.v): `<n>@<entry>|<entry>|…` = that sequence of labels n times; inside an
/// entry `<run>~<run>~…` with run = `<sig>/<sig>/…` or `<n>^<sig>/<sig>/…` (that list n times)
fn r_entry<S: Clone>(t: &str, f: fn(&str) -> S) -> Vec<S> {
    if t == "." { return vec![]; }
    let mut v = vec![];
    for run in t.split('~') {
        let (n, sigs) = match run.split_once('^') { Some((c, s)) => (c.parse::<usize>().expect("count"), s), None => (1, run) };
        assert!(n <= 300000, "count");
        let l: Vec<S> = sigs.split('/').map(f).collect();
        for _ in 0..n { v.extend(l.iter().cloned()); }
    }
    v
}
fn r_entries<S: Clone>(toks: &[&str], f: fn(&str) -> S) -> Vec<(Label, Vec<S>)> {
    let mut out: Vec<(Label, Vec<S>)> = vec![];
    for t in toks {
        let (n, l): (usize, Vec<Vec<S>>) = match t.split_once('@') {
            Some((c, es)) => (c.parse::<usize>().expect("count"), es.split('|').map(|e| r_entry(e, f)).collect()),
            None => (1, vec![r_entry(t, f)]) };
        assert!(n <= 300000, "count");
        for _ in 0..n { for e in &l { let i = out.len(); out.push((label(i), e.clone())); } }
    }
    out
}
fn empty_db() -> Database {
    Database { classes: vec![], mtu: vec![], ua_os: vec![], tcp_request: Default::default(), tcp_response: Default::default(),
               http_request: Default::default(), http_response: Default::default() }
}

/// canonical line of a find_best_match result: positions recovered from the returned references
fn show<'a, OF, DS>(entries: &'a [(Label, Vec<DS>)], obs: &OF, r: Option<(&'a Label, &'a DS, f32)>) -> String
where OF: ObservedFingerprint, DS: DatabaseSignature<OF> {
    match r {
        None => "NONE".into(),
        Some((l, s, q)) => {
            let li = entries.iter().position(|e| std::ptr::eq(&e.0, l)).expect("label not from entries");
            let si = entries[li].1.iter().position(|x| std::ptr::eq(x, s)).expect("signature not under the returned label");
            format!("{} {} {} {}", li, si, s.calculate_distance(obs).expect("reported signature rejects"), p_quality(q))
        }
    }
}
/// the exhaustive scan on the implementation side: first entry in file order with the smallest distance
fn brute<OF, DS>(entries: &[(Label, Vec<DS>)], obs: &OF) -> String
where OF: ObservedFingerprint, DS: DatabaseSignature<OF> {
    let mut best: Option<(usize, usize, u32)> = None;
    for (li, (_, sigs)) in entries.iter().enumerate() { for (si, s) in sigs.iter().enumerate() {
        if let Some(d) = s.calculate_distance(obs) { if best.map_or(true, |b| d < b.2) { best = Some((li, si, d)); } }
    }}
    match best { None => "NONE".into(), Some((li, si, d)) => format!("{} {} {} {}", li, si, d, p_quality(entries[li].1[si].get_quality_score(d))) }
}
fn finish(direct: String, wrapped: String, scan: String, concrete: bool) -> String {
    let mut out = direct.clone();
    if wrapped != direct { out.push_str(&format!("\t!wrapper-vs-collection: wrapper={} collection={}", wrapped, direct)); }
    if concrete && scan != direct { out.push_str(&format!("\t!index-vs-scan: find_best_match={} scan={}", direct, scan)); }
    out
}

fn run(line: &str) -> String {
    let t: Vec<&str> = line.split_whitespace().collect();
    let mut db = empty_db();
    match t[0] {
        "T" | "U" => {
            let o = to_obs(&r_tcp(t[1]));
            let concrete = o.version != IpVersion::Any && o.pclass != PayloadSize::Any;
            let col = FingerprintCollection::new(r_entries(&t[2..], r_tcp));
            if t[0] == "T" { db.tcp_request = col } else { db.tcp_response = col }
            let col = if t[0] == "T" { &db.tcp_request } else { &db.tcp_response };
            let direct = show(&col.entries, &o, col.find_best_match(&o));
            let m = huginn_net_tcp::SignatureMatcher::new(&db);
            let ob = huginn_net_tcp::ObservableTcp { matching: o.clone() };
            let wrapped = show(&col.entries, &o, if t[0] == "T" { m.matching_by_tcp_request(&ob) } else { m.matching_by_tcp_response(&ob) });
            finish(direct, wrapped, brute(&col.entries, &o), concrete)
        }
        "H" => {
            let o = to_req(&r_http(t[1]));
            db.http_request = FingerprintCollection::new(r_entries(&t[2..], r_http));
            let col = &db.http_request;
            let direct = show(&col.entries, &o, col.find_best_match(&o));
            let m = huginn_net_http::SignatureMatcher::new(&db);
            let ob = huginn_net_http::observable::ObservableHttpRequest { matching: o.clone(), lang: None, user_agent: None, headers: vec![], cookies: vec![],
                referer: None, method: None, uri: None };
            let wrapped = show(&col.entries, &o, m.matching_by_http_request(&ob));
            finish(direct, wrapped, brute(&col.entries, &o), o.version != Version::Any)
        }
        "R" => {
            let o = to_resp(&r_http(t[1]));
            db.http_response = FingerprintCollection::new(r_entries(&t[2..], r_http));
            let col = &db.http_response;
            let direct = show(&col.entries, &o, col.find_best_match(&o));
            let m = huginn_net_http::SignatureMatcher::new(&db);
            let ob = huginn_net_http::observable::ObservableHttpResponse { matching: o.clone(), headers: vec![], status_code: None };
            let wrapped = show(&col.entries, &o, m.matching_by_http_response(&ob));
            finish(direct, wrapped, brute(&col.entries, &o), o.version != Version::Any)
        }
        _ => panic!("kind"),
    }
}

// ---------------- generators ----------------
fn p_entries<S>(db: &[Vec<S>], p: fn(&S) -> String) -> String {
    db.iter().map(|sigs| if sigs.is_empty() { ".".to_string() } else { sigs.iter().map(p).collect::<Vec<_>>().join("/") }).collect::<Vec<_>>().join(" ")
}
fn concretise(r: &mut Rng, o: &mut tcp::Signature) {
    if o.version == IpVersion::Any { o.version = if r.chance(1, 2) { IpVersion::V4 } else { IpVersion::V6 }; }
    if o.pclass == PayloadSize::Any { o.pclass = if r.chance(1, 2) { PayloadSize::Zero } else { PayloadSize::NonZero }; }
}
/// a database built from a small pool of base signatures: wildcarded copies, near copies and exact duplicates under
/// different labels, so that buckets overlap and ties occur
fn g_tcp_db(r: &mut Rng) -> Vec<Vec<tcp::Signature>> {
    let pool: Vec<tcp::Signature> = (0..r.range(1, 5)).map(|_| g_tcp_sig(r)).collect();
    let nlabels = if r.chance(1, 8) { r.below(3) } else { r.range(1, 40) };
    (0..nlabels).map(|_| {
        let n = if r.chance(1, 10) { 0 } else { r.range(1, 4) };
        (0..n).map(|_| {
            let mut s = r.pick(&pool).clone();
            match r.below(8) {
                0 => s.version = IpVersion::Any,
                1 => s.pclass = PayloadSize::Any,
                2 => { s.version = IpVersion::Any; s.pclass = PayloadSize::Any; }
                3 => { s.version = if r.chance(1, 2) { IpVersion::V4 } else { IpVersion::V6 }; }
                4 => { s.pclass = if r.chance(1, 2) { PayloadSize::Zero } else { PayloadSize::NonZero }; }
                5 => { let mut f = mutate_tcp(r, &mut s); while f == 0 || f == 8 { f = mutate_tcp(r, &mut s); } }
                6 => { s.mss = None; s.wscale = None; }
                _ => {}
            }
            s
        }).collect()
    }).collect()
}
fn g_tcp_obs(r: &mut Rng, db: &[Vec<tcp::Signature>]) -> tcp::Signature {
    let all: Vec<&tcp::Signature> = db.iter().flat_map(|v| v.iter()).collect();
    let mut o = if all.is_empty() || r.chance(1, 12) { g_tcp_sig(r) } else { let s = *r.pick(&all); let lit = r.chance(1, 2); g_tcp_instance(r, s, lit) };
    for _ in 0..r.below(3) { let f = mutate_tcp(r, &mut o); let _ = f; }
    if !r.chance(1, 40) { concretise(r, &mut o); }
    o
}
fn g_http_db(r: &mut Rng) -> Vec<Vec<http::Signature>> {
    let pool: Vec<http::Signature> = (0..r.range(1, 5)).map(|_| g_http_sig(r)).collect();
    let nlabels = if r.chance(1, 8) { r.below(3) } else { r.range(1, 40) };
    (0..nlabels).map(|_| {
        let n = if r.chance(1, 10) { 0 } else { r.range(1, 4) };
        (0..n).map(|_| {
            let mut s = r.pick(&pool).clone();
            match r.below(6) {
                0 => s.version = Version::Any,
                1 => s.version = g_hver(r, false),
                2 => { let mut o = s.clone(); mutate_hlist(r, &mut o.horder); s.horder = o.horder; }
                3 => s.expsw = r.pick(SOFTWARE).to_string(),
                _ => {}
            }
            s
        }).collect()
    }).collect()
}
fn g_http_obs(r: &mut Rng, db: &[Vec<http::Signature>]) -> http::Signature {
    let all: Vec<&http::Signature> = db.iter().flat_map(|v| v.iter()).collect();
    let mut o = if all.is_empty() || r.chance(1, 12) { g_http_sig(r) } else { let s = *r.pick(&all); let lit = r.chance(2, 3); g_http_instance(r, s, lit) };
    for _ in 0..r.below(3) { mutate_http(r, &mut o); }
    for h in o.horder.iter_mut().chain(o.habsent.iter_mut()) { h.optional = false; }
    if o.version == Version::Any && !r.chance(1, 40) { o.version = g_hver(r, false); }
    o
}

// ---------------- crowded labels: more than 256 signatures under one label / more than 256 labels ----------------
/// signature number `i` of a crowd: a cheap near-duplicate of `base` whose distinguishing field encodes `i`, so that the
/// observation aimed at `i` has exactly one closest entry.  variant 0: mss, 1: raw window, 2: (olen, wscale),
/// 3: option layout (decisive: the aimed signature is the ONLY acceptor and sits alone in its index bucket)
fn crowd_tcp_sig(r: &mut Rng, base: &tcp::Signature, variant: u64, i: usize) -> tcp::Signature {
    let mut s = base.clone();
    match variant {
        0 => s.mss = Some(1000 + i as u16),
        1 => s.wsize = WindowSize::Value(2000 + i as u16),
        2 => { s.olen = (i % 200) as u8; s.wscale = Some((i / 200) as u8); }
        _ => s.olayout = vec![TcpOption::Mss, TcpOption::Unknown((i % 256) as u8), TcpOption::Eol((i / 256) as u8), TcpOption::Nop],
    }
    match r.below(8) { 0 => s.version = IpVersion::Any, 1 => s.pclass = PayloadSize::Any, 2 => { s.version = IpVersion::Any; s.pclass = PayloadSize::Any; } _ => {} }
    s
}
fn crowd_http_sig(r: &mut Rng, variant: u64, i: usize) -> http::Signature {
    let h = |n: &str, v: Option<String>, opt: bool| Header { optional: opt, name: n.to_string(), value: v };
    let mut horder = vec![h("Host", None, false)];
    let mut expsw = "Agent/".to_string();
    match variant {
        0 => expsw = format!("Agent-{}/", i),
        1 => for n in ["Accept", "Accept-Language", "Cache-Control"] { horder.push(h(n, Some(format!("v{}", i)), false)); },
        _ => for k in 0..6 { horder.push(h(&format!("n{}k{}", i, k), None, false)); },
    }
    horder.push(h("Accept-Encoding", Some("gzip".into()), true));
    horder.push(h("Connection", Some("keep-alive".into()), false));
    http::Signature { version: match r.below(4) { 0 => Version::V10, 1 => Version::Any, _ => Version::V11 }, horder,
        habsent: vec![h("Via", None, false)], expsw }
}
/// positions worth aiming at in a label of `n` signatures: around the u8 / u9 boundaries, the last one, their aliases
/// modulo 256, and two random ones
fn crowd_targets(r: &mut Rng, n: usize) -> Vec<usize> {
    let mut t: Vec<usize> = vec![];
    for p in [255usize, 256, 257, 300, 511, 512, 513, n.saturating_sub(1)] { if p < n { t.push(p); if p >= 256 { t.push(p % 256); } } }
    for _ in 0..2 { t.push(r.below(n as u64) as usize); }
    t.sort(); t.dedup(); t
}
fn tcp_aimed(r: &mut Rng, s: &tcp::Signature, disturb: bool) -> tcp::Signature {
    let mut o = s.clone();
    concretise(r, &mut o);
    if disturb { o.ittl = huginn_net_db::tcp::Ttl::Value(65); }
    o
}
fn http_aimed(r: &mut Rng, s: &http::Signature, disturb: bool) -> http::Signature {
    let mut o = s.clone();
    if o.version == Version::Any { o.version = g_hver(r, false); }
    o.horder.retain(|h| !(h.optional && disturb));
    for h in o.horder.iter_mut().chain(o.habsent.iter_mut()) { h.optional = false; }
    if disturb { o.habsent.clear(); }
    o
}
/// `sizes[l]` signatures under label l; emits one case per aimed position of every crowded label
fn crowd_tcp_cases(r: &mut Rng, variant: u64, sizes: &[usize], out: &mut Vec<String>) {
    let base = r_tcp("4:v64:0:1460:s4:7:m,k,t,n,w:0,1:0");
    let mut next = 0usize;
    let db: Vec<Vec<tcp::Signature>> = sizes.iter().map(|&n| (0..n).map(|_| { let s = crowd_tcp_sig(r, &base, variant, next); next += 1; s }).collect()).collect();
    let text = p_entries(&db, p_tcp);
    for (l, sigs) in db.iter().enumerate() {
        let targets = if sigs.len() > 200 { crowd_targets(r, sigs.len()) } else { vec![r.below(sigs.len() as u64) as usize] };
        for p in targets {
            let dis = variant < 2 && r.chance(1, 4); let o = tcp_aimed(r, &sigs[p], dis);
            out.push(format!("{} {} {}", if (l + p) % 2 == 0 { "T" } else { "U" }, p_tcp(&o), text));
        }
    }
}
fn crowd_http_cases(r: &mut Rng, variant: u64, sizes: &[usize], out: &mut Vec<String>) {
    let mut next = 0usize;
    let db: Vec<Vec<http::Signature>> = sizes.iter().map(|&n| (0..n).map(|_| { let s = crowd_http_sig(r, variant, next); next += 1; s }).collect()).collect();
    let text = p_entries(&db, p_http);
    for (l, sigs) in db.iter().enumerate() {
        let targets = if sigs.len() > 200 { crowd_targets(r, sigs.len()) } else { vec![r.below(sigs.len() as u64) as usize] };
        for p in targets {
            let dis = variant < 2 && r.chance(1, 4); let o = http_aimed(r, &sigs[p], dis);
            out.push(format!("{} {} {}", if (l + p) % 2 == 0 { "H" } else { "R" }, p_http(&o), text));
        }
    }
}
/// more than 256 labels, one (sometimes two) signatures each; aimed at labels around 256 and their aliases
fn many_labels_cases(r: &mut Rng, out: &mut Vec<String>) {
    let n = r.range(258, 330) as usize;
    let base = r_tcp("4:v64:0:1460:s4:7:m,k,t,n,w:0,1:0");
    let tdb: Vec<Vec<tcp::Signature>> = (0..n).map(|i| { let mut v = vec![crowd_tcp_sig(r, &base, (i % 2) as u64 * 3, i)]; if r.chance(1, 6) { v.push(crowd_tcp_sig(r, &base, 1, 700 + i)); } v }).collect();
    let hdb: Vec<Vec<http::Signature>> = (0..n).map(|i| vec![crowd_http_sig(r, 0, i)]).collect();
    let (tt, ht) = (p_entries(&tdb, p_tcp), p_entries(&hdb, p_http));
    for l in crowd_targets(r, n) {
        let o = tcp_aimed(r, &tdb[l][0], false); out.push(format!("T {} {}", p_tcp(&o), tt));
        let o = http_aimed(r, &hdb[l][0], false); out.push(format!("H {} {}", p_http(&o), ht));
    }
}

// ---------------- beyond 2^16 positions: more than 65 536 signatures under one label / more than 65 536 labels ----------------
/// `len` filler items written compactly from the cyclic group `g`: `<len / |g|><rep><g joined by sep>` plus the first
/// `len % |g|` items of `g` (pieces to be joined by the caller)
fn filler(g: &[String], len: usize, rep: char, sep: &str) -> Vec<String> {
    let mut v = vec![];
    if len / g.len() > 0 { v.push(format!("{}{}{}", len / g.len(), rep, g.join(sep))); }
    if len % g.len() > 0 { v.push(g[..len % g.len()].join(if rep == '^' { "/" } else { " " })); }
    v
}
/// positions worth aiming at beyond the u16 boundary (winner position, alias = position mod 65 536)
fn wide_targets(r: &mut Rng, n: usize) -> Vec<usize> {
    let mut t = vec![65536usize, 65537, 2 * 65536 + r.range(1, 300) as usize];
    t.truncate(n.min(3));
    for _ in 3..n { t.push(match r.below(3) { 0 => 65535, 1 => 65536 + r.range(2, 4000) as usize, _ => 2 * 65536 }); }
    t
}
/// one case: `items[alias]` = decoy (strictly worse than the target for the aimed observation, or absent), `items[pos]` =
/// target, filler everywhere else, 0-2 further items behind the target.  `one_label`: items are the signatures of a
/// single label (a small label before it sometimes); otherwise every item is a label of its own.
fn wide_layout(r: &mut Rng, g: &[String], pos: usize, decoy: Option<String>, target: String, tail: Vec<String>, one_label: bool, lead: Option<String>) -> String {
    let alias = pos % 65536;
    let (rep, sep) = if one_label { ('^', "/") } else { ('@', "|") };
    let mut pieces: Vec<String> = vec![];
    match decoy {
        Some(d) if alias < pos => { pieces.extend(filler(g, alias, rep, sep)); pieces.push(d); pieces.extend(filler(g, pos - alias - 1, rep, sep)); }
        _ => pieces.extend(filler(g, pos, rep, sep)),
    }
    pieces.push(target); pieces.extend(tail);
    let _ = r;
    if one_label { match lead { Some(l) => format!("{} {}", l, pieces.join("~")), None => pieces.join("~") } } else { pieces.join(" ") }
}
fn wide_tcp_cases(r: &mut Rng, n_one: usize, n_many: usize, out: &mut Vec<String>) {
    let base = r_tcp("4:v64:0:1460:s4:7:m,k,t,n,w:0,1:0");
    // filler: 256 signatures with 256 different option layouts (256 index buckets, none of them the target's)
    let fsigs: Vec<String> = (0..256).map(|j| { let mut s = base.clone(); s.olayout = vec![TcpOption::Mss, TcpOption::Unknown(j as u8), TcpOption::Nop]; s.mss = Some(500 + j as u16); p_tcp(&s) }).collect();
    let mut flabels: Vec<String> = fsigs.clone();
    for (j, l) in flabels.iter_mut().enumerate() { if j % 5 == 1 { *l = ".".into(); } }
    let empties = vec![".".to_string()];
    for (k, pos) in wide_targets(r, n_one).into_iter().chain(wide_targets(r, n_many)).enumerate() {
        let one_label = k < n_one;
        let variant = r.below(2);
        let decoy = crowd_tcp_sig(r, &base, variant, 1);
        let dis = r.chance(1, 3);
        // the aimed observation must be accepted by the target (a wildcard target met by an IPv6 observation is not)
        let (mut target, mut o) = (base.clone(), base.clone());
        for _ in 0..16 { target = crowd_tcp_sig(r, &base, variant, 2); o = tcp_aimed(r, &target, dis); if target.calculate_distance(&to_obs(&o)).is_some() { break; } }
        let dk = (k as u64 + r.below(2)) % 3;               // 0: decoy at the alias position, 1: none (filler there), 2: decoy, and pos is past the first wrap
        let d = if dk == 1 { None } else { Some(p_tcp(&decoy)) };
        let tail: Vec<String> = (0..r.below(3)).map(|i| p_tcp(&crowd_tcp_sig(r, &base, variant, 3 + i as usize))).collect();
        let g: &[String] = if one_label { &fsigs } else if r.chance(1, 2) { &flabels } else { &empties };
        let lead = if r.chance(1, 2) { Some(p_tcp(&crowd_tcp_sig(r, &base, variant, 9))) } else { None };
        out.push(format!("{} {} {}", if k % 2 == 0 { "T" } else { "U" }, p_tcp(&o), wide_layout(r, g, pos, d, p_tcp(&target), tail, one_label, lead)));
    }
}
fn wide_http_cases(r: &mut Rng, n_one: usize, n_many: usize, out: &mut Vec<String>) {
    // filler: versions 1.0 / 1.1 / 3 only (three index buckets); target, decoy and observation live in the HTTP/2 bucket
    let fsigs: Vec<String> = [Version::V10, Version::V11, Version::V30].iter().enumerate().map(|(j, v)| { let mut s = crowd_http_sig(r, 0, 1000 + j); s.version = *v; p_http(&s) }).collect();
    let flabels: Vec<String> = vec![fsigs[0].clone(), ".".into(), fsigs[1].clone(), ".".into(), ".".into(), fsigs[2].clone(), ".".into(), ".".into()];
    let empties = vec![".".to_string()];
    for (k, pos) in wide_targets(r, n_one).into_iter().chain(wide_targets(r, n_many)).enumerate() {
        let one_label = k < n_one;
        let variant = r.below(3);
        let mut target = crowd_http_sig(r, variant, 2); target.version = Version::V20;
        let mut decoy = crowd_http_sig(r, variant, 1); decoy.version = if r.chance(1, 2) { Version::V20 } else { Version::Any };
        let dis = variant < 2 && r.chance(1, 3); let o = http_aimed(r, &target, dis);
        let dk = (k as u64 + r.below(2)) % 3;
        let d = if dk == 1 { None } else { Some(p_http(&decoy)) };
        let tail: Vec<String> = (0..r.below(3)).map(|i| { let mut s = crowd_http_sig(r, variant, 3 + i as usize); s.version = Version::V20; p_http(&s) }).collect();
        let g: &[String] = if one_label { &fsigs } else if r.chance(1, 2) { &flabels } else { &empties };
        let lead = if r.chance(1, 2) { let mut s = crowd_http_sig(r, variant, 9); s.version = Version::V20; Some(p_http(&s)) } else { None };
        out.push(format!("{} {} {}", if k % 2 == 0 { "H" } else { "R" }, p_http(&o), wide_layout(r, g, pos, d, p_http(&target), tail, one_label, lead)));
    }
}

fn gen(r: &mut Rng, tier: &Tier, out: &mut Vec<String>) {
    // ---- stream 1: random databases x observations derived from their entries ----
    for _ in 0..tier.scale(700, 5000) {
        let db = g_tcp_db(r);
        let text = p_entries(&db, p_tcp);
        for _ in 0..6 { let o = g_tcp_obs(r, &db); out.push(format!("{} {} {}", if r.chance(1, 2) { "T" } else { "U" }, p_tcp(&o), text).trim_end().to_string()); }
    }
    for _ in 0..tier.scale(500, 3500) {
        let db = g_http_db(r);
        let text = p_entries(&db, p_http);
        for _ in 0..6 { let o = g_http_obs(r, &db); out.push(format!("{} {} {}", if r.chance(1, 2) { "H" } else { "R" }, p_http(&o), text).trim_end().to_string()); }
    }
    // ---- stream 2: exhaustive-small: every (version, pclass) combination of signature and observation, every rotation ----
    let base = r_tcp("4:v64:0:1460:s4:7:m,k,t,n,w:0,1:0");
    let mut nine: Vec<tcp::Signature> = vec![];
    for v in [IpVersion::V4, IpVersion::V6, IpVersion::Any] { for p in [PayloadSize::Zero, PayloadSize::NonZero, PayloadSize::Any] {
        let mut s = base.clone(); s.version = v; s.pclass = p; nine.push(s);
    }}
    for rot in 0..9 { for far in 0..10 {
        // entry `far` (if < 9) is made one step worse, so the winner moves around
        let mut db: Vec<Vec<tcp::Signature>> = (0..9).map(|i| vec![nine[(i + rot) % 9].clone()]).collect();
        for (i, e) in db.iter_mut().enumerate() { if i != far && far < 9 { e[0].olen = 4; } }
        let text = p_entries(&db, p_tcp);
        for v in [IpVersion::V4, IpVersion::V6, IpVersion::Any] { for p in [PayloadSize::Zero, PayloadSize::NonZero, PayloadSize::Any] {
            let mut o = base.clone(); o.version = v; o.pclass = p; out.push(format!("T {} {}", p_tcp(&o), text));
        }}
        // single-label variant: all nine under one label
        let one: Vec<Vec<tcp::Signature>> = vec![db.iter().map(|e| e[0].clone()).collect()];
        let mut o = base.clone(); o.version = IpVersion::V6; o.pclass = PayloadSize::NonZero;
        out.push(format!("U {} {}", p_tcp(&o), p_entries(&one, p_tcp)));
    }}
    let hb = r_http("1:!486f7374:-:6375726c");
    let vers = [Version::V10, Version::V11, Version::V20, Version::V30, Version::Any];
    for rot in 0..5 { for far in 0..6 {
        let mut db: Vec<Vec<http::Signature>> = (0..5).map(|i| { let mut s = hb.clone(); s.version = vers[(i + rot) % 5]; vec![s] }).collect();
        for (i, e) in db.iter_mut().enumerate() { if i != far && far < 5 { e[0].expsw = "wget".into(); } }
        let text = p_entries(&db, p_http);
        for v in vers { let mut o = hb.clone(); o.version = v; out.push(format!("H {} {}", p_http(&o), text)); out.push(format!("R {} {}", p_http(&o), text)); }
    }}
    // empty database, labels without signatures
    out.push(format!("T {}", p_tcp(&base)));
    out.push(format!("T {} . .", p_tcp(&base)));
    out.push(format!("H {}", p_http(&hb)));
    out.push(format!("R {} .", p_http(&hb)));
    // ---- stream 3: the bundled database (whole collections and random slices) x observations derived from its entries ----
    let bundled = Database::load_default().expect("bundled database");
    let tcols: Vec<(&str, Vec<Vec<tcp::Signature>>)> = vec![
        ("T", bundled.tcp_request.entries.iter().map(|e| e.1.clone()).collect()),
        ("U", bundled.tcp_response.entries.iter().map(|e| e.1.clone()).collect())];
    for (k, db) in &tcols {
        let text = p_entries(db, p_tcp);
        for _ in 0..tier.scale(60, 500) { let o = g_tcp_obs(r, db); out.push(format!("{} {} {}", k, p_tcp(&o), text)); }
        for _ in 0..tier.scale(150, 3000) {
            let a = r.below(db.len() as u64) as usize; let b = (a + r.range(1, 12) as usize).min(db.len());
            let slice = &db[a..b];
            let o = g_tcp_obs(r, slice); out.push(format!("{} {} {}", k, p_tcp(&o), p_entries(slice, p_tcp)));
        }
    }
    let hcols: Vec<(&str, Vec<Vec<http::Signature>>)> = vec![
        ("H", bundled.http_request.entries.iter().map(|e| e.1.clone()).collect()),
        ("R", bundled.http_response.entries.iter().map(|e| e.1.clone()).collect())];
    for (k, db) in &hcols {
        let text = p_entries(db, p_http);
        for _ in 0..tier.scale(60, 500) { let o = g_http_obs(r, db); out.push(format!("{} {} {}", k, p_http(&o), text)); }
        for _ in 0..tier.scale(150, 3000) {
            let a = r.below(db.len() as u64) as usize; let b = (a + r.range(1, 12) as usize).min(db.len());
            let slice = &db[a..b];
            let o = g_http_obs(r, slice); out.push(format!("{} {} {}", k, p_http(&o), p_entries(slice, p_http)));
        }
    }
    // ---- stream 4: crowded labels (positions beyond a byte): 257..600 near-duplicate signatures under one label, every
    //      distinguishing field variant, observations aimed at positions 255,256,257,300,511,512,513,last and their aliases
    //      modulo 256; a second label before / after the crowded one; more than 256 labels ----
    for round in 0..tier.scale(1, 5) {
        for variant in 0..4u64 {
            let n = r.range(257, 330) as usize;
            let sizes: Vec<usize> = match (variant + round as u64) % 3 { 0 => vec![n], 1 => vec![r.range(1, 5) as usize, n], _ => vec![n, r.range(1, 5) as usize] };
            crowd_tcp_cases(r, variant, &sizes, out);
        }
        for variant in 0..3u64 {
            let n = r.range(257, 330) as usize;
            let sizes: Vec<usize> = match (variant + round as u64) % 3 { 0 => vec![r.range(1, 5) as usize, n], 1 => vec![n], _ => vec![n, r.range(1, 5) as usize] };
            crowd_http_cases(r, variant, &sizes, out);
        }
        // beyond 512, two crowded labels
        let v = r.below(4); let sizes = [r.range(514, 600) as usize, r.range(257, 300) as usize];
        crowd_tcp_cases(r, v, &sizes, out);
        let v = r.below(2); let sizes = [r.range(257, 300) as usize, r.range(514, 600) as usize];
        crowd_http_cases(r, v, &sizes, out);
        many_labels_cases(r, out);
    }
    // ---- stream 5: positions beyond 2^16 (compact notation, expanded on both sides): the winner at signature / label
    //      position 65 536, 65 537, 2*65 536+k (fixed for every seed) and random further ones; a worse-but-accepting or
    //      rejecting entry, a filler entry or an empty label at the alias position modulo 65 536 ----
    //      Cost: the model's association-list index makes one such TCP case take 2-7 s and an HTTP case with 65 536
    //      signatures under ONE label about a minute (only four HTTP index buckets exist), so the latter runs in the
    //      thorough tier only; the cases are spread over the whole list so that the parallel shards share them.
    let mut wide: Vec<String> = vec![];
    wide_tcp_cases(r, tier.scale(3, 8), tier.scale(3, 8), &mut wide);
    wide_http_cases(r, tier.scale(0, 2), tier.scale(3, 8), &mut wide);
    let step = out.len() / (wide.len() + 1);
    for (i, w) in wide.into_iter().enumerate().rev() { out.insert((i + 1) * step, w); }
}

fn main() { main_cli(gen, run) }
