//! Abstract HTTP/1.x message (RFC 7230 section 3) and its wire rendering.
use hnv_common::*;

pub struct Item { pub pre: Vec<u8>, pub tag: Vec<u8>, pub w: Option<(Vec<u8>, Vec<u8>, Vec<u8>)>, pub post: Vec<u8>, pub upper_q: bool }
pub enum Val { Raw(Vec<u8>), Lang(Vec<Item>) }
pub struct H { pub name: Vec<u8>, pub o1: Vec<u8>, pub v: Val, pub o2: Vec<u8> }
pub enum Start { Req { method: String, target: Vec<u8>, v: u8 }, Resp { v: u8, status: String, reason: Vec<u8> } }
pub struct Msg { pub start: Start, pub hs: Vec<H> }

fn hx(b: &[u8]) -> String { hex(b) }

pub fn enc_val(v: &Val) -> String {
    match v {
        Val::Raw(b) => format!("r{}", hx(b)),
        Val::Lang(items) => format!("l{}", items.iter().map(|i| {
            let w = match &i.w { None => "n".to_string(), Some((a, b, q)) => format!("{}{}_{}_{}", if i.upper_q { "W" } else { "w" }, hx(a), hx(b), hx(q)) };
            format!("{}.{}.{}.{}", hx(&i.pre), hx(&i.tag), w, hx(&i.post))
        }).collect::<Vec<_>>().join(",")),
    }
}
pub fn encode(m: &Msg, body: &[u8]) -> String {
    let mut s = match &m.start {
        Start::Req { method, target, v } => format!("QM {} {} {} {}", method, hex_or_dash(target), v, m.hs.len()),
        Start::Resp { v, status, reason } => format!("SM {} {} {} {}", v, status, hex_or_dash(reason), m.hs.len()),
    };
    for h in &m.hs {
        s.push_str(&format!(" {} {} {} {}", hex_or_dash(&h.name), hex_or_dash(&h.o1), enc_val(&h.v), hex_or_dash(&h.o2)));
    }
    s.push_str(&format!(" B {}", hex_or_dash(body)));
    s
}

fn dec_val(t: &str) -> Val {
    if let Some(r) = t.strip_prefix('r') { return Val::Raw(unhex(r)); }
    let r = t.strip_prefix('l').expect("value token");
    if r.is_empty() { return Val::Lang(vec![]); }
    Val::Lang(r.split(',').map(|it| {
        let p: Vec<&str> = it.split('.').collect();
        let w = if p[2] == "n" { None } else {
            let q: Vec<&str> = p[2][1..].split('_').collect();
            Some((unhex(q[0]), unhex(q[1]), unhex(q[2])))
        };
        Item { pre: unhex(p[0]), tag: unhex(p[1]), w, post: unhex(p[3]), upper_q: p[2].starts_with('W') }
    }).collect())
}
pub fn decode(toks: &[&str]) -> (Msg, Vec<u8>) {
    let (start, n, mut i) = if toks[0] == "QM" {
        (Start::Req { method: toks[1].to_string(), target: unhex_or_dash(toks[2]), v: toks[3].parse().unwrap() }, toks[4].parse::<usize>().unwrap(), 5)
    } else {
        (Start::Resp { v: toks[1].parse().unwrap(), status: toks[2].to_string(), reason: unhex_or_dash(toks[3]) }, toks[4].parse::<usize>().unwrap(), 5)
    };
    let mut hs = Vec::new();
    for _ in 0..n {
        hs.push(H { name: unhex_or_dash(toks[i]), o1: unhex_or_dash(toks[i + 1]), v: dec_val(toks[i + 2]), o2: unhex_or_dash(toks[i + 3]) });
        i += 4;
    }
    assert_eq!(toks[i], "B");
    (Msg { start, hs }, unhex_or_dash(toks[i + 1]))
}

pub fn render_val(v: &Val) -> Vec<u8> {
    match v {
        Val::Raw(b) => b.clone(),
        Val::Lang(items) => {
            let mut o = Vec::new();
            for (k, i) in items.iter().enumerate() {
                if k > 0 { o.push(b','); }
                o.extend_from_slice(&i.pre); o.extend_from_slice(&i.tag);
                if let Some((a, b, q)) = &i.w { o.extend_from_slice(a); o.push(b';'); o.extend_from_slice(b); o.extend_from_slice(if i.upper_q { b"Q=" } else { b"q=" }); o.extend_from_slice(q); }
                o.extend_from_slice(&i.post);
            }
            o
        }
    }
}
/// start-line CRLF *( field-name ":" OWS field-value OWS CRLF ) CRLF
pub fn render(m: &Msg) -> Vec<u8> {
    let mut o = Vec::new();
    let vs = |v: &u8| if *v == 0 { "HTTP/1.0" } else { "HTTP/1.1" };
    match &m.start {
        Start::Req { method, target, v } => { o.extend_from_slice(method.as_bytes()); o.push(b' '); o.extend_from_slice(target); o.push(b' '); o.extend_from_slice(vs(v).as_bytes()); }
        Start::Resp { v, status, reason } => { o.extend_from_slice(vs(v).as_bytes()); o.push(b' '); o.extend_from_slice(status.as_bytes()); o.push(b' '); o.extend_from_slice(reason); }
    }
    o.extend_from_slice(b"\r\n");
    for h in &m.hs {
        o.extend_from_slice(&h.name); o.push(b':'); o.extend_from_slice(&h.o1); o.extend_from_slice(&render_val(&h.v)); o.extend_from_slice(&h.o2);
        o.extend_from_slice(b"\r\n");
    }
    o.extend_from_slice(b"\r\n");
    o
}
