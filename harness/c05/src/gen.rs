//! Case generators for C05: structured messages from the RFC 7230 grammar x bodies, malformed
//! heads, exhaustive language-code sweep.
use crate::ast::*;
use hnv_common::*;

pub const METHODS: &[&str] = &["GET", "POST", "PUT", "DELETE", "HEAD", "OPTIONS", "PATCH", "TRACE", "CONNECT", "PROPFIND",
    "PROPPATCH", "MKCOL", "COPY", "MOVE", "LOCK", "UNLOCK", "MKCALENDAR", "REPORT"];
const REQ_NAMES: &[&str] = &["Host", "host", "HOST", "User-Agent", "user-agent", "USER-AGENT", "Accept", "accept", "Accept-Encoding",
    "Accept-Charset", "Connection", "connection", "Keep-Alive", "Cache-Control", "cache-control", "Origin", "Range", "Via",
    "X-Forwarded-For", "Authorization", "If-None-Match", "If-Modified-Since", "Proxy-Authorization", "Content-Length", "Content-Type",
    "Upgrade-Insecure-Requests", "DNT", "X-Requested-With", "Pragma", "TE"];
const RESP_NAMES: &[&str] = &["Server", "server", "SERVER", "Date", "date", "Content-Type", "content-type", "Content-Length", "Connection",
    "Keep-Alive", "Accept-Ranges", "Set-Cookie", "set-cookie", "Last-Modified", "ETag", "Etag", "Cache-Control", "Expires", "Pragma",
    "Location", "Vary", "Content-Encoding", "Transfer-Encoding", "X-Powered-By", "Content-Disposition", "Refresh", "Content-Range", "Age"];
const TCHAR: &[u8] = b"!#$%&'*+-.^_`|~0123456789ABCDEFGHIJKLMNOPQRSTUVWXYZabcdefghijklmnopqrstuvwxyz";
const OWS: &[&str] = &["", "", "", " ", " ", "  ", "\t", " \t", "\t "];
const TEXTS: &[&str] = &["", "a", "example.com", "www.example.org:8080", "*/*", "text/html,application/xhtml+xml;q=0.9,*/*;q=0.8",
    "gzip, deflate, br", "keep-alive", "close", "Mozilla/5.0 (X11; Linux x86_64; rv:109.0) Gecko/20100101 Firefox/115.0",
    "curl/8.4.0", "Apache/2.4.57 (Debian)", "nginx", "no-cache", "max-age=0", "a: b", "x:y:z", "v = 1; w", "caf\u{e9}", "\u{65e5}\u{672c}\u{8a9e}",
    "na\u{ef}ve \u{1f600} text", "\u{a1}Hola!", "\u{2026}", "tab\tinside", "two  spaces", "Mon, 01 Jan 2024 00:00:00 GMT", "text/html; charset=utf-8",
    "1234", "0", "W/\"abc\"", "\u{212a}elvin", "\u{e2}\u{20ac}", "\u{3b1}\u{3b2}\u{3b3}", "\u{1f4a9}"];
const COOKIES: &[&str] = &["a=b", "a=b; c=d", "sid=abc123; theme=dark; lang=en", "a=b;c=d", "flag", "a=b; flag; c=", "k=v=w", "a = b ; c = d",
    "a=b;; c=d", ";", "", "=v", "n=\u{e9}", "a=b;  c=d  ", "x=1; x=2"];
const REFERERS: &[&str] = &["http://example.com/", "https://a.b/c?d=e&f=g", "", "about:blank"];
const KNOWN_LANGS: &[&str] = &["en", "fr", "de", "es", "ja", "zh", "pt", "ru", "it", "nl", "sv", "he", "ar"];
const TAGS: &[&str] = &["en-US", "en-GB", "fr-CA", "zh-Hans-CN", "xx", "zz-ZZ", "*", "EN", "En-us", "i-klingon", "e", "eng", "q", "en-"];
const QVALS: &[&str] = &["0.5", "0.8", "0.9", "1", "1.0", "0", "0.", "0.123", "1.000", "0.7", "0.1", "0.01", "0.001", "0.99", "0.50", "0.500", "1."];
const RAW_AL: &[&str] = &["en;q=1e-1,fr;q=0.5", "en;q=+0.5,fr", "en;q=0.1234,fr;q=0.123", "en;q=inf", "en;q=nan,fr;q=0.1", "en;q=abc,fr", "en;q=,fr;q=0.9",
    "en;q=q=0.5,fr;q=0.6", "en;Q=0.5,fr;q=0.6", "fr;level=1;q=0.5,en;q=0.6", "en; q=0.5, fr; q=0.9", "en;q=0.5 ,fr;q=0.4", "en;q=2,fr;q=10", "en;q=999.999,fr;q=1000",
    "en;q=-1,fr;q=0.1", "en;q=.5,fr;q=0.4", "en;q=5.,fr", ",,en", ";q=0.5,fr", "-en,fr;q=0.1", "en;q=0.5;q=0.9", "en;q=1E2", "en;q=Infinity", "en;q=0x10", "en;q=1_0",
    " en , fr ", "en,en;q=0.5", "\u{3000}en\u{3000};q=0.5", "en;q=0.5\u{a0}", "xx;q=nan,en", "en;q = 0.5,fr;q=0.4", "en;\tq=0.5\t,fr; q=0.6 ", "EN;q=0.5,Fr-ca;q=0.6", "en;q= 0.5,fr;q=0.4", "en;\u{a0}q=0.5\u{3000},fr;q=0.6", "en; q=q=0.5,fr;q=0.6", "eN-US,XX", "en;q=0.0001,fr;q=0.0002", "de;q=1.0000"];
const STATUSES: &[&str] = &["200", "204", "301", "302", "304", "400", "404", "500", "503", "100", "101", "999", "000"];
const REASONS: &[&str] = &["OK", "", "Not Found", "Moved Permanently", "No Content", "Internal Server Error", "\u{d1}o", "OK  extra   words"];

fn token(r: &mut Rng) -> Vec<u8> { let n = r.range(1, 12) as usize; (0..n).map(|_| *r.pick(TCHAR)).collect() }
fn ows(r: &mut Rng) -> Vec<u8> { r.pick(OWS).as_bytes().to_vec() }
fn recase(r: &mut Rng, s: &str) -> Vec<u8> {
    match r.below(4) { 0 => s.to_ascii_lowercase().into_bytes(), 1 => s.to_ascii_uppercase().into_bytes(),
        2 => s.bytes().map(|b| if r.chance(1, 2) { b.to_ascii_uppercase() } else { b.to_ascii_lowercase() }).collect(), _ => s.as_bytes().to_vec() }
}
fn text(r: &mut Rng) -> Vec<u8> {
    if r.chance(1, 6) { let n = r.range(0, 40) as usize; (0..n).map(|_| r.range(0x21, 0x7e) as u8).collect() }
    else { r.pick(TEXTS).as_bytes().to_vec() }
}
pub fn lang_item(r: &mut Rng, tidy: bool) -> Item {
    let tag = if r.chance(2, 3) {
        let l = *r.pick(KNOWN_LANGS);
        if r.chance(1, 3) { format!("{}-{}", l, r.pick(&["US", "GB", "419", "Latn", "x-y"])) } else { l.to_string() }
    } else { r.pick(TAGS).to_string() };
    let w = if r.chance(2, 3) {
        let (a, b) = if tidy || r.chance(3, 4) { (vec![], vec![]) } else { (ows(r), ows(r)) };
        let q = if r.chance(1, 2) { r.pick(QVALS).as_bytes().to_vec() } else { let k = if r.chance(1, 3) { *r.pick(EDGE_K) } else { r.below(1001) as u32 }; qtext(k, r.next()) };
        Some((a, b, q))
    } else { None };
    let (pre, post) = if tidy { (vec![], vec![]) } else { (if r.chance(1, 2) { b" ".to_vec() } else { ows(r) }, if r.chance(1, 6) { ows(r) } else { vec![] }) };
    let upper_q = w.is_some() && !tidy && r.chance(1, 25);
    Item { pre, tag: tag.into_bytes(), w, post, upper_q }
}
/// RFC 7231 qvalue text of k thousandths (0..=1000); `form` picks among the equivalent spellings
/// ("0.5" / "0.50" / "0.500", "1" / "1." / "1.0" / "1.00" / "1.000", "0" / "0." / "0.0" ..).
pub fn qtext(k: u32, form: u64) -> Vec<u8> {
    if k >= 1000 { return [&b"1"[..], b"1.", b"1.0", b"1.00", b"1.000"][(form % 5) as usize].to_vec(); }
    let full = format!("0.{:03}", k);
    let min_len = if k == 0 { 1 } else { full.trim_end_matches('0').len() };   // "0" / shortest exact spelling
    let lens: Vec<usize> = (min_len..=5).filter(|&l| l != 1 || k == 0).collect();
    let l = lens[(form % lens.len() as u64) as usize];
    if l == 1 { b"0".to_vec() } else { full.as_bytes()[..l.max(2)].to_vec() }
}
fn witem(tag: &str, k: Option<u32>, form: u64, pre: &[u8]) -> Item {
    Item { pre: pre.to_vec(), tag: tag.as_bytes().to_vec(), w: k.map(|k| (vec![], vec![], qtext(k, form))), post: vec![], upper_q: false }
}
fn al_case(items: Vec<Item>) -> String {
    encode(&Msg { start: Start::Req { method: "GET".into(), target: b"/".to_vec(), v: 1 },
        hs: vec![H { name: b"Accept-Language".to_vec(), o1: b" ".to_vec(), v: Val::Lang(items), o2: vec![] }] }, &[])
}
/// Two (or three) languages of the table whose weights differ by a few thousandths: the ranking must
/// use the full three decimals (a key rounded to hundredths makes them tie and the earlier one win).
fn close_weights(r: &mut Rng, out: &mut Vec<String>) {
    let a = *r.pick(KNOWN_LANGS);
    let mut b = *r.pick(KNOWN_LANGS);
    while b == a { b = *r.pick(KNOWN_LANGS); }
    let d = r.range(1, 9) as u32;
    let lo = match r.below(4) { 0 => r.range(985, 1000 - d as u64) as u32, 1 => r.range(0, 15) as u32, _ => r.range(0, 1000 - d as u64) as u32 };
    let hi = lo + d;
    let sep: &[u8] = if r.chance(1, 2) { b"" } else { b" " };
    let (f1, f2) = (r.next(), r.next());
    // the larger weight later (the discriminating order) and earlier
    out.push(al_case(vec![witem(a, Some(lo), f1, b""), witem(b, Some(hi), f2, sep)]));
    out.push(al_case(vec![witem(a, Some(hi), f1, b""), witem(b, Some(lo), f2, sep)]));
    // a third entry: unknown tag with the top weight, or a known language far below / in between
    let mut c = *r.pick(KNOWN_LANGS);
    while c == a || c == b { c = *r.pick(KNOWN_LANGS); }
    match r.below(3) {
        0 => out.push(al_case(vec![witem("xx", None, 0, b""), witem(a, Some(lo), f1, sep), witem(b, Some(hi), f2, sep)])),
        1 => out.push(al_case(vec![witem(a, Some(lo), f1, b""), witem(c, Some(lo / 2), f2, sep), witem(b, Some(hi), f2, sep)])),
        _ => { let mid = lo + r.below(d as u64 + 1) as u32;
               out.push(al_case(vec![witem(a, Some(lo), f1, b""), witem(c, Some(mid), f2, sep), witem(b, Some(hi), f1, sep)])); }
    }
}
const EDGE_K: &[u32] = &[0, 1, 4, 5, 6, 9, 10, 11, 14, 15, 16, 494, 495, 496, 499, 500, 501, 504, 505, 506, 985, 989, 990, 994, 995, 996, 999, 1000];

pub fn lang_list(r: &mut Rng) -> Vec<Item> {
    let n = r.range(1, 6) as usize;
    let tidy = r.chance(1, 3);
    let mut v: Vec<Item> = (0..n).map(|_| lang_item(r, tidy)).collect();
    if r.chance(1, 5) && !v.is_empty() { let k = r.below(v.len() as u64) as usize; let d = Item { pre: v[k].pre.clone(), tag: v[k].tag.clone(), w: v[k].w.clone(), post: v[k].post.clone(), upper_q: v[k].upper_q }; v.push(d); }
    if let Some(f) = v.first_mut() { f.pre.clear(); }
    if let Some(l) = v.last_mut() { l.post.clear(); }
    v
}
fn header(r: &mut Rng, req: bool) -> H {
    let (o1, o2) = (ows(r), ows(r));
    if req {
        match r.below(12) {
            0 => return H { name: recase(r, "Cookie"), o1, v: Val::Raw(r.pick(COOKIES).as_bytes().to_vec()), o2 },
            1 => return H { name: recase(r, "Referer"), o1, v: Val::Raw(r.pick(REFERERS).as_bytes().to_vec()), o2 },
            2 | 3 => return H { name: recase(r, "Accept-Language"), o1, v: Val::Lang(lang_list(r)), o2 },
            _ => {}
        }
    }
    let pool: &[&str] = if req { REQ_NAMES } else { RESP_NAMES };
    let name = match r.below(8) { 0 => token(r), 1 => { let n = *r.pick(pool); recase(r, n) }, _ => r.pick(pool).as_bytes().to_vec() };
    H { name, o1, v: Val::Raw(text(r)), o2 }
}
fn target(r: &mut Rng) -> Vec<u8> {
    match r.below(5) { 0 => b"/".to_vec(), 1 => b"*".to_vec(), 2 => b"/index.html?a=1&b=%20".to_vec(), 3 => b"http://example.com:8080/p".to_vec(),
        _ => { let n = r.range(1, 30) as usize; let mut t = vec![b'/']; t.extend((0..n).map(|_| r.range(0x21, 0x7e) as u8)); t } }
}
pub fn message(r: &mut Rng, req: bool, nh: usize) -> Msg {
    let start = if req {
        let m = if r.chance(1, 12) { METHODS[16 + r.below(2) as usize] } else { METHODS[r.below(16) as usize] };
        Start::Req { method: m.to_string(), target: target(r), v: r.below(2) as u8 }
    } else {
        Start::Resp { v: r.below(2) as u8, status: r.pick(STATUSES).to_string(), reason: r.pick(REASONS).as_bytes().to_vec() }
    };
    let mut hs: Vec<H> = (0..nh).map(|_| header(r, req)).collect();
    if r.chance(1, 4) && !hs.is_empty() {   // duplicate a header name (another value)
        let k = r.below(hs.len() as u64) as usize;
        let mut d = header(r, req);
        if let Val::Raw(_) = hs[k].v { if let Val::Raw(_) = d.v { d.name = if r.chance(1, 2) { hs[k].name.clone() } else { recase(r, std::str::from_utf8(&hs[k].name).unwrap_or("X")) }; } }
        let at = r.below(hs.len() as u64 + 1) as usize;
        hs.insert(at, d);
    }
    Msg { start, hs }
}
pub fn body(r: &mut Rng) -> Vec<u8> {
    match r.below(14) {
        0 | 1 => vec![],
        2 => b"hello world".to_vec(),
        3 => b"line one\r\nline two\r\n\r\nafter blank\r\n".to_vec(),
        4 => b"bare\nline\n\nfeeds\n".to_vec(),
        5 => b"\nleading LF".to_vec(),
        6 => b"\r\nX-Injected: 1\r\nHost: evil\r\n\r\n".to_vec(),
        7 => b"Cookie: z=9\r\nAccept-Language: ja\r\n\r\n".to_vec(),
        8 => { let mut b = vec![0x1f, 0x8b, 0x08, 0x00]; let k = r.range(4, 40) as usize; b.extend(r.bytes(k)); b }
        9 => vec![0xff, 0xfe, 0x00],
        10 => { let mut b = vec![0xc3]; b.extend(r.bytes(3)); b }            // truncated / invalid UTF-8
        11 => b"GET /second HTTP/1.1\r\nHost: b\r\n\r\n".to_vec(),
        12 => "\u{3000}\u{e9}\u{1f600}".as_bytes().to_vec(),
        _ => { let k = r.range(1, 64) as usize; r.bytes(k) }
    }
}
fn nheaders(r: &mut Rng) -> usize {
    match r.below(20) { 0 => 0, 1 => 1, 2 => 100, 3 => 99, 4 => r.range(60, 100) as usize, 5 => r.range(20, 60) as usize, _ => r.range(1, 12) as usize }
}

fn mutate(r: &mut Rng, wire: &[u8], out: &mut Vec<Vec<u8>>) {
    let n = wire.len();
    // truncations
    for _ in 0..3 { out.push(wire[..r.below(n as u64 + 1) as usize].to_vec()); }
    out.push(wire[..n.saturating_sub(1)].to_vec()); out.push(wire[..n.saturating_sub(2)].to_vec());
    // CRLF -> bare LF (all / one)
    let s: Vec<u8> = { let mut o = Vec::new(); let mut i = 0; while i < n { if wire[i] == b'\r' && i + 1 < n && wire[i + 1] == b'\n' { o.push(b'\n'); i += 2; } else { o.push(wire[i]); i += 1; } } o };
    out.push(s);
    if let Some(p) = wire.windows(2).position(|w| w == b"\r\n") { let mut o = wire.to_vec(); o.remove(p); out.push(o); let mut o = wire.to_vec(); o.remove(p + 1); out.push(o); }
    // missing colon / leading colon
    if let Some(p) = wire.iter().position(|&b| b == b':') { let mut o = wire.to_vec(); o.remove(p); out.push(o);
        let ls = wire[..p].iter().rposition(|&b| b == b'\n').map(|x| x + 1).unwrap_or(0); let mut o = wire.to_vec(); o.insert(ls, b':'); out.push(o);
        let mut o = wire.to_vec(); o.insert(ls, b' '); out.push(o); }
    // byte flips / insertions
    for _ in 0..4 { let mut o = wire.to_vec(); if n > 0 { let k = r.below(n as u64) as usize; o[k] ^= 1 << r.below(8); } out.push(o); }
    for ins in [&b"\r"[..], b"\n", b"\r\n", b" ", b"\t", b"\x0b", b"\xc2\xa0", b"\xe2\x80\x83", b"\xe3\x80\x80", b"\xc2\x85", b"\xe1\x9a\x80", b"\xff", b"\xe2\x84\xaa", b"\xe2\x80"] {
        let mut o = wire.to_vec(); let k = r.below(n as u64 + 1) as usize; for (j, b) in ins.iter().enumerate() { o.insert(k + j, *b); } out.push(o);
    }
    // white space placed at the edges of the first header value / name
    if let Some(p) = wire.iter().position(|&b| b == b':') {
        for ins in [&b"\xc2\xa0"[..], b"\xe3\x80\x80", b"\xe2\x80\xa8", b"\x0c", b"\xe2\x81\x9f", b"\xe2\x80\xaf"] {
            let mut o = wire.to_vec(); for (j, b) in ins.iter().enumerate() { o.insert(p + 1 + j, *b); } out.push(o);
            if let Some(e) = wire[p..].windows(2).position(|w| w == b"\r\n") { let mut o = wire.to_vec(); for (j, b) in ins.iter().enumerate() { o.insert(p + e + j, *b); } out.push(o); }
            let mut o = wire.to_vec(); for (j, b) in ins.iter().enumerate() { o.insert(p + j, *b); } out.push(o);
        }
    }
    // leading junk
    for pre in [&b" "[..], b"\r\n", b"\n", b"\x00\x00\x04\x01", b"\x00\x00\x00\x04\x00\x00\x00\x00\x00"] { let mut o = pre.to_vec(); o.extend_from_slice(wire); out.push(o); }
}

pub fn gen(r: &mut Rng, tier: &Tier, out: &mut Vec<String>) {
    // ---- structured: messages x bodies ----
    let nmsg = tier.scale(900, 12000);
    for i in 0..nmsg {
        let req = i % 2 == 0;
        let nh = nheaders(r);
        let m = message(r, req, nh);
        let nb = if nh > 40 { 1 } else { 3 };
        for _ in 0..nb { out.push(encode(&m, &body(r))); }
    }
    // Accept-Language focus: one header, many lists
    for _ in 0..tier.scale(1500, 20000) {
        let m = Msg { start: Start::Req { method: "GET".into(), target: b"/".to_vec(), v: 1 },
            hs: vec![H { name: recase(r, "Accept-Language"), o1: ows(r), v: Val::Lang(lang_list(r)), o2: ows(r) }] };
        out.push(encode(&m, &[]));
    }
    // weights a few thousandths apart, both orders, random spellings
    for _ in 0..tier.scale(400, 6000) { close_weights(r, out); }
    // rounding boundaries: every ordered pair of edge weights for one fixed pair of languages, and each
    // edge weight against the default weight (no q parameter) in both orders
    for (i, &x) in EDGE_K.iter().enumerate() { for (j, &y) in EDGE_K.iter().enumerate() {
        out.push(al_case(vec![witem("de", Some(x), (i + j) as u64, b""), witem("fr", Some(y), (i * 3 + j) as u64, b" ")]));
    }}
    for (i, &x) in EDGE_K.iter().enumerate() {
        out.push(al_case(vec![witem("it", Some(x), i as u64, b""), witem("en", None, 0, b"")]));
        out.push(al_case(vec![witem("en", None, 0, b""), witem("it", Some(x), i as u64, b"")]));
    }
    // exhaustive-small over the 1001 three-decimal weights for one fixed pair: the later entry larger by d
    // (quick: d in {1, 5, 9} and the reverse order for d = 1; thorough: every |d| <= 12, both orders)
    let ds: Vec<i32> = if tier.thorough { (-12..=12).filter(|d| *d != 0).collect() } else { vec![1, 5, 9, -1] };
    for k in 0..=1000i32 { for &d in &ds {
        let y = k + d;
        if !(0..=1000).contains(&y) { continue; }
        out.push(al_case(vec![witem("es", Some(k as u32), 4, b""), witem("ja", Some(y as u32), 4, b"")]));
    }}
    if tier.thorough {   // uniformly random pairs of weights and spellings
        for _ in 0..30000 {
            let (x, y) = (r.below(1001) as u32, r.below(1001) as u32);
            let (f1, f2) = (r.next(), r.next());
            out.push(al_case(vec![witem("pt", Some(x), f1, b""), witem("ru", Some(y), f2, b" ")]));
        }
    }
    for al in RAW_AL { for name in ["Accept-Language", "accept-language"] {
        let m = Msg { start: Start::Req { method: "GET".into(), target: b"/".to_vec(), v: 1 },
            hs: vec![H { name: name.as_bytes().to_vec(), o1: b" ".to_vec(), v: Val::Raw(al.as_bytes().to_vec()), o2: vec![] }] };
        out.push(encode(&m, &[]));
    }}
    // every method x both versions, no headers / one header
    for m in METHODS { for v in 0..2u8 { for nh in 0..2 {
        let hs = if nh == 0 { vec![] } else { vec![H { name: b"Host".to_vec(), o1: b" ".to_vec(), v: Val::Raw(b"a".to_vec()), o2: vec![] }] };
        out.push(encode(&Msg { start: Start::Req { method: m.to_string(), target: b"/".to_vec(), v }, hs }, b"\xff\xfe\x00"));
    }}}
    for m in ["PRI", "get", "Get", "FOO", "SEARCH", "PURGE", "MKCALENDARX", "REPOR"] {
        out.push(encode(&Msg { start: Start::Req { method: m.to_string(), target: b"/".to_vec(), v: 1 }, hs: vec![] }, b""));
    }
    // caps: 100 / 101 headers, 8192 / 8193-byte lines
    for (req, n) in [(true, 100usize), (true, 101), (false, 100), (false, 101), (true, 102)] {
        let mut m = message(r, req, 0);
        m.hs = (0..n).map(|k| H { name: format!("X-H{}", k).into_bytes(), o1: b" ".to_vec(), v: Val::Raw(format!("{}", k).into_bytes()), o2: vec![] }).collect();
        out.push(encode(&m, b"tail"));
    }
    for req in [true, false] { for total in [8191usize, 8192, 8193] {
        let mut m = message(r, req, 1);
        let name = b"X-Long".to_vec();
        m.hs = vec![H { name: name.clone(), o1: b" ".to_vec(), v: Val::Raw(vec![b'v'; total - name.len() - 2]), o2: vec![] }];
        out.push(encode(&m, b""));
        if req { let t = vec![b'a'; total - "GET  HTTP/1.1".len() - 1]; let mut tt = vec![b'/']; tt.extend(t);
            out.push(encode(&Msg { start: Start::Req { method: "GET".into(), target: tt, v: 1 }, hs: vec![] }, b"")); }
    }}
    // ---- exhaustive-small: every two-letter code against the language table ----
    for a in b'a'..=b'z' { for b in b'a'..=b'z' {
        let m = Msg { start: Start::Req { method: "GET".into(), target: b"/".to_vec(), v: 1 },
            hs: vec![H { name: b"Accept-Language".to_vec(), o1: b" ".to_vec(), v: Val::Lang(vec![Item { pre: vec![], tag: vec![a, b], w: None, post: vec![], upper_q: false }]), o2: vec![] }] };
        out.push(encode(&m, &[]));
    }}
    // ---- malformed heads (raw bytes) ----
    let nmal = tier.scale(60, 800);
    for i in 0..nmal {
        let req = i % 2 == 0;
        let k = r.range(0, 5) as usize; let m = message(r, req, k);
        let wire = render(&m);
        let mut v = Vec::new();
        mutate(r, &wire, &mut v);
        for w in v {
            out.push(format!("{} {}", if req { "Q" } else { "S" }, hex_or_dash(&w)));
            if r.chance(1, 6) { out.push(format!("{} {}", if req { "S" } else { "Q" }, hex_or_dash(&w))); }
        }
    }
    let fixed: &[&[u8]] = &[b"", b"GET", b"GET / HTTP/1.1\r\n", b"GET / HTTP/1.1\r\n\r\n", b"GET / HTTP/1.1\n\n", b"GET / HTTP/1.1\r\n\n", b"GET / HTTP/1.1\n\r\n",
        b"GET  /  HTTP/1.1\r\n\r\n", b"GET\t/\tHTTP/1.1\r\n\r\n", b"GET / HTTP/1.1 \r\n\r\n", b"GET / x HTTP/1.1\r\n\r\n", b"GET / HTTP/2.0\r\nHost: a\r\n\r\n", b"GET / HTTP/3\r\nHost: a\r\n\r\n",
        b"GET / HTTP/1.2\r\nHost: a\r\n\r\n", b"PRI * HTTP/2.0\r\n\r\nSM\r\n\r\n", b"PRI * HTTP/2.0\r\n\r\nSM\r\n\r\n\x00\x00\x00\x04\x00\x00\x00\x00\x00",
        b"HTTP/1.1 200 OK\r\n\r\n", b"HTTP/1.1 200\r\n\r\n", b"HTTP/1.1 200 \r\n\r\n", b"HTTP/1.1  200 OK\r\n\r\n", b"HTTP/1.1 +20 OK\r\n\r\n", b"HTTP/1.1 2000 OK\r\n\r\n", b"HTTP/1.1 20 OK\r\n\r\n",
        b"HTTP/1.1 2x0 OK\r\n\r\n", b"HTTP/2.0 200 OK\r\n\r\n", b"HTTP/1.0 404 Not Found\nServer: x\n\n", b"HTTP/1.1 200 OK\nServer: a\r\nDate: b\r\n\r\n", b"HTTP/1.1 200 OK\r\nServer: a\nDate: b\n\n",
        b"GET / HTTP/1.1\r\nHost: a\r\n\r\n\xff\xfe\x00", b"GET / HTTP/1.1\r\nHost: \xff\r\n\r\n", b"GET /\xff HTTP/1.1\r\nHost: a\r\n\r\n", b"GET / HTTP/1.1\r\nA: b\n\nC: d\r\n\r\n",
        b"GET / HTTP/1.1\r\n\r\nA: b\r\n\r\n", b"GET / HTTP/1.1\r\nHost: a\r\n\r", b"GET / HTTP/1.1\rHost: a\r\n\r\n", b"\x00\x00\x04\x01\x00\x00\x00\x00\x01abcd", b"\x00\x40\x00\x0a\x00\x00\x00\x00\x01",
        b"\x00\x40\x01\x00\x00\x00\x00\x00\x01", b"GET / HTTP/1.1\r\n: novalue\r\n :x\r\nA:\r\n\r\n", b"GET / HTTP/1.1\r\nCoo\xe2\x84\xaaie: a=b\r\nHOST\xe2\x84\xaa: x\r\n\r\n",
        b"GET / HTTP/1.1\r\nCookie: a=b\r\nCookie: c=d\r\nReferer: r1\r\nReferer: r2\r\n\r\n", b"GET / HTTP/1.1\xe2\x80\x83\r\n\r\n", b"GET\xc2\xa0/\xe3\x80\x80HTTP/1.1\r\n\r\n",
        b"GET / HTTP/1.1\r\nA: b\r\n\r\n\n", b"GET / HTTP/1.1\r\nA: b\n\n\r\n\r\n", b"GET / HTTP/1.1\r\nA: b\r\n\n\nC: d\r\n\r\n"];
    for f in fixed { out.push(format!("Q {}", hex_or_dash(f))); out.push(format!("S {}", hex_or_dash(f))); }
}
