//! C05 harness: HTTP/1.x heads through the public entry points
//! `HttpProcessors::parse_request` / `parse_response`.  Case grammar: coq/Extract/EC05.v.
//! The abstract-message cases (QM/SM) are rendered here by `render` — an implementation of the
//! RFC 7230 message syntax that is independent of the Gallina `render`.
use hnv_common::*;
use huginn_net_http::http_common::HttpProcessor;
use huginn_net_http::http_languages::get_highest_quality_language;
use huginn_net_http::http_process::HttpProcessors;
use huginn_net_http::observable::{ObservableHttpRequest, ObservableHttpResponse};
use huginn_net_http::Http2Processor;

mod ast;
mod gen;
use ast::*;

fn opt_hex(o: &Option<String>) -> String { match o { Some(v) => hex(v.as_bytes()), None => "-".into() } }
fn list<T>(xs: &[T], f: impl Fn(&T) -> String) -> String {
    if xs.is_empty() { "-".into() } else { xs.iter().map(f).collect::<Vec<_>>().join(",") }
}
fn ver(v: huginn_net_db::http::Version) -> &'static str {
    match v { huginn_net_db::http::Version::V10 => "HTTP/1.0", huginn_net_db::http::Version::V11 => "HTTP/1.1", _ => "?" }
}
fn is_h1(v: huginn_net_db::http::Version) -> bool {
    matches!(v, huginn_net_db::http::Version::V10 | huginn_net_db::http::Version::V11)
}

/// weights outside the domain on which the model reproduces f32 (see coq/Model/Lang.v)
fn simple_decimal(t: &str) -> bool {
    let b = t.as_bytes();
    let ip = b.iter().take_while(|c| c.is_ascii_digit()).count();
    if ip == 0 || ip > 3 { return false; }
    if ip == b.len() { return true; }
    if b[ip] != b'.' { return false; }
    let fp = &b[ip + 1..];
    fp.len() <= 3 && fp.iter().all(|c| c.is_ascii_digit())
}
fn lang_unspec(al: &str) -> bool {
    for part in al.split(',') {
        let mut it = part.split(';');
        let full = it.next().unwrap_or("").trim();
        if full.is_empty() { continue; }
        let language = full.split('-').next().unwrap_or("").to_string();
        if get_highest_quality_language(language).is_none() { continue; }
        if let Some(q) = it.next() {
            let t = q.trim().trim_start_matches("q=").trim_start_matches("Q=");
            if t.parse::<f32>().is_ok() && !simple_decimal(t) { return true; }
        }
    }
    false
}

fn show_req(o: &ObservableHttpRequest) -> String {
    let al = o.headers.iter().find(|h| h.name.to_lowercase() == "accept-language" && h.value.is_some()).and_then(|h| h.value.clone());
    let lang = match (&al, &o.lang) {
        (Some(a), _) if lang_unspec(a) => "UNSPEC".to_string(),
        (_, l) => opt_hex(l),
    };
    format!("{} {} {} hdr={} cookies={} referer={} ua={} lang={} sig={}",
        o.method.clone().unwrap_or_default(), hex(o.uri.clone().unwrap_or_default().as_bytes()), ver(o.matching.version),
        list(&o.headers, |h| format!("{}:{}:{}", hex(h.name.as_bytes()), opt_hex(&h.value), h.position)),
        list(&o.cookies, |c| format!("{}:{}:{}", hex(c.name.as_bytes()), opt_hex(&c.value), c.position)),
        opt_hex(&o.referer), opt_hex(&o.user_agent), lang, hex(o.matching.to_string().as_bytes()))
}
fn show_resp(o: &ObservableHttpResponse) -> String {
    format!("{} {} hdr={} sig={}", ver(o.matching.version), o.status_code.map(|s| s.to_string()).unwrap_or("-".into()),
        list(&o.headers, |h| format!("{}:{}:{}", hex(h.name.as_bytes()), opt_hex(&h.value), h.position)),
        hex(o.matching.to_string().as_bytes()))
}

fn h2_gate(d: &[u8]) -> bool { let p = Http2Processor::new(); p.can_process_request(d) || p.can_process_response(d) }

fn impl_request(d: &[u8]) -> String {
    match HttpProcessors::new().parse_request(d) {
        Some(o) if is_h1(o.matching.version) => show_req(&o),
        Some(_) => "UNSPEC".into(),
        None => if h2_gate(d) { "UNSPEC".into() } else { "NONE".into() },
    }
}
fn impl_response(d: &[u8]) -> String {
    match HttpProcessors::new().parse_response(d) {
        Some(o) if is_h1(o.matching.version) => show_resp(&o),
        Some(_) => "UNSPEC".into(),
        None => if h2_gate(d) { "UNSPEC".into() } else { "NONE".into() },
    }
}

fn run(line: &str) -> String {
    let toks: Vec<&str> = line.split_whitespace().collect();
    match toks[0] {
        "Q" => impl_request(&unhex_or_dash(toks[1])),
        "S" => impl_response(&unhex_or_dash(toks[1])),
        "QM" | "SM" => {
            let (msg, body) = decode(&toks);
            let head = render(&msg);
            let mut full = head.clone();
            full.extend_from_slice(&body);
            let f = if toks[0] == "QM" { impl_request } else { impl_response };
            let with_body = f(&full);
            let alone = f(&head);
            if with_body == alone { with_body }
            else { format!("{}\t!body-dependence: head alone gives {} but head+body gives {}", with_body, alone, with_body) }
        }
        _ => panic!("bad case"),
    }
}

fn main() { main_cli(gen::gen, run) }
