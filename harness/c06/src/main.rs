//! C06 harness: signature / label / token text through the real FromStr + Display impls of
//! huginn-net-db, whole database texts through Database::from_str with a dump of every public field.
//! Case grammar and result format: see coq/Extract/EC06.v.
use hnv_common::*;
use huginn_net_db::http::{Header, Signature as HttpSig, Version as HttpVersion};
use huginn_net_db::tcp::{IpVersion, PayloadSize, Quirk, Signature as TcpSig, TcpOption, Ttl, WindowSize};
use huginn_net_db::{Database, Label, Type};
use std::fmt::Display;
use std::str::FromStr;

const P0F: &str = "/repo/huginn-net-db/config/p0f.fp";

// ------------------------------------------------------------------ run
fn hexd(s: &str) -> String { hex_or_dash(s.as_bytes()) }
fn optb(o: &Option<String>) -> String { match o { Some(v) => format!("={}", hex(v.as_bytes())), None => "!".into() } }
fn ty(t: &Type) -> &'static str { match t { Type::Specified => "s", Type::Generic => "g" } }

fn tok<T: FromStr + Display>(s: &str) -> String {
    match s.parse::<T>() { Ok(v) => format!("OK {}", hexd(&v.to_string())), Err(_) => "ERR".into() }
}

fn dump_label(l: &Label) -> String {
    format!("l={}/{}/{}/{}", ty(&l.ty), optb(&l.class), hex(l.name.as_bytes()), optb(&l.flavor))
}
fn dump_table<S: Display>(name: &str, entries: &[(Label, Vec<S>)], out: &mut Vec<String>) {
    out.push(name.to_string());
    for (l, sigs) in entries {
        out.push(dump_label(l));
        for s in sigs { out.push(format!("s={}", hex(s.to_string().as_bytes()))); }
    }
}
fn count<S>(entries: &[(Label, Vec<S>)]) -> String {
    format!("{}/{}", entries.len(), entries.iter().map(|e| e.1.len()).sum::<usize>())
}
fn dump_db(d: &Database) -> String {
    let mut out = vec!["OK".to_string(), d.classes.len().to_string(), d.mtu.len().to_string(), d.ua_os.len().to_string(),
        count(&d.tcp_request.entries), count(&d.tcp_response.entries), count(&d.http_request.entries), count(&d.http_response.entries)];
    for c in &d.classes { out.push(format!("c={}", hex(c.as_bytes()))); }
    for (l, vs) in &d.mtu {
        out.push(format!("m={}", hex(l.as_bytes())));
        for v in vs { out.push(format!("v={}", v)); }
    }
    for (n, v) in &d.ua_os { out.push(format!("u={}/{}", hex(n.as_bytes()), optb(v))); }
    dump_table("TQ", &d.tcp_request.entries, &mut out);
    dump_table("TS", &d.tcp_response.entries, &mut out);
    dump_table("HQ", &d.http_request.entries, &mut out);
    dump_table("HS", &d.http_response.entries, &mut out);
    out.join(" ")
}

fn run(line: &str) -> String {
    let f: Vec<&str> = line.split_whitespace().collect();
    let text = match String::from_utf8(unhex_or_dash(f[f.len() - 1])) { Ok(t) => t, Err(_) => return "BADUTF8".into() };
    match f[0] {
        "T" => match text.parse::<TcpSig>() {
            Ok(s) => format!("OK {} {} {}", hexd(&s.to_string()), s.olayout.len(), s.quirks.len()),
            Err(_) => "ERR".into(),
        },
        "H" => match text.parse::<HttpSig>() {
            Ok(s) => format!("OK {} {} {}", hexd(&s.to_string()), s.horder.len(), s.habsent.len()),
            Err(_) => "ERR".into(),
        },
        "L" => match text.parse::<Label>() {
            Ok(l) => format!("OK {} {} {} {} {}", ty(&l.ty), optb(&l.class), hexd(&l.name), optb(&l.flavor), hexd(&l.to_string())),
            Err(_) => "ERR".into(),
        },
        "K" => match f[1] {
            "ver" => tok::<IpVersion>(&text),
            "ttl" => tok::<Ttl>(&text),
            "win" => tok::<WindowSize>(&text),
            "opt" => tok::<TcpOption>(&text),
            "quirk" => tok::<Quirk>(&text),
            "pc" => tok::<PayloadSize>(&text),
            "hdr" => tok::<Header>(&text),
            "ty" => tok::<Type>(&text),
            _ => panic!("bad kind"),
        },
        "D" => match Database::from_str(&text) { Ok(d) => dump_db(&d), Err(_) => "ERR".into() },
        _ => panic!("bad case"),
    }
}

// ------------------------------------------------------------------ generators
fn case(k: &str, s: &str) -> String { format!("{} {}", k, hex_or_dash(s.as_bytes())) }
fn kcase(kind: &str, s: &str) -> String { format!("K {} {}", kind, hex_or_dash(s.as_bytes())) }

const U8S: &[u32] = &[0, 1, 2, 7, 9, 10, 20, 32, 44, 60, 63, 64, 65, 99, 100, 127, 128, 199, 200, 249, 250, 254, 255];
const U16S: &[u32] = &[0, 1, 9, 10, 255, 256, 512, 1024, 1460, 4096, 8192, 16384, 32767, 32768, 65534, 65535];
const OVER: &[&str] = &["256", "257", "260", "299", "300", "999", "1000", "65536", "65537", "70000", "99999", "100000",
    "4294967296", "18446744073709551616", "00", "007", "0255", "00000000000000000000255", "0256", "065535", "065536"];

fn u8v(r: &mut Rng) -> u8 { if r.chance(1, 3) { r.below(256) as u8 } else { *r.pick(U8S) as u8 } }
fn u16v(r: &mut Rng) -> u16 { if r.chance(1, 3) { r.below(65536) as u16 } else { *r.pick(U16S) as u16 } }

fn all_quirks() -> Vec<Quirk> {
    use Quirk::*;
    vec![Df, NonZeroID, ZeroID, Ecn, MustBeZero, FlowID, SeqNumZero, AckNumNonZero, AckNumZero, NonZeroURG, Urg, Push,
         OwnTimestampZero, PeerTimestampNonZero, TrailinigNonZero, ExcessiveWindowScaling, OptBad]
}
fn gen_ttl(r: &mut Rng) -> Ttl {
    match r.below(4) { 0 => Ttl::Value(u8v(r)), 1 => Ttl::Distance(u8v(r), u8v(r)), 2 => Ttl::Guess(u8v(r)), _ => Ttl::Bad(u8v(r)) }
}
fn gen_win(r: &mut Rng) -> WindowSize {
    match r.below(5) { 0 => WindowSize::Any, 1 => WindowSize::Mss(u8v(r)), 2 => WindowSize::Mtu(u8v(r)), 3 => WindowSize::Mod(u16v(r)), _ => WindowSize::Value(u16v(r)) }
}
fn gen_opt(r: &mut Rng) -> TcpOption {
    use TcpOption::*;
    match r.below(8) { 0 => Eol(u8v(r)), 1 => Nop, 2 => Mss, 3 => Ws, 4 => Sok, 5 => Sack, 6 => TS, _ => Unknown(u8v(r)) }
}
fn gen_tcp(r: &mut Rng) -> TcpSig {
    let nopt = if r.chance(1, 8) { 0 } else { r.below(9) as usize };
    let nq = if r.chance(1, 5) { 0 } else { r.below(7) as usize };
    let qs = all_quirks();
    TcpSig {
        version: *r.pick(&[IpVersion::V4, IpVersion::V6, IpVersion::Any]),
        ittl: gen_ttl(r),
        olen: u8v(r),
        mss: if r.chance(1, 2) { None } else { Some(u16v(r)) },
        wsize: gen_win(r),
        wscale: if r.chance(1, 2) { None } else { Some(u8v(r)) },
        olayout: (0..nopt).map(|_| gen_opt(r)).collect(),
        quirks: (0..nq).map(|_| r.pick(&qs).clone()).collect(),
        pclass: *r.pick(&[PayloadSize::Zero, PayloadSize::NonZero, PayloadSize::Any]),
    }
}

// ---- hand-built token text (valid, non-canonical and invalid spellings)
fn num_text(r: &mut Rng, wide: bool) -> String {
    match r.below(10) {
        0 => r.pick(OVER).to_string(),
        1 => format!("0{}", u8v(r)),
        2 => String::new(),
        _ => if wide { u16v(r).to_string() } else { u8v(r).to_string() },
    }
}
fn ttl_text(r: &mut Rng) -> String {
    let n = num_text(r, false);
    match r.below(8) {
        0 => n, 1 => format!("{}-", n), 2 => format!("{}+?", n), 3 => format!("{}+{}", n, num_text(r, false)),
        4 => format!("{}+", n), 5 => format!("{}-{}", n, num_text(r, false)), 6 => format!("{}+?{}", n, num_text(r, false)),
        _ => format!("{}?", n),
    }
}
fn win_text(r: &mut Rng) -> String {
    match r.below(9) {
        0 => "*".into(), 1 => format!("mss*{}", num_text(r, false)), 2 => format!("mtu*{}", num_text(r, false)),
        3 => format!("%{}", num_text(r, true)), 4 => num_text(r, true), 5 => format!("mss{}", num_text(r, false)),
        6 => format!("mss*{}", num_text(r, true)), 7 => format!("*{}", num_text(r, false)), _ => format!("mtu*{}*", num_text(r, false)),
    }
}
const OPT_WORDS: &[&str] = &["nop", "mss", "ws", "sok", "sack", "ts", "eol", "eol+", "?", "no", "nopp", "sackk", "ts1", "MSS", "m", ""];
fn opt_text(r: &mut Rng) -> String {
    match r.below(6) { 0 => format!("eol+{}", num_text(r, false)), 1 => format!("?{}", num_text(r, false)), 2 => r.pick(OPT_WORDS).to_string(),
        _ => r.pick(&OPT_WORDS[..6]).to_string() }
}
const QUIRK_WORDS: &[&str] = &["df", "id+", "id-", "ecn", "0+", "flow", "seq-", "ack+", "ack-", "uptr+", "urgf+", "pushf+", "ts1-", "ts2+",
    "opt+", "exws", "bad", "id", "0", "ts1+", "ts2-", "seq+", "pushf", "d", "dff", "DF", "", "bad+"];
fn quirk_text(r: &mut Rng) -> String { if r.chance(1, 8) { r.pick(QUIRK_WORDS).to_string() } else { r.pick(&QUIRK_WORDS[..17]).to_string() } }
fn star_or(r: &mut Rng, wide: bool) -> String { if r.chance(1, 3) { "*".into() } else { num_text(r, wide) } }
fn list_text(r: &mut Rng, item: fn(&mut Rng) -> String, max: u64) -> String {
    let n = r.below(max + 1);
    let mut v: Vec<String> = (0..n).map(|_| item(r)).collect();
    if r.chance(1, 12) { v.push(String::new()); }
    if r.chance(1, 12) { v.insert(0, String::new()); }
    v.join(",")
}
fn tcp_text(r: &mut Rng) -> String {
    let (nv, np) = (if r.chance(1, 8) { 7 } else { 3 }, if r.chance(1, 8) { 7 } else { 3 });
    let ver = r.pick(&["4", "6", "*", "", "5", "44", "4*"][..nv]).to_string();
    let pc = r.pick(&["0", "+", "*", "", "1", "00", "+*"][..np]).to_string();
    let mut fields = vec![ver, ttl_text(r), num_text(r, false), star_or(r, true),
        format!("{}{}{}", win_text(r), r.pick(&[",", ",", ",", ",", ",", ":", "", ",,"]), star_or(r, false)),
        list_text(r, opt_text, 6), list_text(r, quirk_text, 5), pc];
    match r.below(14) {
        0 => { let k = r.below(fields.len() as u64) as usize; fields.remove(k); }
        1 => { let k = r.below(fields.len() as u64) as usize; fields.insert(k, String::new()); }
        2 => { fields.push(r.pick(&["", "x", "0", " "]).to_string()); }
        _ => {}
    }
    fields.join(":")
}

// ---- HTTP
const HNAMES: &[&str] = &["Host", "User-Agent", "Accept", "Accept-Language", "Accept-Encoding", "Accept-Charset", "Keep-Alive",
    "Connection", "Referer", "Cookie", "Date", "Server", "Content-Type", "Content-Length", "X-Powered-By", "Via", "UA-CPU", "TE", "x", "A1", "-", "a-b-"];
const HVALS: &[&str] = &["", "keep-alive", "gzip,deflate", ",*/*;q=", "utf-8;q=0.7,*;q=0.7", "a:b", "text/html; charset=", "300", "[", "[[", "=[",
    "a=[b", "x,y:z", " ", "?", "Mozilla/5.0 (X11; U; Linux", "é", "日本"];
const SWS: &[&str] = &["", "Firefox/", "MSIE", "Apache", "a:b", ":", "::", "lighttpd/1.4", "x y", " lead", "nginx/,", "é"];
fn gen_header(r: &mut Rng, in_vocab: bool) -> Header {
    let name: String = if r.chance(4, 5) { r.pick(HNAMES).to_string() } else {
        let n = r.range(1, 6);
        (0..n).map(|_| *r.pick(b"abcXYZ019-") as char).collect()
    };
    let name = if !in_vocab && r.chance(1, 6) { r.pick(&["", "a b", "a:b", "a=b", "a,b", "a_b", "?a", "é"]).to_string() } else { name };
    let value = if r.chance(1, 2) { None } else {
        let v = r.pick(HVALS).to_string();
        Some(if !in_vocab && r.chance(1, 6) { format!("{}]x", v) } else { v })
    };
    Header { optional: r.chance(1, 4), name, value }
}
fn gen_http(r: &mut Rng, in_vocab: bool) -> HttpSig {
    let nh = if in_vocab { r.range(1, 7) } else { r.below(5) } as usize;
    let na = if r.chance(1, 2) { 0 } else { r.range(1, 4) as usize };
    let version = if in_vocab || r.chance(3, 4) { *r.pick(&[HttpVersion::V10, HttpVersion::V11, HttpVersion::Any]) } else { *r.pick(&[HttpVersion::V20, HttpVersion::V30]) };
    HttpSig {
        version,
        horder: (0..nh).map(|_| gen_header(r, in_vocab)).collect(),
        habsent: (0..na).map(|_| gen_header(r, in_vocab)).collect(),
        expsw: r.pick(SWS).to_string(),
    }
}
fn hdr_text(r: &mut Rng) -> String {
    let iv = r.chance(2, 3);
    let h = gen_header(r, iv).to_string();
    match r.below(10) { 0 => format!("{}]", h), 1 => format!("{}=", h), 2 => format!("?{}", h), 3 => h.replace(']', ""), 4 => format!("{}=[", h), _ => h }
}
fn http_text(r: &mut Rng) -> String {
    let nv = if r.chance(1, 8) { 8 } else { 3 };
    let ver = r.pick(&["0", "1", "*", "", "2", "3", "10", "**"][..nv]).to_string();
    let mut fields = vec![ver, list_text(r, hdr_text, 5), list_text(r, hdr_text, 3), r.pick(SWS).to_string()];
    match r.below(12) {
        0 => { let k = r.below(fields.len() as u64) as usize; fields.remove(k); }
        1 => { let k = r.below(fields.len() as u64) as usize; fields.insert(k, String::new()); }
        _ => {}
    }
    fields.join(":")
}

// ---- mutations of a text
const MUT_CHARS: &[u8] = b":,+-*?%[]=0195msatx ;!";
fn mutate(r: &mut Rng, s: &str) -> String {
    let mut b: Vec<char> = s.chars().collect();
    let n = r.range(1, 2);
    for _ in 0..n {
        let c = *r.pick(MUT_CHARS) as char;
        if b.is_empty() { b.push(c); continue; }
        let k = r.below(b.len() as u64) as usize;
        match r.below(4) { 0 => { b.remove(k); } 1 => { b.insert(k, c); } 2 => { b[k] = c; } _ => { let k2 = r.below(b.len() as u64) as usize; b.swap(k, k2); } }
    }
    b.into_iter().collect()
}
fn prefixes(k: &str, s: &str, out: &mut Vec<String>) {
    let cs: Vec<(usize, char)> = s.char_indices().collect();
    for (i, _) in &cs { out.push(case(k, &s[..*i])); }
}

// ---- labels
const CLASSES: &[&str] = &["!", "unix", "win", "other", "", "!x", "a b", "é"];
const LNAMES: &[&str] = &["Linux", "Windows", "Mac OS X", "Firefox", "", "NMap", "a.b", "x!"];
const FLAVORS: &[&str] = &["", "3.11 and newer", "XP", "2.x", "a:b", ":", "::x", "7 or 8", " y", "é"];
fn label_text(r: &mut Rng) -> String {
    let t = r.pick(&["s", "g", "s", "g", "", "x", "S", "ss", "Specified"]).to_string();
    let mut f = vec![t, r.pick(CLASSES).to_string(), r.pick(LNAMES).to_string(), r.pick(FLAVORS).to_string()];
    match r.below(10) { 0 => { f.pop(); } 1 => { f.remove(1); } 2 => { f.pop(); f.pop(); } _ => {} }
    f.join(":")
}
fn good_label(r: &mut Rng) -> String {
    format!("{}:{}:{}:{}", r.pick(&["s", "g"]), r.pick(&CLASSES[..4]), r.pick(&["Linux", "Windows", "Mac OS X", "Firefox", "NMap", "a.b"]), r.pick(&FLAVORS[..8]))
}

// ---- database texts
#[derive(Clone, Copy, PartialEq)]
enum Sec { None, Tq, Ts, Hq, Hs, Mtu, Other }
fn ws(r: &mut Rng) -> &'static str { *r.pick(&["", "", "", " ", "  ", "\t", " \t "]) }
fn eq(r: &mut Rng) -> String { format!("{}={}", ws(r), ws(r)) }
fn edge(r: &mut Rng, rare_unicode: bool) -> &'static str {
    if rare_unicode && r.chance(1, 25) { *r.pick(&["\u{a0}", "\u{2003}", "\u{3000}", "\u{85}", "\u{1680}", "\u{2028}", "\u{205f}", "\u{feff}", "\u{200b}", "\u{0b}", "\u{0c}"]) }
    else { *r.pick(&["", "", "", "", " ", "\t", "  "]) }
}
const UA_ITEMS: &[&str] = &["Linux", "Windows", "iOS=[iPad]", "iOS=[iPhone]", "Mac OS X", "FreeBSD", "Solaris=[SunOS]", "a=b", "a = b", "x1", "", "a=[b", "a=[]", "-", "Win 7",
    "a=[b]c", "a=[b=c]", "=[b]", "x.y", "(a)!?", "a_b/c", "a=[b c]", "a[b", "a]", "a=[b]=[c]", " a", "a ", "é", "a;b", "a:b"];
fn db_text(r: &mut Rng, valid_bias: bool) -> String {
    let mut lines: Vec<String> = Vec::new();
    let mut sec = Sec::None;
    let mut labelled = [false; 7];
    let idx = |s: Sec| match s { Sec::None => 0, Sec::Tq => 1, Sec::Ts => 2, Sec::Hq => 3, Sec::Hs => 4, Sec::Mtu => 5, Sec::Other => 6 };
    let n = r.range(0, 28);
    let bad_rate = if valid_bias { 40 } else { 8 };
    for _ in 0..n {
        let mut l = match r.below(20) {
            0 => String::new(),
            1 => format!(";{}", r.pick(&["", " comment", " label = s:!:x:", "[mtu]", ";;"])),
            2 | 3 if sec == Sec::None || r.chance(1, 3) => {
                let (s, t) = *r.pick(&[(Sec::Tq, "[tcp:request]"), (Sec::Ts, "[tcp:response]"), (Sec::Hq, "[http:request]"), (Sec::Hs, "[http:response]"), (Sec::Mtu, "[mtu]")]);
                sec = s; t.to_string()
            }
            4 if r.chance(1, 3) => {
                sec = Sec::Other;
                r.pick(&["[tcp]", "[http]", "[tcp:reqeust]", "[foo:bar]", "[mtu:x]", "[ssl:request]", "[TCP:REQUEST]"]).to_string()
            }
            5 if r.chance(1, bad_rate) => r.pick(&["[tcp:request]]", "[tcp:]", "[]", "[1]", "[tcp:request", "tcp:request]", "[tcp:request] ; c", "[tcp :request]", "[mtu]x]", "[a:b:c]", "[tcp:request:]"]).to_string(),
            6 => format!("classes{}{}", eq(r), {
                let k = r.below(4);
                let mut v: Vec<&str> = (0..k).map(|_| { let m = if r.chance(1, 5) { 8 } else { 4 }; *r.pick(&["win", "unix", "other", "x1", "a b", "", "a-b", "é"][..m]) }).collect();
                if r.chance(1, 15) { v.push(" junk"); }
                v.join(if r.chance(1, 15) { ", " } else { "," })
            }),
            7 => format!("ua_os{}{}", eq(r), {
                let k = r.below(5);
                let v: Vec<&str> = (0..k).map(|_| { let m = if r.chance(1, 2) { UA_ITEMS.len() } else { 2 }; *r.pick(&UA_ITEMS[..m]) }).collect();
                v.join(",")
            }),
            8 => format!("sys{}{}", eq(r), r.pick(&["Windows,@unix", "@win", "", "x"])),
            9 if r.chance(1, bad_rate) => r.pick(&["junk", "label", "sig", "= x", "a b = c", "label : x", "sig x", "foo = bar", "Label = s:!:x:", "SIG = 1", "sig1 = 1", "classes", "classes x", "ua_os", "ua_osx = a", "classes2 = a", "é = x"]).to_string(),
            10 | 11 | 12 => {
                labelled[idx(sec)] = true;
                let v = if sec == Sec::Mtu { r.pick(&["Ethernet or modem", "DSL", "", "a = b", "x:y"]).to_string() }
                        else if r.chance(1, bad_rate) { label_text(r) } else { good_label(r) };
                format!("label{}{}", eq(r), v)
            }
            _ => {
                if valid_bias && !labelled[idx(sec)] && sec != Sec::None && sec != Sec::Other && r.chance(9, 10) {
                    labelled[idx(sec)] = true;
                    lines.push(format!("label = {}", if sec == Sec::Mtu { "L".to_string() } else { good_label(r) }));
                }
                let v = match sec {
                    Sec::Mtu => if r.chance(1, bad_rate) { r.pick(&["", "65536", "+1500", "-1", "1500x", "+", "1 500", "0x10", "00576"]).to_string() } else { u16v(r).to_string() },
                    Sec::Hq | Sec::Hs => if r.chance(1, bad_rate) { http_text(r) } else { gen_http(r, true).to_string() },
                    _ => if r.chance(1, bad_rate) { tcp_text(r) } else { gen_tcp(r).to_string() },
                };
                format!("sig{}{}", eq(r), v)
            }
        };
        l = format!("{}{}{}", edge(r, !valid_bias), l, edge(r, !valid_bias));
        lines.push(l);
    }
    let nl = *r.pick(&["\n", "\n", "\n", "\r\n"]);
    let mut t = lines.join(nl);
    match r.below(4) { 0 => {} 1 => t.push_str("\r"), _ => t.push_str(nl) }
    t
}

/// mostly valid database texts: sections with labels followed by their signatures, comments, blanks, sys
/// lines, list lines; a defect is injected with small probability per line
fn db_text_valid(r: &mut Rng, defect: u64) -> String {
    let mut lines: Vec<String> = Vec::new();
    let pad = |r: &mut Rng, l: String| format!("{}{}{}", r.pick(&["", "", "", " ", "\t"]), l, r.pick(&["", "", "", " ", "\t", "  "]));
    if r.chance(1, 2) { lines.push("; header".into()); }
    if r.chance(2, 3) {
        let k = r.below(4);
        let v: Vec<&str> = (0..k).map(|_| *r.pick(&["win", "unix", "other", "x1"])).collect();
        lines.push(format!("classes{}{}", eq(r), v.join(",")));
    }
    let nsec = r.range(1, 5);
    for _ in 0..nsec {
        let (sec, t) = *r.pick(&[(Sec::Tq, "[tcp:request]"), (Sec::Ts, "[tcp:response]"), (Sec::Hq, "[http:request]"), (Sec::Hs, "[http:response]"), (Sec::Mtu, "[mtu]")]);
        if r.chance(1, 3) { lines.push(String::new()); }
        lines.push(t.to_string());
        if sec == Sec::Hq && r.chance(1, 2) {
            let k = r.below(4);
            let plain = r.chance(2, 3);
            let v: Vec<&str> = (0..k).map(|_| if plain { *r.pick(&["Linux", "Windows", "FreeBSD", "x1"]) } else { *r.pick(UA_ITEMS) }).collect();
            lines.push(format!("ua_os{}{}", eq(r), v.join(",")));
        }
        let nlab = r.below(4);
        for _ in 0..nlab {
            if r.chance(1, 4) { lines.push(r.pick(&["", "; comment", ";"]).to_string()); }
            let lv = if sec == Sec::Mtu { r.pick(&["Ethernet or modem", "DSL", "GIF", "a = b"]).to_string() } else { good_label(r) };
            lines.push(format!("label{}{}", eq(r), lv));
            if sec != Sec::Mtu && r.chance(1, 3) { lines.push(format!("sys{}{}", eq(r), r.pick(&["Windows,@unix", "@win"]))); }
            let nsig = r.below(4);
            for _ in 0..nsig {
                let v = match sec {
                    Sec::Mtu => u16v(r).to_string(),
                    Sec::Hq | Sec::Hs => gen_http(r, true).to_string().trim_end().to_string(),
                    _ => gen_tcp(r).to_string(),
                };
                lines.push(format!("sig{}{}", eq(r), v));
            }
        }
    }
    // defects
    let mut k = 0;
    while k < lines.len() {
        if r.chance(1, defect) {
            match r.below(6) {
                0 => { lines.remove(k); continue; }
                1 => { let x = lines[k].clone(); lines.insert(k, x); }
                2 => { if lines[k].starts_with("sig") && r.chance(1, 2) { let t = *r.pick(SIG_TAILS); lines[k].push_str(t); } else { lines[k] = mutate(r, &lines[k].clone()); } }
                3 => { lines.insert(k, r.pick(&["junk", "foo = bar", "[foo]", "[tcp]", "sig = 1", "label = x", "sig = *:64:0:*:*,*:::0", "1:Host::"]).to_string()); }
                4 => { let x = lines.remove(k); let k2 = r.below(lines.len() as u64 + 1) as usize; lines.insert(k2, x); }
                _ => { lines.swap(k, 0); }
            }
        }
        k += 1;
    }
    let lines: Vec<String> = lines.into_iter().map(|l| pad(r, l)).collect();
    let nl = *r.pick(&["\n", "\n", "\n", "\r\n"]);
    let mut t = lines.join(nl);
    if r.chance(3, 4) { t.push_str(nl); }
    t
}

/// a signature line that starts with a valid signature and goes on (comment, extra field, second signature,
/// stray separator): every section kind with equal weight; the sibling case without the tail loads fine
const SIG_TAILS: &[&str] = &[" ; linux 3.x", ":0", ":0:0", "0", "+", "*", "x", ",", ":", "::0+", " 1", ",df", ":df", "-", "?", "]", "=[x]", " x"];
fn sig_tail_cases(r: &mut Rng, per_section: usize, out: &mut Vec<String>) {
    let secs = [(Sec::Tq, "[tcp:request]"), (Sec::Ts, "[tcp:response]"), (Sec::Hq, "[http:request]"), (Sec::Hs, "[http:response]"), (Sec::Mtu, "[mtu]")];
    for (sec, header) in secs {
        for k in 0..per_section {
            let good = match sec {
                Sec::Mtu => u16v(r).to_string(),
                Sec::Hq | Sec::Hs => { let mut g = gen_http(r, true); g.expsw = String::new(); g.to_string() }
                _ => gen_tcp(r).to_string(),
            };
            let tail = if k % 4 == 3 {
                // two signatures run together
                match sec { Sec::Mtu => u16v(r).to_string(), Sec::Hq | Sec::Hs => gen_http(r, true).to_string(), _ => gen_tcp(r).to_string() }
            } else { SIG_TAILS[(k / 2) % SIG_TAILS.len()].to_string() };
            let label = if sec == Sec::Mtu { "DSL".to_string() } else { good_label(r) };
            // before / after other valid entries, so that a truncated load is visible in the dump
            let other = match sec { Sec::Mtu => "sig = 1500".to_string(), Sec::Hq | Sec::Hs => "sig = 1:Host::".to_string(), _ => "sig = *:64:0:*:*,*:::0".to_string() };
            let bad = format!("sig = {}{}", good, tail);
            let body = if k % 2 == 0 { format!("{}\n{}", bad, other) } else { format!("{}\n{}", other, bad) };
            out.push(case("D", &format!("{}\nlabel = {}\n{}\n", header, label, body)));
            if k % 8 == 0 { out.push(case("D", &format!("{}\nlabel = {}\nsig = {}\n{}\n", header, label, good, other))); }
        }
    }
}

fn bundled_cases(out: &mut Vec<String>, r: &mut Rng, tier: &Tier) {
    let text = std::fs::read_to_string(P0F).expect("bundled p0f.fp");
    out.push(case("D", &text));
    let mut sec = "";
    let lines: Vec<&str> = text.lines().collect();
    for l in &lines {
        let l = l.trim();
        if l.starts_with('[') { sec = l; continue; }
        if let Some((k, v)) = l.split_once('=') {
            let (k, v) = (k.trim(), v.trim_start());
            match (k, sec) {
                ("sig", "[tcp:request]") | ("sig", "[tcp:response]") => { out.push(case("T", v)); out.push(case("H", v)); }
                ("sig", "[http:request]") | ("sig", "[http:response]") => { out.push(case("H", v)); out.push(case("T", v)); }
                ("label", _) => out.push(case("L", v)),
                _ => {}
            }
        }
    }
    // the bundled file with one line removed / duplicated / moved / mutated, and cut after k lines
    let n = tier.scale(12, 120);
    for _ in 0..n {
        let mut ls: Vec<String> = lines.iter().map(|s| s.to_string()).collect();
        let k = r.below(ls.len() as u64) as usize;
        match r.below(5) {
            0 => { ls.remove(k); }
            1 => { let x = ls[k].clone(); ls.insert(k, x); }
            2 => { let x = ls.remove(k); let k2 = r.below(ls.len() as u64) as usize; ls.insert(k2, x); }
            3 => { ls[k] = mutate(r, &ls[k].clone()); }
            _ => { ls.truncate(k); }
        }
        out.push(case("D", &(ls.join("\n") + "\n")));
    }
}

fn gen(r: &mut Rng, tier: &Tier, out: &mut Vec<String>) {
    // --- exhaustive-small: every token form over the boundary numbers
    let nums: Vec<String> = U8S.iter().map(|n| n.to_string()).chain(OVER.iter().map(|s| s.to_string())).chain(["".to_string()]).collect();
    for a in &nums {
        for t in [format!("{a}"), format!("{a}-"), format!("{a}+?"), format!("{a}+"), format!("{a}+0"), format!("{a}+255"), format!("{a}+256"), format!("0+{a}"), format!("255+{a}"), format!("{a}-1")] {
            out.push(kcase("ttl", &t));
        }
        for t in [format!("mss*{a}"), format!("mtu*{a}"), format!("%{a}"), format!("{a}"), format!("mss{a}"), format!("*{a}")] { out.push(kcase("win", &t)); }
        for t in [format!("eol+{a}"), format!("?{a}"), format!("eol{a}"), format!("eol+{a}x")] { out.push(kcase("opt", &t)); }
    }
    for n in U16S { for t in [format!("%{n}"), format!("{n}"), format!("mss*{n}"), format!("mtu*{n}")] { out.push(kcase("win", &t)); } }
    for w in OPT_WORDS { out.push(kcase("opt", w)); out.push(kcase("opt", &format!("{w},"))); }
    for w in QUIRK_WORDS { out.push(kcase("quirk", w)); out.push(kcase("quirk", &format!("{w}x"))); }
    for w in ["4", "6", "*", "", "5", "44", "4:", " 4"] { out.push(kcase("ver", w)); }
    for w in ["0", "+", "*", "", "1", "00", "+ "] { out.push(kcase("pc", w)); }
    for w in ["s", "g", "", "x", "sg", "Specified", "Generic"] { out.push(kcase("ty", w)); }
    // every quirk / option alone and in pairs inside a full signature; every ttl and window form
    for q in all_quirks() { out.push(case("T", &format!("*:64:0:*:*,*::{}:0", q))); }
    for q1 in QUIRK_WORDS.iter().take(17) { for q2 in QUIRK_WORDS.iter().take(17) { out.push(case("T", &format!("4:128:0:1460:8192,0:mss:{},{}:+", q1, q2))); } }
    for o1 in ["eol+7", "nop", "mss", "ws", "sok", "sack", "ts", "?33", "eol+0", "?255", "?300", "eol+256"] {
        out.push(case("T", &format!("*:64:0:*:*,*:{}::0", o1)));
        for o2 in ["eol+7", "nop", "mss", "ws", "sok", "sack", "ts", "?33"] { out.push(case("T", &format!("6:64:0:*:mss*4,7:{},{}:df:*", o1, o2))); }
    }
    for t in ["64", "64-", "64+3", "64+?", "0", "255", "256", "300", "255+255", "255+256", "064", "64+", "64+?-", "64-+?"] {
        for w in ["*", "mss*4", "mtu*2", "%8192", "8192", "65535", "65536", "mss*256", "%65536", "mss*04", "mss*", "%"] {
            out.push(case("T", &format!("4:{}:0:1460:{},2:mss,nop,ws::0", t, w)));
        }
    }
    for v in ["0", "1", "*", "2", "3", ""] { for a in ["", "Date", "?Date", "Date=[x]", ",", "Date,", ",Date", "Date,,X"] { for sw in ["", "x", ":"] {
        out.push(case("H", &format!("{v}:Host,?Accept=[a,b:c]:{a}:{sw}")));
    } } }

    // --- structured mostly-valid: ASTs printed by the real Display
    for _ in 0..tier.scale(1500, 150000) {
        let s = gen_tcp(r).to_string();
        out.push(case("T", &s));
        if r.chance(1, 4) { out.push(case("T", &mutate(r, &s))); }
    }
    for _ in 0..tier.scale(1200, 120000) {
        let iv = r.chance(4, 5);
        let s = gen_http(r, iv).to_string();
        out.push(case("H", &s));
        if r.chance(1, 4) { out.push(case("H", &mutate(r, &s))); }
        if r.chance(1, 10) { out.push(case("T", &s)); }
    }
    // --- hand-built text variants and malformed lines
    for _ in 0..tier.scale(1500, 150000) { let t = tcp_text(r); out.push(case("T", &t)); }
    for _ in 0..tier.scale(1200, 120000) { let t = http_text(r); out.push(case("H", &t)); }
    for _ in 0..tier.scale(300, 20000) { let t = hdr_text(r); out.push(kcase("hdr", &t)); }
    for _ in 0..tier.scale(300, 5000) {
        out.push(kcase("ttl", &ttl_text(r))); out.push(kcase("win", &win_text(r)));
        out.push(kcase("opt", &opt_text(r))); out.push(kcase("quirk", &quirk_text(r)));
    }
    for _ in 0..tier.scale(300, 5000) { let t = label_text(r); out.push(case("L", &t)); let g = good_label(r); out.push(case("L", &g)); }
    // every truncation of a few valid lines
    for _ in 0..tier.scale(6, 60) { let s = gen_tcp(r).to_string(); prefixes("T", &s, out); }
    for _ in 0..tier.scale(6, 60) { let s = gen_http(r, true).to_string(); prefixes("H", &s, out); }
    // --- database texts
    for _ in 0..tier.scale(500, 40000) { let t = db_text_valid(r, 1000); out.push(case("D", &t)); }
    for _ in 0..tier.scale(500, 40000) { let t = db_text_valid(r, 25); out.push(case("D", &t)); }
    for _ in 0..tier.scale(300, 25000) { let t = db_text(r, true); out.push(case("D", &t)); }
    for _ in 0..tier.scale(300, 25000) { let t = db_text(r, false); out.push(case("D", &t)); }
    sig_tail_cases(r, tier.scale(48, 2000), out);
    for t in ["", "\n", "\r\n", ";", "classes = a", "[mtu]", "[mtu]\nlabel = x", "[mtu]\nsig = 1", "sig = 1", "label = s:!:a:",
              "[tcp:request]\nsig = *:64:0:*:*,*:::0", "[tcp:request]\nlabel = s:!:a:\n[tcp:response]\nsig = *:64:0:*:*,*:::0",
              "[tcp:request]\nlabel = s:!:a:\n[mtu]\n[tcp:request]\nsig = *:64:0:*:*,*:::0",
              "ua_os = Linux,Windows,iOS=[iPad],iOS=[iPhone],Mac OS X,FreeBSD,OpenBSD,NetBSD,Solaris=[SunOS]",
              "classes = win, unix", "classes = a,b,", "[tcp:request]]", "[foo]\nlabel = zzz"] {
        out.push(case("D", t));
    }
    // --- exhaustive-small: str::trim / str::lines over every character up to U+3001 (thorough: the whole BMP):
    //     the character before and after a section header; a header is only recognised when it is white space
    let top = tier.scale(0x3001, 0xFFFF) as u32;
    for cp in 0..=top {
        if let Some(c) = char::from_u32(cp) {
            out.push(case("D", &format!("{c}[mtu]{c}\nlabel = a{c}")));
        }
    }
    // --- the bundled database: whole file, every label and signature line, perturbed copies
    bundled_cases(out, r, tier);
}

fn main() { main_cli(gen, run) }
