//! C13 harness: for every TCP / HTTP signature of the bundled p0f.fp, traffic synthesised to conform to it is run
//! through the REAL analyzers and matchers:
//!   T: `huginn_net_tcp::process_ipv4_packet / process_ipv6_packet` with a `SignatureMatcher` over
//!      `Database::load_default()`; the reported observation is handed to `matching_by_tcp_request/_response`
//!      (the call process.rs makes) to recover which entry won; the label is cross-checked against `os_matched`.
//!   H: `HttpProcessors::parse_request / parse_response` + `SignatureMatcher::matching_by_http_request/_response`.
//! Case grammar: coq/Extract/EC13.v.  Signatures are named by their p0f.fp line.
//! Direct oracle (`\t!..`): an independent Rust reading of "conforms" (fields decoded from the packet / message) says
//! the winner is neither the own label nor an earlier conforming entry's, the signature is not in the documented
//! dead / undecided lists (coq/Spec/ReachLists.v) and the traffic is in no known class.
use hnv_common::*;
use huginn_net_db::http::{Header, Signature as HSig, Version};
use huginn_net_db::tcp::{IpVersion, PayloadSize, Quirk, Signature as TSig, TcpOption, Ttl, WindowSize};
use huginn_net_db::{Database, Label};
use huginn_net_http::http_process::HttpProcessors;
use pnet::packet::ipv4::Ipv4Packet;
use pnet::packet::ipv6::Ipv6Packet;
use std::sync::OnceLock;
use ttl_cache::TtlCache;

#[path = "../../c05/src/ast.rs"]
#[allow(dead_code)]
mod ast;
mod gen;
use ast::*;

pub const P0F: &str = "/repo/huginn-net-db/config/p0f.fp";

pub struct Tables {
    pub db: Database,
    /// per section: the 1-based line numbers of its `sig` lines, file order
    pub tq: Vec<usize>, pub ts: Vec<usize>, pub hq: Vec<usize>, pub hs: Vec<usize>,
    pub listed_tcp: Vec<usize>, pub listed_http: Vec<usize>,
}
static TABLES: OnceLock<Tables> = OnceLock::new();
pub fn tables() -> &'static Tables {
    TABLES.get_or_init(|| {
        huginn_net_tcp::uptime::verif_hooks::set_frozen_clock(Some(1_700_000_000_000));
        let db = Database::load_default().expect("default database");
        let text = std::fs::read_to_string(P0F).expect("p0f.fp");
        let (mut tq, mut ts, mut hq, mut hs) = (vec![], vec![], vec![], vec![]);
        let mut sec = String::new();
        for (i, raw) in text.lines().enumerate() {
            let l = raw.trim();
            if l.starts_with('[') && l.ends_with(']') { sec = l[1..l.len() - 1].to_string(); continue; }
            if l.starts_with(';') { continue; }
            if let Some((k, _)) = l.split_once('=') {
                if k.trim() == "sig" {
                    match sec.as_str() { "tcp:request" => tq.push(i + 1), "tcp:response" => ts.push(i + 1), "http:request" => hq.push(i + 1), "http:response" => hs.push(i + 1), _ => {} }
                }
            }
        }
        let cnt = |n: usize, m: usize, what: &str| assert_eq!(n, m, "sig lines vs loaded entries: {}", what);
        cnt(tq.len(), db.tcp_request.entries.iter().map(|e| e.1.len()).sum(), "tcp:request");
        cnt(ts.len(), db.tcp_response.entries.iter().map(|e| e.1.len()).sum(), "tcp:response");
        cnt(hq.len(), db.http_request.entries.iter().map(|e| e.1.len()).sum(), "http:request");
        cnt(hs.len(), db.http_response.entries.iter().map(|e| e.1.len()).sum(), "http:response");
        let lists = std::fs::read_to_string(concat!(env!("CARGO_MANIFEST_DIR"), "/../../coq/Spec/ReachLists.v")).unwrap_or_default();
        let grab = |name: &str| -> Vec<usize> {
            let key = format!("Definition {} : list N :=", name);
            match lists.find(&key) {
                None => vec![],
                Some(p) => { let rest = &lists[p + key.len()..]; let end = rest.find('.').unwrap_or(rest.len()); let body = &rest[..end];
                             match (body.find('['), body.find(']')) { (Some(a), Some(b)) if a < b => body[a + 1..b].split(';').filter_map(|t| t.trim().parse().ok()).collect(), _ => vec![] } }
            }
        };
        let mut listed_tcp = vec![];
        for n in ["dead_bad_ttl_lines", "dead_value_window_lines", "dead_eol_pad_lines", "undecided_tcp_lines"] { listed_tcp.extend(grab(n)); }
        let mut listed_http = vec![];
        for n in ["dead_http_exact_lines", "dead_http_expsw_lines", "dead_http_value_lines", "undecided_http_lines"] { listed_http.extend(grab(n)); }
        Tables { db, tq, ts, hq, hs, listed_tcp, listed_http }
    })
}
/// positions (label idx, sig idx) of a table in database order
pub fn positions<S>(entries: &[(Label, Vec<S>)]) -> Vec<(usize, usize)> {
    let mut v = vec![];
    for (li, e) in entries.iter().enumerate() { for si in 0..e.1.len() { v.push((li, si)); } }
    v
}
fn locate<'a, S>(entries: &'a [(Label, Vec<S>)], l: &'a Label, s: &'a S) -> (usize, usize) {
    let li = entries.iter().position(|e| std::ptr::eq(&e.0, l)).expect("label not from entries");
    let si = entries[li].1.iter().position(|x| std::ptr::eq(x, s)).expect("signature not under the returned label");
    (li, si)
}
fn name_hex(l: &Label) -> String { if l.name.is_empty() { "-".into() } else { hex(l.name.as_bytes()) } }

// ------------------------------------------------------------------ decoded packet fields (Rust reading of RFC headers)
pub struct Seg {
    pub v6: bool, pub ttl: u8, pub olen: usize, pub df: bool, pub mbz: bool, pub id: u16, pub tos_ecn: u8, pub flow: u32, pub frag: bool,
    pub flags: u8, pub ns: bool, pub seq: u32, pub ack: u32, pub win: u16, pub urg: u16, pub plen: usize,
    pub layout: Vec<TcpOption>, pub mss: Option<u16>, pub ws: Option<u8>, pub ts: Vec<(u32, u32)>, pub has_ts: bool, pub eol_pad_nonzero: bool, pub bad: bool,
}
fn be16(b: &[u8], i: usize) -> u16 { u16::from_be_bytes([b[i], b[i + 1]]) }
fn be32(b: &[u8], i: usize) -> u32 { u32::from_be_bytes([b[i], b[i + 1], b[i + 2], b[i + 3]]) }
pub fn decode(v6: bool, p: &[u8]) -> Option<Seg> {
    let (hl, ttl, df, mbz, id, ecn, flow, frag, seg): (usize, u8, bool, bool, u16, u8, u32, bool, &[u8]);
    if !v6 {
        if p.len() < 20 || p[0] >> 4 != 4 { return None; }
        hl = ((p[0] & 15) as usize) * 4; let total = be16(p, 2) as usize;
        if hl < 20 || hl > total || total > p.len() || p[9] != 6 { return None; }
        ttl = p[8]; df = p[6] & 0x40 != 0; mbz = p[6] & 0x80 != 0; id = be16(p, 4); ecn = p[1] & 3; flow = 0;
        frag = p[6] & 0x20 != 0 || ((p[6] & 0x1f) as u16) << 8 | p[7] as u16 != 0; seg = &p[hl..total];
    } else {
        if p.len() < 40 || p[0] >> 4 != 6 { return None; }
        let plen = be16(p, 4) as usize;
        if 40 + plen > p.len() || p[6] != 6 { return None; }
        hl = 40; ttl = p[7]; df = false; mbz = false; id = 0; ecn = (p[1] >> 4) & 3; flow = ((p[1] & 15) as u32) << 16 | be16(p, 2) as u32; frag = false;
        seg = &p[40..40 + plen];
    }
    if seg.len() < 20 { return None; }
    let doff = (seg[12] >> 4) as usize * 4;
    if doff < 20 || doff > seg.len() { return None; }
    let opts = &seg[20..doff];
    let (mut layout, mut mss, mut ws, mut ts, mut has_ts, mut nz, mut bad) = (vec![], None, None, vec![], false, false, false);
    let mut i = 0;
    while i < opts.len() {
        let k = opts[i];
        if k == 0 { let pad = &opts[i + 1..]; layout.push(TcpOption::Eol(pad.len() as u8)); nz = pad.iter().any(|b| *b != 0); break; }
        if k == 1 { layout.push(TcpOption::Nop); i += 1; continue; }
        let kind = match k { 2 => TcpOption::Mss, 3 => TcpOption::Ws, 4 => TcpOption::Sok, 5 => TcpOption::Sack, 8 => TcpOption::TS, n => TcpOption::Unknown(n) };
        if i + 1 >= opts.len() { layout.push(kind); bad = true; break; }
        let l = opts[i + 1] as usize;
        let ok = match k { 2 => l == 4, 3 => l == 3, 4 => l == 2, 5 => (10..=34).contains(&l), 8 => l == 10, _ => l >= 2 } && i + l <= opts.len();
        layout.push(kind);
        if !ok { bad = true; break; }
        match k { 2 => mss = Some(be16(opts, i + 2)), 3 => ws = Some(opts[i + 2]), 8 => { has_ts = true; ts.push((be32(opts, i + 2), be32(opts, i + 6))); } _ => {} }
        i += l;
    }
    Some(Seg { v6, ttl, olen: if v6 { 0 } else { hl - 20 }, df, mbz, id, tos_ecn: ecn, flow, frag, flags: seg[13], ns: seg[12] & 1 != 0, seq: be32(seg, 4), ack: be32(seg, 8),
               win: be16(seg, 14), urg: be16(seg, 18), plen: seg.len() - doff, layout, mss, ws, ts, has_ts, eol_pad_nonzero: nz, bad })
}
pub const ALL_QUIRKS: [Quirk; 17] = [Quirk::Df, Quirk::NonZeroID, Quirk::ZeroID, Quirk::Ecn, Quirk::MustBeZero, Quirk::FlowID, Quirk::SeqNumZero, Quirk::AckNumNonZero,
    Quirk::AckNumZero, Quirk::NonZeroURG, Quirk::Urg, Quirk::Push, Quirk::OwnTimestampZero, Quirk::PeerTimestampNonZero, Quirk::TrailinigNonZero,
    Quirk::ExcessiveWindowScaling, Quirk::OptBad];
pub fn quirk_holds(g: &Seg, q: &Quirk) -> bool {
    let f = g.flags; let (fin, syn, rst, psh, ack, urg, ece, cwr) = (f & 1 != 0, f & 2 != 0, f & 4 != 0, f & 8 != 0, f & 16 != 0, f & 32 != 0, f & 64 != 0, f & 128 != 0);
    match q {
        Quirk::Df => g.df, Quirk::NonZeroID => g.df && g.id != 0, Quirk::ZeroID => !g.v6 && !g.df && g.id == 0,
        Quirk::Ecn => g.tos_ecn != 0 || ece || cwr || g.ns, Quirk::MustBeZero => g.mbz, Quirk::FlowID => g.flow != 0,
        Quirk::SeqNumZero => g.seq == 0, Quirk::AckNumNonZero => !ack && g.ack != 0 && !rst, Quirk::AckNumZero => ack && g.ack == 0,
        Quirk::NonZeroURG => !urg && g.urg != 0, Quirk::Urg => urg, Quirk::Push => psh,
        Quirk::OwnTimestampZero => g.ts.iter().any(|t| t.0 == 0),
        Quirk::PeerTimestampNonZero => syn && !ack && !fin && !rst && g.ts.iter().any(|t| t.1 != 0),
        Quirk::TrailinigNonZero => g.eol_pad_nonzero, Quirk::ExcessiveWindowScaling => g.ws.map(|w| w > 14).unwrap_or(false), Quirk::OptBad => g.bad,
    }
}
pub fn quirk_applies(v6: bool, q: &Quirk) -> bool {
    if v6 { !matches!(q, Quirk::Df | Quirk::NonZeroID | Quirk::ZeroID | Quirk::MustBeZero) } else { !matches!(q, Quirk::FlowID) }
}
/// p0f's window classes as the signature language defines them (MSS multiple first, also of MSS-12 with timestamps; then
/// the largest of 4096..256 dividing; then MTU multiples)
fn spec_window(g: &Seg) -> WindowSize {
    let w = g.win as u32; let m = g.mss.unwrap_or(0) as u32; let hdr: u32 = if g.v6 { 60 } else { 40 };
    if w == 0 || m < 100 { return WindowSize::Value(g.win); }
    let mult = |d: u32| -> Option<u8> { if d != 0 && w % d == 0 && w / d <= 255 { Some((w / d) as u8) } else { None } };
    if let Some(k) = mult(m).or(if g.has_ts { mult(m - 12) } else { None }) { return WindowSize::Mss(k); }
    for d in [4096u32, 2048, 1024, 512, 256] { if w % d == 0 { return WindowSize::Mod(d as u16); } }
    let mut ds = vec![1500, 1500 - hdr]; if g.has_ts { ds.push(1500 - hdr - 12); } ds.push(m + hdr);
    for d in ds { if let Some(k) = mult(d) { return WindowSize::Mtu(k); } }
    WindowSize::Value(g.win)
}
pub fn conforms_tcp(table: char, s: &TSig, g: &Seg) -> bool {
    let f = g.flags; let (fin, syn, rst, ack) = (f & 1 != 0, f & 2 != 0, f & 4 != 0, f & 16 != 0);
    if g.frag || !syn || fin || rst || (table == 'q') == ack { return false; }
    match s.version { IpVersion::V4 => if g.v6 { return false; }, IpVersion::V6 => if !g.v6 { return false; }, IpVersion::Any => {} }
    let t = g.ttl as u32;
    let ttl_ok = match s.ittl { Ttl::Bad(i) => t <= i as u32 && (t > 0 || i == 0), Ttl::Value(i) | Ttl::Guess(i) => t <= i as u32 && i as u32 - t <= 30,
                                Ttl::Distance(a, b) => { let i = (a as u32 + b as u32).min(255); t <= i && i - t <= 30 } };
    if !ttl_ok || g.olen != s.olen as usize { return false; }
    // a number admits itself; 0 also admits "option absent" (p0f reads a missing MSS / WS option as 0)
    if let Some(m) = s.mss { if g.mss.unwrap_or(0) != m { return false; } }
    if let Some(w) = s.wscale { if g.ws.unwrap_or(0) != w { return false; } }
    let w = g.win as u32; let hdr: u32 = if g.v6 { 60 } else { 40 };
    let win_ok = match s.wsize {
        WindowSize::Any => true, WindowSize::Value(v) => g.win == v, WindowSize::Mod(n) => n != 0 && g.win % n == 0,
        WindowSize::Mss(k) => spec_window(g) == WindowSize::Mss(k) || g.mss.map(|m| m > 0 && w == k as u32 * m as u32).unwrap_or(false),
        WindowSize::Mtu(k) => spec_window(g) == WindowSize::Mtu(k) || g.mss.map(|m| m > 0 && w == k as u32 * (m as u32 + hdr)).unwrap_or(false),
    };
    if !win_ok || g.layout != s.olayout { return false; }
    for q in ALL_QUIRKS.iter() { if quirk_applies(g.v6, q) && s.quirks.contains(q) != quirk_holds(g, q) { return false; } }
    match s.pclass { PayloadSize::Zero => g.plen == 0, PayloadSize::NonZero => g.plen != 0, PayloadSize::Any => true }
}

// ------------------------------------------------------------------ HTTP conformance (Rust reading)
pub fn msg_fields(m: &Msg) -> Vec<(Vec<u8>, Vec<u8>)> { m.hs.iter().map(|h| (h.name.clone(), render_val(&h.v))).collect() }
fn contains(hay: &[u8], needle: &[u8]) -> bool { needle.is_empty() || hay.windows(needle.len()).any(|w| w == needle) }
fn conf_headers(sig: &[Header], hs: &[(Vec<u8>, Vec<u8>)]) -> bool {
    match sig.split_first() {
        None => hs.is_empty(),
        Some((sh, rest)) => {
            (match hs.split_first() {
                Some(((n, v), hr)) => n.as_slice() == sh.name.as_bytes() && sh.value.as_ref().map(|l| contains(v, l.as_bytes())).unwrap_or(true) && conf_headers(rest, hr),
                None => false }) || (sh.optional && conf_headers(rest, hs))
        }
    }
}
pub fn conforms_http(table: char, s: &HSig, m: &Msg) -> bool {
    let (is_req, v) = match &m.start { Start::Req { v, .. } => (true, *v), Start::Resp { v, .. } => (false, *v) };
    if is_req != (table == 'q') { return false; }
    match s.version { Version::V10 => if v != 0 { return false; }, Version::V11 => if v != 1 { return false; }, Version::Any => {}, _ => return false }
    let hs = msg_fields(m);
    if !conf_headers(&s.horder, &hs) { return false; }
    if s.habsent.iter().any(|a| hs.iter().any(|(n, _)| n.as_slice() == a.name.as_bytes())) { return false; }
    if s.expsw.is_empty() { return true; }
    let want: &[u8] = if is_req { b"user-agent" } else { b"server" };
    match hs.iter().find(|(n, _)| n.eq_ignore_ascii_case(want)) { Some((_, u)) => contains(u, s.expsw.as_bytes()), None => false }
}

// ------------------------------------------------------------------ run
/// own position and admissibility of a result given `conf` over the table's signatures
fn verdict<S>(entries: &[(Label, Vec<S>)], own: (usize, usize), got: Option<(usize, usize)>, conf: impl Fn(&S) -> bool) -> bool {
    match got {
        None => false,
        Some((lj, _)) => {
            let lr = &entries[lj].0;
            if *lr == entries[own.0].0 { return true; }
            positions(entries).into_iter().take_while(|p| *p != own).any(|(li, si)| entries[li].0 == *lr && conf(&entries[li].1[si]))
        }
    }
}
fn run_t(table: char, line: usize, v6: bool, bytes: &[u8]) -> String {
    let t = tables();
    let matcher = huginn_net_tcp::SignatureMatcher::new(&t.db);
    let mut tracker = TtlCache::new(64);
    let res = if v6 { match Ipv6Packet::new(bytes) { None => return "NOPKT".into(), Some(p) => huginn_net_tcp::process_ipv6_packet(&p, &mut tracker, Some(&matcher)) } }
              else { match Ipv4Packet::new(bytes) { None => return "NOPKT".into(), Some(p) => huginn_net_tcp::process_ipv4_packet(&p, &mut tracker, Some(&matcher)) } };
    let res = match res { Err(_) => return "NOTHING".into(), Ok(r) => r };
    let (tb, entries, obs, reported_os) = if let Some(s) = res.syn.as_ref() { ('q', &t.db.tcp_request.entries, &s.sig, s.os_matched.os.as_ref().map(|o| o.name.clone())) }
        else if let Some(s) = res.syn_ack.as_ref() { ('s', &t.db.tcp_response.entries, &s.sig, s.os_matched.os.as_ref().map(|o| o.name.clone())) }
        else { return "NOTHING".into() };
    let m = if tb == 'q' { matcher.matching_by_tcp_request(obs) } else { matcher.matching_by_tcp_response(obs) };
    let got = m.map(|(l, s, _)| locate(entries, l, s));
    let mut out = match got { None => format!("{} NONE", tb), Some((li, si)) => format!("{} {} {} {}", tb, li, si, name_hex(&entries[li].0)) };
    if reported_os != got.map(|(li, _)| entries[li].0.name.clone()) { out.push_str("\t!process reports another label than the matcher returns for its observation"); }
    // direct oracle
    let lines = if table == 'q' { &t.tq } else { &t.ts };
    let own_entries = if table == 'q' { &t.db.tcp_request.entries } else { &t.db.tcp_response.entries };
    if let (Some(j), Some(g)) = (lines.iter().position(|l| *l == line), decode(v6, bytes)) {
        let own = positions(own_entries)[j];
        let s = &own_entries[own.0].1[own.1];
        if conforms_tcp(table, s, &g) && !t.listed_tcp.contains(&line) {
            let oq: Vec<String> = obs.matching.quirks.iter().map(|q| q.to_string()).collect();
            let idx = |q: &String| ALL_QUIRKS.iter().position(|x| x.to_string() == *q).unwrap_or(99);
            let k4 = oq.windows(2).any(|w| idx(&w[0]) >= idx(&w[1]));
            let k1 = g.layout.iter().any(|o| matches!(o, TcpOption::Eol(n) if *n > 0));
            let k5 = g.bad || (g.ns && g.tos_ecn == 0 && g.flags & 0xc0 == 0);
            // K7: the code's last MTU divisor (MSS + header words / + 40) against the documented MSS + minimal headers
            let k7 = g.mss.map(|m| { let w = g.win as u32; let a = m as u32 + if g.v6 { 40 } else { (20 + g.olen as u32) / 4 }; let b = m as u32 + if g.v6 { 60 } else { 40 };
                                     w != 0 && ((a != 0 && w % a == 0) != (w % b == 0)) }).unwrap_or(false);
            let adm = tb == table && verdict(own_entries, own, got, |x| conforms_tcp(table, x, &g));
            if !adm && !(k1 || k4 || k5 || k7) {
                out.push_str(&format!("\t!signature on line {} is not reachable by this conforming packet: best match {}", line, out.split('\t').next().unwrap()));
            }
        }
    }
    out
}
fn run_h(table: char, line: usize, toks: &[&str]) -> String {
    let t = tables();
    let (msg, body) = decode_msg(toks);
    let mut bytes = render(&msg); bytes.extend_from_slice(&body);
    let matcher = huginn_net_http::SignatureMatcher::new(&t.db);
    let procs = HttpProcessors::new();
    let is_h1 = |v: Version| matches!(v, Version::V10 | Version::V11);
    let (tb, got, entries): (char, Option<(usize, usize)>, &Vec<(Label, Vec<HSig>)>) = if table == 'q' {
        match procs.parse_request(&bytes) { Some(o) if is_h1(o.matching.version) => ('q', matcher.matching_by_http_request(&o).map(|(l, s, _)| locate(&t.db.http_request.entries, l, s)), &t.db.http_request.entries), _ => return "NOTHING".into() }
    } else {
        match procs.parse_response(&bytes) { Some(o) if is_h1(o.matching.version) => ('s', matcher.matching_by_http_response(&o).map(|(l, s, _)| locate(&t.db.http_response.entries, l, s)), &t.db.http_response.entries), _ => return "NOTHING".into() }
    };
    let mut out = match got { None => format!("{} NONE", tb), Some((li, si)) => format!("{} {} {} {}", tb, li, si, name_hex(&entries[li].0)) };
    let lines = if table == 'q' { &t.hq } else { &t.hs };
    if let Some(j) = lines.iter().position(|l| *l == line) {
        let own = positions(entries)[j];
        let s = &entries[own.0].1[own.1];
        if conforms_http(table, s, &msg) && !t.listed_http.contains(&line) {
            if !verdict(entries, own, got, |x| conforms_http(table, x, &msg)) {
                out.push_str(&format!("\t!signature on line {} is not reachable by this conforming message: best match {}", line, out.clone()));
            }
        }
    }
    out
}
fn decode_msg(toks: &[&str]) -> (Msg, Vec<u8>) { ast::decode(toks) }

fn run(line: &str) -> String {
    let toks: Vec<&str> = line.split_whitespace().collect();
    match toks[0] {
        "T" => run_t(toks[1].chars().next().unwrap(), toks[2].parse().unwrap(), toks[3] == "6", &unhex(toks[4])),
        "H" => run_h(toks[1].chars().next().unwrap(), toks[2].parse().unwrap(), &toks[3..]),
        _ => panic!("bad case"),
    }
}

fn main() { main_cli(gen::gen, run) }
