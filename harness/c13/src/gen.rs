//! Generators: for each of the bundled signatures, traffic constructed to conform to it.
//!   TCP : IPv4 / IPv6 (whatever the signature admits), hop counts 0..30 (`NN-` signatures: every TTL 1..=NN), an MSS grid that contains divisors of the
//!         window (and values below 100, and d+12 for timestamp layouts), window scales, both ECN encodings, ports,
//!         addresses, IP ids; `*` windows from a grid of multiples.
//!   HTTP: HTTP/1.0 and 1.1 messages, every subset of the `?` headers (sampled when there are many), header values
//!         equal to the literal / strictly containing it / equal to another signature's literal for that name,
//!         software strings equal to the token and strictly containing it.
//! Streams: structured (random choices per signature), exhaustive-small (hops x MSS grid for every signature; all
//! optional-header subsets), edge (known-class traffic: IP-level ECN, padding after EOL is implied by the signatures).
use crate::ast::*;
use crate::*;

// ------------------------------------------------------------------ TCP
#[derive(Clone)]
pub struct Choice { pub v6: bool, pub hops: u8, pub mss: u16, pub ws: u8, pub ecn_ip: bool, pub payload: bool, pub id: u16, pub sport: u16, pub last: u8, pub win_any: u16,
    /// observed TTL given outright (instead of being derived from `hops`); the Gallina decider conf_ttl still judges it
    pub ttl: Option<u8> }

fn has(s: &TSig, q: Quirk) -> bool { s.quirks.contains(&q) }

/// bytes of an IP packet conforming to `s` under the choices, or None when the choices admit none
pub fn build_tcp(table: char, s: &TSig, c: &Choice) -> Option<Vec<u8>> {
    match s.version { IpVersion::V4 if c.v6 => return None, IpVersion::V6 if !c.v6 => return None, _ => {} }
    let init: i32 = match s.ittl { Ttl::Value(i) | Ttl::Guess(i) | Ttl::Bad(i) => i as i32, Ttl::Distance(a, b) => a as i32 + b as i32 };
    // `NN-`: any TTL from 1 to NN (the hop choice is stretched over the whole range); otherwise initial - hops
    let ttl = if let Some(t) = c.ttl { t as i32 } else if let Ttl::Bad(i) = s.ittl { if i == 0 { 0 } else { (i as i32 - (c.hops as i32 * i as i32) / 31).max(1) } } else { init.min(255) - c.hops as i32 };
    if ttl < 0 || ttl > 255 { return None; }
    let has_mss_opt = s.olayout.contains(&TcpOption::Mss);
    let mss: Option<u16> = if has_mss_opt { Some(s.mss.unwrap_or(c.mss)) } else { if s.mss.map(|m| m != 0).unwrap_or(false) { return None; } None };   // p0f: no MSS option reads as 0
    let has_ws_opt = s.olayout.contains(&TcpOption::Ws);
    let exws = has(s, Quirk::ExcessiveWindowScaling);
    let ws: Option<u8> = if has_ws_opt { Some(s.wscale.unwrap_or(if exws { 15 + c.ws % 8 } else { c.ws % 15 })) } else { if s.wscale.map(|w| w != 0).unwrap_or(false) { return None; } None };   // no WS option reads as scale 0
    if let Some(w) = ws { if (w > 14) != exws { return None; } }
    let hdr: u32 = if c.v6 { 60 } else { 40 };
    let win: u32 = match s.wsize {
        WindowSize::Value(v) => v as u32,
        WindowSize::Mss(k) => k as u32 * mss? as u32,
        WindowSize::Mtu(k) => k as u32 * (mss? as u32 + hdr),
        WindowSize::Mod(n) => if n == 0 { return None } else { n as u32 * (1 + c.win_any as u32 % (65535 / n as u32).max(1)) },
        WindowSize::Any => c.win_any as u32,
    };
    if win > 65535 { return None; }
    if let (WindowSize::Mss(_) | WindowSize::Mtu(_), Some(0)) = (&s.wsize, mss) { return None; }
    // options
    let syn_only = table == 'q';
    let mut o: Vec<u8> = vec![];
    for (i, op) in s.olayout.iter().enumerate() {
        match op {
            TcpOption::Mss => { let m = mss.unwrap(); o.extend_from_slice(&[2, 4, (m >> 8) as u8, m as u8]); }
            TcpOption::Nop => o.push(1),
            TcpOption::Ws => o.extend_from_slice(&[3, 3, ws.unwrap()]),
            TcpOption::Sok => o.extend_from_slice(&[4, 2]),
            TcpOption::Sack => { o.extend_from_slice(&[5, 10]); o.extend_from_slice(&[0, 0, 1, 0, 0, 0, 2, 0]); }
            TcpOption::TS => {
                let t1: u32 = if has(s, Quirk::OwnTimestampZero) { 0 } else { 0x0011_2233 };
                let t2: u32 = if syn_only { if has(s, Quirk::PeerTimestampNonZero) { 0x0a0b_0c0d } else { 0 } } else { 0x0102_0304 };
                o.extend_from_slice(&[8, 10]); o.extend_from_slice(&t1.to_be_bytes()); o.extend_from_slice(&t2.to_be_bytes());
            }
            TcpOption::Unknown(n) => { if *n < 2 { return None; } o.extend_from_slice(&[*n, 2]); }
            TcpOption::Eol(n) => {
                if i + 1 != s.olayout.len() { return None; }
                o.push(0);
                for j in 0..*n { o.push(if j == 0 && has(s, Quirk::TrailinigNonZero) { 0x5a } else { 0 }); }
            }
        }
    }
    if has(s, Quirk::TrailinigNonZero) && !s.olayout.iter().any(|x| matches!(x, TcpOption::Eol(n) if *n > 0)) { return None; }
    if has(s, Quirk::OwnTimestampZero) && !s.olayout.contains(&TcpOption::TS) { return None; }
    if has(s, Quirk::PeerTimestampNonZero) && (!s.olayout.contains(&TcpOption::TS) || !syn_only) { return None; }
    if has(s, Quirk::OptBad) { return None; }
    if o.len() % 4 != 0 || o.len() > 40 { return None; }
    // TCP header
    let ecn = has(s, Quirk::Ecn);
    let mut flags: u8 = if syn_only { 0x02 } else { 0x12 };
    if ecn && !c.ecn_ip { flags |= 0xc0; }
    if has(s, Quirk::Urg) { flags |= 0x20; }
    if has(s, Quirk::Push) { flags |= 0x08; }
    let seq: u32 = if has(s, Quirk::SeqNumZero) { 0 } else { 0x0102_0304 };
    let ack: u32 = if syn_only { if has(s, Quirk::AckNumNonZero) { 0x0506_0708 } else { 0 } } else { if has(s, Quirk::AckNumZero) { 0 } else { 0x0506_0708 } };
    if syn_only && has(s, Quirk::AckNumZero) { return None; }
    if !syn_only && has(s, Quirk::AckNumNonZero) { return None; }
    let urg: u16 = if has(s, Quirk::NonZeroURG) { if has(s, Quirk::Urg) { return None; } 7 } else { 0 };
    let payload: Vec<u8> = match s.pclass { PayloadSize::Zero => vec![], PayloadSize::NonZero => b"x".to_vec(), PayloadSize::Any => if c.payload { b"GET".to_vec() } else { vec![] } };
    let mut t = vec![];
    t.extend_from_slice(&c.sport.to_be_bytes()); t.extend_from_slice(&443u16.to_be_bytes());
    t.extend_from_slice(&seq.to_be_bytes()); t.extend_from_slice(&ack.to_be_bytes());
    t.push((((20 + o.len()) / 4) as u8) << 4); t.push(flags);
    t.extend_from_slice(&(win as u16).to_be_bytes()); t.extend_from_slice(&[0xab, 0xcd]); t.extend_from_slice(&urg.to_be_bytes());
    t.extend_from_slice(&o); t.extend_from_slice(&payload);
    // IP header
    let tos: u8 = if ecn && c.ecn_ip { 0x02 } else { 0 };
    if !c.v6 {
        if has(s, Quirk::FlowID) { /* ignored for IPv4 */ }
        let df = has(s, Quirk::Df);
        let id: u16 = if df { if has(s, Quirk::NonZeroID) { c.id | 1 } else { 0 } } else { if has(s, Quirk::NonZeroID) { return None; } if has(s, Quirk::ZeroID) { 0 } else { c.id | 1 } };
        if df && has(s, Quirk::ZeroID) { return None; }
        let ipopts = vec![1u8; s.olen as usize];
        if ipopts.len() % 4 != 0 || ipopts.len() > 40 { return None; }
        let total = 20 + ipopts.len() + t.len();
        let mut p = vec![0x40 | ((20 + ipopts.len()) / 4) as u8, tos];
        p.extend_from_slice(&(total as u16).to_be_bytes()); p.extend_from_slice(&id.to_be_bytes());
        let fl: u8 = (if has(s, Quirk::MustBeZero) { 0x80 } else { 0 }) | (if df { 0x40 } else { 0 });
        p.push(fl); p.push(0); p.push(ttl as u8); p.push(6); p.extend_from_slice(&[0x12, 0x34]);
        p.extend_from_slice(&[10, 0, 0, c.last]); p.extend_from_slice(&[192, 168, 1, 2]);
        p.extend_from_slice(&ipopts); p.extend_from_slice(&t);
        Some(p)
    } else {
        if s.olen != 0 { return None; }
        let flow: u32 = if has(s, Quirk::FlowID) { 0x12345 } else { 0 };
        let w: u32 = (6u32 << 28) | ((tos as u32) << 20) | flow;
        let mut p = w.to_be_bytes().to_vec();
        p.extend_from_slice(&(t.len() as u16).to_be_bytes()); p.push(6); p.push(ttl as u8);
        p.extend_from_slice(&[0x20, 0x01, 0x0d, 0xb8, 0, 0, 0, 0, 0, 0, 0, 0, 0, 0, 0, c.last]);
        p.extend_from_slice(&[0x20, 0x01, 0x0d, 0xb8, 0, 0, 0, 0, 0, 0, 0, 0, 0, 0, 0, 2]);
        p.extend_from_slice(&t);
        Some(p)
    }
}

fn mss_grid(s: &TSig, r: &mut Rng, n_random: usize) -> Vec<u16> {
    if let Some(m) = s.mss { return vec![m]; }
    let mut g: Vec<u32> = vec![1460, 1440, 1400, 1380, 1360, 1220, 536, 8960, 100, 99, 64, 1];
    let ts = s.olayout.contains(&TcpOption::TS);
    if let WindowSize::Value(v) = s.wsize {
        let v = v as u32;
        for d in [1u32, 2, 3, 4, 5, 6, 8, 10, 11, 12, 16, 20, 22, 32, 44, 45, 64] { if v % d == 0 && v / d >= 1 { g.push(v / d); if ts { g.push(v / d + 12); } } }
        for h in [40u32, 60] { for k in 1..=12u32 { if v % k == 0 && v / k > h { g.push(v / k - h); } } }
    }
    if let WindowSize::Mss(k) = s.wsize { let cap = if k == 0 { 65535 } else { 65535 / k as u32 }; g.retain(|m| *m <= cap); g.push(cap); g.push(cap.saturating_sub(1).max(1)); }
    if let WindowSize::Mtu(k) = s.wsize { let cap = (65535 / (k as u32).max(1)).saturating_sub(60); g.retain(|m| *m <= cap); }
    for _ in 0..n_random { g.push(r.range(1, 9000) as u32); }
    let mut out: Vec<u16> = g.into_iter().filter(|m| *m >= 1 && *m <= 65535).map(|m| m as u16).collect();
    out.sort(); out.dedup(); out
}

fn versions(s: &TSig) -> Vec<bool> { match s.version { IpVersion::V4 => vec![false], IpVersion::V6 => vec![true], IpVersion::Any => vec![false, true] } }

fn tcp_cases(r: &mut Rng, tier: &Tier, out: &mut Vec<String>) {
    let t = tables();
    for (table, lines, entries) in [('q', &t.tq, &t.db.tcp_request.entries), ('s', &t.ts, &t.db.tcp_response.entries)] {
        let pos = positions(entries);
        for (j, line) in lines.iter().enumerate() {
            let s = &entries[pos[j].0].1[pos[j].1];
            let emit = |c: &Choice, out: &mut Vec<String>| {
                if let Some(p) = build_tcp(table, s, c) { out.push(format!("T {} {} {} {}", table, line, if c.v6 { 6 } else { 4 }, hex(&p))); }
            };
            let grid = mss_grid(s, r, tier.scale(2, 12));
            // exhaustive-small: MSS grid x {0, 1, 30} hops x versions; all hops at one MSS
            for v6 in versions(s) {
                for m in &grid {
                    for hops in [0u8, 7, 30] {
                        let c = Choice { v6, hops, mss: *m, ws: r.below(15) as u8, ecn_ip: false, payload: false, id: r.next() as u16, sport: 40000, last: 1, win_any: *r.pick(&[0u16, 1, 5840, 8192, 16384, 65535, 14600, 29200, 5792, 4380, 1024]), ttl: None };
                        emit(&c, out);
                    }
                }
                // TTL sweep (both tiers, every seed): every observed TTL the signature's ittl form admits at which the
                // extractor's abstraction can change shape. `NN-` admits every TTL 1..=NN (`0-`: 0), and inside that range
                // ttl.rs switches between Distance (guessed hop count <= 30) and Value (hop count 31+: TTL 1, 33, 65..=97,
                // 129..=224): all of them are swept. The other forms (`NN`, `NN+?`, `t+d`) admit initial - 0..=30 only
                // (Spec/ConformSpec.v conf_ttl), which the loop below covers at 0, 1, 29, 30 and every third hop count.
                if let Ttl::Bad(i) = s.ittl {
                    let cap = if tier.thorough { 255 } else { 130 };    // quick: 1..=130 covers both shape changes and 32/33, 64/65, 128/129
                    for t in (if i == 0 { 0 } else { 1 })..=i.min(cap) {
                        let c = Choice { v6, hops: 0, mss: *r.pick(&grid), ws: r.below(15) as u8, ecn_ip: t % 2 == 1, payload: t % 3 == 0, id: r.next() as u16, sport: 2048 + t as u16, last: 1 + t % 250, win_any: r.next() as u16, ttl: Some(t) };
                        emit(&c, out);
                    }
                    if i > cap { for t in [i - 1, i] { let c = Choice { v6, hops: 0, mss: *r.pick(&grid), ws: r.below(15) as u8, ecn_ip: false, payload: false, id: r.next() as u16, sport: 2048, last: 1, win_any: r.next() as u16, ttl: Some(t) }; emit(&c, out); } }
                }
                for hops in 0..=30u8 {
                    let c = Choice { v6, hops, mss: *r.pick(&[1460u16, 1400, 536]), ws: r.below(15) as u8, ecn_ip: hops % 2 == 1, payload: hops % 3 == 0, id: r.next() as u16, sport: 1024 + hops as u16, last: hops, win_any: r.next() as u16, ttl: None };
                    if tier.thorough || hops % 3 == 0 || hops <= 1 || hops >= 29 { emit(&c, out); }
                }
            }
            // structured random
            for _ in 0..tier.scale(12, 120) {
                let m = if r.chance(2, 3) { *r.pick(&grid) } else { r.range(1, 65535) as u16 };
                let wa = match r.below(4) { 0 => r.next() as u16, 1 => ((r.range(1, 44) as u32 * m as u32).min(65535)) as u16, 2 => (r.range(1, 255) as u16).wrapping_mul(256), _ => *r.pick(&[0u16, 512, 1500, 2920, 3000, 4380, 5840, 65535]) };
                let c = Choice { v6: *r.pick(&versions(s)), hops: r.below(31) as u8, mss: m, ws: r.below(15) as u8, ecn_ip: r.chance(1, 2), payload: r.chance(1, 2), id: r.next() as u16, sport: r.range(1, 65535) as u16, last: r.range(1, 254) as u8, win_any: wa, ttl: None };
                // `NN-`: half of the random cases draw the observed TTL uniformly from 1..=NN instead of the stretched hop count
                let c = match s.ittl { Ttl::Bad(i) if i > 0 && r.chance(1, 2) => Choice { ttl: Some(r.range(1, i as u64) as u8), ..c }, _ => c };
                emit(&c, out);
            }
        }
    }
}

// ------------------------------------------------------------------ HTTP
const AL_VALUES: &[&str] = &["en-US,en;q=0.5", "en", "en-US", "de-DE,de;q=0.9,en;q=0.8", "zh-cn", "zh-cn,zh-tw", "tr-TR", "en-us,en;q=0.5", "fr;q=0.9,en;q=0.1", "ru", "en;q=0.9"];
/// a structured Accept-Language value whose rendering is `raw` (None when `raw` is outside the simple shape)
fn lang_val(raw: &str) -> Option<Val> {
    let mut items = vec![];
    for part in raw.split(',') {
        let (pre, rest) = match part.strip_prefix(' ') { Some(x) => (b" ".to_vec(), x), None => (vec![], part) };
        let (tag, w) = match rest.split_once(";q=") { Some((t, q)) => (t, Some((vec![], vec![], q.as_bytes().to_vec()))), None => (rest, None) };
        // RFC 4647 language-range and RFC 7231 qvalue (what Spec/Http1Grammar.v `wf` demands of a request's Accept-Language)
        let subs: Vec<&str> = tag.split('-').collect();
        let tag_ok = tag == "*" || (subs.iter().all(|x| !x.is_empty() && x.len() <= 8 && x.bytes().all(|b| b.is_ascii_alphanumeric())) && subs[0].bytes().all(|b| b.is_ascii_alphabetic()));
        if !tag_ok { return None; }
        if let Some((_, _, q)) = &w {
            let q = std::str::from_utf8(q).unwrap();
            let q_ok = match q.split_once('.') { None => q == "0" || q == "1",
                Some((a, b)) => b.len() <= 3 && b.bytes().all(|c| c.is_ascii_digit()) && (a == "0" || (a == "1" && b.bytes().all(|c| c == b'0'))) };
            if !q_ok { return None; }
        }
        items.push(Item { pre, tag: tag.as_bytes().to_vec(), w, post: vec![], upper_q: false });
    }
    let v = Val::Lang(items);
    if render_val(&v) == raw.as_bytes() { Some(v) } else { None }
}
fn literals_of<'a>(entries: &'a [(Label, Vec<HSig>)], name: &str) -> Vec<&'a str> {
    let mut v: Vec<&str> = vec![];
    for e in entries { for s in &e.1 { for h in s.horder.iter().chain(s.habsent.iter()) { if h.name == name { if let Some(l) = &h.value { if !v.contains(&l.as_str()) { v.push(l.as_str()); } } } } } }
    v
}
fn tokens_of(entries: &[(Label, Vec<HSig>)]) -> Vec<&str> {
    let mut v: Vec<&str> = vec![];
    for e in entries { for s in &e.1 { if !v.contains(&s.expsw.as_str()) { v.push(s.expsw.as_str()); } } }
    v
}
fn trimmed_ok(v: &str) -> bool { !v.starts_with([' ', '\t']) && !v.ends_with([' ', '\t']) }

/// value for header `h` of the signature: mode 0 = the literal itself, 1 = strictly containing, 2 = another entry's literal
/// that contains it (or a stock value for bare names)
fn pick_value(r: &mut Rng, entries: &[(Label, Vec<HSig>)], h: &Header, mode: u8, is_req: bool) -> Option<String> {
    let others = literals_of(entries, &h.name);
    let lit = h.value.clone();
    let stock: &[&str] = match h.name.as_str() {
        "Host" => &["example.com", "10.0.0.1:8080"], "Accept" => &["*/*", "text/html,application/xhtml+xml,application/xml;q=0.9,*/*;q=0.8", "text/html, */*"],
        "Accept-Encoding" => &["gzip, deflate", "gzip,deflate", "gzip", "identity"], "Accept-Charset" => &["utf-8", "ISO-8859-1,utf-8;q=0.7,*;q=0.7"],
        "Connection" => &["keep-alive", "close", "Keep-Alive"], "Keep-Alive" => &["115", "300", "timeout=5, max=100"], "Content-Type" => &["text/html", "text/html; charset=UTF-8"],
        "Date" => &["Mon, 01 Jan 2024 00:00:00 GMT"], "Content-Length" => &["0", "1234"], "Accept-Ranges" => &["bytes", "none"], "Cookie" => &["a=b", "a=b; c=d"],
        "Referer" => &["http://example.com/"], _ => &["1", "x", "on"] };
    let v: String = match (lit, mode) {
        (Some(l), 0) => l,
        (Some(l), 1) => { let a = *r.pick(&["x", "text/html,", "q", "A-"]); let b = *r.pick(&["x", "0", ";q=0.1", "/1.0"]); match r.below(3) { 0 => format!("{}{}", a, l), 1 => format!("{}{}", l, b), _ => format!("{}{}{}", a, l, b) } }
        (Some(l), _) => { let c: Vec<&&str> = others.iter().filter(|o| o.contains(l.as_str())).collect(); if c.is_empty() { l } else { (**r.pick(&c)).to_string() } }
        (None, 0) => stock[0].to_string(),
        (None, 1) => r.pick(stock).to_string(),
        (None, _) => if others.is_empty() { r.pick(stock).to_string() } else { r.pick(&others).to_string() },
    };
    let _ = is_req;
    if trimmed_ok(&v) { Some(v) } else { None }
}

pub fn build_http(r: &mut Rng, table: char, entries: &[(Label, Vec<HSig>)], s: &HSig, v11: bool, keep: &dyn Fn(usize) -> bool, vmode: &dyn Fn(usize, &mut Rng) -> u8, swmode: u8) -> Option<Msg> {
    let is_req = table == 'q';
    match s.version { Version::V10 if v11 => return None, Version::V11 if !v11 => return None, Version::V20 | Version::V30 => return None, _ => {} }
    let sw_name = if is_req { "User-Agent" } else { "Server" };
    let mut hs = vec![];
    for (i, h) in s.horder.iter().enumerate() {
        if h.optional && !keep(i) { continue; }
        let md = vmode(i, r);
        let mut v = pick_value(r, entries, h, md, is_req)?;
        if h.name.eq_ignore_ascii_case(sw_name) {
            let tok = s.expsw.as_str();
            let base = if is_req { "Mozilla/5.0 (X11)" } else { "srv" };
            v = match swmode { 0 => if tok.is_empty() { base.to_string() } else { tok.to_string() },
                               1 => format!("{} {}1.0", base, tok),
                               2 => { let ts = tokens_of(entries); let c: Vec<&&str> = ts.iter().filter(|t| t.contains(tok) && !t.is_empty()).collect(); if c.is_empty() { format!("{}{}", tok, "9") } else { (**r.pick(&c)).to_string() } }
                               _ => format!("{}x", tok) };
            if let Some(l) = &h.value { if !v.contains(l.as_str()) { v = format!("{} {}", v, l); } }
            if !trimmed_ok(&v) || v.is_empty() { return None; }
        }
        let val = if is_req && h.name.eq_ignore_ascii_case("accept-language") {
            let want = h.value.clone().unwrap_or_default();
            let mut cands: Vec<&str> = AL_VALUES.iter().copied().filter(|a| a.contains(want.as_str())).collect();
            if lang_val(&v).is_some() && v.contains(want.as_str()) { cands.push(v.as_str()); }
            if cands.is_empty() { return None; }
            let pick = if md == 0 && lang_val(&want).is_some() && !want.is_empty() { want.clone() } else { r.pick(&cands).to_string() };
            lang_val(&pick)?
        } else { Val::Raw(v.into_bytes()) };
        hs.push(H { name: h.name.clone().into_bytes(), o1: b" ".to_vec(), v: val, o2: vec![] });
    }
    let start = if is_req { Start::Req { method: "GET".into(), target: b"/".to_vec(), v: v11 as u8 } } else { Start::Resp { v: v11 as u8, status: "200".into(), reason: b"OK".to_vec() } };
    Some(Msg { start, hs })
}

fn http_cases(r: &mut Rng, tier: &Tier, out: &mut Vec<String>) {
    let t = tables();
    for (table, lines, entries) in [('q', &t.hq, &t.db.http_request.entries), ('s', &t.hs, &t.db.http_response.entries)] {
        let pos = positions(entries);
        for (j, line) in lines.iter().enumerate() {
            let s = &entries[pos[j].0].1[pos[j].1];
            let opt_idx: Vec<usize> = s.horder.iter().enumerate().filter(|(_, h)| h.optional).map(|(i, _)| i).collect();
            let nsub: u64 = 1u64 << opt_idx.len().min(20);
            let emit = |m: Option<Msg>, out: &mut Vec<String>| {
                if let Some(m) = m { if conforms_http(table, s, &m) { out.push(format!("H {} {} {}", table, line, encode(&m, if table == 's' { b"hello" } else { b"" }))); } }
            };
            // exhaustive-small: every optional subset (capped) x version x {exact, containing} x software {exact, containing}
            let subsets: Vec<u64> = if nsub <= 16 { (0..nsub).collect() } else { (0..16).map(|_| r.below(nsub)).collect() };
            for sub in &subsets {
                let keep = |i: usize| { let k = opt_idx.iter().position(|x| *x == i).unwrap(); sub >> k & 1 == 1 };
                for v11 in [false, true] {
                    for (vm, sm) in [(0u8, 0u8), (0, 1), (1, 0), (1, 1), (2, 2), (0, 3)] {
                        emit(build_http(r, table, entries, s, v11, &keep, &|_, _| vm, sm), out);
                    }
                }
            }
            // structured random: per-header modes
            for _ in 0..tier.scale(40, 500) {
                let sub = r.below(nsub);
                let keep = |i: usize| { let k = opt_idx.iter().position(|x| *x == i).unwrap(); sub >> k & 1 == 1 };
                let v11 = r.chance(1, 2);
                let sm = r.below(4) as u8;
                emit(build_http(r, table, entries, s, v11, &keep, &|_, rr: &mut Rng| rr.below(3) as u8, sm), out);
            }
        }
    }
}

pub fn gen(r: &mut Rng, tier: &Tier, out: &mut Vec<String>) {
    tcp_cases(r, tier, out);
    http_cases(r, tier, out);
}
