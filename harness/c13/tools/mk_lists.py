#!/usr/bin/env python3
"""Regenerates coq/Spec/ReachLists.v and coq/Spec/ReachWitness.v (C13) from the current p0f.fp and code.

NOT run by bin/check: the two files are documented data.  Run it by hand after p0f.fp or the matcher changed and
bin/check C13 reports that the recorded partition / witnesses no longer hold:
    python3 harness/c13/tools/mk_lists.py [seed:tier ...]       (default 1:quick 2:quick 3:quick 4:thorough 5:thorough)
It needs build/target/release/hn_c13 and build/ocaml/C13_model/drv (both built by bin/check C13) and coqc.
Witness search happens here (harness generators + the extracted model as judge); Coq only CHECKS the witnesses."""
import subprocess, sys, os, re, json, collections
V = os.path.abspath(os.path.join(os.path.dirname(__file__), '..', '..', '..'))
P0F = '/repo/huginn-net-db/config/p0f.fp'

def coq_classes():
    src = '''From Coq Require Import List NArith.
From HN Require Import Base.Bytes Model.SigAst Spec.BundledSpec Spec.ConformSpec Spec.ReachSpec.
Import ListNotations.
Definition cls := [CLive; CBadTtl; COddTtl; CEolPad; CQuirkOrder; COptZero; CValueWindow; CModWindow; CMtuWindow; CMssWide].
Eval vm_compute in (map (fun c => (c, tcp_lines_in bundled_db TReq c, tcp_lines_in bundled_db TResp c)) cls).
'''
    d = os.path.join(V, 'build', 'run', 'C13'); os.makedirs(d, exist_ok=True)
    open(os.path.join(d, 'classes.v'), 'w').write(src)
    out = subprocess.run(['coqc', '-noglob', '-Q', os.path.join(V, 'coq'), 'HN', 'classes.v'], cwd=d, capture_output=True, text=True).stdout
    out = re.sub(r'\s+', ' ', out)
    cls = {}
    for m in re.finditer(r'\(\s*(C\w+),\s*\[(.*?)\],\s*\[(.*?)\]\)', out):
        for tb, grp in (('q', m.group(2)), ('s', m.group(3))):
            for x in grp.split(';'):
                if x.strip(): cls[int(x)] = (m.group(1), tb)
    return cls

def coq_tcp_live1(lines):
    """lines whose distance-1 certificate (Spec/ReachMinSpec.v live1_cert) evaluates to true"""
    src = '''From Coq Require Import List NArith Bool.
From HN Require Import Base.Bytes Model.SigAst Spec.ScanSpec Spec.DbLoadSpec Spec.BundledSpec Spec.ConformSpec Spec.ReachSpec Spec.ReachMinSpec.
Import ListNotations.
Definition cand : list N := [%s].
Definition res (k : tkind) := let tb := tcp_table bundled_db k in
  flat_map (fun e => let \'(line, (li, si, s)) := e in if existsb (N.eqb line) cand then [(line, 1, live1_cert tb li si s)] else [])
           (with_lines (sig_lines (tcp_sec k)) tb).
Eval vm_compute in (res TReq ++ res TResp).
''' % '; '.join(str(l) for l in lines)
    d = os.path.join(V, 'build', 'run', 'C13'); os.makedirs(d, exist_ok=True)
    open(os.path.join(d, 'tcplive1.v'), 'w').write(src)
    out = subprocess.run(['coqc', '-noglob', '-Q', os.path.join(V, 'coq'), 'HN', 'tcplive1.v'], cwd=d, capture_output=True, text=True).stdout
    out = re.sub(r'\s+', ' ', out)
    return {int(m.group(1)): m.group(3) == 'true' for m in re.finditer(r'\(\s*(\d+),\s*(\d+),\s*(true|false)\)', out)}

NSHARD = 12
# the witness of the former class KV6 (repaired by ecf5f15): a Linux 3.11 SYN over IPv6, kept as a regression case
FORMER_KV6 = 'T q 96 6 600000000028064020010db800000000000000000000000120010db80000000000000000000000029c4001bb0102030400000000a0020014abcd0000020400010402080a00112233000000000103030a'

def coq_http_eval(name, lines, limit, with_live=True):
    """(line -> (leaves, passes)) for the given lines, one coqc process"""
    src = '''From Coq Require Import List NArith Bool.
From HN Require Import Base.Bytes Model.SigAst Spec.ScanSpec Spec.InstanceSpec Spec.DbLoadSpec Spec.BundledSpec Spec.ConformSpec Spec.ReachSpec Spec.ReachHttpSpec.
Import ListNotations.
Definition cand : list N := [%s].
Definition res (k : hkind) :=
  let tb := http_table bundled_db k in let sw := sw_all_of tb in
  flat_map (fun e => let \'(line, (li, si, s)) := e in
     if existsb (N.eqb line) cand then
       let n := count_from k tb sw (filter (substring_b (hs_expsw s)) sw) (hs_horder s) false in
       [(line, n, if N.leb n %d then %s else false)] else [])
     (with_lines (sig_lines (http_sec k)) tb).
Eval vm_compute in (res HReq ++ res HResp).
''' % ('; '.join(str(l) for l in lines), limit, 'live_http_w k tb li si s sw' if with_live else 'false')
    d = os.path.join(V, 'build', 'run', 'C13'); os.makedirs(d, exist_ok=True)
    open(os.path.join(d, name + '.v'), 'w').write(src)
    return subprocess.Popen(['coqc', '-noglob', '-Q', os.path.join(V, 'coq'), 'HN', name + '.v'], cwd=d, stdout=subprocess.PIPE, text=True)

def parse_eval(proc):
    out = re.sub(r'\s+', ' ', proc.communicate()[0])
    return {int(m.group(1)): (int(m.group(2)), m.group(3) == 'true') for m in re.finditer(r'\(\s*(\d+),\s*(\d+),\s*(true|false)\)', out)}

def coq_http_live(lines, limit):
    """leaf counts first, then the check itself: big walks each in a process of their own, the small ones together"""
    counts = parse_eval(coq_http_eval('httpcount', lines, 0, with_live=False))
    ok = [l for l in lines if counts.get(l, (10**9,))[0] <= limit]
    big = [l for l in ok if counts[l][0] > 1500]; small = [l for l in ok if counts[l][0] <= 1500]
    procs = [coq_http_eval('httplive_small', small, limit)] + [coq_http_eval('httplive_%d' % l, [l], limit) for l in big]
    res = dict(counts)
    for p in procs: res.update(parse_eval(p))
    return res

def http_sigs():
    sec = None; res = {}
    for i, l in enumerate(open(P0F), 1):
        l = l.strip(); m = re.match(r'\[(.*)\]$', l)
        if m: sec = m.group(1); continue
        if l.startswith(';'): continue
        if '=' in l and l.split('=', 1)[0].strip() == 'sig' and sec in ('http:request', 'http:response'):
            res[i] = ('q' if sec.endswith('request') else 's', l.split('=', 1)[1].strip())
    return res

def split_headers(s):
    out, cur, depth = [], '', 0
    for ch in s:
        if ch == '[': depth += 1
        if ch == ']': depth -= 1
        if ch == ',' and depth == 0: out.append(cur); cur = ''
        else: cur += ch
    if cur: out.append(cur)
    hs = []
    for h in out:
        opt = h.startswith('?'); h = h[1:] if opt else h
        if '=[' in h: n, v = h.split('=[', 1); v = v[:-1]
        else: n, v = h, None
        hs.append((opt, n, v))
    return hs

def http_kind(case, sigtext):
    """0 = every literal given exactly and the software string equal to the token; 1 = only the software string longer;
       2 = some header value strictly contains its literal"""
    t = case.split()
    ver, horder, rest = sigtext.split(':', 2)
    habsent, token = rest.rsplit(':', 1) if ':' in rest else (rest, '')
    # horder may contain ':' inside brackets only in odd cases; the bundled file has none outside values
    hs = split_headers(horder)
    n = int(t[7]); toks = t[8:8 + 4 * n]
    msg = []
    for i in range(n):
        name = bytes.fromhex(toks[4 * i]).decode('latin1'); v = toks[4 * i + 2]
        if v.startswith('r'): val = bytes.fromhex(v[1:]).decode('latin1')
        else:
            items = []
            for it in v[1:].split(','):
                a, g, w, p = it.split('.')
                s = bytes.fromhex(a).decode() + bytes.fromhex(g).decode()
                if w != 'n': o1, o2, q = w[1:].split('_'); s += bytes.fromhex(o1).decode() + ';' + bytes.fromhex(o2).decode() + 'q=' + bytes.fromhex(q).decode()
                items.append(s + bytes.fromhex(p).decode())
            val = ','.join(items)
        msg.append((name, val))
    kind = 0
    swn = 'user-agent' if t[1] == 'q' else 'server'
    lit = {n: v for (_, n, v) in hs}
    for name, val in msg:
        if name.lower() == swn:
            if token and val != token: kind = max(kind, 1)
        if lit.get(name) is not None and val != lit[name]: kind = 2
    return kind

def main():
    runs = sys.argv[1:] or ['1:quick', '2:quick', '3:quick', '4:thorough', '5:thorough']
    hb = os.path.join(V, 'build', 'target', 'release', 'hn_c13'); drv = os.path.join(V, 'build', 'ocaml', 'C13_model', 'drv')
    hsig = http_sigs()
    best, tot = {}, collections.Counter()
    good = {}   # (kind, table, line) -> shortest admissible case outside the known classes
    for a in runs:
        seed, tier = a.split(':')
        cases = subprocess.run([hb, 'gen', seed, tier], capture_output=True, text=True).stdout.splitlines()
        model = subprocess.run(['bash', '-c', 'ulimit -s unlimited; exec ' + drv], input=''.join('J ' + c + '\n' for c in cases), capture_output=True, text=True).stdout.splitlines()
        assert len(cases) == len(model)
        for c, m in zip(cases, model):
            t = c.split(); key = (t[0], t[1], int(t[2])); mm = m.split('\t')
            tot[key] += 1
            if mm[0] == 'BADCASE': raise SystemExit('BADCASE ' + c[:300])
            if mm[1] == mm[0] and mm[2] == '0' and (key not in good or len(c) < len(good[key])): good[key] = c
            if mm[1] != mm[0]:
                # traffic-level known flag: recompute without the line lists = the model prints listed||known_traffic;
                # run with empty lists for exact flags, otherwise this prefers nothing wrongly
                kn = int(mm[2])
                kind = http_kind(c, hsig[key[2]][1]) if t[0] == 'H' else 0
                cand = (kn, kind, len(c), c)
                if key not in best or cand[:3] < best[key][:3]: best[key] = cand
    cls = coq_classes()
    cand1 = [line for line in sorted(cls) if cls[line][0] == 'COptZero' and not (best.get(('T', cls[line][1], line)) is not None and best[('T', cls[line][1], line)][0] == 0)]
    l1 = coq_tcp_live1(cand1)
    print('distance-1 certificates:', l1)
    groups = collections.OrderedDict((k, []) for k in ['live_tcp', 'live1_tcp', 'dead_bad_ttl', 'dead_value_window', 'dead_eol_pad', 'undecided_tcp'])
    wit = collections.OrderedDict((k, []) for k in ['bad_ttl', 'value_window', 'eol_pad', 'http_exact', 'http_expsw', 'http_value', 'former_kv6', 'ex_live', 'ex_http'])
    for line in sorted(cls):
        c, tb = cls[line]; b = best.get(('T', tb, line))
        unknown = b is not None and b[0] == 0
        if c == 'CLive':
            if unknown: raise SystemExit('live signature %d has an unexcused witness: %s' % (line, b[3]))
            groups['live_tcp'].append(line)
            if not wit['ex_live'] and ('T', tb, line) in good: wit['ex_live'].append((line, good[('T', tb, line)]))
        elif c == 'CBadTtl' and unknown: groups['dead_bad_ttl'].append(line); wit['bad_ttl'].append((line, b[3]))
        elif c in ('CValueWindow', 'COptZero', 'CModWindow', 'CMtuWindow', 'CMssWide') and unknown: groups['dead_value_window'].append(line); wit['value_window'].append((line, b[3]))
        elif c in ('CEolPad', 'COddTtl') and b is not None: groups['dead_eol_pad'].append(line); wit['eol_pad'].append((line, b[3]))
        elif l1.get(line): groups['live1_tcp'].append(line)
        else: groups['undecided_tcp'].append(line)
    cand = [line for line in sorted(hsig) if not (best.get(('H', hsig[line][0], line)) is not None and best[('H', hsig[line][0], line)][0] == 0)]
    LIMIT = int(os.environ.get('C13_HTTP_LEAVES', '20000'))
    hl = coq_http_live(cand, LIMIT)
    print('http abstraction:', {l: hl[l] for l in sorted(hl)})
    hgroups = collections.OrderedDict((k, []) for k in ['live_http', 'dead_http_exact', 'dead_http_expsw', 'dead_http_value', 'undecided_http'])
    for line in sorted(hsig):
        tb = hsig[line][0]; b = best.get(('H', tb, line))
        if b is not None and b[0] == 0:
            k = ['exact', 'expsw', 'value'][b[1]]
            hgroups['dead_http_' + k].append(line); wit['http_' + k].append((line, b[3]))
        elif hl.get(line, (0, False))[1]:
            hgroups['live_http'].append(line)
            if not wit['ex_http'] and ('H', tb, line) in good: wit['ex_http'].append((line, good[('H', tb, line)]))
        else:
            hgroups['undecided_http'].append(line)
    fmt = lambda l: '[' + '; '.join(str(x) for x in l) + ']'
    loads = [[0, []] for _ in range(NSHARD)]
    for line in sorted(hgroups['live_http'], key=lambda l: -hl[l][0]):
        tgt = min(loads, key=lambda x: x[0]); tgt[0] += hl[line][0] + 50; tgt[1].append(line)
    shards_txt = '[' + '; '.join(fmt(sorted(x[1])) for x in loads) + ']'
    with open(os.path.join(V, 'coq', 'Spec', 'ReachLists.v'), 'w') as f:
        f.write('''(* C13: the documented status of the bundled signatures, by p0f.fp line (literal data written by
   harness/c13/tools/mk_lists.py; Proofs/ReachBundled.v recomputes the partition from Gen/Bundled.v, checks every
   witness and compares, so a signature that changes status breaks an obligation).  Definitions only. *)
From Coq Require Import List NArith.
Import ListNotations.
Open Scope N_scope.

(* ---- TCP ---- *)
(* proved reachable: every conforming packet outside the known traffic classes gets an admissible label *)
Definition live_tcp_lines : list N := %s.
(* proved reachable at distance 1 (scale `0` written for a layout without `ws`; certificate Spec/ReachMinSpec.v live1_cert) *)
Definition live1_tcp_lines : list N := %s.
(* dead, class DeadBadTtl: `NN-` signatures; an observed TTL is never of the form Bad unless it is 0 *)
Definition dead_bad_ttl_lines : list N := %s.
(* dead, class DeadValueWindow: a literal window that the extractor re-expresses as mss*k / %%n / mtu*k for some MSS *)
Definition dead_value_window_lines : list N := %s.
(* dead, class DeadEolPad: layouts with `eol+n`, n >= 1 (rendered as a chain eol+n,..,eol+0: C03 K1) *)
Definition dead_eol_pad_lines : list N := %s.
(* neither proved live nor refuted *)
Definition undecided_tcp_lines : list N := %s.
Definition dead_tcp_lines : list N := dead_bad_ttl_lines ++ dead_value_window_lines ++ dead_eol_pad_lines.
(* sizes of (live, live at distance 1, DeadBadTtl, DeadValueWindow, DeadEolPad, undecided); 199 in all *)
Definition tcp_partition_sizes : nat * nat * nat * nat * nat * nat := (%s)%%nat.

(* ---- HTTP ---- *)
(* proved reachable by the finite abstraction (Spec/ReachHttpSpec.v; walks of at most C13_HTTP_LEAVES = 20000 leaves), split
   into the shards that Proofs/ReachHttpShardNN.v evaluate in parallel (balanced by number of leaves) *)
Definition http_shards : list (list N) := %s.
Definition live_http_lines : list N := concat http_shards.
(* dead already for messages that give every literal exactly and the bare token as software string *)
Definition dead_http_exact_lines : list N := %s.
(* dead for messages with exact literals whose software string strictly contains the token (Expsw) *)
Definition dead_http_expsw_lines : list N := %s.
(* dead for messages in which a header value strictly contains its literal (ValueEquality) *)
Definition dead_http_value_lines : list N := %s.
Definition undecided_http_lines : list N := %s.
Definition dead_http_lines : list N := dead_http_exact_lines ++ dead_http_expsw_lines ++ dead_http_value_lines.
(* sizes of (live, dead exact, dead Expsw, dead ValueEquality, undecided); 99 in all *)
Definition http_partition_sizes : nat * nat * nat * nat * nat := (%s)%%nat.
''' % tuple([fmt(g) for g in groups.values()] + [', '.join(str(len(g)) for g in groups.values())] + [shards_txt] + [fmt(g) for k, g in hgroups.items() if k != 'live_http'] + [', '.join(str(len(g)) for g in hgroups.values())]))
    wit['former_kv6'].append((96, FORMER_KV6))
    with open(os.path.join(V, 'coq', 'Spec', 'ReachWitness.v'), 'w') as f:
        f.write('''(* C13: one witness per dead signature, as case lines of Extract/EC13.v (found by harness/c13/tools/mk_lists.py with
   the harness generators; Proofs/ReachBundled.v CHECKS each: it conforms to the signature on its line and the
   model's best match for it is not admissible).  Definitions only. *)
From Coq Require Import List NArith.
From HN Require Import Base.Bytes.
Import ListNotations.
Open Scope N_scope.
''')
        for k, l in wit.items():
            f.write('\nDefinition wit_%s : list (N * bytes) := [\n' % k)
            f.write(';\n'.join('  (%d, bs "%s")' % (line, c) for line, c in l))
            f.write('].\n')
    print({k: len(v) for k, v in list(groups.items()) + list(hgroups.items())})

main()
