//! C10 harness: a worker pool delivers, as a multiset and in per-identity order, what the sequential
//! analyzer delivers for the same trace (no queue overflow).
//! line: <kind t|l|h> W <workers> B <batch> T <timeout ms> P <key>:<sequential token>:<frame hex> ... S <event> ...
//!   key = index of the packet's sharding identity (TCP pool: sending host; TLS: directed 4-tuple; HTTP: connection)
//!   sequential token = result token of that packet in the sequential run (recorded by `gen` with the real code)
//!   events (used by the MODEL only): d = dispatch next packet, w<k> = worker k handles one queued packet
//!   kind L (TLS only):  l W <workers> B <batch> T <timeout> L <cap per worker> <worker|x>:<frame hex> ... S <event> ...
//!   worker = what the real packet_hash::hash_flow names for that frame (x = None: the pool discards it); the MODEL is
//!   the CONCRETE TLS pool (coq/Model/PoolConcrete.v) under the schedule; run = real WorkerPool with that capacity,
//!   result tokens (concrete::tls_pool_token) sorted and joined by ';'
//!   kind letter suffixes (not read by the MODEL): <cap> = flow-table capacity; @<i> (TLS) = SLOW variant: the dispatcher sleeps
//!   6 x timeout + 20 ms before frame i (nothing is queued meanwhile), the pool must still equal the sequential run
//! run: real WorkerPool of that crate -> sorted result tokens joined by ','; `!pool …` when the pool's results
//!   differ from the sequential ones as a multiset or in the order of any identity.
#[path = "../../c07/src/concrete.rs"]
#[allow(dead_code)]
mod concrete;
use cflow::*;
use hnv_common::*;
use huginn_net_db::Database;
use std::sync::mpsc::{channel, Receiver};
use std::sync::Arc;
use std::time::Duration;

const CLOCK: u64 = 1_700_000_000_000;

fn collect<T>(rx: &Receiver<T>, queues_empty: &dyn Fn() -> bool, text: &dyn Fn(&T) -> String) -> Vec<String> {
    let mut out = Vec::new();
    let mut quiet = 0;
    let mut idle = 0;
    loop {
        match rx.recv_timeout(Duration::from_millis(40)) {
            Ok(x) => { let s = text(&x); if !s.is_empty() { out.push(s); } quiet = 0; idle = 0; }
            Err(_) => {
                idle += 1;
                if queues_empty() { quiet += 1; if quiet >= 5 { break; } }
                if idle >= 50 { break; }   // 2 s without any result: give up waiting (packets stuck in a queue are then simply missing)
            }
        }
    }
    out
}

fn pool_run(kind: Kind, frames: &[Vec<u8>], workers: usize, batch: usize, timeout: u64, db: &Arc<Database>, cap: usize, pause_before: Option<usize>) -> Result<Vec<String>, String> {
    huginn_net_tcp::uptime::verif_hooks::set_frozen_clock(Some(CLOCK));
    match kind {
        Kind::Tcp => {
            let (tx, rx) = channel();
            let pool = huginn_net_tcp::WorkerPool::new(workers, 4096, batch, timeout, tx, Some(db.clone()), cap, None).map_err(|e| e.to_string())?;
            for f in frames { if let huginn_net_tcp::DispatchResult::Dropped = pool.dispatch(f.clone()) { return Err("dropped".into()); } }
            let r = collect(&rx, &|| pool.stats().workers.iter().all(|w| w.queue_size == 0), &|x| tcp_text(x));
            pool.shutdown();
            Ok(r)
        }
        Kind::Http => {
            let (tx, rx) = channel();
            let pool = huginn_net_http::WorkerPool::new(workers, 4096, batch, timeout, tx, Some(db.clone()), cap, None).map_err(|e| e.to_string())?;
            for f in frames { if let huginn_net_http::DispatchResult::Dropped = pool.dispatch(f.clone()) { return Err("dropped".into()); } }
            let r = collect(&rx, &|| pool.stats().workers.iter().all(|w| w.queue_size == 0), &|x| http_text(x));
            pool.shutdown();
            Ok(r)
        }
        _ => {
            let (tx, rx) = channel();
            let pool = huginn_net_tls::WorkerPool::new(workers, 4096, batch, timeout, tx, cap, None).map_err(|e| e.to_string())?;
            for (i, f) in frames.iter().enumerate() {
                // slow sender: every queue drains and every worker sits idle for several receive timeouts
                if pause_before == Some(i) { std::thread::sleep(Duration::from_millis(6 * timeout + 20)); }
                if let huginn_net_tls::DispatchResult::Dropped = pool.dispatch(f.clone()) { return Err("dropped".into()); }
            }
            let r = collect(&rx, &|| pool.stats().workers.iter().all(|w| w.queue_size == 0), &|x| tls_text(x));
            pool.shutdown();
            Ok(r)
        }
    }
}

/// identity of a result as the pool shards it, read from the endpoints in its text
fn result_key(kind: Kind, text: &str) -> String {
    let mut eps = Vec::new();
    let mut rest = text;
    while let Some(i) = rest.find("IpPort { ip: ") {
        let t = &rest[i + 13..];
        let j = t.find(" }").unwrap_or(t.len());
        eps.push(t[..j].replace(", port: ", ":"));
        rest = &t[j..];
        if eps.len() == 2 { break; }
    }
    if eps.len() < 2 { return "?".into(); }
    match kind {
        Kind::Tcp => eps[0].rsplit_once(':').map(|x| x.0.to_string()).unwrap_or_default(),
        Kind::Tls => format!("{}>{}", eps[0], eps[1]),
        _ => { let mut e = eps.clone(); e.sort(); format!("{}|{}", e[0], e[1]) }
    }
}

/// the documented entry point: analyze_pcap in parallel mode vs analyze_pcap in sequential mode
fn pcap_modes(kind: Kind, frames: &[Vec<u8>], workers: usize, batch: usize, timeout: u64, db: &Arc<Database>, tag: &str, cap: usize) -> Option<String> {
    let dir = concat!(env!("CARGO_MANIFEST_DIR"), "/../../build/tmp");
    let _ = std::fs::create_dir_all(dir);
    let path = format!("{}/c10_{}.pcap", dir, tag);
    hnv_common::pkt::write_pcap(&path, frames);
    huginn_net_tcp::uptime::verif_hooks::set_frozen_clock(Some(CLOCK));
    fn drain<T>(rx: &Receiver<T>, idle: &dyn Fn() -> bool, text: &dyn Fn(&T) -> String) -> Vec<String> { collect(rx, idle, text) }
    let (mut seq, mut par): (Vec<String>, Vec<String>);
    match kind {
        Kind::Tcp => {
            let (tx, rx) = channel();
            let mut a = huginn_net_tcp::HuginnNetTcp::new(Some(db.clone()), cap).ok()?;
            a.analyze_pcap(&path, tx, None).ok()?;
            seq = rx.try_iter().map(|x| tcp_text(&x)).filter(|s| !s.is_empty()).collect();
            let (tx, rx) = channel();
            let mut b = huginn_net_tcp::HuginnNetTcp::with_config(Some(db.clone()), cap, workers, 4096, batch, timeout).ok()?;
            b.init_pool(tx.clone()).ok()?;
            b.analyze_pcap(&path, tx, None).ok()?;
            let pool = b.worker_pool();
            par = drain(&rx, &|| pool.as_ref().map(|p| p.stats().workers.iter().all(|w| w.queue_size == 0)).unwrap_or(true), &|x| tcp_text(x));
        }
        Kind::Http => {
            let (tx, rx) = channel();
            let mut a = huginn_net_http::HuginnNetHttp::new(Some(db.clone()), cap).ok()?;
            a.analyze_pcap(&path, tx, None).ok()?;
            seq = rx.try_iter().map(|x| http_text(&x)).filter(|s| !s.is_empty()).collect();
            let (tx, rx) = channel();
            let mut b = huginn_net_http::HuginnNetHttp::with_config(Some(db.clone()), cap, workers, 4096, batch, timeout).ok()?;
            b.init_pool(tx.clone()).ok()?;
            b.analyze_pcap(&path, tx, None).ok()?;
            let pool = b.worker_pool().cloned();
            par = drain(&rx, &|| pool.as_ref().map(|p| p.stats().workers.iter().all(|w| w.queue_size == 0)).unwrap_or(true), &|x| http_text(x));
            if let Some(p) = pool { p.shutdown(); }
        }
        _ => {
            let (tx, rx) = channel();
            let mut a = huginn_net_tls::HuginnNetTls::new(cap);
            a.analyze_pcap(&path, tx, None).ok()?;
            seq = rx.try_iter().map(|x| tls_text(&x)).collect();
            let (tx, rx) = channel();
            let mut b = huginn_net_tls::HuginnNetTls::with_config_and_max_connections(workers, 4096, batch, timeout, cap);
            b.init_pool(tx.clone()).ok()?;
            b.analyze_pcap(&path, tx, None).ok()?;
            let pool = b.worker_pool();
            par = drain(&rx, &|| pool.as_ref().map(|p| p.stats().workers.iter().all(|w| w.queue_size == 0)).unwrap_or(true), &|x| tls_text(x));
            if let Some(p) = pool { p.shutdown(); }
        }
    }
    let _ = std::fs::remove_file(&path);
    seq.sort(); par.sort();
    if seq != par {
        let only_seq = seq.iter().find(|s| !par.contains(s)).map(|s| s.chars().take(240).collect::<String>());
        return Some(format!("analyze_pcap parallel mode differs from sequential mode: sequential {} results, parallel {}; e.g. only sequential: {:?}", seq.len(), par.len(), only_seq));
    }
    None
}

thread_local! { static DB: Arc<Database> = Arc::new(Database::load_default().expect("db")); }

fn seq_texts(kind: Kind, frames: &[Vec<u8>], db: &Database, cap: usize) -> Vec<String> {
    let mut a = Seq::new(kind, db, cap);
    frames.iter().map(|f| a.packet(f, CLOCK)).collect()
}

fn run_l(toks: &[&str], workers: usize, batch: usize, timeout: u64) -> String {
    let cap: usize = toks[8].parse().unwrap();
    let spos = toks.iter().position(|t| *t == "S").unwrap();
    let frames: Vec<Vec<u8>> = toks[9..spos].iter().map(|t| unhex(t.rsplit(':').next().unwrap())).collect();
    let (tx, rx) = channel();
    let pool = match huginn_net_tls::WorkerPool::new(workers, 4096, batch, timeout, tx, cap, None) { Ok(p) => p, Err(e) => return format!("POOLERR {}", e) };
    for f in &frames { if let huginn_net_tls::DispatchResult::Dropped = pool.dispatch(f.clone()) { return "POOLERR dropped".into(); } }
    let mut r = collect(&rx, &|| pool.stats().workers.iter().all(|w| w.queue_size == 0), &|x| concrete::tls_pool_token(x));
    pool.shutdown();
    r.sort();
    if r.is_empty() { "-".into() } else { r.join(";") }
}

fn run(line: &str) -> String {
    let toks: Vec<&str> = line.split(' ').collect();
    let kind = Kind::from(&toks[0][..1]);
    // optional flow-table capacity after the kind letter (e.g. l24): pool max_connections AND sequential capacity;
    // optional @<i>: slow variant, pause before frame i
    let (head, pause) = match toks[0].split_once('@') { Some((h, p)) => (h, p.parse::<usize>().ok()), None => (toks[0], None) };
    let cap: usize = head[1..].parse().unwrap_or(1000);
    let workers: usize = toks[2].parse().unwrap(); let batch: usize = toks[4].parse().unwrap(); let timeout: u64 = toks[6].parse().unwrap();
    if toks[7] == "L" { return run_l(&toks, workers, batch, timeout); }
    let spos = toks.iter().position(|t| *t == "S").unwrap();
    let frames: Vec<Vec<u8>> = toks[8..spos].iter().map(|t| unhex(t.rsplit(':').next().unwrap())).collect();
    DB.with(|db| {
        let pool = match pool_run(kind, &frames, workers, batch, timeout, db, cap, pause) { Ok(r) => r, Err(e) => return format!("POOLERR {}", e) };
        let seq: Vec<String> = seq_texts(kind, &frames, db, cap).into_iter().filter(|s| !s.is_empty()).collect();
        let mut ptoks: Vec<String> = pool.iter().map(|s| tok(s)).collect(); ptoks.sort();
        let mut out = ptoks.join(",");
        let mut stoks: Vec<String> = seq.iter().map(|s| tok(s)).collect(); stoks.sort();
        if stoks != ptoks {
            let missing: Vec<&String> = seq.iter().filter(|s| !pool.contains(s)).collect();
            let extra: Vec<&String> = pool.iter().filter(|s| !seq.contains(s)).collect();
            out.push_str(&format!("\t!pool multiset differs from sequential: sequential {} results, pool {}; only sequential: {:?}; only pool: {:?}", seq.len(), pool.len(),
                missing.first().map(|s| s.chars().take(260).collect::<String>()), extra.first().map(|s| s.chars().take(260).collect::<String>())));
            return out;
        }
        if workers <= 2 {
            if let Some(msg) = pcap_modes(kind, &frames, workers, batch, timeout, db, &fnv(line), cap) { out.push_str(&format!("\t!{}", msg)); return out; }
        }
        let keys: std::collections::BTreeSet<String> = seq.iter().map(|s| result_key(kind, s)).collect();
        for k in keys {
            let a: Vec<String> = seq.iter().filter(|s| result_key(kind, s) == k).map(|s| tok(s)).collect();
            let b: Vec<String> = pool.iter().filter(|s| result_key(kind, s) == k).map(|s| tok(s)).collect();
            if a != b { out.push_str(&format!("\t!pool order differs for identity {}: sequential {:?} pool {:?}", k, a, b)); break; }
        }
        out
    })
}

fn gen(r: &mut Rng, tier: &Tier, out: &mut Vec<String>) {
    let db = Database::load_default().expect("db");
    for case in 0..tier.scale(96, 1500) {
        let kind = [Kind::Tcp, Kind::Tls, Kind::Http][case % 3];
        // every 8th case: a TLS pool whose flow-table capacity equals the number of connections, all ClientHellos
        // split in two and all first halves in flight at once (round-robin interleaving)
        let tight = case % 8 == 1 && kind == Kind::Tls;
        let n = if tight { 12 + r.below(30) as usize } else { 2 + r.below(5) as usize };
        let mut conns = Vec::new();
        for j in 0..n {
            if tight {
                let mut sp = ConnSpec::new(1, false, (case as u64 * 17 + j as u64 * 7) % 4000 + j as u64 * 6000);
                sp.force_segs = Some(2);
                conns.push(connection(r, &sp, 1_000_000));
                continue;
            }
            let ck = match kind { Kind::Tcp => r.below(4), Kind::Tls => *r.pick(&[1u64, 1, 1, 0]), _ => *r.pick(&[0u64, 0, 3, 3, 2]) };
            let v6 = r.chance(1, 5);
            let mut sp = ConnSpec::new(ck, v6, (case as u64 * 13 + j as u64 * 101) % 5000 + j as u64 * 6000);
            sp.same_host = r.chance(1, 4);
            if case % 6 == 5 && j == 0 { sp.v6 = true; sp.same_host = true; }
            if case % 5 == 2 && !sp.v6 { sp.client_ip_opts = true; }   // IPv4 options in one direction only
            conns.push(connection(r, &sp, 1_000_000));
        }
        let tr = interleave(r, &conns, tight || case % 4 == 0);
        let frames: Vec<Vec<u8>> = tr.iter().map(|(_, (f, _))| f.clone()).collect();
        let cap = if tight { n } else { 1000 };
        let seq: Vec<String> = seq_texts(kind, &frames, &db, cap).iter().map(|s| tok(s)).collect();
        // sharding identity index per packet
        let mut ids: Vec<String> = Vec::new();
        let mut conn_pos = vec![0usize; n];
        let mut keys = Vec::new();
        for (ci, _) in &tr {
            // direction: packets 0,2,.. of a generated connection come from the client except the SYN+ACK (index 1) and the HTTP response
            let j = conn_pos[*ci]; conn_pos[*ci] += 1;
            let from_server = j == 1 || (conns[*ci].len() >= 2 && j == conns[*ci].len() - 2 && is_response(&conns[*ci][j].0));
            let ident = match kind { Kind::Tcp => format!("{}:{}", ci, from_server), Kind::Tls => format!("{}:{}", ci, from_server), _ => format!("{}", ci) };
            let k = match ids.iter().position(|x| *x == ident) { Some(p) => p, None => { ids.push(ident); ids.len() - 1 } };
            keys.push(k);
        }
        let workers = *r.pick(&[1usize, 2, 3, 4, 7, 8, 16]);
        let batch = *r.pick(&[1usize, 4, 32]);
        let timeout = *r.pick(&[1u64, 5, 20]);
        let workers = if tight { *r.pick(&[2usize, 3, 4, 8]) } else { workers };
        let mut line = format!("{}{} W {} B {} T {} P", kind.tag(), if tight { cap.to_string() } else { String::new() }, workers, batch, timeout);
        for (i, f) in frames.iter().enumerate() { line.push_str(&format!(" {}:{}:{}", keys[i], seq[i], hex(f))); }
        // a random schedule for the model: dispatches interleaved with worker steps
        line.push_str(" S");
        let mut left = frames.len();
        while left > 0 { if r.chance(2, 3) { line.push_str(" d"); left -= 1; } else { line.push_str(&format!(" w{}", r.below(workers as u64))); } }
        out.push(line);
        // the same trace against the CONCRETE TLS pool model: the worker of every frame from the real flow hash
        if kind == Kind::Tls {
            let cap = if case % 4 == 1 { 1 + r.below(3) as usize } else { 1000 };
            let mut l = format!("l W {} B {} T {} L {}", workers, batch, timeout, cap);
            for f in &frames {
                let w = match huginn_net_tls::packet_hash::hash_flow(f, workers) { Some(w) => w.to_string(), None => "x".into() };
                l.push_str(&format!(" {}:{}", w, hex(f)));
            }
            l.push_str(" S");
            let mut left = frames.len();
            while left > 0 { if r.chance(2, 3) { l.push_str(" d"); left -= 1; } else { l.push_str(&format!(" w{}", r.below(workers as u64))); } }
            out.push(l);
        }
    }
    // HTTP pool, several workers: connections WITHOUT any TCP option (an IPv4 SYN / bare ACK / FIN is then exactly link
    // header + 40 bytes, the smallest frame the flow hash must still recognise) next to ordinary ones
    for case in 0..tier.scale(12, 150) {
        let n = 3 + r.below(4) as usize;
        let mut conns = Vec::new();
        for j in 0..n {
            let mut sp = ConnSpec::new(if r.chance(1, 5) { 2 } else { 0 }, j % 4 == 3, (case as u64 * 23 + j as u64 * 53) % 5000 + j as u64 * 6000);
            sp.bare = j < 2 || r.chance(1, 2);
            conns.push(connection(r, &sp, 1_000_000));
        }
        let tr = interleave(r, &conns, case % 3 == 0);
        let workers = *r.pick(&[2usize, 3, 4, 7, 8, 16]);
        let batch = *r.pick(&[1usize, 4, 32]); let timeout = *r.pick(&[1u64, 5, 20]);
        extra_p_line(r, &db, Kind::Http, "h".to_string(), &conns, &tr, workers, batch, timeout, out);
    }
    // all three pools: Ethernet frames whose MAC addresses start with octets that resemble an IP version nibble (0x45..0x4f,
    // 0x6X), the loopback signature 1e 00, zero or ff: the dispatch hash must still find the flow behind the link header
    for case in 0..tier.scale(24, 240) {
        let kind = [Kind::Tls, Kind::Http, Kind::Tcp][case % 3];
        let n = 2 + r.below(3) as usize;
        let mut conns = Vec::new();
        for j in 0..n {
            let ck = match kind { Kind::Tcp => r.below(3), Kind::Tls => 1, _ => 0 };
            let mut sp = ConnSpec::new(ck, j % 3 == 2, (case as u64 * 31 + j as u64 * 61) % 5000 + j as u64 * 6000);
            sp.macs = Some(pick_macs(r));
            conns.push(connection(r, &sp, 1_000_000));
        }
        let tr = interleave(r, &conns, case % 4 == 0);
        let workers = *r.pick(&[1usize, 2, 4, 7, 16]);
        let batch = *r.pick(&[1usize, 4, 32]); let timeout = *r.pick(&[1u64, 5, 20]);
        extra_p_line(r, &db, kind, kind.tag().to_string(), &conns, &tr, workers, batch, timeout, out);
    }
    // TLS pool, SLOW sender: a ClientHello in two or three segments; after its first segment the dispatcher sleeps for
    // several receive timeouts with nothing queued, then sends the rest
    for case in 0..tier.scale(6, 60) {
        let n = 1 + r.below(3) as usize;
        let mut conns = Vec::new();
        for j in 0..n {
            let mut sp = ConnSpec::new(1, j % 3 == 2, (case as u64 * 29 + j as u64 * 59) % 5000 + j as u64 * 6000);
            if j == 0 { sp.force_segs = Some(2 + r.below(2) as usize); }
            conns.push(connection(r, &sp, 1_000_000));
        }
        let tr = interleave(r, &conns, false);
        // frame index of the second data segment of connection 0 (packets 0,1,2 are the handshake, 3 the first segment)
        let mut seen = 0usize; let mut pause = 0usize;
        for (i, (ci, _)) in tr.iter().enumerate() { if *ci == 0 { if seen == 4 { pause = i; } seen += 1; } }
        if conns[0].len() < 6 { continue; }     // the random cuts collapsed to one segment
        let workers = *r.pick(&[1usize, 2, 4, 16]);
        let batch = *r.pick(&[1usize, 32]); let timeout = *r.pick(&[5u64, 10]);
        extra_p_line(r, &db, Kind::Tls, format!("l@{}", pause), &conns, &tr, workers, batch, timeout, out);
    }
}

/// one P line (as the main loop of `gen` builds it) for an extra stream of cases
#[allow(clippy::too_many_arguments)]
fn extra_p_line(r: &mut Rng, db: &Database, kind: Kind, tag: String, conns: &[Vec<Frame>], tr: &[(usize, Frame)], workers: usize, batch: usize, timeout: u64, out: &mut Vec<String>) {
    let frames: Vec<Vec<u8>> = tr.iter().map(|(_, (f, _))| f.clone()).collect();
    let seq: Vec<String> = seq_texts(kind, &frames, db, 1000).iter().map(|s| tok(s)).collect();
    let mut ids: Vec<String> = Vec::new();
    let mut conn_pos = vec![0usize; conns.len()];
    let mut keys = Vec::new();
    for (ci, _) in tr {
        let j = conn_pos[*ci]; conn_pos[*ci] += 1;
        let from_server = j == 1 || (conns[*ci].len() >= 2 && j == conns[*ci].len() - 2 && is_response(&conns[*ci][j].0));
        let ident = match kind { Kind::Http => format!("{}", ci), _ => format!("{}:{}", ci, from_server) };
        let k = match ids.iter().position(|x| *x == ident) { Some(p) => p, None => { ids.push(ident); ids.len() - 1 } };
        keys.push(k);
    }
    let mut line = format!("{} W {} B {} T {} P", tag, workers, batch, timeout);
    for (i, f) in frames.iter().enumerate() { line.push_str(&format!(" {}:{}:{}", keys[i], seq[i], hex(f))); }
    line.push_str(" S");
    let mut left = frames.len();
    while left > 0 { if r.chance(2, 3) { line.push_str(" d"); left -= 1; } else { line.push_str(&format!(" w{}", r.below(workers as u64))); } }
    out.push(line);
}
fn is_response(frame: &[u8]) -> bool { frame.windows(8).any(|w| w == b"HTTP/1.1" ) && frame.windows(6).any(|w| w == b"200 OK") }

fn main() { main_cli(gen, run) }
