//! C08 harness: segmentations of TLS records through the public incremental reader
//! (TlsClientHelloReader::add_bytes) and through the per-packet entry point of the sequential analyzer
//! (huginn_net_tls::process::process_ipv4_packet on a TtlCache).  Line grammar: see coq/Extract/EC08.v.
#[path = "../../c04/src/hello_gen.rs"]
#[allow(dead_code)]
mod hello_gen;
use hello_gen::*;
use hnv_common::*;
use huginn_net_tls::tls::{Signature, TlsVersion};
use huginn_net_tls::tls_client_hello_reader::TlsClientHelloReader;
use huginn_net_tls::{FlowKey, ObservableTlsClient};
use pnet::packet::ipv4::Ipv4Packet;
use ttl_cache::TtlCache;

fn csv(l: &[u16]) -> String {
    if l.is_empty() { "-".into() } else { l.iter().map(|c| format!("{:04x}", c)).collect::<Vec<_>>().join(",") }
}
/// bytes outside 0x21..0x7e of a fingerprint string as \\xHH (the ALPN characters are copied verbatim into JA4_a)
fn esc(s: &str) -> String {
    let mut o = String::new();
    for &b in s.as_bytes() { if (0x21..=0x7e).contains(&b) { o.push(b as char) } else { o.push_str(&format!("\\x{:02x}", b)) } }
    o
}
fn opt_hex(o: Option<&[u8]>) -> String { match o { Some(b) => format!(":{}", hex(b)), None => "-".into() } }
fn ver(v: TlsVersion) -> String { match v { TlsVersion::Unknown(c) if v.to_string() == "00" => format!("00:{:04x}", c), v => format!("{}", v) } }

fn sig_token(s: &Signature) -> String {
    let a = s.generate_ja4();
    let o = s.generate_ja4_original();
    format!(
        "{}|{}|{}|{}|ver={}|sni={}|alpn={}|ciphers={}|exts={}|sigalgs={}|groups={}|fmts={}",
        esc(a.full.value()), esc(a.raw.value()), esc(o.full.value()), esc(o.raw.value()), ver(s.version),
        opt_hex(s.sni.as_ref().map(|x| x.as_bytes())), opt_hex(s.alpn.as_ref().map(|x| x.as_bytes())),
        csv(&s.cipher_suites), csv(&s.extensions), csv(&s.signature_algorithms), csv(&s.elliptic_curves),
        opt_hex(Some(&s.elliptic_curve_point_formats))
    )
}
/// the analyzer's output carries the fingerprints it computed itself; the point-format list is not exposed
fn client_token(c: &ObservableTlsClient, fmts: &str) -> String {
    format!(
        "{}|{}|{}|{}|ver={}|sni={}|alpn={}|ciphers={}|exts={}|sigalgs={}|groups={}|fmts={}",
        esc(c.ja4.full.value()), esc(c.ja4.raw.value()), esc(c.ja4_original.full.value()), esc(c.ja4_original.raw.value()), ver(c.version),
        opt_hex(c.sni.as_ref().map(|x| x.as_bytes())), opt_hex(c.alpn.as_ref().map(|x| x.as_bytes())),
        csv(&c.cipher_suites), csv(&c.extensions), csv(&c.signature_algorithms), csv(&c.elliptic_curves), fmts
    )
}

/// TCP flags / IP version of the packet-level cases are a function of the flow number (the model ignores both, as the
/// code must): flows 20..29 and 40..49 carry SYN on their first data-bearing segment (TCP Fast Open: the ClientHello
/// starts, or is entirely, in the SYN), flows 30..39 carry RST|PSH|ACK on every segment, flows 40..59 travel over IPv6.
fn flow_flags(k: u8, first_data: bool) -> u8 {
    match k { 20..=29 | 40..=49 if first_data => 0x02, 30..=39 => 0x04 | 0x18, _ => 0x18 }
}
fn flow_is_v6(k: u8) -> bool { (40..=59).contains(&k) }
fn ipv6_tcp(k: u8, flags: u8, payload: &[u8]) -> Vec<u8> {
    use hnv_common::pkt::*;
    let mut src = [0u8; 16]; src[0] = 0xfd; src[15] = k.wrapping_add(1);
    let mut dst = [0u8; 16]; dst[0] = 0xfd; dst[15] = 0xfe;
    let mut tcp = Tcp::new(40000 + k as u16, 443, flags);
    tcp.payload = payload.to_vec();
    let mut p = Ip6::new(src, dst).bytes(&tcp.bytes());
    while p.len() < 46 { p.push(0); }
    p
}
fn ipv4_tcp(k: u8, flags: u8, payload: &[u8]) -> Vec<u8> {
    let total = 40 + payload.len();
    let mut p = vec![0x45, 0, (total >> 8) as u8, total as u8, 0, 1, 0x40, 0, 64, 6, 0, 0, 10, 0, 0, k.wrapping_add(1), 10, 0, 1, 1];
    let sport = 40000u16 + k as u16;
    p.extend_from_slice(&sport.to_be_bytes());
    p.extend_from_slice(&443u16.to_be_bytes());
    p.extend_from_slice(&[0, 0, 0, 1, 0, 0, 0, 1, 0x50, flags, 0xff, 0xff, 0, 0, 0, 0]);
    p.extend_from_slice(payload);
    // what follows the IP total length is link-layer padding: an Ethernet frame is at least 60 bytes (46 of payload),
    // so short segments arrive with trailing zeros that are not part of the datagram
    while p.len() < 46 { p.push(0); }
    p
}

fn run(line: &str) -> String {
    let t: Vec<&str> = line.split_whitespace().collect();
    match t[0] {
        "C" => {
            let mut rd = TlsClientHelloReader::new();
            let mut out = vec![];
            for c in &t[1..] {
                out.push(match rd.add_bytes(&unhex_or_dash(c)) { Ok(Some(s)) => sig_token(&s), Ok(None) => "-".into(), Err(_) => "ERR".into() });
            }
            out.join(" ")
        }
        "P" => {
            let cap: usize = t[1].parse().unwrap();
            let mut flows: TtlCache<FlowKey, TlsClientHelloReader> = TtlCache::new(cap);
            let mut out = vec![];
            let mut seen_data: Vec<u8> = vec![];
            for e in &t[2..] {
                let (k, h) = e.split_once(':').unwrap();
                let payload = unhex_or_dash(h);
                if payload.len() > 65000 { out.push("SKIP".to_string()); continue; }
                let kn: u8 = k.parse().unwrap();
                let first_data = !payload.is_empty() && !seen_data.contains(&kn);
                if !payload.is_empty() && first_data { seen_data.push(kn); }
                let flags = flow_flags(kn, first_data);
                let res = if flow_is_v6(kn) {
                    let pkt = ipv6_tcp(kn, flags, &payload);
                    let ip = pnet::packet::ipv6::Ipv6Packet::new(&pkt).unwrap();
                    huginn_net_tls::process::process_ipv6_packet(&ip, &mut flows)
                } else {
                    let pkt = ipv4_tcp(kn, flags, &payload);
                    let ip = Ipv4Packet::new(&pkt).unwrap();
                    huginn_net_tls::process::process_ipv4_packet(&ip, &mut flows)
                };
                out.push(match res {
                    Ok(Some(o)) => {
                        // the point formats are not part of the analyzer's output: take them from a direct parse
                        let fmts = "*".to_string();
                        let tok = client_token(&o.sig, &fmts);
                        if o.source.port != 40000 + k.parse::<u16>().unwrap() || o.destination.port != 443 { format!("{}!endpoints", tok) } else { tok }
                    }
                    Ok(None) => "-".into(),
                    Err(_) => "ERR".into(),
                });
            }
            out.join(" ")
        }
        // W <workers> <nconn> <order> <chunk>...: the public WorkerPool (default batch size 32, large queues), <nconn>
        // connections each delivering the same chunks, dispatched back-to-back (order s = segment-major, c =
        // connection-major) so that bursts far above the batch size queue up at a worker.
        // Result: "<number of results> <the result token if all are equal | MIXED | ->"
        "W" => {
            use hnv_common::pkt::*;
            let workers: usize = t[1].parse().unwrap();
            let nconn: usize = t[2].parse().unwrap();
            let chunks: Vec<Vec<u8>> = t[4..].iter().map(|c| unhex_or_dash(c)).collect();
            let (syn_first, v6, rst_all) = (t[3].starts_with('y'), t[3] == "y6", t[3] == "r");
            let frame = |c: usize, payload: &[u8]| -> Vec<u8> {
                let first = std::ptr::eq(payload.as_ptr(), chunks[0].as_ptr());
                let flags = if syn_first && first { SYN } else if rst_all { RST | ACK | PSH } else { ACK | PSH };
                let mut tcp = Tcp::new(20000 + c as u16, 443, flags);
                tcp.payload = payload.to_vec();
                let mut f = if v6 {
                    let mut src = [0u8; 16]; src[0] = 0xfd; src[14] = (c >> 8) as u8; src[15] = c as u8;
                    let mut dst = [0u8; 16]; dst[0] = 0xfd; dst[15] = 0xfe;
                    ether6(&Ip6::new(src, dst), &tcp)
                } else {
                    ether4(&Ip4::new([10, 1, (c >> 8) as u8, c as u8], [10, 0, 1, 1]), &tcp)
                };
                while f.len() < 60 { f.push(0); }      // Ethernet minimum frame size: zero padding after the IP datagram
                f
            };
            // order: s = segment-major burst, c = connection-major burst, w<ms> = "slow" connections: the first segment of
            // every connection, then nothing at all for <ms> milliseconds (several worker timeouts of 10 ms), then the rest
            let mut frames = vec![];
            let mut pause_after: Option<(usize, u64)> = None;
            if t[3] == "s" { for ch in &chunks { for c in 0..nconn { frames.push(frame(c, ch)); } } }
            else if let Some(ms) = t[3].strip_prefix('w') {
                for c in 0..nconn { frames.push(frame(c, &chunks[0])); }
                pause_after = Some((frames.len(), ms.parse().unwrap()));
                for c in 0..nconn { for ch in &chunks[1..] { frames.push(frame(c, ch)); } }
            }
            else { for c in 0..nconn { for ch in &chunks { frames.push(frame(c, ch)); } } }
            let (tx, rx) = std::sync::mpsc::channel();
            let pool = match huginn_net_tls::WorkerPool::new(workers, 16384, 32, 10, tx, 4096, None) { Ok(p) => p, Err(_) => return "POOLERR".into() };
            for (i, f) in frames.into_iter().enumerate() {
                if let Some((at, ms)) = pause_after { if i == at { std::thread::sleep(std::time::Duration::from_millis(ms)); } }
                if let huginn_net_tls::DispatchResult::Dropped = pool.dispatch(f) { return "POOLERR dropped".into(); }
            }
            let mut toks: Vec<String> = vec![];
            let (mut quiet, mut idle) = (0, 0);
            loop {
                match rx.recv_timeout(std::time::Duration::from_millis(40)) {
                    Ok(o) => { toks.push(client_token(&o.sig, "*")); quiet = 0; idle = 0; }
                    Err(_) => {
                        idle += 1;
                        if pool.stats().workers.iter().all(|w| w.queue_size == 0) { quiet += 1; if quiet >= 5 { break; } }
                        if idle >= 75 { break; }
                    }
                }
            }
            pool.shutdown();
            let n = toks.len();
            toks.sort(); toks.dedup();
            let tok = match toks.len() { 0 => "-".to_string(), 1 => toks[0].clone(), _ => "MIXED".to_string() };
            let mut res = format!("{} {}", n, tok);
            if n != nconn { res.push_str(&format!("\t!pool reported {} results for {} connections carrying one ClientHello each", n, nconn)); }
            res
        }
        _ => panic!("bad case"),
    }
}

fn cut_at(b: &[u8], cuts: &[usize]) -> Vec<Vec<u8>> {
    let mut v = vec![]; let mut p = 0;
    for &c in cuts { v.push(b[p..c].to_vec()); p = c; }
    v.push(b[p..].to_vec());
    v
}
fn random_cuts(r: &mut Rng, len: usize, n: usize) -> Vec<usize> {
    let mut c: Vec<usize> = (0..n).map(|_| r.below(len as u64 + 1) as usize).collect();
    c.sort();
    c
}
fn c_line(chunks: &[Vec<u8>]) -> String { format!("C {}", chunks.iter().map(|c| hex_or_dash(c)).collect::<Vec<_>>().join(" ")) }
fn p_line(cap: usize, evs: &[(u8, Vec<u8>)]) -> String {
    format!("P {} {}", cap, evs.iter().map(|(k, c)| format!("{}:{}", k, hex_or_dash(c))).collect::<Vec<_>>().join(" "))
}

fn other_record(r: &mut Rng) -> Vec<u8> {
    match r.below(6) {
        0 => { let mut b = vec![2u8, 0, 0, 38, 3, 3]; b.extend(r.bytes(32)); b.extend_from_slice(&[0, 0x13, 0x01, 0]); record(0x16, 0x0303, &b) } // ServerHello
        1 => record(0x15, 0x0303, &[2, 40]),
        2 => { let n = r.range(1, 60) as usize; record(0x17, 0x0303, &r.bytes(n)) }
        3 => record(0x14, 0x0303, &[1]),
        4 => record(0x16, 0x0303, &handshake(11, &[0, 0, 0])),
        _ => { let n = r.range(0, 30) as usize; record(0x16, *r.pick(&[0x0301u16, 0x0303]), &handshake(*r.pick(&[0u8, 14, 16, 20]), &r.bytes(n))) }
    }
}

fn big_hello(n: usize) -> Vec<u8> {
    let h = Hello { rec_version: 0x0303, version: 0x0303, random: vec![3; 32], sid: vec![], ciphers: vec![0x1301, 0xc02f], comp: vec![0],
                    exts: vec![(0, Body::Sni(vec![(0, b"big.example".to_vec())])), (21, Body::Raw(vec![0; n]))], omit_ext_block: false };
    encode(&h)
}

fn gen(r: &mut Rng, tier: &Tier, out: &mut Vec<String>) {
    let mut recs: Vec<Vec<u8>> = vec![];
    for f in ["/repo/pcap/tls12.pcap", "/repo/pcap/tls-alpn-h2.pcap"] { recs.extend(pcap_client_hellos(f)); }
    let corpus = recs.len();
    for _ in 0..tier.scale(6, 40) {
        loop { let h = gen_hello(r, &SMALL); let e = encode(&h); if e.len() <= tier.scale(260, 600) { recs.push(e); break; } }
    }
    // exhaustive: every 2-cut of every record (<= 600 bytes), reader and packet level, with and without a tail
    for (i, rec) in recs.iter().enumerate() {
        if rec.len() > 600 { continue; }
        for c in 0..=rec.len() {
            let ch = cut_at(rec, &[c]);
            out.push(c_line(&ch));
            if i < corpus + 3 || tier.thorough {
                out.push(p_line(8, &ch.iter().map(|x| (1u8, x.clone())).collect::<Vec<_>>()));
            }
            if c % 5 == 0 { let mut t = rec.clone(); t.push(r.next() as u8); out.push(c_line(&cut_at(&t, &[c]))); }
        }
    }
    // content that looks like the start of a record (16 03 0x ..) planted in the client random, segment cut exactly there
    for rec in recs.iter().take(tier.scale(8, 40)) {
        if rec.len() < 60 { continue; }
        for v in [1u8, 3, 4] { for o in [11usize, 20, 38] {
            let mut b = rec.clone();
            b[o] = 0x16; b[o + 1] = 0x03; b[o + 2] = v; b[o + 3] = 0x00; b[o + 4] = 0x20;
            for cuts in [vec![o], vec![7, o], vec![o, o + 9], vec![o + 1]] {
                let ch = cut_at(&b, &cuts);
                out.push(c_line(&ch));
                out.push(p_line(8, &ch.iter().map(|x| (6u8, x.clone())).collect::<Vec<_>>()));
            }
        }}
    }
    // random 3..8 cuts, tails of 1 byte / another record / another hello, one-byte chunks
    for _ in 0..tier.scale(600, 6000) {
        let rec = r.pick(&recs).clone();
        let mut all = rec.clone();
        match r.below(6) { 0 => all.push(r.next() as u8), 1 => all.extend(other_record(r)), 2 => all.extend(r.pick(&recs).clone()), 3 => { let n = r.below(40) as usize; all.extend(r.bytes(n)); } _ => {} }
        let n = r.range(2, 7) as usize;
        let ch = cut_at(&all, &random_cuts(r, all.len(), n));
        out.push(c_line(&ch));
        out.push(p_line(*r.pick(&[1usize, 2, 8, 8]), &ch.iter().map(|x| (2u8, x.clone())).collect::<Vec<_>>()));
    }
    for rec in recs.iter().take(tier.scale(4, 20)) {
        let ch: Vec<Vec<u8>> = rec.iter().map(|b| vec![*b]).collect();
        out.push(c_line(&ch));
        out.push(p_line(4, &ch.iter().map(|x| (0u8, x.clone())).collect::<Vec<_>>()));
    }
    // tail cut exactly at the record end: the next segment starts a new record (second hello, server hello, alert ...)
    for _ in 0..tier.scale(200, 2000) {
        let rec = r.pick(&recs).clone();
        let c = r.below(rec.len() as u64) as usize;
        let mut ch = cut_at(&rec, &[c]);
        let nxt = if r.chance(1, 2) { r.pick(&recs).clone() } else { other_record(r) };
        let c2 = r.below(nxt.len() as u64 + 1) as usize;
        ch.extend(cut_at(&nxt, &[c2]));
        out.push(c_line(&ch));
        out.push(p_line(8, &ch.iter().map(|x| (3u8, x.clone())).collect::<Vec<_>>()));
    }
    // records that are not a ClientHello, split anywhere; followed by a hello or not
    for _ in 0..tier.scale(300, 3000) {
        let mut all = other_record(r);
        if r.chance(1, 3) { all.extend(r.pick(&recs).clone()); }
        let n = r.range(0, 3) as usize;
        let ch = cut_at(&all, &random_cuts(r, all.len(), n));
        out.push(c_line(&ch));
        out.push(p_line(8, &ch.iter().map(|x| (4u8, x.clone())).collect::<Vec<_>>()));
    }
    // several connections interleaved, small flow tables (eviction of the oldest flow)
    for _ in 0..tier.scale(200, 2000) {
        let nf = r.range(2, 4) as usize;
        let mut queues: Vec<Vec<Vec<u8>>> = (0..nf).map(|_| { let rec = r.pick(&recs).clone(); let n = r.range(0, 3) as usize; cut_at(&rec, &random_cuts(r, rec.len(), n)) }).collect();
        let mut evs = vec![];
        while queues.iter().any(|q| !q.is_empty()) {
            let k = r.below(nf as u64) as usize;
            if !queues[k].is_empty() { evs.push((k as u8, queues[k].remove(0))); }
        }
        out.push(p_line(*r.pick(&[0usize, 1, 2, 3, 8]), &evs));
    }
    // worker pool under bursts: 100+ connections x 3..6 segments queued back-to-back at 1..2 workers (batch size 32)
    for i in 0..tier.scale(4, 24) {
        let rec = recs[i % corpus.max(1).min(recs.len())].clone();
        let n = r.range(2, 5) as usize;
        let mut cuts = random_cuts(r, rec.len(), n);
        if cuts[0] < 5 { cuts[0] = 5.min(rec.len()); cuts.sort(); }
        let ch = cut_at(&rec, &cuts);
        out.push(format!("W {} {} {} {}", r.range(1, 2), r.range(100, 160), if r.chance(1, 2) { "s" } else { "c" },
                         ch.iter().map(|c| hex_or_dash(c)).collect::<Vec<_>>().join(" ")));
    }
    // slow connections on the pool: first segment, a pause of several worker timeouts with nothing queued, then the rest
    for i in 0..tier.scale(5, 40) {
        let rec = recs[i % corpus.max(1).min(recs.len())].clone();
        let n = r.range(1, 3) as usize;
        let mut cuts = random_cuts(r, rec.len() - 1, n);
        for c in cuts.iter_mut() { if *c < 5 { *c = 5; } }
        cuts.sort(); cuts.dedup();
        let ch = cut_at(&rec, &cuts);
        out.push(format!("W {} {} w{} {}", r.range(1, 2), r.range(1, 6), r.range(50, 80),
                         ch.iter().map(|c| hex_or_dash(c)).collect::<Vec<_>>().join(" ")));
    }
    // tiny non-final segments (1..5 payload bytes): their frames carry Ethernet padding after the IP datagram
    for i in 0..tier.scale(40, 400) {
        let rec = recs[i % recs.len()].clone();
        if rec.len() < 40 { continue; }
        let a = r.range(5, (rec.len() - 20) as u64) as usize;
        let mut cuts = vec![a];
        let mut p = a;
        for _ in 0..r.range(1, 3) { p += r.range(1, 5) as usize; if p < rec.len() - 1 { cuts.push(p); } }
        if r.chance(1, 3) { let q = r.range(p as u64 + 1, rec.len() as u64 - 1) as usize; cuts.push(q); }
        cuts.sort(); cuts.dedup();
        let ch = cut_at(&rec, &cuts);
        out.push(p_line(8, &ch.iter().map(|x| (7u8, x.clone())).collect::<Vec<_>>()));
        // the pool oracle expects one result per connection: only records the analyzer admits (record version 0x0300..0x0304)
        if i % 8 == 0 && rec[1] == 3 && rec[2] <= 4 {
            out.push(format!("W {} {} {} {}", r.range(1, 2), r.range(2, 20), *r.pick(&["s", "c"]),
                             ch.iter().map(|c| hex_or_dash(c)).collect::<Vec<_>>().join(" ")));
        }
        if i % 5 == 0 { out.push(c_line(&ch)); }
    }
    // TCP Fast Open and flag controls: the first data-bearing segment carries SYN (whole hello in the SYN, or the first
    // cut in the SYN and the rest in ordinary segments), IPv4 and IPv6; RST|PSH|ACK on every segment as a control
    for i in 0..tier.scale(24, 300) {
        let rec = recs[i % recs.len()].clone();
        let ch = if i % 3 == 0 { vec![rec.clone()] } else {
            let n = r.range(1, 3) as usize;
            let mut cuts = random_cuts(r, rec.len() - 1, n);
            for c in cuts.iter_mut() { if *c < 5 { *c = 5; } }
            cuts.sort(); cuts.dedup();
            cut_at(&rec, &cuts)
        };
        let k = *r.pick(&[20u8, 21, 30, 40, 41, 50]);
        out.push(p_line(8, &ch.iter().map(|x| (k, x.clone())).collect::<Vec<_>>()));
        if i % 4 == 0 && rec[1] == 3 && rec[2] <= 4 {
            out.push(format!("W {} {} {} {}", r.range(1, 2), r.range(1, 12), *r.pick(&["y", "y", "y6", "r"]),
                             ch.iter().map(|c| hex_or_dash(c)).collect::<Vec<_>>().join(" ")));
        }
    }
    // malformed: damaged records split anywhere
    for _ in 0..tier.scale(300, 3000) {
        let mut b = r.pick(&recs).clone();
        match r.below(5) {
            0 => { let i = r.below(b.len() as u64) as usize; b[i] ^= 1 << r.below(8); }
            1 => { b[0] = *r.pick(&[0x14u8, 0x15, 0x17, 0x00, 0x80]); }
            2 => { let l = u16::from_be_bytes([b[3], b[4]]).wrapping_add(r.range(1, 9) as u16); b[3] = (l >> 8) as u8; b[4] = l as u8; let n = r.below(12) as usize; b.extend(r.bytes(n)); }
            3 => { let l = u16::from_be_bytes([b[3], b[4]]).wrapping_sub(r.range(1, 9) as u16); b[3] = (l >> 8) as u8; b[4] = l as u8; }
            _ => { b[1] = *r.pick(&[2u8, 3, 4]); b[2] = *r.pick(&[0u8, 1, 4, 5]); }
        }
        let n = r.range(0, 4) as usize;
        let ch = cut_at(&b, &random_cuts(r, b.len(), n));
        out.push(c_line(&ch));
        out.push(p_line(8, &ch.iter().map(|x| (5u8, x.clone())).collect::<Vec<_>>()));
    }
    // records near tls-parser's 16 KiB limit and near the reader's 64 KiB bound, oversize records
    for n in [16000usize, 16560, 16580, 16600] {
        let rec = big_hello(n);
        for _ in 0..tier.scale(2, 8) { let k = r.range(1, 5) as usize; let ch = cut_at(&rec, &random_cuts(r, rec.len(), k)); out.push(c_line(&ch)); out.push(p_line(8, &ch.iter().map(|x| (6u8, x.clone())).collect::<Vec<_>>())); }
    }
    for len in [16641usize, 30000, 65530, 65531, 65532, 65535] {
        let mut rec = vec![0x16, 3, 3, (len >> 8) as u8, len as u8, 1, 0, (len >> 8) as u8, (len as u8).wrapping_sub(4)];
        rec.extend(r.bytes(len - 4));
        for _ in 0..tier.scale(1, 4) {
            let k = r.range(1, 4) as usize; let mut cuts = random_cuts(r, rec.len(), k);
            if r.chance(1, 2) { cuts.push(rec.len() - 1); cuts.sort(); }
            let mut ch = cut_at(&rec, &cuts);
            if r.chance(1, 2) { ch.push(recs[0].clone()); }
            out.push(c_line(&ch));
        }
    }
}

fn main() { main_cli(gen, run) }
