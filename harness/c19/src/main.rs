//! C19 harness: a case is a scripted history on one fresh connection tracker (grammar: see
//! coq/Extract/EC19.v).  Each event becomes a real IPv4/TCP packet with a timestamp option and is
//! pushed through the public `process_ipv4_packet` / `process_ipv6_packet` (dir tokens c6/s6: the same segment
//! between 2001:db8::1 and 2001:db8::2) (-> tcp_process::process_tcp_ipv4|6 -> visit_tcp ->
//! uptime::check_ts_tcp); the millisecond clock that TcpTimestamp::now reads is injected through
//! `uptime::verif_hooks` (cargo feature verif-hooks): exactly the event's `now` for that packet.
//! Observed at TcpAnalysisResult.client_uptime / .server_uptime.
use hnv_common::*;
use huginn_net_tcp::uptime::verif_hooks::{clear_thread_clock, set_thread_clock_script};
use hnv_common::pkt::Ip6;
use huginn_net_tcp::{process_ipv4_packet, process_ipv6_packet, ConnectionKey, TcpTimestamp, UptimeOutput, UptimeRole};
use pnet::packet::ipv4::Ipv4Packet;
use pnet::packet::ipv6::Ipv6Packet;
use ttl_cache::TtlCache;

fn flag_byte(t: &str) -> u8 {
    match t {
        "syn" => 0x02,
        "synack" => 0x12,
        "ack" => 0x10,
        "pshack" => 0x18,
        "finack" => 0x11,
        _ => t[1..].parse::<u16>().unwrap() as u8,
    }
}

const A6: [u8; 16] = [0x20, 0x01, 0x0d, 0xb8, 0, 0, 0, 0, 0, 0, 0, 0, 0, 0, 0, 1];
const B6: [u8; 16] = [0x20, 0x01, 0x0d, 0xb8, 0, 0, 0, 0, 0, 0, 0, 0, 0, 0, 0, 2];

/// IPv4 packet for dir c/s, IPv6 packet for dir c6/s6; identical TCP segment
fn packet(dir: &str, flags: u8, sport: u16, dport: u16, tsval: u32, tsecr: u32) -> Vec<u8> {
    let t = tcp_segment(flags, sport, dport, tsval, tsecr);
    match dir {
        "c6" => Ip6::new(A6, B6).bytes(&t),
        "s6" => Ip6::new(B6, A6).bytes(&t),
        _ => {
            let (src, dst) = if dir == "c" { ([10u8, 0, 0, 1], [10u8, 0, 0, 2]) } else { ([10u8, 0, 0, 2], [10u8, 0, 0, 1]) };
            let mut p = Vec::with_capacity(52);
            p.extend_from_slice(&[0x45, 0x00, 0x00, 52, 0x12, 0x34, 0x40, 0x00, 64, 6, 0, 0]);
            p.extend_from_slice(&src);
            p.extend_from_slice(&dst);
            p.extend_from_slice(&t);
            p
        }
    }
}

fn tcp_segment(flags: u8, sport: u16, dport: u16, tsval: u32, tsecr: u32) -> Vec<u8> {
    let mut p = Vec::with_capacity(32);
    p.extend_from_slice(&sport.to_be_bytes());
    p.extend_from_slice(&dport.to_be_bytes());
    p.extend_from_slice(&1000u32.to_be_bytes()); // seq
    p.extend_from_slice(&(if flags & 0x10 != 0 { 2000u32 } else { 0 }).to_be_bytes()); // ack
    p.push(8 << 4); // data offset: 20 + 12 option bytes
    p.push(flags);
    p.extend_from_slice(&[0xff, 0xff, 0, 0, 0, 0]); // window, checksum, urgent pointer
    p.extend_from_slice(&[1, 1, 8, 10]); // NOP NOP TIMESTAMPS len 10
    p.extend_from_slice(&tsval.to_be_bytes());
    p.extend_from_slice(&tsecr.to_be_bytes());
    p
}

fn show(u: &UptimeOutput, expect: UptimeRole, viol: &mut Vec<String>) -> String {
    if u.role != expect { viol.push(format!("role field {} in the {} slot", u.role, expect)); }
    if !(u.freq.is_finite() && u.freq >= 0.0 && u.freq.fract() == 0.0) { viol.push(format!("non-integral freq {}", u.freq)); }
    if u.hours >= 24 || u.min >= 60 { viol.push(format!("hours {} min {} out of range", u.hours, u.min)); }
    // freq is an f64 holding an integer (checked above): canonical form is that integer
    format!("{} {} {} {} {} {}", u.role, u.freq.round() as u64, u.days, u.hours, u.min, u.up_mod_days)
}

fn run(line: &str) -> String {
    let toks: Vec<&str> = line.split_whitespace().collect();
    let mut tracker: TtlCache<ConnectionKey, TcpTimestamp> = TtlCache::new(100_000);
    let mut outs: Vec<String> = Vec::new();
    let mut viol: Vec<String> = Vec::new();
    for ev in toks.chunks(7) {
        let bytes = packet(ev[0], flag_byte(ev[1]), ev[2].parse().unwrap(), ev[3].parse().unwrap(), ev[5].parse().unwrap(), ev[6].parse().unwrap());
        let now: u64 = ev[4].parse().unwrap();
        // one reading for this packet; a second read inside the same packet would see 0
        set_thread_clock_script(vec![now]);
        let res = if ev[0].ends_with('6') {
            process_ipv6_packet(&Ipv6Packet::new(&bytes).unwrap(), &mut tracker, None)
        } else {
            process_ipv4_packet(&Ipv4Packet::new(&bytes).unwrap(), &mut tracker, None)
        };
        let tok = match res {
            Err(_) => "ERR".to_string(),
            Ok(r) => match (&r.client_uptime, &r.server_uptime) {
                (None, None) => "-".to_string(),
                (Some(c), None) => show(c, UptimeRole::Client, &mut viol),
                (None, Some(s)) => show(s, UptimeRole::Server, &mut viol),
                (Some(c), Some(s)) => format!("{},{}", show(c, UptimeRole::Client, &mut viol), show(s, UptimeRole::Server, &mut viol)),
            },
        };
        outs.push(tok);
    }
    clear_thread_clock();
    let mut res = outs.join(";");
    for v in viol { res.push_str("\t!"); res.push_str(&v); }
    res
}

// ---------------------------------------------------------------- generators

const WRAP: u64 = 1 << 32;

/// rates in milli-Hz: grid points, band edges, snap edges (90/110 % of 100k and 1000), cells where the banded offsets round up, outside
const RATES_MHZ: &[u64] = &[
    0, 500, 900, 999, 1000, 1001, 1100, 1500, 2000, 4000, 4999, 5000, 7500, 7900, 9499, 9500, 9900, 10000, 10500, 11000, 12000, 12400,
    12500, 13000, 17000, 22000, 25000, 33000, 47000, 49900, 50000, 50500, 51000, 53000, 54000, 55000, 64000, 89000, 89999, 90000,
    95000, 100000, 105000, 110000, 110001, 111000, 117000, 124000, 125000, 150000, 167000, 170000, 175000, 179999, 180000, 200000,
    220000, 220001, 250000, 265000, 267000, 269999, 270000, 300000, 330000, 330001, 337000, 350000, 360000, 400000, 440000, 445000,
    449999, 450000, 500000, 545000, 549999, 550000, 600000, 650000, 700000, 850000, 899000, 899999, 900000, 950000, 1000000,
    1001000, 1100000, 1100001, 1101000, 1149000, 1150000, 1200000, 1249000, 1250000, 1300000, 1449000, 1450000, 1499000,
    1499999, 1500000, 1500001, 1501000, 1600000, 2000000, 10000000, 100000000,
];
const INTERVALS: &[u64] = &[0, 1, 24, 25, 26, 40, 50, 99, 100, 101, 250, 999, 1000, 1001, 10000, 30000, 60000, 599999, 600000, 600001, 700000];

fn ev(dir: &str, flags: &str, sp: u16, dp: u16, now: u64, tv: u64, te: u64) -> String {
    format!("{} {} {} {} {} {} {}", dir, flags, sp, dp, now, tv % WRAP, te % WRAP)
}

fn base_time(r: &mut Rng) -> u64 {
    match r.below(6) { 0 => 0, 1 => 1_700_000_000_000, 2 => r.below(1 << 41), 3 => u64::MAX - 700_000 - r.below(1000), _ => 1_000_000 + r.below(1_000_000_000) }
}
fn base_ts(r: &mut Rng) -> u64 {
    match r.below(7) { 0 => 0, 1 => WRAP - 1 - r.below(2000), 2 => (1 << 31) - r.below(3), 3 => r.below(100_000), 4 => r.below(WRAP), 5 => 86_400_000 * r.range(1, 40) + r.below(3), _ => 1_000_000 + r.below(4_000_000_000) }
}

/// endpoint descriptor: direction, first-segment flags, later-segment flags, ports
#[derive(Clone)]
struct Ep { dir: &'static str, first: &'static str, later: &'static str, sp: u16, dp: u16 }
fn endpoint(r: &mut Rng, client: bool, cport: u16, sport: u16) -> Ep {
    let later = *r.pick(&["ack", "ack", "ack", "pshack", "finack"]);
    if client { Ep { dir: "c", first: if r.chance(3, 4) { "syn" } else { later }, later, sp: cport, dp: sport } }
    else { Ep { dir: "s", first: if r.chance(3, 4) { "synack" } else { later }, later, sp: sport, dp: cport } }
}

/// advance in ticks for a rate (mHz) over an interval, with a small jitter
fn ticks(rate_mhz: u64, ms: u64, jitter: i64) -> u64 {
    let d = (rate_mhz as u128 * ms as u128 + 500_000) / 1_000_000;
    (d as i64 + jitter).max(0) as u64
}

/// second TSval for a movement kind: 0 forward, 1 backward by d, 2 backward by d+1 (mirrored advance exactly d), 3 huge jump
fn moved(v1: u64, d: u64, kind: u64) -> u64 {
    match kind { 0 => (v1 + d) % WRAP, 1 => (v1 + WRAP - d % WRAP) % WRAP, 2 => (v1 + WRAP - (d + 1) % WRAP) % WRAP, _ => (v1 + (1 << 31) + d) % WRAP }
}

/// one endpoint, two segments (+ optional third/fourth)
fn pair_case(r: &mut Rng, ep: &Ep, t1: u64, v1: u64, ms: u64, d: u64, kind: u64, extra: usize) -> String {
    let mut evs = vec![ev(ep.dir, ep.first, ep.sp, ep.dp, t1, v1, 0)];
    let t2 = t1.saturating_add(ms);
    let v2 = moved(v1, d, kind);
    evs.push(ev(ep.dir, ep.later, ep.sp, ep.dp, t2, v2, 1));
    let mut t = t2; let mut v = v2;
    for _ in 0..extra {
        let ms3 = *r.pick(INTERVALS);
        let rate = *r.pick(RATES_MHZ);
        t = t.saturating_add(ms3);
        v = moved(v, ticks(rate, ms3, 0), if r.chance(1, 6) { 1 } else { 0 });
        evs.push(ev(ep.dir, ep.later, ep.sp, ep.dp, t, v, 2));
    }
    evs.join(" ")
}

fn std_ep(r: &mut Rng) -> Ep {
    let client = r.chance(1, 2);
    let cport = 40000 + r.below(1000) as u16;
    let sport = *r.pick(&[80u16, 443, 22, 1024]);
    endpoint(r, client, cport, sport)
}

/// the same history over IPv6 (every event), or with only the server / only the client direction over IPv6
fn to_v6(line: &str, which: u64) -> String {
    let toks: Vec<&str> = line.split_whitespace().collect();
    let mut o: Vec<String> = Vec::with_capacity(toks.len());
    for ev in toks.chunks(7) {
        let d = match (ev[0], which) { ("c", 0) | ("c", 1) => "c6", ("s", 0) | ("s", 2) => "s6", (d, _) => d };
        o.push(format!("{} {}", d, ev[1..].join(" ")));
    }
    o.join(" ")
}

fn gen(r: &mut Rng, tier: &Tier, out: &mut Vec<String>) {
    gen_v4(r, tier, out);
    // about 30 % of all histories run over IPv6 (process_ipv6_packet): copies of 3/7 of the IPv4 histories,
    // most of them entirely IPv6, some with one direction over IPv6 and the other over IPv4 on the same tracker
    let n = out.len();
    for i in 0..n {
        if r.chance(3, 7) {
            let which = if r.chance(5, 6) { 0 } else { r.range(1, 2) };
            let l = to_v6(&out[i], which);
            out.push(l);
        }
    }
}

fn gen_v4(r: &mut Rng, tier: &Tier, out: &mut Vec<String>) {
    // ---- exhaustive-small: every integer raw frequency 0..1600 Hz at 1000 ms, and every advance over
    //      0..1600 Hz at other intervals (short intervals completely, long ones around each integer Hz)
    let ep_c = Ep { dir: "c", first: "syn", later: "ack", sp: 40000, dp: 80 };
    let ep_s = Ep { dir: "s", first: "synack", later: "ack", sp: 80, dp: 40000 };
    for d in 0..=1600u64 {
        let ep = if d % 2 == 0 { &ep_c } else { &ep_s };
        out.push(pair_case(r, ep, 1_000_000, 86_400_000 + d, 1000, d, 0, 0));
    }
    let sweeps: &[u64] = if tier.thorough { &[25, 26, 37, 40, 99, 100, 101, 250, 333, 999, 1001, 2000] } else { &[25, 40, 100, 999] };
    for &ms in sweeps {
        let max_d = 1600 * ms / 1000 + 2;
        for d in 0..=max_d {
            let ep = if d % 2 == 0 { &ep_s } else { &ep_c };
            out.push(pair_case(r, ep, 5_000, 7_000_000 + 3 * d, ms, d, 0, 0));
            if d % 3 == 0 { out.push(pair_case(r, ep, 5_000, 7_000_000 + 3 * d, ms, d, 2, 0)); }
        }
    }
    for &ms in &[7000u64, 600000] {
        let step = tier.scale(16, 1);
        for hz in (0..=1600u64).step_by(step) {
            for j in -1i64..=1 {
                out.push(pair_case(r, &ep_c, 123_456_789, 4_000_000_000, ms, ticks(hz * 1000, ms, j), 0, 0));
            }
        }
    }

    // ---- structured: rate grid x interval boundaries x movement x third/fourth segments
    let full = tier.thorough;
    for &ms in INTERVALS {
        for (i, &rate) in RATES_MHZ.iter().enumerate() {
            for kind in 0..4u64 {
                if !full && kind >= 2 && i % 3 != 0 { continue; }
                let ep = std_ep(r);
                let jit = if kind == 0 { r.range(0, 2) as i64 - 1 } else { 0 };
                let d = ticks(rate, ms, jit);
                let (t1, v1) = (base_time(r), base_ts(r));
                let extra = if r.chance(1, 3) { r.range(1, 2) as usize } else { 0 };
                out.push(pair_case(r, &ep, t1, v1, ms, d, kind, extra));
            }
        }
    }
    if full {
        for hz in 1..=1500u64 {
            let ms = *r.pick(&[25u64, 26, 99, 100, 101, 1000, 30000, 599999, 600000]);
            let ep = std_ep(r);
            let (t1, v1) = (base_time(r), base_ts(r));
            out.push(pair_case(r, &ep, t1, v1, ms, ticks(hz * 1000, ms, 0), 0, 1));
        }
    }

    // ---- threshold probes (float/exact separation): advances adjacent to every decision threshold of the
    //      estimator for random intervals, and TSvals adjacent to minute/hour/day boundaries of the uptime
    let thresholds_mhz: Vec<u64> = {
        let mut t = vec![1000u64, 1_500_000, 900_000, 1_100_000, 500_000, 50_000];
        for m in 1..=15u64 { t.push(90_000 * m); t.push(110_000 * m); t.push(100_000 * m + 50_000); t.push(100_000 * m); }
        for f in [10u64, 11, 12, 13, 50, 51, 53, 100, 101, 117, 150, 167, 500, 501] { t.push(f * 1000); }
        t
    };
    for _ in 0..tier.scale(2500, 40000) {
        let ms = match r.below(5) { 0 => r.range(25, 100), 1 => r.range(100, 2000), 2 => r.range(599_000, 600_000), _ => r.range(25, 600_000) };
        let th = if r.chance(4, 5) { *r.pick(&thresholds_mhz) } else { r.range(1, 1500) * 1000 };
        let exact = th as u128 * ms as u128 / 1_000_000;
        let d = (exact as i64 + r.range(0, 3) as i64 - 1).max(0) as u64;
        let ep = std_ep(r);
        let t1 = base_time(r);
        // choose the later TSval near a boundary of the uptime decomposition for a plausible frequency
        let f = *r.pick(&[1u64, 7, 10, 15, 60, 100, 150, 250, 300, 700, 1000, 1300, 1500]);
        let unit = *r.pick(&[60u64, 3600, 86400]);
        let k = r.range(1, (WRAP - 1) / (f * unit));
        let v2 = if r.chance(2, 3) { (f * unit * k + r.range(0, 2 * f)).saturating_sub(f) % WRAP } else { base_ts(r) };
        let v1 = (v2 + WRAP - d % WRAP) % WRAP;
        out.push(pair_case(r, &ep, t1, v1, ms, d, 0, 0));
    }

    // ---- interleaved client/server segments of several connections on one tracker
    for _ in 0..tier.scale(1200, 20000) {
        let nconn = r.range(1, 3) as usize;
        let mut t = base_time(r);
        let mut eps: Vec<(Ep, u64, u64, usize)> = Vec::new(); // ep, rate mHz, current ts, count
        for c in 0..nconn {
            let cport = 40000 + c as u16;
            let sport = if r.chance(1, 6) { *r.pick(&[8080u16, 1025, 3306]) } else { *r.pick(&[80u16, 443, 1024]) };
            let cport = if r.chance(1, 10) { *r.pick(&[1024u16, 500, 1023]) } else { cport };
            for client in [true, false] {
                if r.chance(5, 6) {
                    let ep = endpoint(r, client, cport, sport);
                    eps.push((ep, *r.pick(RATES_MHZ), base_ts(r), 0));
                }
            }
        }
        let mut evs = Vec::new();
        let n = r.range(2, 9);
        for _ in 0..n {
            if eps.is_empty() { break; }
            let i = r.below(eps.len() as u64) as usize;
            let ms = if r.chance(1, 12) { 0 } else { *r.pick(INTERVALS) / (1 + r.below(3)) };
            if r.chance(1, 25) { t = t.saturating_sub(r.below(200)); } else { t = t.saturating_add(ms); }
            let e = &mut eps[i];
            // every endpoint's TSval follows its own clock from the global time; occasionally it jumps
            let d = ticks(e.1, ms, 0);
            let kind = if r.chance(1, 10) { r.range(1, 3) } else { 0 };
            e.2 = moved(e.2, d, kind);
            let flags = if e.3 == 0 { e.0.first } else { e.0.later };
            e.3 += 1;
            evs.push(ev(e.0.dir, flags, e.0.sp, e.0.dp, t, e.2, r.below(5)));
            // the other endpoints' clocks advance too
            for (k, o) in eps.iter_mut().enumerate() { if k != i { o.2 = moved(o.2, ticks(o.1, ms, 0), 0); } }
        }
        if !evs.is_empty() { out.push(evs.join(" ")); }
    }

    // ---- malformed / odd: arbitrary flag bytes (invalid combinations are rejected before the tracker),
    //      role-splitting port pairs, zero and extreme clock/TSval values
    for _ in 0..tier.scale(800, 8000) {
        let n = r.range(1, 5);
        let mut evs = Vec::new();
        let mut t = base_time(r);
        let mut v = base_ts(r);
        let sp = *r.pick(&[0u16, 1, 80, 1023, 1024, 1025, 8080, 40000, 65535]);
        let dp = *r.pick(&[0u16, 1, 80, 1023, 1024, 1025, 8080, 40000, 65535]);
        for _ in 0..n {
            let fl = match r.below(4) { 0 => format!("f{}", r.below(256)), 1 => format!("f{}", *r.pick(&[0u64, 1, 2, 3, 4, 5, 6, 16, 17, 18, 19, 20, 22, 24, 32, 40, 64, 128, 194, 255])), _ => r.pick(&["syn", "synack", "ack", "pshack", "finack"]).to_string() };
            let dir = if r.chance(4, 5) { "c" } else { "s" };
            evs.push(format!("{} {} {} {} {} {} {}", dir, fl, sp, dp, t, v, r.below(3)));
            let ms = *r.pick(INTERVALS);
            t = match r.below(8) { 0 => u64::MAX, 1 => 0, _ => t.saturating_add(ms) };
            v = match r.below(8) { 0 => 0, 1 => WRAP - 1, _ => moved(v, ticks(*r.pick(RATES_MHZ), ms, 0), 0) };
        }
        out.push(evs.join(" "));
    }
}

fn main() { main_cli(gen, run) }
